(* OptProofs2.v — lemmas for property C08, part 2: an edge appended to the graph that lies in no element
   of the cycle space changes neither the cycle bases nor the optimum; a pendant edge is such an edge
   (degree-one argument at the new vertex), and so is a bridge (cut argument: the degrees on one side
   of a cut without crossing edges of g sum to an even number, but the bridge contributes exactly one).
   Names carry the prefix op_.  No axioms. *)
From Coq Require Import List Arith Bool ZArith Lia Sorted.
From Parmcb Require Import GraphModel GF2Model GF2Proofs GraphSpec GraphLemmas GF2Lin McbSpec DePinaSpec DePinaProofs
     ForestModel ForestProofs OptSpec OptProofs.
Import ListNotations.

(* ---- add_edge: the old edges keep their ends --------------------------------------------------------- *)

Lemma op_add_edge_ends_old n' a b g e : e < ne g -> ends (add_edge n' a b g) e = ends g e.
Proof. unfold ends, add_edge, ne. cbn [ge]. intros H. apply nth_error_app1. exact H. Qed.

Lemma op_add_edge_ends_new n' a b g : ends (add_edge n' a b g) (ne g) = Some (a, b).
Proof.
  unfold ends, add_edge, ne. cbn [ge]. rewrite nth_error_app2 by lia. rewrite Nat.sub_diag. reflexivity.
Qed.

Lemma op_add_edge_ne n' a b g : ne (add_edge n' a b g) = ne g + 1.
Proof. unfold ne, add_edge. cbn [ge]. rewrite app_length. reflexivity. Qed.

Lemma op_add_edge_joins_old n' a b g e x y : e < ne g ->
  (joins (add_edge n' a b g) e x y <-> joins g e x y).
Proof. intros H. unfold joins. rewrite op_add_edge_ends_old by exact H. reflexivity. Qed.

Lemma op_add_edge_incident_old n' a b g e v : e < ne g ->
  incident (add_edge n' a b g) e v = incident g e v.
Proof. intros H. unfold incident. rewrite op_add_edge_ends_old by exact H. reflexivity. Qed.

(* ---- add_edge keeps the graph simple ------------------------------------------------------------------ *)

Lemma op_no_parallel_app es p :
  no_parallel es = true -> (forall q, In q es -> same_pair q p = false) -> no_parallel (es ++ [p]) = true.
Proof.
  induction es as [|q es IH]; intros H Hp; [reflexivity|].
  cbn [app no_parallel] in *. apply andb_true_iff in H as [H1 H2]. apply andb_true_iff. split.
  - rewrite existsb_app. cbn [existsb]. apply negb_true_iff in H1.
    rewrite H1, (Hp q) by (left; reflexivity). reflexivity.
  - apply IH; [exact H2|]. intros q' Hq'. apply Hp. right. exact Hq'.
Qed.

Lemma op_simple_add_edge n' a b g :
  simple_graph g -> nv g <= n' -> a < n' -> b < n' -> a <> b -> (forall e, ~ joins g e a b) ->
  simple_graph (add_edge n' a b g).
Proof.
  unfold simple_graph, simpleb. cbn [add_edge nv ge]. intros H Hn Ha Hb Hab Hnj.
  apply andb_true_iff in H as [H1 H2]. apply andb_true_iff. split.
  - rewrite forallb_app. apply andb_true_iff. split.
    + rewrite forallb_forall in *. intros q Hq. specialize (H1 q Hq).
      apply andb_true_iff in H1 as [H1 Hne]. apply andb_true_iff in H1 as [Hs Ht].
      apply Nat.ltb_lt in Hs, Ht. rewrite Hne, andb_true_r. apply andb_true_iff.
      split; apply Nat.ltb_lt; lia.
    + cbn [forallb fst snd]. rewrite andb_true_r. apply andb_true_iff. split; [apply andb_true_iff; split|].
      * apply Nat.ltb_lt; exact Ha.
      * apply Nat.ltb_lt; exact Hb.
      * apply negb_true_iff, Nat.eqb_neq. exact Hab.
  - apply op_no_parallel_app; [exact H2|]. intros [s t] Hq.
    destruct (same_pair (s, t) (a, b)) eqn:E; [|reflexivity]. exfalso.
    apply In_nth_error in Hq as (e & He). apply (Hnj e). unfold joins, ends.
    unfold same_pair in E. cbn [fst snd] in E.
    apply orb_true_iff in E as [E|E]; apply andb_true_iff in E as [E1 E2];
      apply Nat.eqb_eq in E1, E2; subst; [left|right]; exact He.
Qed.

(* ---- an appended edge that is in no element of the cycle space ------------------------------------------ *)

Definition op_unused_new_edge (n' a b : nat) (g : graph) : Prop :=
  forall Z, in_cycle_space (add_edge n' a b g) Z -> ~ In (ne g) Z.

Lemma op_add_edge_same_cycles n' a b g :
  simple_graph g -> simple_graph (add_edge n' a b g) -> nv g <= n' ->
  op_unused_new_edge n' a b g -> op_same_cycles g (add_edge n' a b g).
Proof.
  intros Hs Hs' Hn U. pose proof (op_simple_ends_in_range g Hs) as Hr.
  assert (Hback : forall Z, in_cycle_space (add_edge n' a b g) Z -> in_cycle_space g Z).
  { intros Z HZ. pose proof (U Z HZ) as Hnot. destruct HZ as (HS & HB & HE).
    assert (Hlt : forall e, In e Z -> e < ne g).
    { intros e He. specialize (HB e He). rewrite op_add_edge_ne in HB.
      assert (e <> ne g) by (intros ->; auto). lia. }
    split; [exact HS|]. split; [exact Hlt|]. intros v.
    rewrite <- (op_deg_in_ext g (add_edge n' a b g) Z v); [apply HE|].
    intros e He. apply op_add_edge_incident_old. auto. }
  split; split.
  - intros C. apply op_simple_cycle_id. intros e x y He Hxy.
    assert (e < ne g) by (eapply gl_joins_lt; eauto).
    split; [apply op_add_edge_joins_old; auto|].
    destruct (op_joins_in_range g e x y Hr Hxy). cbn [add_edge nv]. lia.
  - exact Hback.
  - intros C HC. pose proof (simple_cycle_in_cycle_space _ C Hs' HC) as HZ.
    destruct (Hback C HZ) as (_ & HB & _).
    revert HC. apply op_simple_cycle_id. intros e x y He Hxy. specialize (HB e He).
    apply op_add_edge_joins_old in Hxy; [|exact HB]. split; [exact Hxy|].
    apply (op_joins_in_range g e x y Hr Hxy).
  - intros Z. apply op_in_cycle_space_id.
    + intros e _ He. rewrite op_add_edge_ne. lia.
    + intros e v _ He. apply op_add_edge_incident_old. exact He.
Qed.

Lemma op_wt_app_old w c e : e < length w -> wt (w ++ [c]) e = wt w e.
Proof. intros H. unfold wt. apply app_nth1. exact H. Qed.

Lemma op_is_opt_add_edge n' a b g w c x :
  simple_graph g -> simple_graph (add_edge n' a b g) -> nv g <= n' -> length w = ne g ->
  op_unused_new_edge n' a b g ->
  (is_opt g w x <-> is_opt (add_edge n' a b g) (w ++ [c]) x).
Proof.
  intros Hs Hs' Hn Hl U. pose proof (op_add_edge_same_cycles n' a b g Hs Hs' Hn U) as Hsame. split.
  - apply op_is_opt_same_cycles; [exact Hsame|].
    intros B HB. eapply op_total_weight_basis; [|exact HB].
    intros e He. apply op_wt_app_old. lia.
  - apply op_is_opt_same_cycles; [apply op_same_cycles_sym; exact Hsame|].
    intros B HB. symmetry. apply (op_total_weight_basis g).
    + intros e He. apply op_wt_app_old. lia.
    + eapply op_cycle_basis_into; [apply Hsame|exact HB].
Qed.

(* ---- pendant edge: the new vertex has degree one ----------------------------------------------------- *)

Lemma op_pendant_unused n' a b g x : ends_in_range g -> nv g <= x -> (a = x \/ b = x) ->
  op_unused_new_edge n' a b g.
Proof.
  intros Hr Hx Hab Z (HS & HB & HE) Hin. specialize (HE x). unfold deg_in in HE.
  rewrite (gl_filter_one (fun e => incident (add_edge n' a b g) e x) (ne g) Z) in HE; [discriminate| | | |].
  - apply gl_sorted_NoDup. exact HS.
  - exact Hin.
  - unfold incident. rewrite op_add_edge_ends_new.
    destruct Hab as [->| ->]; rewrite Nat.eqb_refl; auto using orb_true_r.
  - intros y Hy Hinc. destruct (Nat.eq_dec y (ne g)) as [E|E]; [exact E|exfalso].
    specialize (HB y Hy). rewrite op_add_edge_ne in HB.
    rewrite op_add_edge_incident_old in Hinc by lia.
    rewrite (op_incident_out_of_range g y x Hr Hx) in Hinc. discriminate.
Qed.

Lemma op_add_pendant_eq u fl g :
  add_pendant u fl g = add_edge (nv g + 1) (if fl then nv g else u) (if fl then u else nv g) g.
Proof. destruct fl; reflexivity. Qed.

Lemma op_simple_pendant u fl g : simple_graph g -> u < nv g -> simple_graph (add_pendant u fl g).
Proof.
  intros Hs Hu. pose proof (op_simple_ends_in_range g Hs) as Hr. rewrite op_add_pendant_eq.
  apply op_simple_add_edge; auto; try (destruct fl; lia).
  intros e He. destruct (op_joins_in_range g e _ _ Hr He). destruct fl; lia.
Qed.

Lemma op_is_opt_pendant u fl g w c x :
  simple_graph g -> u < nv g -> length w = ne g ->
  (is_opt g w x <-> is_opt (add_pendant u fl g) (w ++ [c]) x).
Proof.
  intros Hs Hu Hl. pose proof (op_simple_pendant u fl g Hs Hu) as Hs'. revert Hs'.
  rewrite op_add_pendant_eq. intros Hs'. apply op_is_opt_add_edge; auto; [lia|].
  apply (op_pendant_unused _ _ _ g (nv g)); [apply op_simple_ends_in_range; exact Hs|lia|].
  destruct fl; auto.
Qed.

(* pendant trees: one pendant edge after the other; the k-th new vertex is number nv g + k and may be
   attached to any earlier vertex *)
Lemma op_add_pendant_ne u fl g : ne (add_pendant u fl g) = ne g + 1.
Proof. rewrite op_add_pendant_eq. apply op_add_edge_ne. Qed.

Lemma op_add_pendant_nv u fl g : nv (add_pendant u fl g) = nv g + 1.
Proof. destruct fl; reflexivity. Qed.

Lemma op_is_opt_pendants us : forall g w cs x,
  simple_graph g -> pendants_ok us (nv g) -> length w = ne g -> length cs = length us ->
  (is_opt g w x <-> is_opt (add_pendants us g) (w ++ cs) x).
Proof.
  induction us as [|[u fl] us IH]; intros g w cs x Hs Hok Hl Hc.
  - destruct cs; [|discriminate]. rewrite app_nil_r. reflexivity.
  - destruct cs as [|c cs]; [discriminate|]. cbn [add_pendants]. destruct Hok as [Hu Hok].
    rewrite (op_is_opt_pendant u fl g w c x Hs Hu Hl).
    replace (w ++ c :: cs) with ((w ++ [c]) ++ cs) by (rewrite <- app_assoc; reflexivity).
    apply IH.
    + apply op_simple_pendant; assumption.
    + rewrite op_add_pendant_nv. exact Hok.
    + rewrite app_length, op_add_pendant_ne. cbn [length]. lia.
    + cbn [length] in Hc. lia.
Qed.

Lemma op_simple_pendants us : forall g, simple_graph g -> pendants_ok us (nv g) -> simple_graph (add_pendants us g).
Proof.
  induction us as [|[u fl] us IH]; intros g Hs Hok; [exact Hs|].
  destruct Hok as [Hu Hok]. cbn [add_pendants]. apply IH.
  - apply op_simple_pendant; assumption.
  - rewrite op_add_pendant_nv. exact Hok.
Qed.

(* ---- bridge: the cut argument --------------------------------------------------------------------------- *)

(* occurrences of s in a duplicate-free list *)
Lemma op_count_eqb_NoDup l s : NoDup l -> length (filter (Nat.eqb s) l) = if memb s l then 1 else 0.
Proof.
  induction l as [|x l IH]; intros Hnd; [reflexivity|].
  inversion Hnd as [|? ? Hx Hnd']; subst. specialize (IH Hnd').
  cbn [filter]. unfold memb in *. cbn [existsb].
  destruct (Nat.eqb_spec s x) as [->|Hne]; cbn [orb length].
  - apply gl_memb_false in Hx. unfold memb in Hx. rewrite Hx in IH. rewrite IH. reflexivity.
  - exact IH.
Qed.

Lemma op_count_incident g e s t l : ends g e = Some (s, t) -> s <> t ->
  length (filter (fun x => incident g e x) l) = length (filter (Nat.eqb s) l) + length (filter (Nat.eqb t) l).
Proof.
  intros He Hne. induction l as [|x l IH]; [reflexivity|].
  assert (Hj : joins g e s t) by (left; exact He).
  pose proof (dp_incident_count g e s t x Hj Hne) as Hc.
  cbn [filter]. destruct (incident g e x), (Nat.eqb s x), (Nat.eqb t x); cbn [dp_b2n length] in *; lia.
Qed.

(* the vertices on the `true` side of a cut *)
Definition op_side_list (side : nat -> bool) (n : nat) : list nat := filter side (seq 0 n).

Lemma op_side_count side n s : s < n ->
  length (filter (Nat.eqb s) (op_side_list side n)) = dp_b2n (side s).
Proof.
  intros Hs. unfold op_side_list. rewrite op_count_eqb_NoDup by (apply NoDup_filter, seq_NoDup).
  destruct (side s) eqn:E; cbn [dp_b2n].
  - assert (H : memb s (filter side (seq 0 n)) = true).
    { apply gl_memb_In, filter_In. split; [apply in_seq; lia|exact E]. }
    rewrite H. reflexivity.
  - assert (H : memb s (filter side (seq 0 n)) = false).
    { apply gl_memb_false. intros Hin. apply filter_In in Hin as [_ Hin]. congruence. }
    rewrite H. reflexivity.
Qed.

(* number of endpoints of e on the `true` side *)
Lemma op_cut_count g side n e s t : ends g e = Some (s, t) -> s <> t -> s < n -> t < n ->
  length (filter (fun x => incident g e x) (op_side_list side n)) = dp_b2n (side s) + dp_b2n (side t).
Proof.
  intros He Hne Hs Ht. rewrite (op_count_incident g e s t _ He Hne), !op_side_count by assumption. reflexivity.
Qed.

(* sum of the degrees over a list of vertices *)
Definition op_degsum (g : graph) (Z : list nat) (S : list nat) : nat := list_sum (map (deg_in g Z) S).

Lemma op_list_sum_cons x l : list_sum (x :: l) = x + list_sum l.
Proof. reflexivity. Qed.

Lemma op_degsum_cons g e Z S :
  op_degsum g (e :: Z) S = length (filter (fun x => incident g e x) S) + op_degsum g Z S.
Proof.
  unfold op_degsum. induction S as [|x S IH]; [reflexivity|].
  cbn [map filter]. rewrite !op_list_sum_cons, IH. unfold deg_in at 1 3. cbn [filter].
  destruct (incident g e x); cbn [length]; lia.
Qed.

Lemma op_degsum_nil g S : op_degsum g [] S = 0.
Proof. unfold op_degsum. induction S as [|x S IH]; [reflexivity|]. cbn [map]. rewrite op_list_sum_cons, IH. reflexivity. Qed.

Lemma op_degsum_even g Z S : even_degrees g Z -> Nat.even (op_degsum g Z S) = true.
Proof.
  intros HE. unfold op_degsum. induction S as [|x S IH]; [reflexivity|].
  cbn [map]. rewrite op_list_sum_cons, Nat.even_add, IH, (HE x). reflexivity.
Qed.

Section Cut.
  Variables (g : graph) (side : nat -> bool) (u v : nat).
  Hypothesis Hs : simple_graph g.
  Hypothesis Hside : forall e s t, ends g e = Some (s, t) -> side s = side t.
  Hypothesis Hu : u < nv g.
  Hypothesis Hv : v < nv g.
  Hypothesis Hsu : side u = true.
  Hypothesis Hsv : side v = false.

  Let g' := add_edge (nv g) u v g.
  Let S := op_side_list side (nv g).

  Lemma op_cut_old_even e : e < ne g -> Nat.even (length (filter (fun x => incident g' e x) S)) = true.
  Proof.
    intros He. destruct (ends g e) as [[s t]|] eqn:E.
    - destruct (gl_simple_ends g e s t Hs E) as (Hsn & Htn & Hne).
      unfold S, g'. rewrite (op_cut_count _ side (nv g) e s t); auto.
      + rewrite (Hside e s t E). destruct (side t); reflexivity.
      + rewrite op_add_edge_ends_old by exact He. exact E.
    - exfalso. unfold ends in E. apply nth_error_None in E. unfold ne in He. lia.
  Qed.

  Lemma op_cut_new_odd : Nat.even (length (filter (fun x => incident g' (ne g) x) S)) = false.
  Proof.
    unfold S, g'. rewrite (op_cut_count _ side (nv g) (ne g) u v); auto.
    - rewrite Hsu, Hsv. reflexivity.
    - apply op_add_edge_ends_new.
    - intros E. rewrite E in Hsu. congruence.
  Qed.

  Lemma op_cut_parity Z : NoDup Z -> (forall e, In e Z -> e < ne g + 1) ->
    Nat.even (op_degsum g' Z S) = negb (memb (ne g) Z).
  Proof.
    induction Z as [|e Z IH]; intros Hnd HB; [rewrite op_degsum_nil; reflexivity|].
    inversion Hnd as [|? ? He Hnd']; subst.
    assert (HB' : forall e', In e' Z -> e' < ne g + 1) by (intros e' He'; apply HB; right; exact He').
    specialize (IH Hnd' HB'). rewrite op_degsum_cons, Nat.even_add, IH.
    unfold memb in *. cbn [existsb].
    destruct (Nat.eqb_spec (ne g) e) as [<-|Hne].
    - rewrite op_cut_new_odd. apply gl_memb_false in He. unfold memb in He. rewrite He. reflexivity.
    - assert (Hlt : e < ne g) by (specialize (HB e (or_introl eq_refl)); lia).
      rewrite (op_cut_old_even e Hlt). cbn [orb].
      destruct (existsb (Nat.eqb (ne g)) Z); reflexivity.
  Qed.

  Lemma op_cut_unused : op_unused_new_edge (nv g) u v g.
  Proof.
    intros Z (HS & HB & HE) Hin.
    pose proof (op_cut_parity Z (gl_sorted_NoDup Z HS)) as Hp.
    rewrite op_degsum_even in Hp by exact HE.
    assert (Hm : memb (ne g) Z = true) by (apply gl_memb_In; exact Hin).
    rewrite Hm in Hp. cbn [negb] in Hp.
    assert (Hb : forall e, In e Z -> e < ne g + 1).
    { intros e He. specialize (HB e He). unfold g' in HB. rewrite op_add_edge_ne in HB. exact HB. }
    specialize (Hp Hb). discriminate.
  Qed.
End Cut.

(* connectivity in a simple graph is decidable (through the verified BFS forest: every vertex is connected
   to exactly one of the pairwise non-connected representatives) *)
Lemma op_connected_dec g : simple_graph g -> forall u v, u < nv g -> v < nv g ->
  connected g u v \/ ~ connected g u v.
Proof.
  intros Hs u v Hu Hv.
  destruct (spanning_forest_total g (seq 0 (nv g)) Hs) as (F & k & HF).
  { intros x Hx. apply in_seq. lia. }
  destruct (forest_components g _ F k Hs HF) as (reps & _ & _ & _ & Hsep & Hcov).
  destruct (Hcov u Hu) as (ru & Hru & Hcu). destruct (Hcov v Hv) as (rv & Hrv & Hcv).
  destruct (Nat.eq_dec ru rv) as [E|Hne].
  - left. subst rv. eapply gl_connected_trans; [apply gl_connected_sym; eauto|eauto].
  - right. intros Huv. apply (Hsep ru rv Hru Hrv Hne).
    eapply gl_connected_trans; [exact Hcu|]. eapply gl_connected_trans; [exact Huv|].
    apply gl_connected_sym; assumption.
Qed.

(* finitely many decidable propositions are decided by a boolean function *)
Lemma op_finite_choice n (P : nat -> Prop) : (forall x, x < n -> P x \/ ~ P x) ->
  exists f : nat -> bool, forall x, x < n -> (f x = true <-> P x).
Proof.
  induction n as [|n IH]; intros Hdec.
  - exists (fun _ => false). intros x Hx. lia.
  - destruct IH as (f & Hf); [intros x Hx; apply Hdec; lia|].
    destruct (Hdec n (Nat.lt_succ_diag_r n)) as [Hp|Hnp].
    + exists (fun x => if Nat.eqb x n then true else f x). intros x Hx.
      destruct (Nat.eqb_spec x n) as [->|Hne]; [tauto|]. apply Hf. lia.
    + exists (fun x => if Nat.eqb x n then false else f x). intros x Hx.
      destruct (Nat.eqb_spec x n) as [->|Hne]; [split; [discriminate|tauto]|]. apply Hf. lia.
Qed.

(* two vertices that are not connected are separated by a cut that no edge crosses *)
Lemma op_cut_exists g u v : simple_graph g -> is_bridge_pair g u v ->
  exists side : nat -> bool, side u = true /\ side v = false /\
    forall e s t, ends g e = Some (s, t) -> side s = side t.
Proof.
  intros Hs (Hu & Hv & Hnc).
  destruct (op_finite_choice (nv g) (fun x => connected g u x)) as (f & Hf).
  { intros x Hx. apply op_connected_dec; assumption. }
  exists f. split; [|split].
  - apply (Hf u Hu). apply gl_connected_refl. exact Hu.
  - destruct (f v) eqn:E; [|reflexivity]. exfalso. apply Hnc. apply (Hf v Hv). exact E.
  - intros e s t He. destruct (gl_simple_ends g e s t Hs He) as (Hsn & Htn & Hne).
    assert (Hst : connected g s t).
    { exists [(e, t)]. econstructor; [left; exact He|constructor; exact Htn]. }
    destruct (f s) eqn:Es, (f t) eqn:Et; try reflexivity; exfalso.
    + assert (Ht : f t = true); [|congruence]. apply (Hf t Htn).
      eapply gl_connected_trans; [apply (Hf s Hsn); exact Es|exact Hst].
    + assert (Hs' : f s = true); [|congruence]. apply (Hf s Hsn).
      eapply gl_connected_trans; [apply (Hf t Htn); exact Et|apply gl_connected_sym; assumption].
Qed.

Lemma op_bridge_unused g u v : simple_graph g -> is_bridge_pair g u v -> op_unused_new_edge (nv g) u v g.
Proof.
  intros Hs Hb. destruct (op_cut_exists g u v Hs Hb) as (side & Hsu & Hsv & Hside).
  destruct Hb as (Hu & Hv & _). eapply op_cut_unused; eauto.
Qed.

Lemma op_simple_bridge g u v : simple_graph g -> is_bridge_pair g u v -> simple_graph (add_bridge u v g).
Proof.
  intros Hs (Hu & Hv & Hnc). unfold add_bridge. apply op_simple_add_edge; auto.
  - intros ->. apply Hnc. apply gl_connected_refl. exact Hu.
  - intros e He. apply Hnc. exists [(e, v)]. econstructor; [exact He|constructor; exact Hv].
Qed.

Lemma op_is_opt_bridge g u v w c x : simple_graph g -> is_bridge_pair g u v -> length w = ne g ->
  (is_opt g w x <-> is_opt (add_bridge u v g) (w ++ [c]) x).
Proof.
  intros Hs Hb Hl. unfold add_bridge. apply op_is_opt_add_edge; auto.
  - apply op_simple_bridge; assumption.
  - apply op_bridge_unused; assumption.
Qed.
