(* Properties_C16.v — the BFS spanning forest and ForestIndex are correct for every simple graph
   and every root oracle.  Only statements; each closed by [exact <lemma>] and followed by
   Print Assumptions. *)
From Coq Require Import List Arith Bool.
From Parmcb Require Import GraphModel GraphSpec ForestModel ForestProofs.
Import ListNotations.

(* For every simple graph g (including the empty graph, edgeless graphs, forests, any number of
   components) and every oracle `roots` that mentions every vertex (duplicates and out-of-range
   entries allowed), create_index succeeds (so: the BFS fuel suffices, every vertex is reached,
   m + k >= n, and the number of off-forest edges is exactly csd, i.e. the C++ writes
   reverse_index within bounds), and
   - n and m are the vertex and edge counts;
   - index and reverse_index are inverse bijections between edge ids and [0, m);
   - k is the number of connected components;
   - csd = m - n + k (stated without truncated subtraction);
   - is_on_forest(e) is index(e) >= csd;
   - the edges flagged on-forest form a spanning forest of g. *)
Theorem C16 : forall g roots, simple_graph g -> (forall v, v < nv g -> In v roots) ->
  exists fi, create_index g roots = Some fi
  /\ fi_n fi = nv g /\ fi_m fi = ne g
  /\ (forall e, e < ne g -> exists i, fi_index fi e = Some i /\ i < ne g /\ fi_edge fi i = Some e)
  /\ (forall i, i < ne g -> exists e, fi_edge fi i = Some e /\ e < ne g /\ fi_index fi e = Some i)
  /\ n_components g (fi_k fi)
  /\ fi_csd fi + nv g = ne g + fi_k fi
  /\ (forall e i, fi_index fi e = Some i -> fi_on_forest fi e = Some (negb (i <? fi_csd fi)))
  /\ spanning_forest_of g
       (filter (fun e => match fi_on_forest fi e with Some true => true | _ => false end)
               (seq 0 (ne g))).
Proof. exact create_index_correct. Qed.
Print Assumptions C16.

(* spanning_forest itself never fails on such inputs *)
Theorem C16_spanning_forest_total : forall g roots,
  simple_graph g -> (forall v, v < nv g -> In v roots) ->
  exists F k, spanning_forest g roots = Some (F, k).
Proof. exact spanning_forest_total. Qed.
Print Assumptions C16_spanning_forest_total.

(* H_inj: whatever spanning_forest emits (for any oracle) contains no non-empty subset with all
   degrees even *)
Theorem C16_forest_no_even_subset : forall g roots F k,
  simple_graph g -> spanning_forest g roots = Some (F, k) -> acyclic_edges g F.
Proof. exact forest_no_even_subset. Qed.
Print Assumptions C16_forest_no_even_subset.

(* the emitted edges are distinct valid edge ids, and there are exactly n - k of them *)
Theorem C16_forest_edges : forall g roots F k,
  simple_graph g -> spanning_forest g roots = Some (F, k) ->
  NoDup F /\ (forall e, In e F -> e < ne g) /\ length F + k = nv g.
Proof. exact forest_edges_valid. Qed.
Print Assumptions C16_forest_edges.

(* the emitted edges connect whatever g connects *)
Theorem C16_forest_spans : forall g roots F k,
  simple_graph g -> spanning_forest g roots = Some (F, k) ->
  forall x y, connected g x y -> connected_in g F x y.
Proof. exact forest_spans. Qed.
Print Assumptions C16_forest_spans.

(* the return value of spanning_forest is the number of connected components *)
Theorem C16_components : forall g roots F k,
  simple_graph g -> spanning_forest g roots = Some (F, k) -> n_components g k.
Proof. exact forest_components. Qed.
Print Assumptions C16_components.

(* non-vacuity: a triangle 0-1-2, a path 3-4-5 and the isolated vertex 6 (three components, one
   cycle); the oracle has duplicates, an out-of-range entry and starts inside the path *)
Example C16_nonvacuous :
  let g := {| nv := 7; ge := [(0, 1); (3, 4); (1, 2); (5, 4); (2, 0)] |} in
  let roots := [4; 9; 0; 4; 1; 6; 2; 3; 5; 6] in
  simple_graph g /\ (forall v, v < nv g -> In v roots) /\
  spanning_forest g roots = Some ([1; 3; 0; 4], 3) /\
  create_index g roots =
    Some {| fi_n := 7; fi_m := 5; fi_k := 3; fi_csd := 1;
            fi_idx := [1; 2; 0; 3; 4]; fi_rev := [2; 0; 1; 3; 4] |}.
Proof.
  cbv zeta. split; [reflexivity|]. split.
  - intros v Hv. cbn [nv] in Hv.
    do 7 (destruct v as [|v]; [cbn [In]; tauto|]).
    exfalso. do 7 apply Nat.succ_lt_mono in Hv. inversion Hv.
  - split; vm_compute; reflexivity.
Qed.
