(* IsoProofsF1.v — from "every isometric cycle walk is kept by the isometric builder" to the sufficiency premise and to
   the end theorems about mcb_sva_iso_trees (the parts of the assembly that do not look inside the builder).
     iso_kept_stmt             every isometric cycle walk has a candidate in the collection whose cycle is that walk's
                               edge set
     iso_sufficient_of_kept    kept => collection_sufficient_all (with IsoProofsD2.iso_min_odd_cycle_isometric)
     iso_trees_of_sufficient   totality of the builder + sufficiency => C01/C02 statements for TbIso
   Prefix iso_. *)
From Coq Require Import List Arith Bool Lia ZArith Permutation.
From Parmcb Require Import GraphModel GF2Model GraphSpec GraphLemmas McbSpec LexSPModel FvsModel CandidatesModel
     CandidatesProofsZ ForestModel SvaModel RefModel RefProofs1 TreesModel TreesProofs3 TreesProofs4 TreesProofs5
     IsoProofs0 IsoProofsD2.
Import ListNotations.

Definition iso_kept_stmt (g : graph) (wts : list Z) (trees : list (sp_tree Z)) (cands : list (cand Z)) : Prop :=
  forall x w, iso_cycle_walk g x w -> iso_isometric g wts x w ->
    exists c t C, In c cands /\ nth_error trees (c_tree c) = Some t /\ c14_cycle g wts t c C /\
                  Permutation C (wedges w).

Lemma iso_sufficient_of_kept g wts trees cands : simple_graph g -> positive_weights g wts ->
  iso_kept_stmt g wts trees cands -> collection_sufficient_all g wts trees cands.
Proof.
  intros Hsg Hpos Hk sg D HD Hodd.
  destruct (iso_min_odd_cycle_isometric g wts sg Hsg Hpos D HD Hodd) as (x & w & Hcw & Ho & Hwt & Hiso).
  destruct (Hk x w Hcw Hiso) as (c & t & C & H1 & H2 & H3 & H4).
  exists c, t, C. repeat (split; [assumption|]). split.
  - rewrite (rf_oddb_perm sg _ _ H4). exact Ho.
  - rewrite (rf_weight_perm wts _ _ H4). exact Hwt.
Qed.

(* the end statements for the isometric variant (the picks oracle is unused by TbIso) *)
Definition C01_iso_trees_stmt : Prop :=
  forall (g : graph) (wts : list Z) (roots picks : list nat),
    simple_graph g -> positive_weights g wts -> (forall v, v < nv g -> In v roots) ->
    (exists cycles total sup,
       mcb_sva_trees_first_Z TbIso g wts roots picks = TRun (SvaOk cycles total sup) /\
       mcb_sva_trees_accept_Z TbIso g wts roots picks cycles = Some total) /\
    (forall cycles total, mcb_sva_trees_accept_Z TbIso g wts roots picks cycles = Some total ->
       cycle_basis g cycles /\ has_cycle_space_dimension g (length cycles)).

Section OfSufficient.
  Hypothesis Htotal : forall g wts, simple_graph g -> positive_weights g wts ->
    exists trees cands, iso_cycles_Z g wts = CdOk (trees, cands).
  Hypothesis Hsuff : iso_sufficient_statement.

  Lemma iso_tf_sufficient g wts picks fi trees cands : simple_graph g -> positive_weights g wts ->
    tb_collection Z 0%Z Z.add Z.ltb TbIso g wts picks = CdOk (trees, cands) -> collection_sufficient g wts fi trees cands.
  Proof.
    intros Hsg Hpos H. apply tr_sufficient_all_canonical. cbn [tb_collection] in H. exact (Hsuff g wts trees cands Hsg Hpos H).
  Qed.

  Lemma iso_C01_of_sufficient : C01_iso_trees_stmt.
  Proof.
    intros g wts roots picks Hsg Hpos Hr. split.
    - destruct (Htotal g wts Hsg Hpos) as (trees & cands & Hc).
      destruct (trees_first_total_modulo_sufficiency TbIso g wts roots picks Hsg Hpos Hr trees cands Hc)
        as (cycles & total & sup & H1 & _ & _ & _ & H5).
      { intros fi _. exact (iso_tf_sufficient g wts picks fi trees cands Hsg Hpos Hc). }
      exists cycles, total, sup. auto.
    - intros cycles total H. eapply tf_C01_trees_accept; eauto.
  Qed.

  Lemma iso_C02_of_sufficient : C02_iso_trees_statement.
  Proof.
    intros g wts roots picks Hsg Hpos Hr. split.
    - intros cycles total H. eapply tf_C02_trees_accept_modulo_sufficiency; eauto.
      intros fi trees cands _ Hc. exact (iso_tf_sufficient g wts picks fi trees cands Hsg Hpos Hc).
    - destruct (iso_C01_of_sufficient g wts roots picks Hsg Hpos Hr) as [(cycles & total & sup & _ & H) _]. eauto.
  Qed.
End OfSufficient.
