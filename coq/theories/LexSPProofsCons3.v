(* LexSPProofsCons3.v — C12 consistency, part 3 (track B): what the labels stored by lex_dijkstra represent.
   * lx_set_ins (std::set::insert) facts; LexDistanceCombine on a label that represents a walk represents the
     extended walk (lc_combine_rep) and stays `good` when the new vertex is fresh (lc_combine_good);
     cancellation of a common last step in the label order (lc_pl_snoc_cancel).
   * lc_kpred: the label of a reached vertex is the combination of its predecessor's label (extends li_pred by
     the vertex-set component).  Under the structural invariant, exact distances of settled vertices and
     lc_kpred (lc_ctx) every reached vertex y carries the label of a walk from s through settled vertices
     (lc_path_of), settled vertices carry labels of shortest walks, and all stored labels are good
     (lc_good_lab): so every comparison the run evaluates at equal distance is the order lc_LT.
   Prefix lc_. *)
From Coq Require Import List Arith Bool Lia ZArith Permutation Sorted.
From Parmcb Require Import GraphModel GF2Model GraphSpec GraphLemmas HeapModel LexSPModel LexSPProofsHeap LexSPProofs
  LexSPProofsDist LexSPProofsCons1.
Import ListNotations.

(* ---- std::set<size_t>::insert ------------------------------------------------------------------ *)

Lemma lc_ins_In x l z : In z (lx_set_ins x l) <-> z = x \/ In z l.
Proof.
  induction l as [|y r IH]; cbn [lx_set_ins].
  - cbn [In]. split; [intros [H|[]]; auto|intros [H|[]]; auto].
  - destruct (Nat.ltb_spec x y) as [H|H]; [cbn [In]; split; intros [Hz|Hz]; auto|].
    destruct (Nat.eqb_spec x y) as [->|Hne].
    + cbn [In]. split; [auto|]. intros [->|Hz]; auto.
    + cbn [In]. rewrite IH. tauto.
Qed.

Lemma lc_ins_sorted x l : sorted l -> sorted (lx_set_ins x l).
Proof.
  unfold sorted. induction 1 as [|y r Hs IH Hy]; cbn [lx_set_ins]; [repeat constructor|].
  destruct (Nat.ltb_spec x y) as [H|H].
  - constructor; [constructor; assumption|]. constructor; [exact H|].
    rewrite Forall_forall in *. intros k Hk. specialize (Hy k Hk). lia.
  - destruct (Nat.eqb_spec x y) as [->|Hne]; [constructor; assumption|].
    constructor; [exact IH|]. rewrite Forall_forall in *. intros k Hk.
    apply lc_ins_In in Hk as [->|Hk]; [lia|apply Hy; exact Hk].
Qed.

Lemma lc_ins_in_id x l : sorted l -> In x l -> lx_set_ins x l = l.
Proof.
  unfold sorted. induction 1 as [|y r Hs IH Hy]; intros Hin; [destruct Hin|]. cbn [lx_set_ins].
  rewrite Forall_forall in Hy.
  destruct (Nat.ltb_spec x y) as [H|H].
  - exfalso. destruct Hin as [->|Hin]; [lia|]. specialize (Hy x Hin). lia.
  - destruct (Nat.eqb_spec x y) as [->|Hne]; [reflexivity|]. f_equal. apply IH.
    destruct Hin as [->|Hin]; [congruence|exact Hin].
Qed.

Lemma lc_ins_length_notin x l : ~ In x l -> length (lx_set_ins x l) = S (length l).
Proof.
  induction l as [|y r IH]; intros Hn; cbn [lx_set_ins]; [reflexivity|].
  destruct (Nat.ltb_spec x y) as [H|H]; [reflexivity|].
  destruct (Nat.eqb_spec x y) as [->|Hne]; [exfalso; apply Hn; left; reflexivity|].
  cbn [length]. rewrite IH; [reflexivity|]. intros Hc. apply Hn. right; exact Hc.
Qed.

(* ---- the end vertex of a walk is one of its vertices ------------------------------------------ *)

Lemma lc_walk_last_in g x p z : walk g x p z -> In z (x :: wverts p).
Proof.
  induction 1 as [x Hx|x e y p z Hj Hw IH]; [left; reflexivity|].
  cbn [wverts map snd]. right. exact IH.
Qed.

(* ---- cancelling a common last step ------------------------------------------------------------- *)

Lemma lc_snoc_verts x p e y k : In k (x :: wverts (p ++ [(e, y)])) <-> In k (x :: wverts p) \/ In k [y].
Proof.
  rewrite lc_wverts_app. cbn [wverts map snd In]. rewrite in_app_iff. cbn [In]. tauto.
Qed.

Lemma lc_pl_snoc_cancel wts x p q e y :
  ~ In y (x :: wverts p) -> ~ In y (x :: wverts q) ->
  lc_LT (lc_pl wts x (p ++ [(e, y)])) (lc_pl wts x (q ++ [(e, y)])) -> lc_LT (lc_pl wts x p) (lc_pl wts x q).
Proof.
  intros Hp Hq. unfold lc_LT, lc_pl. cbn [l_dist l_cnt l_set].
  rewrite !lc_sum_app, !lc_sum_one, !app_length. cbn [length].
  intros [H|[H [H'|[H' Hs]]]]; [left; lia|right; split; [lia|left; lia]|].
  right. split; [lia|]. right. split; [lia|].
  eapply (lc_slt_cancel _ _ [y]); [apply lc_snoc_verts|apply lc_snoc_verts| | |exact Hs].
  - intros k [<-|[]]. exact Hp.
  - intros k [<-|[]]. exact Hq.
Qed.

(* ---- labels that represent walks from s ---------------------------------------------------------- *)

Section Rep.
  Variable g : graph.
  Variable wts : list Z.
  Variable s : nat.
  Hypothesis Hsg : simple_graph g.
  Hypothesis Hpos : positive_weights g wts.

  Notation zinv := (lx_inv Z 0%Z Z.add g wts s).
  Notation zvisited := (lx_visited Z s).
  Notation lab st v := (zkey (lx_lex st) v).

  (* the label l is (up to the representation of the set) the label of the walk p from s to y *)
  Definition lc_rep (p : list (nat * nat)) (y : nat) (l : label Z) : Prop :=
    walk g s p y /\ sorted (l_set l) /\ lc_EQ l (lc_pl wts s p).

  Lemma lc_rep_end_in p y l : lc_rep p y l -> In y (l_set l).
  Proof. intros [Hw [_ [_ [_ He]]]]. apply He. cbn [lc_pl l_set]. eapply lc_walk_last_in; eauto. Qed.

  Lemma lc_combine_rep p a l e y :
    lc_rep p a l -> joins g e a y -> lc_rep (p ++ [(e, y)]) y (zcombine wts l e a y).
  Proof.
    intros Hr Hj. pose proof (lc_rep_end_in p a l Hr) as Ha. destruct Hr as [Hw [Hs [E1 [E2 E3]]]].
    pose proof (gl_simple_joins g e a y Hsg Hj) as [_ [Hy _]].
    split; [eapply lc_walk_snoc; eauto|]. unfold lx_combine. cbn [l_set]. split.
    - apply lc_ins_sorted, lc_ins_sorted. exact Hs.
    - unfold lc_EQ, lc_pl in *. cbn [l_dist l_cnt l_set] in *. split; [|split].
      + rewrite lc_sum_app, lc_sum_one, E1. reflexivity.
      + rewrite app_length, E2. reflexivity.
      + intros k. rewrite !lc_ins_In, lc_snoc_verts, (E3 k). cbn [In].
        split; [intros [->|[->|H]]; auto; left; apply E3; exact Ha|intros [H|[->|[]]]; auto].
  Qed.

  Lemma lc_combine_good l e a y :
    lc_good l -> In a (l_set l) -> ~ In y (l_set l) -> lc_good (zcombine wts l e a y).
  Proof.
    intros [Hs Hl] Ha Hy. unfold lc_good, lx_combine. cbn [l_set l_cnt].
    assert (Ha' : In a (lx_set_ins y (l_set l))) by (apply lc_ins_In; right; exact Ha).
    rewrite (lc_ins_in_id a _ (lc_ins_sorted y _ Hs) Ha'). split; [apply lc_ins_sorted; exact Hs|].
    rewrite lc_ins_length_notin by exact Hy. lia.
  Qed.

  (* a sorted set with the elements of a duplicate-free vertex list has its length *)
  Lemma lc_rep_good p y l : lc_rep p y l -> NoDup (s :: wverts p) -> lc_good l.
  Proof.
    intros [Hw [Hs [_ [E2 E3]]]] Hnd. split; [exact Hs|].
    assert (Hperm : Permutation (l_set l) (s :: wverts p)).
    { apply NoDup_Permutation; [apply gl_sorted_NoDup; exact Hs|exact Hnd|exact E3]. }
    rewrite (Permutation_length Hperm), E2. cbn [lc_pl l_cnt length]. unfold wverts. rewrite map_length. lia.
  Qed.

  (* the label of every reached vertex is the combination of its predecessor's label *)
  Definition lc_kpred (st : lx_state Z) (D : list nat) : Prop :=
    forall v e, nth v (lx_pred st) None = Some e ->
      exists a, joins g e a v /\ a <> v /\ In a D /\ lab st v = zcombine wts (lab st a) e a v.

  Definition lc_ctx (st : lx_state Z) (D : list nat) : Prop :=
    zinv st D /\ (forall x p, In x D -> walk g s p x -> (dl st x <= lz_sum wts p)%Z) /\ lc_kpred st D.

  Lemma lc_lab_s st D : zinv st D -> lab st s = lc_pl wts s [].
  Proof. intros Hinv. rewrite (li_s_lex _ _ _ _ _ _ _ _ Hinv). reflexivity. Qed.

  Lemma lc_rep_s st D : zinv st D -> lc_rep [] s (lab st s).
  Proof.
    intros Hinv. rewrite (lc_lab_s st D Hinv). split; [constructor; apply (li_s_lt _ _ _ _ _ _ _ _ Hinv)|].
    split; [|apply lc_EQ_refl]. cbn. repeat constructor.
  Qed.

  Lemma lc_path_of st D : lc_ctx st D -> forall k y, y < nv g -> zvisited st y -> l_cnt (lab st y) = k ->
    exists p, lc_rep p y (lab st y) /\ forall z, In z (s :: wverts p) -> z = y \/ In z D.
  Proof.
    intros [Hinv [Hfin Hkp]]. induction k as [k IHk] using lt_wf_ind. intros y Hy Hvis Hk.
    destruct (Nat.eq_dec y s) as [->|Hys].
    - exists []. split; [eapply lc_rep_s; eauto|]. intros z [<-|[]]. left; reflexivity.
    - destruct Hvis as [Hc|Hvis]; [contradiction|].
      destruct (nth y (lx_pred st) None) as [e|] eqn:Ep; [|contradiction].
      destruct (Hkp y e Ep) as [a [Hj [Hay [HaD Hlab]]]].
      destruct (li_range _ _ _ _ _ _ _ _ Hinv a (in_or_app _ _ _ (or_introl HaD))) as [Han Hav].
      assert (Hcnt : l_cnt (lab st y) = l_cnt (lab st a) + 1) by (rewrite Hlab; reflexivity).
      destruct (IHk (l_cnt (lab st a)) ltac:(lia) a Han Hav eq_refl) as [p [Hrep Hvs]].
      exists (p ++ [(e, y)]). split.
      + rewrite Hlab. apply lc_combine_rep; assumption.
      + intros z Hz. apply lc_snoc_verts in Hz as [Hz|[<-|[]]]; [|left; reflexivity].
        right. destruct (Hvs z Hz) as [->|H]; assumption.
  Qed.

  Lemma lc_path_of' st D y : lc_ctx st D -> y < nv g -> zvisited st y ->
    exists p, lc_rep p y (lab st y) /\ forall z, In z (s :: wverts p) -> z = y \/ In z D.
  Proof. intros Hc Hy Hv. eapply lc_path_of; eauto. Qed.

  (* a settled vertex carries the label of a shortest walk *)
  Lemma lc_D_shortest st D x p : lc_ctx st D -> In x D -> lc_rep p x (lab st x) -> lc_shortest g wts s p x.
  Proof.
    intros [Hinv [Hfin Hkp]] Hx [Hw [_ [E1 _]]]. split; [exact Hw|]. intros q Hq.
    specialize (Hfin x q Hx Hq). unfold dl in Hfin. cbn [lc_pl l_dist] in E1. lia.
  Qed.

  Lemma lc_D_range st D x : lc_ctx st D -> In x D -> x < nv g /\ zvisited st x.
  Proof. intros [Hinv _] Hx. apply (li_range _ _ _ _ _ _ _ _ Hinv). apply in_or_app; left; exact Hx. Qed.

  (* the walk of a settled vertex: shortest, through settled vertices only, its label is good *)
  Lemma lc_D_path st D x : lc_ctx st D -> In x D ->
    exists p, lc_rep p x (lab st x) /\ lc_shortest g wts s p x /\ (forall z, In z (s :: wverts p) -> In z D) /\
              lc_good (lab st x).
  Proof.
    intros Hc Hx. destruct (lc_D_range st D x Hc Hx) as [Hxn Hxv].
    destruct (lc_path_of' st D x Hc Hxn Hxv) as [p [Hrep Hvs]].
    pose proof (lc_D_shortest st D x p Hc Hx Hrep) as Hsh.
    exists p. split; [exact Hrep|]. split; [exact Hsh|]. split.
    - intros z Hz. destruct (Hvs z Hz) as [->|H]; assumption.
    - eapply lc_rep_good; [exact Hrep|]. eapply lc_sh_simple; eauto.
  Qed.

  (* the candidate label for a vertex y outside D over the edge e from the settled vertex a *)
  Lemma lc_cand st D a e y : lc_ctx st D -> In a D -> ~ In y D -> joins g e a y ->
    exists p, lc_rep p a (lab st a) /\ lc_shortest g wts s p a /\ (forall z, In z (s :: wverts p) -> In z D) /\
              lc_rep (p ++ [(e, y)]) y (zcombine wts (lab st a) e a y) /\
              lc_good (zcombine wts (lab st a) e a y).
  Proof.
    intros Hc Ha Hy Hj. destruct (lc_D_path st D a Hc Ha) as [p [Hrep [Hsh [Hvs Hgood]]]].
    exists p. split; [exact Hrep|]. split; [exact Hsh|]. split; [exact Hvs|]. split.
    - apply lc_combine_rep; assumption.
    - apply lc_combine_good; [exact Hgood|eapply lc_rep_end_in; eauto|].
      intros Hin. apply Hy. apply Hvs. destruct Hrep as [_ [_ [_ [_ E3]]]]. apply E3. exact Hin.
  Qed.

  (* all stored labels of reached vertices are good *)
  Lemma lc_good_lab st D y : lc_ctx st D -> y < nv g -> zvisited st y -> lc_good (lab st y).
  Proof.
    intros Hc Hy Hv. destruct (in_dec Nat.eq_dec y D) as [HyD|HyD].
    - destruct (lc_D_path st D y Hc HyD) as [p [_ [_ [_ H]]]]. exact H.
    - destruct (Nat.eq_dec y s) as [->|Hys].
      + destruct Hc as [Hinv _]. rewrite (lc_lab_s st D Hinv). split; [cbn; repeat constructor|reflexivity].
      + destruct Hv as [Hv|Hv]; [contradiction|].
        destruct (nth y (lx_pred st) None) as [e|] eqn:Ep; [|contradiction].
        pose proof Hc as [_ [_ Hkp]]. destruct (Hkp y e Ep) as [a [Hj [Hay [HaD Hlab]]]].
        destruct (lc_cand st D a e y Hc HaD HyD Hj) as [p [_ [_ [_ [_ H]]]]]. rewrite Hlab. exact H.
  Qed.
End Rep.
