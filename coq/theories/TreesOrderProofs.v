(* TreesOrderProofs.v — the tree-based exact variants AS EXECUTED (TreesFloatModel.v sections TreesGo / TreesRuns: the builder,
   the arrangement left by std::sort as an explicit oracle `order`, the scan that returns the FIRST answering candidate, the
   main loop) in the EXACT domain (Z, positive weights).  Part 1: what ts_arrange validates, and one phase.
     to_perm_ok_perm / to_perm_perm_ok    ts_perm_ok n order = true  <->  order is a permutation of 0 .. n-1
     to_arrange_inv      ts_arrange cands order = Some sc  ->  sc is a permutation of cands, non-decreasing in recorded weight
     to_arrange_exists   every collection has an arrangement that ts_arrange validates (stable insertion sort of the positions)
     to_scan_find        the scan over an arranged vector = the first answering entry of the per-phase answer list taken in
                         that arrangement (later candidates are not evaluated in the code; over Z no evaluation fails)
     to_phase            one phase over a sound collection: the scan never fails; its answer passes the acceptance test
                         trees_phase_pick of TreesModel.v WITH THE SAME WEIGHT; it answers whenever some candidate answers
   Part 2 (whole runs, end theorems): TreesOrderProofs2.v.  Prefix to_. *)
From Coq Require Import List Arith Bool Lia ZArith Permutation Sorted.
From Parmcb Require Import GraphModel GraphSpec GF2Model LexSPModel FvsModel CandidatesModel CandidatesProofsZ ForestModel
     SvaModel SvaSpec RefModel TreesModel TreesProofs2 TreesProofs3 TreesProofs5 TreesFloatModel.
Import ListNotations.

(* ---- list facts ------------------------------------------------------------------------------------------------------ *)

Lemma to_nth_error_set_nth_neq {A} (l : list A) : forall i j x, i <> j -> nth_error (set_nth l j x) i = nth_error l i.
Proof. induction l as [|y r IH]; intros [|i] [|j] x H; cbn [set_nth nth_error]; auto; try lia. Qed.

Lemma to_nth_error_set_nth_eq {A} (l : list A) : forall i x, i < length l -> nth_error (set_nth l i x) i = Some x.
Proof.
  induction l as [|y r IH]; intros [|i] x H; cbn [set_nth nth_error length] in *; try lia; auto. apply IH. lia.
Qed.

Lemma to_F2_perm {A B} (R : A -> B -> Prop) : forall a b, Permutation a b ->
  forall l, Forall2 R a l -> exists l', Forall2 R b l' /\ Permutation l l'.
Proof.
  induction 1 as [|x a b _ IH|x y a|a b c _ IH1 _ IH2]; intros l H.
  - inversion H; subst. exists []. split; constructor.
  - inversion H as [|? y ? l0 Hxy H0]; subst. destruct (IH l0 H0) as (l' & H1 & H2).
    exists (y :: l'). split; constructor; assumption.
  - inversion H as [|? b1 ? l1 Hy H1]; subst. inversion H1 as [|? b2 ? l0 Hx H0]; subst.
    exists (b2 :: b1 :: l0). split; [repeat constructor; assumption|apply perm_swap].
  - destruct (IH1 l H) as (l1 & H1 & P1). destruct (IH2 l1 H1) as (l2 & H2 & P2).
    exists l2. split; [exact H2|eapply Permutation_trans; eauto].
Qed.

Lemma to_F2_fun {A B} (R : A -> B -> Prop) : (forall a b b', R a b -> R a b' -> b = b') ->
  forall a l1 l2, Forall2 R a l1 -> Forall2 R a l2 -> l1 = l2.
Proof.
  intros Hfun. induction a as [|x a IH]; intros l1 l2 H1 H2; inversion H1; inversion H2; subst; [reflexivity|].
  f_equal; [eapply Hfun; eauto|apply IH; assumption].
Qed.

Lemma to_F2_seq {A} : forall (cs pre : list A),
  Forall2 (fun i c => nth_error (pre ++ cs) i = Some c) (seq (length pre) (length cs)) cs.
Proof.
  induction cs as [|c cs IH]; intros pre; cbn [length seq]; constructor.
  - rewrite nth_error_app2 by lia. rewrite Nat.sub_diag. reflexivity.
  - specialize (IH (pre ++ [c])). rewrite <- app_assoc, app_length in IH. cbn [app length] in IH.
    rewrite Nat.add_1_r in IH. exact IH.
Qed.

(* ---- what ts_perm_ok / ts_pick / ts_arrange validate (any weight type) --------------------------------------------------- *)
Section Arrange.
  Variable W : Type.
  Variable wltb : W -> W -> bool.

  Lemma to_mark_ok : forall order seen, NoDup order -> (forall i, In i order -> nth_error seen i = Some false) ->
    exists seen', ts_mark seen order = Some seen'.
  Proof.
    induction order as [|i r IH]; intros seen Hnd Hin; cbn [ts_mark]; [eauto|].
    rewrite (Hin i (or_introl eq_refl)). inversion Hnd as [|? ? Hi Hr]; subst. apply IH; [exact Hr|].
    intros j Hj. rewrite to_nth_error_set_nth_neq; [apply Hin; right; exact Hj|]. intros ->. contradiction.
  Qed.

  Lemma to_mark_inv : forall order seen seen', ts_mark seen order = Some seen' ->
    NoDup order /\ forall i, In i order -> nth_error seen i = Some false.
  Proof.
    induction order as [|i r IH]; intros seen seen' H; cbn [ts_mark] in H.
    - split; [constructor|intros i []].
    - destruct (nth_error seen i) as [[|]|] eqn:E; try discriminate.
      destruct (IH _ _ H) as [Hnd Hin].
      assert (Hlt : i < length seen) by (apply nth_error_Some; congruence).
      assert (Hi : ~ In i r).
      { intros Hi. specialize (Hin i Hi). rewrite to_nth_error_set_nth_eq in Hin by exact Hlt. discriminate. }
      split; [constructor; assumption|].
      intros j [<-|Hj]; [exact E|]. specialize (Hin j Hj).
      rewrite to_nth_error_set_nth_neq in Hin; [exact Hin|]. intros ->. contradiction.
  Qed.

  Lemma to_fresh_nth n i : nth_error (map (fun _ : nat => false) (seq 0 n)) i = Some false <-> i < n.
  Proof.
    split; intros H.
    - assert (Hl : i < length (map (fun _ : nat => false) (seq 0 n))) by (apply nth_error_Some; congruence).
      rewrite map_length, seq_length in Hl. exact Hl.
    - rewrite (nth_error_nth' _ true) by (rewrite map_length, seq_length; exact H). f_equal.
      assert (Hin : In (nth i (map (fun _ : nat => false) (seq 0 n)) true) (map (fun _ : nat => false) (seq 0 n)))
        by (apply nth_In; rewrite map_length, seq_length; exact H).
      apply in_map_iff in Hin as [? [Heq _]]. symmetry. exact Heq.
  Qed.

  Lemma to_perm_ok_perm n order : ts_perm_ok n order = true -> Permutation order (seq 0 n).
  Proof.
    unfold ts_perm_ok. intros H. apply andb_true_iff in H as [Hl Hm]. apply Nat.eqb_eq in Hl.
    destruct (ts_mark _ order) as [seen'|] eqn:E; [|discriminate]. destruct (to_mark_inv _ _ _ E) as [Hnd Hin].
    apply NoDup_Permutation_bis; [exact Hnd|rewrite seq_length; lia|].
    intros i Hi. apply in_seq. apply Hin, to_fresh_nth in Hi. lia.
  Qed.

  Lemma to_perm_perm_ok n order : Permutation order (seq 0 n) -> ts_perm_ok n order = true.
  Proof.
    intros HP. unfold ts_perm_ok. rewrite (Permutation_length HP), seq_length, Nat.eqb_refl. cbn [andb].
    destruct (to_mark_ok order (map (fun _ : nat => false) (seq 0 n))) as [seen' ->]; [| |reflexivity].
    - eapply Permutation_NoDup; [apply Permutation_sym; exact HP|apply seq_NoDup].
    - intros i Hi. apply to_fresh_nth. eapply Permutation_in in Hi; [|exact HP]. apply in_seq in Hi. lia.
  Qed.

  Lemma to_pick_F2 (cands : list (cand W)) : forall order l, ts_pick W cands order = Some l ->
    Forall2 (fun i c => nth_error cands i = Some c) order l.
  Proof.
    induction order as [|i r IH]; intros l H; cbn [ts_pick] in H.
    - injection H as <-. constructor.
    - destruct (nth_error cands i) as [c|] eqn:E; [|discriminate].
      destruct (ts_pick W cands r) as [l0|]; [|discriminate]. injection H as <-. constructor; [exact E|apply IH; reflexivity].
  Qed.

  Lemma to_F2_pick (cands : list (cand W)) : forall order l, Forall2 (fun i c => nth_error cands i = Some c) order l ->
    ts_pick W cands order = Some l.
  Proof.
    induction 1 as [|i c r l Hi _ IH]; cbn [ts_pick]; [reflexivity|]. rewrite Hi, IH. reflexivity.
  Qed.

  Lemma to_pick_perm (cands : list (cand W)) order l : Permutation order (seq 0 (length cands)) ->
    ts_pick W cands order = Some l -> Permutation cands l.
  Proof.
    intros HP H. apply to_pick_F2 in H. destruct (to_F2_perm _ _ _ HP l H) as (l' & H' & P).
    pose proof (to_F2_seq cands []) as Hs. cbn [app length] in Hs.
    assert (Hfun : forall (a : nat) (b b' : cand W), nth_error cands a = Some b -> nth_error cands a = Some b' -> b = b')
      by (intros a b b' H1 H2; congruence).
    rewrite (to_F2_fun _ Hfun _ _ _ Hs H'). apply Permutation_sym. exact P.
  Qed.

  (* what ts_arrange validates *)
  Theorem to_arrange_inv (cands : list (cand W)) order sc : ts_arrange W wltb cands order = Some sc ->
    Permutation order (seq 0 (length cands)) /\ Permutation cands sc /\ ts_nondecr W wltb sc = true.
  Proof.
    unfold ts_arrange. destruct (ts_perm_ok (length cands) order) eqn:Ep; [|discriminate].
    destruct (ts_pick W cands order) as [l|] eqn:El; [|discriminate].
    destruct (ts_nondecr W wltb l) eqn:En; [|discriminate]. intros [= <-].
    pose proof (to_perm_ok_perm _ _ Ep) as HP. split; [exact HP|]. split; [eapply to_pick_perm; eauto|exact En].
  Qed.

  Lemma to_nondecr_cons2 a b (r : list (cand W)) :
    ts_nondecr W wltb (a :: b :: r) = negb (wltb (c_weight b) (c_weight a)) && ts_nondecr W wltb (b :: r).
  Proof. reflexivity. Qed.
End Arrange.

(* ---- an arrangement exists: stable insertion sort of the positions by recorded weight (Z) --------------------------------- *)

Fixpoint to_ins (x : nat * cand Z) (l : list (nat * cand Z)) : list (nat * cand Z) :=
  match l with
  | [] => [x]
  | y :: r => if Z.ltb (c_weight (snd x)) (c_weight (snd y)) then x :: y :: r else y :: to_ins x r
  end.

Definition to_isort (l : list (nat * cand Z)) : list (nat * cand Z) := fold_right to_ins [] l.

Lemma to_ins_perm x : forall l, Permutation (x :: l) (to_ins x l).
Proof.
  induction l as [|y r IH]; cbn [to_ins]; [apply Permutation_refl|].
  destruct (Z.ltb _ _); [apply Permutation_refl|]. eapply Permutation_trans; [apply perm_swap|]. apply perm_skip. exact IH.
Qed.

Lemma to_isort_perm : forall l, Permutation l (to_isort l).
Proof.
  induction l as [|x l IH]; cbn [to_isort fold_right]; [constructor|].
  eapply Permutation_trans; [apply perm_skip; exact IH|apply to_ins_perm].
Qed.

Lemma to_ins_nondecr x : forall l, ts_nondecr Z Z.ltb (map snd l) = true -> ts_nondecr Z Z.ltb (map snd (to_ins x l)) = true.
Proof.
  induction l as [|y r IH]; intros H; [reflexivity|]. cbn [to_ins].
  destruct (Z.ltb (c_weight (snd x)) (c_weight (snd y))) eqn:E.
  - cbn [map]. rewrite to_nondecr_cons2. cbn [map] in H. rewrite H, andb_true_r.
    apply negb_true_iff, Z.ltb_ge. apply Z.ltb_lt in E. lia.
  - destruct r as [|z r'].
    + cbn [to_ins map]. rewrite to_nondecr_cons2, E. reflexivity.
    + cbn [map] in H. rewrite to_nondecr_cons2 in H. apply andb_true_iff in H as [H1 H2].
      specialize (IH H2). cbn [to_ins] in IH |- *.
      destruct (Z.ltb (c_weight (snd x)) (c_weight (snd z))); cbn [map] in IH |- *; rewrite to_nondecr_cons2.
      * rewrite E, IH. reflexivity.
      * rewrite H1, IH. reflexivity.
Qed.

Lemma to_isort_nondecr : forall l, ts_nondecr Z Z.ltb (map snd (to_isort l)) = true.
Proof. induction l as [|x l IH]; [reflexivity|]. cbn [to_isort fold_right]. apply to_ins_nondecr. exact IH. Qed.

Lemma to_combine_fst {A B} : forall (a : list A) (b : list B), length a = length b -> map fst (combine a b) = a.
Proof. induction a as [|x a IH]; intros [|y b] H; cbn in *; try lia; [reflexivity|]. f_equal. apply IH. lia. Qed.

Lemma to_F2_combine {A B} (R : A -> B -> Prop) : forall a b, Forall2 R a b ->
  Forall (fun p => R (fst p) (snd p)) (combine a b).
Proof. induction 1 as [|x y a b Hxy _ IH]; cbn [combine]; constructor; assumption. Qed.

Theorem to_arrange_exists (cands : list (cand Z)) : exists order sc, ts_arrange Z Z.ltb cands order = Some sc.
Proof.
  set (pairs := combine (seq 0 (length cands)) cands).
  assert (Hpairs : Forall (fun p => nth_error cands (fst p) = Some (snd p)) pairs).
  { pose proof (to_F2_seq cands []) as Hs. cbn [app length] in Hs. unfold pairs.
    exact (to_F2_combine (fun i c => nth_error cands i = Some c) _ _ Hs). }
  set (sorted := to_isort pairs).
  assert (Hsorted : Forall (fun p => nth_error cands (fst p) = Some (snd p)) sorted).
  { rewrite Forall_forall in *. intros p Hp. apply Hpairs. eapply Permutation_in; [apply Permutation_sym, to_isort_perm|exact Hp]. }
  exists (map fst sorted), (map snd sorted). unfold ts_arrange.
  assert (HP : Permutation (map fst sorted) (seq 0 (length cands))).
  { pose proof (to_combine_fst (seq 0 (length cands)) cands (seq_length _ _)) as Ec. fold pairs in Ec.
    rewrite <- Ec. apply Permutation_map, Permutation_sym, to_isort_perm. }
  rewrite (to_perm_perm_ok _ _ HP).
  rewrite (to_F2_pick Z cands (map fst sorted) (map snd sorted)).
  - unfold sorted. rewrite to_isort_nondecr. reflexivity.
  - clear HP. induction Hsorted as [|p ps Hp _ IH]; cbn [map]; constructor; assumption.
Qed.

(* ts_nondecr over Z: no later element is strictly lighter than an earlier one *)
Lemma to_nondecr_sorted : forall l, ts_nondecr Z Z.ltb l = true ->
  StronglySorted (fun a b : cand Z => Z.ltb (c_weight b) (c_weight a) = false) l.
Proof.
  induction l as [|a l IH]; intros H; constructor.
  - apply IH. destruct l as [|b r]; [reflexivity|]. rewrite to_nondecr_cons2 in H. apply andb_true_iff in H as [_ H]. exact H.
  - destruct l as [|b r]; [constructor|]. rewrite to_nondecr_cons2 in H. apply andb_true_iff in H as [H1 H2].
    apply negb_true_iff in H1. specialize (IH H2). apply StronglySorted_inv in IH as [_ Hb].
    constructor; [exact H1|]. eapply Forall_impl; [|exact Hb]. intros x Hx. cbv beta in Hx.
    apply Z.ltb_ge in H1, Hx. apply Z.ltb_ge. lia.
Qed.

(* ---- the scan against the per-phase answer list (any weight type) ---------------------------------------------------------- *)
Section Scan.
  Variable W : Type.
  Variable w0 : W.
  Variable wadd : W -> W -> W.
  Variable g : graph.
  Variable wts : list W.
  Variable trees : list (sp_tree W).
  Variable pars : list (list bool).
  Variable sg : list nat.

  Notation build := (tc_build W w0 wadd g wts trees pars sg).

  (* the builder's answer on c, TcNot standing for the error values (shown not to occur where it matters) *)
  Definition to_ans (c : cand W) : tc_answer W := match build c with TrOk a => a | _ => TcNot end.
  Definition to_entry (c : cand W) : cand W * tc_answer W := (c, to_ans c).

  Lemma to_eval_map : forall cs l, tl_eval W w0 wadd g wts trees pars sg cs = TrOk l ->
    l = map to_entry cs /\ forall c, In c cs -> build c = TrOk (to_ans c).
  Proof.
    induction cs as [|c cs IH]; intros l H; cbn [tl_eval] in H.
    - injection H as <-. split; [reflexivity|intros c []].
    - destruct (build c) as [a| | |] eqn:Eb; try discriminate.
      destruct (tl_eval W w0 wadd g wts trees pars sg cs) as [l0| | |]; try discriminate. injection H as <-.
      destruct (IH l0 eq_refl) as [-> Hall]. split.
      + cbn [map]. f_equal. unfold to_entry, to_ans. rewrite Eb. reflexivity.
      + intros c' [<-|Hc']; [unfold to_ans; rewrite Eb; reflexivity|apply Hall; exact Hc'].
  Qed.

  Definition to_first_found (l : list (cand W * tc_answer W)) : option (list nat * W) :=
    match find (tl_found W) l with Some (_, TcFound cy w) => Some (cy, w) | _ => None end.

  (* the code stops at the first answering candidate; evaluating all of them and taking the first answering one is the same *)
  Lemma to_scan_find : forall cs, (forall c, In c cs -> build c = TrOk (to_ans c)) ->
    ts_scan W w0 wadd g wts trees pars sg cs = TrOk (to_first_found (map to_entry cs)).
  Proof.
    induction cs as [|c cs IH]; intros Hall; [reflexivity|].
    cbn [ts_scan map]. unfold to_first_found. cbn [find]. change (to_entry c) with (c, to_ans c).
    unfold tl_found at 1. cbn [snd].
    rewrite (Hall c (or_introl eq_refl)). destruct (to_ans c) as [cy w|]; [reflexivity|].
    apply IH. intros c' Hc'. apply Hall. right. exact Hc'.
  Qed.
End Scan.

(* ---- one phase over a sound collection, exact domain -------------------------------------------------------------------- *)
Section Phase.
  Variable g : graph.
  Variable wts : list Z.
  Variable trees : list (sp_tree Z).
  Variable cands sc : list (cand Z).
  Variable fi : forest_index.
  Hypothesis Hsg : simple_graph g.
  Hypothesis Hpos : positive_weights g wts.
  Hypothesis Hcol : trees_collection_ok g wts trees cands.
  Hypothesis Hperm : Permutation cands sc.
  Hypothesis Hnd : ts_nondecr Z Z.ltb sc = true.

  Notation ord := (trees_search_order Z 0%Z Z.add g wts trees sc fi).

  Theorem to_phase S : exists l,
    tl_answers Z 0%Z Z.add g wts trees cands (indices_to_edges fi S) = TrOk l /\ map fst l = cands /\
    Forall (tl_entry_ok g wts trees (indices_to_edges fi S)) l /\
    (forall k, ord k S <> PError) /\
    (forall k c w, ord k S = PFound c w -> trees_phase_pick Z Z.ltb l c = Some w) /\
    ((exists x, In x l /\ tl_found Z x = true) -> forall k, exists c w, ord k S = PFound c w).
  Proof.
    set (sg := indices_to_edges fi S).
    destruct Hcol as [HF Hs]. destruct (tb_answers_ok g wts Hsg trees cands sg HF Hs) as [l [Hl [Hm Hf]]].
    exists l. split; [exact Hl|]. split; [exact Hm|]. split; [exact Hf|].
    unfold tl_answers_Z, tl_answers in Hl.
    destruct (tp_all Z g trees sg) as [pars| | |] eqn:Ep; try discriminate.
    destruct (to_eval_map Z 0%Z Z.add g wts trees pars sg cands l Hl) as [El Hall].
    set (l' := map (to_entry Z 0%Z Z.add g wts trees pars sg) sc).
    assert (HP : Permutation l l') by (rewrite El; apply Permutation_map; exact Hperm).
    assert (Hscan : forall k, ord k S = match to_first_found Z l' with Some (c, w) => PFound c w | None => PNone end).
    { intros k. unfold trees_search_order, ts_lookup. fold sg. rewrite Ep.
      rewrite (to_scan_find Z 0%Z Z.add g wts trees pars sg sc); [reflexivity|].
      intros c Hc. apply Hall. eapply Permutation_in; [apply Permutation_sym; exact Hperm|exact Hc]. }
    assert (Hsorted : tf_weight_sorted l').
    { unfold tf_weight_sorted, l'. pose proof (to_nondecr_sorted sc Hnd) as Hss. clear -Hss.
      induction Hss as [|a r _ IH Ha]; cbn [map]; constructor; [exact IH|].
      rewrite Forall_forall in *. intros x Hx. apply in_map_iff in Hx as [b [<- Hb]]. cbn [fst to_entry]. apply Ha. exact Hb. }
    split; [|split].
    - intros k. rewrite Hscan. destruct (to_first_found Z l') as [[c w]|]; discriminate.
    - intros k c w H. rewrite Hscan in H. unfold to_first_found in H.
      destruct (find (tl_found Z) l') as [[cd [cy wy|]]|] eqn:Ef; try discriminate. injection H as <- <-.
      destruct (tf_sorted_scan_accepted l l' _ cy wy HP Hsorted Ef eq_refl) as [w' Hw'].
      pose proof (tr_pick_spec g wts trees cands (conj HF Hs) sg l cy w' Hm Hf Hw') as (_ & _ & Hww' & _).
      apply find_some in Ef as [Hin' _].
      assert (Hin : In (cd, TcFound cy wy) l) by (eapply Permutation_in; [apply Permutation_sym; exact HP|exact Hin']).
      rewrite Forall_forall in Hf. destruct (Hf _ Hin) as [t [C [_ [_ Hsnd]]]]. cbn [snd] in Hsnd.
      destruct (oddb sg C); [|discriminate]. injection Hsnd as -> ->. rewrite Hw', Hww'. reflexivity.
    - intros [x [Hx Hfx]] k. rewrite Hscan. unfold to_first_found.
      destruct (find (tl_found Z) l') as [[cd a]|] eqn:Ef.
      + apply find_some in Ef as [_ Hfa]. unfold tl_found in Hfa. cbn [snd] in Hfa. destruct a as [cy wy|]; [eauto|discriminate].
      + exfalso. assert (Hx' : In x l') by (eapply Permutation_in; [exact HP|exact Hx]).
        pose proof (find_none _ _ Ef x Hx') as Hn. congruence.
  Qed.
End Phase.
