(* Properties_C18_overflow.v — property C18 for the BUILT-IN instantiations of fp<T>, primes<T>, SpVecFP<P>
   (and the clause "overflows a signed integer" of C07 for these templates).
   Only statements; each closed by [exact <lemma>] and followed by Print Assumptions.

   Properties_C18.v proves the functional statements over unbounded Z and left "no intermediate value
   overflows" as a side condition.  Here that side condition is discharged: FpOverflowModel.v restates the
   models with a trace of every value the C++ computes in T (inputs, constants, every negation, quotient,
   remainder, product, sum, difference, increment; `Val v`) and of every divisor (`Dvs d`);
     - erasure: the traced function returns exactly what the model of FpModel.v returns, so the theorems of
       Properties_C18.v apply to it;
     - bounds: `trace_in lo hi t` = every value of t lies in [lo, hi] and every divisor in (0, hi].
   A built-in signed type with maximum maxT executes the traced computation without overflow (and without a
   division by zero) iff its trace lies in [-maxT-1, maxT]  (`fits maxT`).

   Domain.  ext_gcd / get_mult_inverse: all arguments with |a|, |b| <= maxT, i.e. everything except the
   minimum value of T, whose negation `-a` is not representable (C18_overflow_ext_gcd_min).
   is_prime: 2 <= p <= maxT (the conversion of sqrt(double) for p >= 2^52 stays a side condition of the tie).
   SpVecFP: modulus p >= 2 and scalars |c| <= B with (p-1) * max(2, p-1, B) <= maxT.

   The flag chk = true adds what PARMCB_INVARIANTS_CHECK evaluates when assertions are compiled in; two of
   these checks overflow inside the domain above (defects, `_refuted` statements below):
     - the assertion of ext_gcd evaluates a*x and b*y (up to |a|*|b|/2);
     - is_prime evaluates sqrtt*sqrtt = (floor(sqrt p)+1)^2 > p. *)
From Coq Require Import ZArith List Bool.
From Parmcb Require Import FpModel FpOverflowModel FpOverflowProofs1 FpOverflowProofs2 FpOverflowProofs3.
Import ListNotations.
Local Open Scope Z_scope.

(* ---- erasure ------------------------------------------------------------------------------- *)

Theorem C18_overflow_erasure_ext_gcd :
  forall chk a b, fst (ext_gcd_tr chk a b) = ext_gcd a b.
Proof. exact ext_gcd_tr_fst. Qed.
Print Assumptions C18_overflow_erasure_ext_gcd.

Theorem C18_overflow_erasure_mult_inverse :
  forall chk a p, fst (mult_inverse_tr chk a p) = mult_inverse a p.
Proof. exact mult_inverse_tr_fst. Qed.
Print Assumptions C18_overflow_erasure_mult_inverse.

Theorem C18_overflow_erasure_is_prime :
  forall chk p, fst (is_prime_tr chk p) = is_prime p.
Proof. exact is_prime_tr_fst. Qed.
Print Assumptions C18_overflow_erasure_is_prime.

Theorem C18_overflow_erasure_spvecfp :
  forall p K ops, fst (frun_tr_dump p K ops) = frun_dump p K ops.
Proof. exact frun_tr_dump_fst. Qed.
Print Assumptions C18_overflow_erasure_spvecfp.

(* ---- ext_gcd ------------------------------------------------------------------------------- *)

(* For ALL integers a, b (no hypothesis): every value computed by ext_gcd — the negations, every quotient,
   remainder, product q*_x[1-i], q*_y[1-i], difference _x[i] - q*_x[1-i], _y[i] - q*_y[1-i], the final
   sign multiplications — is bounded in absolute value by max(1, |a|, |b|), and every divisor is positive. *)
Theorem C18_overflow_ext_gcd :
  forall a b,
  let M := Z.max 1 (Z.max (Z.abs a) (Z.abs b)) in
  trace_in (- M) M (snd (ext_gcd_tr false a b)).
Proof. exact (ext_gcd_tr_bound false). Qed.
Print Assumptions C18_overflow_ext_gcd.

(* With the assertion `_a[1-i] == a*x + b*y` compiled in, the bound is max(1, |a|, |b|, |a|*|b|/2). *)
Theorem C18_overflow_ext_gcd_assert :
  forall a b,
  let M := Z.max (Z.max 1 (Z.max (Z.abs a) (Z.abs b))) (Z.abs a * Z.abs b / 2) in
  trace_in (- M) M (snd (ext_gcd_tr true a b)).
Proof. exact (ext_gcd_tr_bound true). Qed.
Print Assumptions C18_overflow_ext_gcd_assert.

(* Hence a signed type with maximum maxT executes ext_gcd without overflow for all arguments above its
   minimum value (assertions compiled out) ... *)
Theorem C18_overflow_ext_gcd_fits :
  forall maxT a b, 1 <= maxT -> Z.abs a <= maxT -> Z.abs b <= maxT ->
  trace_in (- maxT) maxT (snd (ext_gcd_tr false a b)).
Proof. exact ext_gcd_tr_fits. Qed.
Print Assumptions C18_overflow_ext_gcd_fits.

Theorem C18_overflow_ext_gcd_longlong :
  forall a b, Z.abs a <= 2 ^ 63 - 1 -> Z.abs b <= 2 ^ 63 - 1 ->
  fits (2 ^ 63 - 1) (snd (ext_gcd_tr false a b)).
Proof. exact ext_gcd_ll. Qed.
Print Assumptions C18_overflow_ext_gcd_longlong.

Theorem C18_overflow_ext_gcd_int :
  forall a b, Z.abs a <= 2 ^ 31 - 1 -> Z.abs b <= 2 ^ 31 - 1 ->
  fits (2 ^ 31 - 1) (snd (ext_gcd_tr false a b)).
Proof. exact ext_gcd_int. Qed.
Print Assumptions C18_overflow_ext_gcd_int.

(* ... and, with the assertion, whenever additionally |a|*|b|/2 <= maxT. *)
Theorem C18_overflow_ext_gcd_assert_fits :
  forall maxT a b, 1 <= maxT -> Z.abs a <= maxT -> Z.abs b <= maxT -> Z.abs a * Z.abs b / 2 <= maxT ->
  trace_in (- maxT) maxT (snd (ext_gcd_tr true a b)).
Proof. exact ext_gcd_tr_fits_chk. Qed.
Print Assumptions C18_overflow_ext_gcd_assert_fits.

(* The minimum value of the type is outside the domain: a negative argument is negated. *)
Theorem C18_overflow_ext_gcd_min :
  forall maxT chk b, 0 <= maxT -> ~ fits maxT (snd (ext_gcd_tr chk (- maxT - 1) b)).
Proof. exact ext_gcd_min_overflows. Qed.
Print Assumptions C18_overflow_ext_gcd_min.

(* Defect (PARMCB_INVARIANTS_CHECK, assertions on): for a = 2^63 - 1, b = 5 — inside the domain — the
   assertion evaluates a * x = (2^63 - 1) * (-2), which is not a long long. *)
Theorem C18_overflow_ext_gcd_assert_refuted :
  Z.abs (2 ^ 63 - 1) <= 2 ^ 63 - 1 /\ Z.abs 5 <= 2 ^ 63 - 1 /\
  fst (ext_gcd_tr true (2 ^ 63 - 1) 5) = GcdOk 1 (-2) 3689348814741910323 /\
  In (Val ((2 ^ 63 - 1) * -2)) (snd (ext_gcd_tr true (2 ^ 63 - 1) 5)) /\
  ~ fits (2 ^ 63 - 1) (snd (ext_gcd_tr true (2 ^ 63 - 1) 5)).
Proof. exact ext_gcd_assert_overflows. Qed.
Print Assumptions C18_overflow_ext_gcd_assert_refuted.

(* ---- get_mult_inverse ---------------------------------------------------------------------- *)

Theorem C18_overflow_mult_inverse :
  forall a p,
  let M := Z.max 1 (Z.max (Z.abs a) (Z.abs p)) in
  trace_in (- M) M (snd (mult_inverse_tr false a p)).
Proof. exact (mult_inverse_tr_bound false). Qed.
Print Assumptions C18_overflow_mult_inverse.

Theorem C18_overflow_mult_inverse_longlong :
  forall a p, Z.abs a <= 2 ^ 63 - 1 -> Z.abs p <= 2 ^ 63 - 1 ->
  fits (2 ^ 63 - 1) (snd (mult_inverse_tr false a p)).
Proof. exact mult_inverse_ll. Qed.
Print Assumptions C18_overflow_mult_inverse_longlong.

Theorem C18_overflow_mult_inverse_int :
  forall a p, Z.abs a <= 2 ^ 31 - 1 -> Z.abs p <= 2 ^ 31 - 1 ->
  fits (2 ^ 31 - 1) (snd (mult_inverse_tr false a p)).
Proof. exact mult_inverse_int. Qed.
Print Assumptions C18_overflow_mult_inverse_int.

(* ---- is_prime ------------------------------------------------------------------------------ *)

(* For every p >= 2: all values (p % 2, the integer square root, sqrtt = root + 1, every p % t, every t++)
   lie in [0, p], every divisor t is positive. *)
Theorem C18_overflow_is_prime :
  forall p, 2 <= p -> trace_in 0 p (snd (is_prime_tr false p)).
Proof. exact (is_prime_tr_bound false). Qed.
Print Assumptions C18_overflow_is_prime.

(* With PARMCB_INVARIANTS_CHECK the product sqrtt * sqrtt is evaluated too. *)
Theorem C18_overflow_is_prime_check :
  forall p, 2 <= p ->
  trace_in 0 ((Z.sqrt p + 1) * (Z.sqrt p + 1)) (snd (is_prime_tr true p)).
Proof. exact (is_prime_tr_bound true). Qed.
Print Assumptions C18_overflow_is_prime_check.

Theorem C18_overflow_is_prime_longlong :
  forall p, 2 <= p <= 2 ^ 63 - 1 -> fits (2 ^ 63 - 1) (snd (is_prime_tr false p)).
Proof. exact is_prime_ll. Qed.
Print Assumptions C18_overflow_is_prime_longlong.

Theorem C18_overflow_is_prime_int :
  forall p, 2 <= p <= 2 ^ 31 - 1 -> fits (2 ^ 31 - 1) (snd (is_prime_tr false p)).
Proof. exact is_prime_int. Qed.
Print Assumptions C18_overflow_is_prime_int.

Theorem C18_overflow_is_prime_check_fits :
  forall maxT p, 2 <= p -> (Z.sqrt p + 1) * (Z.sqrt p + 1) <= maxT ->
  fits maxT (snd (is_prime_tr true p)).
Proof. exact is_prime_chk_fits. Qed.
Print Assumptions C18_overflow_is_prime_check_fits.

(* Defect (PARMCB_INVARIANTS_CHECK): for every odd p in [46340^2, 2^31 - 1] — e.g. the prime 2^31 - 1 —
   primes<int>::is_prime evaluates sqrtt * sqrtt >= 46341^2 > 2^31 - 1. *)
Theorem C18_overflow_is_prime_check_refuted :
  forall p, 46340 * 46340 <= p <= 2 ^ 31 - 1 -> Z.rem p 2 <> 0 ->
  ~ fits (2 ^ 31 - 1) (snd (is_prime_tr true p)).
Proof. exact is_prime_check_overflows. Qed.
Print Assumptions C18_overflow_is_prime_check_refuted.

(* ---- SpVecFP ------------------------------------------------------------------------------- *)

(* For every modulus p >= 2 and every history of SpVecFP operations from empty vectors whose scalars satisfy
   |c| <= B: every value (value + v_value, value * a, value * v_value, res + v, every `% p` result, every step
   of the normalisation loops, the scalars, p) is bounded by (p-1) * max(2, p-1, B); every divisor is p. *)
Theorem C18_overflow_spvecfp :
  forall p B K ops, 2 <= p -> 0 <= B -> Forall (fop_scalar_le B) ops ->
  let M := (p - 1) * Z.max 2 (Z.max (p - 1) B) in
  trace_in (- M) M (snd (frun_tr_dump p K ops)).
Proof. exact frun_tr_bound. Qed.
Print Assumptions C18_overflow_spvecfp.

Theorem C18_overflow_spvecfp_longlong :
  forall p B K ops, 2 <= p -> 0 <= B -> Forall (fop_scalar_le B) ops ->
  (p - 1) * Z.max 2 (Z.max (p - 1) B) <= 2 ^ 63 - 1 ->
  fits (2 ^ 63 - 1) (snd (frun_tr_dump p K ops)).
Proof. exact spvecfp_ll. Qed.
Print Assumptions C18_overflow_spvecfp_longlong.

Theorem C18_overflow_spvecfp_int :
  forall p B K ops, 2 <= p -> 0 <= B -> Forall (fop_scalar_le B) ops ->
  (p - 1) * Z.max 2 (Z.max (p - 1) B) <= 2 ^ 31 - 1 ->
  fits (2 ^ 31 - 1) (snd (frun_tr_dump p K ops)).
Proof. exact spvecfp_int. Qed.
Print Assumptions C18_overflow_spvecfp_int.

(* The bound is sharp for long long: with p = 3037000500 the product (p-1)^2 = 9223372030926249001 is
   evaluated and everything fits; with p = 3037000501 the product (p-1)^2 exceeds 2^63 - 1. *)
Theorem C18_overflow_spvecfp_sharp :
  vec_bound 3037000500 3037000499 <= 2 ^ 63 - 1 /\
  In (Val (3037000499 * 3037000499)) (snd (frun_tr_dump 3037000500 2 (sharp_history 3037000499))) /\
  2 ^ 63 - 1 < vec_bound 3037000501 1 /\
  ~ fits (2 ^ 63 - 1) (snd (frun_tr_dump 3037000501 2 (sharp_history 1))).
Proof. exact spvecfp_sharp_ll. Qed.
Print Assumptions C18_overflow_spvecfp_sharp.

(* ---- non-vacuity --------------------------------------------------------------------------- *)

(* computed traces: ext_gcd(-240, 46) with the assertion (60 events, largest value 2162 = 46 * 47 <= 240*46/2),
   without it (largest 240); is_prime(25) with the check (36 = 6*6); a history over Z/7 with a negative scalar *)
Example C18_overflow_nonvacuous :
  ext_gcd_tr false (-240) 46 =
    (GcdOk 2 9 47,
     [Val (-240); Val 46; Val 1; Val 0; Val 0; Val 1; Val 240;
      Dvs 46; Val 5; Dvs 46; Val 10; Dvs 46; Val 10; Val 0; Val 1; Val 5; Val (-5);
      Dvs 10; Val 4; Dvs 10; Val 6; Dvs 10; Val 6; Val 4; Val (-4); Val (-20); Val 21;
      Dvs 6; Val 1; Dvs 6; Val 4; Dvs 6; Val 4; Val (-4); Val 5; Val 21; Val (-26);
      Dvs 4; Val 1; Dvs 4; Val 2; Dvs 4; Val 2; Val 5; Val (-9); Val (-26); Val 47;
      Dvs 2; Val 2; Dvs 2; Val 0;
      Val (-1); Val 9; Val 1; Val 47]) /\
  tsummary (snd (ext_gcd_tr false (-240) 46)) = (-240, 240, 2) /\
  tsummary (snd (ext_gcd_tr true (-240) 46)) = (-2160, 2162, 2) /\
  tsummary (snd (mult_inverse_tr false (-38) 2147483629)) = (-734665452, 2147483629, 1) /\
  is_prime_tr true 25 =
    (false, [Val 25; Val 1; Val 2; Dvs 2; Val 1; Val 0; Val 5; Val 6; Val 36;
             Dvs 5; Val 0; Dvs 4; Val 1; Val 5; Dvs 3; Val 1; Val 4; Dvs 2; Val 1; Val 3]) /\
  (let ops := [FUnit 0 3; FScaleAssign 0 (-1); FDot 0 0; FAddAssign 0 0; FScale 1 0 (-100)] in
   Forall (fop_scalar_le 100) ops /\
   frun_tr_dump 7 3 ops =
     (([FOutZ 1], [[(3%nat, 5)]; [(3%nat, 4)]; []]),
      [Val 7; Val 1; Val (-1); Val (-1); Dvs 7; Val (-1); Val 6;
       Val 0; Val 36; Dvs 7; Val 1; Val 1; Dvs 7; Val 1;
       Val 12; Dvs 7; Val 5;
       Val (-100); Val (-500); Dvs 7; Val (-3); Val 4]) /\
   vec_bound 7 100 = 600).
Proof.
  repeat match goal with |- _ /\ _ => split end; try (vm_compute; reflexivity).
  cbv zeta. repeat constructor; cbn [fop_scalar_le]; vm_compute; discriminate.
Qed.
