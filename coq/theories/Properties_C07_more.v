(* Properties_C07_more.v — C07, logic half, continued: "no error branch on valid inputs" for the models that
   Properties_C07.v does not mention.  As there, each error value of a model stands for an operation that is undefined
   behaviour or an uncaught exception in the C++ (out-of-range index, missing std::map key, null tree node, a loop running
   past its data = fuel, an assert that a cycle was found, a collective some rank never joins).  Every statement is a
   re-export (exact / a few lines) of a theorem proved for the component; nothing new is proved here.

     C07_signed_tbb_no_error        mcb_sva_signed_tbb: SvaOk for every schedule bit stream and insertion order
     C07_mpi_no_deadlock            mcb_sva_signed_mpi, ANY graph/weight type/order oracle: the P rank programs end Done
     C07_mpi_trees_no_deadlock      the MPI tree variants' collective structure, any candidate list and lookup: Done
     C07_mpi_signed_no_error        mcb_sva_signed_mpi (fixed order) on valid inputs: index exists, Done, P results, every rank
                                    result is a RankOut without failure flag (no RankProtocol, no SvaError / SvaNoCycle)
     C07_mpi_signed_orig_no_error   the same for the code as found when the ranks' pointer orders agree
     C07_trees_lookup_no_error      ShortestOddCycleLookup / update_parities over the collection of ANY of the three builders,
                                    for EVERY signed edge set: TrOk — never TrNoNode (null node / child without predecessor
                                    edge), TrRange (trees[c.tree()] out of range, edge id without endpoints), TrFuel
     C07_trees_run_no_error         mcb_sva_fvs_trees / mcb_sva_iso_trees / Horton: the deterministic resolution ends
                                    TRun (SvaOk ..) — no TNoCollection, no PError phase, no SvaNoCycle
     C07_iso_builder_no_error       the isometric builder: CdOk — no CdInconsistent (cycle_to_vertex partner key missing),
                                    no missing tree / node, no fuel exhaustion
     C07_approx_signed_no_error     approx_mcb_sva_signed, k >= 1, every scan order: ApproxOk — none of AeSpanner, AeExact,
                                    AeMap (_edge_spanner_to_g.at), AeEdge, AeDijkstra, AeChain
     C07_approx_no_error_modulo_exact   approx_run for ANY exact phase that answers SvaOk with valid spanner edge ids
     C07_approx_k0_throws           k = 0 is the documented std::runtime_error (ApproxThrow), not an error branch
     C07_dijkstra_no_error          parmcb::dijkstra on non-negative weights: DjOk — no DjFuel, no DjBroken (update of an
                                    entry that left the queue)
   Not restated (already in Properties_C07.v): forest index, greedy_fvs fuel, spanner, bidirectional search, sequential signed
   run, SPTree, Horton/FVS builders, overflow bounds.  Memory behaviour of the compiled code: sanitizer runs of c07.py. *)
From Coq Require Import List Arith Bool ZArith Permutation.
From Parmcb Require Import GraphModel GraphSpec McbSpec ForestModel FvsModel SvaModel SignedModel SignedZModel
     LexSPModel CandidatesModel TreesModel TreesProofs2 TreesProofs3 SchedModel ParSignedModel MpiModel MpiSignedModel
     MpiProofs1 MpiProofs4 SpannerModel DijkstraModel ApproxModel.
From Parmcb Require Properties_C01_trees Properties_C03 Properties_C04 Properties_C05 Properties_C06 Properties_C14.
Import ListNotations.

(* ---- TBB, signed ------------------------------------------------------------------------------------------------------ *)

Theorem C07_signed_tbb_no_error :
  forall (g : graph) (wts : list Z) (roots eord : list nat) (bits : list bool) (perm : list nat),
    simple_graph g -> positive_weights g wts -> (forall v, v < nv g -> In v roots) ->
    exists cycles total sup pos, mcb_sva_signed_tbb_Z g wts roots eord bits perm = (SvaOk cycles total sup, pos).
Proof.
  intros g wts roots eord bits perm Hs Hw Hr.
  destruct (Properties_C03.C03_signed_tbb g wts roots eord bits perm Hs Hw Hr) as (c & t & s & p & H & _).
  exists c, t, s, p. exact H.
Qed.
Print Assumptions C07_signed_tbb_no_error.

(* ---- MPI -------------------------------------------------------------------------------------------------------------- *)

(* no deadlock / bad root / bad scatter / bad oracle / fuel: for ANY input on which the forest index exists, any weight
   type, any per-rank order oracle, every P >= 1 and all reduction trees over valid ranks *)
Theorem C07_mpi_no_deadlock : forall (W : Type) (w0 : W) (wadd : W -> W -> W) (wltb : W -> W -> bool)
    g wts roots P ord rtree_of fi,
  1 <= P -> (forall k r, In r (rleaves (rtree_of k)) -> r < P) ->
  create_index g roots = Some fi ->
  exists rs, mcb_sva_signed_mpi_gen W w0 wadd wltb g wts roots P ord rtree_of = Some (Done rs) /\ length rs = P.
Proof.
  intros W w0 wadd wltb g wts roots P ord rt fi HP Hrt Hfi.
  destruct (Properties_C04.C04b_no_deadlock W w0 wadd wltb g wts roots P ord rt fi HP Hrt Hfi) as (r0 & rest & E & L & _).
  exists (r0 :: rest). split; [exact E|]. cbn [length]. rewrite L. destruct P; [inversion HP|]. cbn. rewrite Nat.sub_0_r. reflexivity.
Qed.
Print Assumptions C07_mpi_no_deadlock.

Theorem C07_mpi_trees_no_deadlock : forall (W : Type) (w0 : W) (wadd : W -> W -> W) (wltb : W -> W -> bool)
    (fi : forest_index) (P : nat) (rtree_of : nat -> rtree)
    (cands : list (nat * nat)) (lookup : list (nat * nat) -> nat -> vec -> lres W),
  1 <= P -> (forall k r, In r (rleaves (rtree_of k)) -> r < P) ->
  exists rs, run_spmd W wltb fi P rtree_of (spmd_trees W w0 wadd fi P cands lookup) = Done rs /\ length rs = P.
Proof.
  intros W w0 wadd wltb fi P rt cands lookup HP Hrt.
  destruct (Properties_C04.C04b_no_deadlock_trees W w0 wadd wltb fi P rt cands lookup HP Hrt) as (r0 & rest & E & L & _).
  exists (r0 :: rest). split; [exact E|]. cbn [length]. rewrite L. destruct P; [inversion HP|]. cbn. rewrite Nat.sub_0_r. reflexivity.
Qed.
Print Assumptions C07_mpi_trees_no_deadlock.

(* a rank result without failure flag: neither RankProtocol nor a SvaError / SvaNoCycle answer *)
Definition rank_clean (x : rank_result Z) : Prop := exists cycles total sup, x = RankOut cycles total sup None.

Theorem C07_mpi_signed_no_error : forall g wts roots P rtree_of,
  simple_graph g -> positive_weights g wts -> (forall v, v < nv g -> In v roots) ->
  1 <= P -> (forall k, rtree_ok P (rtree_of k)) ->
  exists fi rs, create_index g roots = Some fi /\
    mcb_sva_signed_mpi_fixed_Z g wts roots P rtree_of = Some (Done rs) /\ length rs = P /\ Forall rank_clean rs.
Proof.
  intros g wts roots P rt Hs Hw Hr HP Hrt.
  destruct (Properties_C04.C04c_result_fixed g wts roots P rt Hs Hw Hr HP Hrt)
    as (fi & c & t & s & rest & Hfi & E & L & Hsil & _).
  exists fi, (RankOut c t s None :: rest). split; [exact Hfi|]. split; [exact E|]. split.
  - cbn [length]. rewrite L. destruct P; [inversion HP|]. cbn. rewrite Nat.sub_0_r. reflexivity.
  - constructor; [exists c, t, s; reflexivity|]. eapply Forall_impl; [|exact Hsil].
    intros x Hx. unfold silent in Hx. rewrite Hx. eexists; eexists; eexists; reflexivity.
Qed.
Print Assumptions C07_mpi_signed_no_error.

Theorem C07_mpi_signed_orig_no_error : forall g wts roots P eords rtree_of,
  simple_graph g -> positive_weights g wts -> (forall v, v < nv g -> In v roots) ->
  1 <= P -> (forall k, rtree_ok P (rtree_of k)) ->
  (forall r, r < P -> nth r eords [] = nth 0 eords []) ->
  exists fi rs, create_index g roots = Some fi /\
    mcb_sva_signed_mpi_orig_Z g wts roots P eords rtree_of = Some (Done rs) /\ length rs = P /\ Forall rank_clean rs.
Proof.
  intros g wts roots P eords rt Hs Hw Hr HP Hrt Hag.
  destruct (Properties_C04.C04c_result_orig_agreeing_orders g wts roots P eords rt Hs Hw Hr HP Hrt Hag)
    as (fi & c & t & s & rest & Hfi & E & L & Hsil & _).
  exists fi, (RankOut c t s None :: rest). split; [exact Hfi|]. split; [exact E|]. split.
  - cbn [length]. rewrite L. destruct P; [inversion HP|]. cbn. rewrite Nat.sub_0_r. reflexivity.
  - constructor; [exists c, t, s; reflexivity|]. eapply Forall_impl; [|exact Hsil].
    intros x Hx. unfold silent in Hx. rewrite Hx. eexists; eexists; eexists; reflexivity.
Qed.
Print Assumptions C07_mpi_signed_orig_no_error.

(* ---- tree variants ------------------------------------------------------------------------------------------------------ *)

(* the per-phase lookup (update_parities over every tree + the candidate scan) on the collection of any builder, for EVERY
   signed edge set sg — not only the ones the run produces *)
Theorem C07_trees_lookup_no_error :
  forall (b : tbuilder) (g : graph) (wts : list Z) (picks : list nat) trees cands (sg : list nat),
    simple_graph g -> positive_weights g wts ->
    tb_collection Z 0%Z Z.add Z.ltb b g wts picks = CdOk (trees, cands) ->
    exists l, tl_answers_Z g wts trees cands sg = TrOk l /\ map fst l = cands.
Proof.
  intros b g wts picks trees cands sg Hs Hw Hc.
  destruct (tr_collection_ok b g wts picks trees cands Hs Hw Hc) as [HF Hsound].
  destruct (tb_answers_ok g wts Hs trees cands sg HF Hsound) as (l & Hl & Hm & _).
  exists l. split; [exact Hl|exact Hm].
Qed.
Print Assumptions C07_trees_lookup_no_error.

(* whole runs: the builder returns a collection, every phase's lookup answers, every phase finds a cycle *)
Theorem C07_trees_run_no_error :
  forall (g : graph) (wts : list Z) (roots : list nat),
    simple_graph g -> positive_weights g wts -> (forall v, v < nv g -> In v roots) ->
    (forall picks fvs, greedy_fvs g picks = FvsOk fvs ->
       exists cycles total sup, mcb_sva_trees_first_Z TbFvs g wts roots picks = TRun (SvaOk cycles total sup)) /\
    (forall picks, exists cycles total sup, mcb_sva_trees_first_Z TbIso g wts roots picks = TRun (SvaOk cycles total sup)) /\
    (forall picks, exists cycles total sup, mcb_sva_trees_first_Z TbHorton g wts roots picks = TRun (SvaOk cycles total sup)).
Proof.
  intros g wts roots Hs Hw Hr. split; [|split].
  - intros picks fvs Hf.
    destruct (proj1 (Properties_C01_trees.C01_fvs_trees g wts roots picks fvs Hs Hw Hr Hf)) as (c & t & s & H & _).
    exists c, t, s. exact H.
  - intros picks.
    destruct (proj1 (Properties_C01_trees.C01_iso_trees g wts roots picks Hs Hw Hr)) as (c & t & s & H & _).
    exists c, t, s. exact H.
  - intros picks.
    destruct (proj1 (Properties_C01_trees.C01_horton_trees g wts roots picks Hs Hw Hr)) as (c & t & s & H & _).
    exists c, t, s. exact H.
Qed.
Print Assumptions C07_trees_run_no_error.

Theorem C07_iso_builder_no_error : forall g wts, simple_graph g -> positive_weights g wts ->
  exists trees cs, iso_cycles_Z g wts = CdOk (trees, cs).
Proof. exact Properties_C14.C14_iso_total. Qed.
Print Assumptions C07_iso_builder_no_error.

(* ---- approximate algorithms ---------------------------------------------------------------------------------------------- *)

Theorem C07_approx_signed_no_error :
  forall g w k scan roots eord,
    simple_graph g -> positive_weights g w -> 1 <= k -> Permutation scan (seq 0 (ne g)) ->
    (forall v, v < nv g -> In v roots) ->
    exists cycles total, approx_sva_signed_Z g w k scan roots eord = ApproxOk cycles total.
Proof.
  intros g w k scan roots eord Hs Hw Hk Hp Hr.
  destruct (Properties_C05.C05_signed g w k scan roots eord Hs Hw Hk Hp Hr) as (c & t & H & _).
  exists c, t. exact H.
Qed.
Print Assumptions C07_approx_signed_no_error.

Theorem C07_approx_no_error_modulo_exact :
  forall (exact : graph -> list Z -> sva_result Z) g w k scan,
    simple_graph g -> positive_weights g w -> 1 <= k -> Permutation scan (seq 0 (ne g)) ->
    (forall sp, construct_spanner g k scan = SpOk sp ->
       exists cs t sup, exact (sp_graph sp) (spanner_weights w sp) = SvaOk cs t sup
                        /\ Forall (Forall (fun i => i < ne (sp_graph sp))) cs) ->
    exists cycles total, approx_run exact g w k scan = ApproxOk cycles total.
Proof. exact Properties_C05.C05_no_error_modulo_exact. Qed.
Print Assumptions C07_approx_no_error_modulo_exact.

Theorem C07_approx_k0_throws :
  forall (exact : graph -> list Z -> sva_result Z) g w scan,
    simple_graph g -> Permutation scan (seq 0 (ne g)) -> approx_run exact g w 0 scan = ApproxThrow.
Proof. exact Properties_C06.C06_k0. Qed.
Print Assumptions C07_approx_k0_throws.

(* ---- plain Dijkstra -------------------------------------------------------------------------------------------------------- *)

Theorem C07_dijkstra_no_error :
  forall h wts s,
    (forall e x y, ends h e = Some (x, y) -> x < nv h /\ y < nv h) -> s < nv h ->
    (forall e, (0 <= nth e wts 0)%Z) ->
    exists dist pred, dijkstra Z 0%Z Z.add Z.ltb h wts s = DjOk dist pred.
Proof.
  intros h wts s He Hs Hw. destruct (Properties_C06.C06_dijkstra h wts s He Hs Hw) as (d & p & H & _).
  exists d, p. exact H.
Qed.
Print Assumptions C07_dijkstra_no_error.

(* ---- non-vacuity: K4 with unit weights (the graph of C02_signed_nonvacuous) satisfies the hypotheses; the models compute --- *)
From Parmcb Require Import SignedProofs2.

Example C07_more_nonvacuous :
  simple_graph sg_k4 /\ positive_weights sg_k4 sg_k4_wts /\ (forall v, v < nv sg_k4 -> In v sg_k4_roots) /\
  fst (mcb_sva_signed_tbb_Z sg_k4 sg_k4_wts sg_k4_roots sg_k4_eord [true; false] [1; 2; 0])
    = SvaOk [[0;1;3];[0;2;4];[1;2;5]] 9%Z [[2];[0;2];[1;2]] /\
  (exists rs, mcb_sva_signed_mpi_fixed_Z sg_k4 sg_k4_wts sg_k4_roots 3 (fun _ => boost_reduce_tree 3) = Some (Done rs)
              /\ length rs = 3) /\
  (exists trees cs, iso_cycles_Z sg_k4 sg_k4_wts = CdOk (trees, cs) /\ cs <> [] /\
     exists l, tl_answers_Z sg_k4 sg_k4_wts trees cs [0; 3] = TrOk l /\ length l = length cs) /\
  approx_sva_signed_Z sg_k4 sg_k4_wts 2 [0; 1; 2; 3; 4; 5] sg_k4_roots sg_k4_eord
    = ApproxOk [[1; 0; 3]; [2; 0; 4]; [2; 1; 5]] 9%Z.
Proof.
  split; [exact sg_k4_simple|]. split; [exact sg_k4_positive|]. split; [exact sg_k4_roots_cover|].
  split; [vm_compute; reflexivity|].
  split; [eexists; split; vm_compute; reflexivity|].
  split; [|vm_compute; reflexivity].
  eexists; eexists. split; [vm_compute; reflexivity|]. split; [discriminate|].
  eexists. split; vm_compute; reflexivity.
Qed.
