(* DemoE2E.v — end-to-end composition for the demo programs (property C11):

       file text --DimacsModel.read--> graph --validators--> verdicts --DemoModel.demo_*--> outcome
                                         \--to_graph / scaled_weights--> (GraphModel.graph, list Z) --entry-point models--> value

   Nothing is extracted from this file, so definitions and proofs live together.  The final statements are restated in
   Properties_C11_e2e.v.

   WEIGHT DOMAIN.  DimacsModel keeps the exact rational value (Q, reduced) of every weight literal; the models of the
   library entry points are over Z (the exact domain).  The bridge is [scaled_weights d gr]: every weight multiplied by a
   common denominator d of the file's weights ([common_den d gr]: each reduced denominator divides d).  d = 1 is the case
   "all weights of the file are integers" ([integer_weights], [scaled_weights_int]: the weight list is then the list of
   numerators).  What the theorems say for d > 1 is a statement about the entry-point models run on the d-SCALED integer
   graph; that the real double-precision run on the unscaled file prints (that value)/d is NOT a theorem (it is the
   exactness clause of C09 / the correspondence checks).  [scaled_opt_coherent] shows that the rational (optimum of the
   d-scaled graph)/d does not depend on the common denominator chosen.

   ENTRY POINTS.  [can_return P g w c x] = "x is a value the model of entry point c can return on (g, w)", existential over
   every oracle of that model (BFS root order covering all vertices, pointer order of the edge descriptors, schedule bit
   stream and insertion order for TBB, greedy_fvs picks + the accepted resolution of std::sort for the tree variants,
   reduction trees for MPI with P ranks, the scan order of std::sort for the spanner).  It is defined for the calls that
   have a premise-free model theorem ([covered]):
       CallMcb Signed false        SignedZModel.mcb_sva_signed_Z                  (C02_signed)
       CallMcb Signed true         ParSignedModel.mcb_sva_signed_tbb_Z            (C03_signed_tbb)
       CallMcb FvsTrees false      TreesModel.mcb_sva_trees_accept_Z TbFvs        (C02_fvs_trees, acceptance form)
       CallMcb IsoTrees false      TreesModel.mcb_sva_trees_accept_Z TbIso        (C02_iso_trees, acceptance form)
       CallMpi Signed              MpiSignedModel.mcb_sva_signed_mpi_fixed_Z, or .._orig_Z with agreeing pointer orders
                                                                                  (C04c_result_fixed / _orig_agreeing_orders)
       CallApprox Signed false k   ApproxModel.approx_sva_signed_Z                (C05_signed / C06_global_signed)
   NOT covered (no exact model exists): CallMcb FvsTrees true, CallMcb IsoTrees true (tree variants under TBB),
   CallMpi FvsTrees, CallMpi IsoTrees (MPI tree variants), CallApprox _ true _ (TBB approximate variants),
   CallApprox FvsTrees/IsoTrees false _ (approximate tree variants), CallStats.  For these the end-to-end theorems carry the
   explicit premise "the value the entry point returned is the optimum" ([.._modulo_entry_point]). *)
From Coq Require Import ZArith List Bool QArith Qreduction Lia Permutation Sorted.
From Parmcb Require Import DimacsModel DimacsValProofs DimacsProofs.
From Parmcb Require Import GraphModel GraphSpec McbSpec SvaModel SvaSpec OptSpec ForestModel FvsModel
     SignedZModel TreesModel ParSignedModel MpiModel MpiSignedModel MpiProofs1 ApproxModel.
From Parmcb Require Import DemoModel DemoProofs.
From Parmcb Require Properties_C02 Properties_C02_trees Properties_C03 Properties_C04 Properties_C05 Properties_C06
     Properties_C08 Properties_C10 Properties_C13.
Import ListNotations.
Local Open Scope Z_scope.

(* ==================================================================================================================== *)
(* 1. from the reader's graph to the graph of the MCB models                                                            *)
(* ==================================================================================================================== *)

(* vertex descriptors are already 0-based in DimacsModel.graph (the 1-based file numbers are mapped by the reader);
   edge id = position in the edge list = file order = insertion order, on both sides *)
Definition conv_edge (e : wedge) : nat * nat := (Z.to_nat (e_src e), Z.to_nat (e_tgt e)).

Definition to_graph (gr : DimacsModel.graph) : GraphModel.graph :=
  {| nv := Z.to_nat (fst gr); ge := map conv_edge (snd gr) |}.

(* weight q = a/b (reduced) scaled by d, b | d:  a * (d / b) *)
Definition scaled_weight (d : positive) (q : Q) : Z := Qnum q * (Zpos d / Zpos (Qden q)).
Definition scaled_weights (d : positive) (gr : DimacsModel.graph) : list Z :=
  map (fun e : wedge => scaled_weight d (e_wt e)) (snd gr).
Definition int_weights (gr : DimacsModel.graph) : list Z := map (fun e : wedge => Qnum (e_wt e)) (snd gr).

Definition common_den (d : positive) (gr : DimacsModel.graph) : Prop :=
  forall e, In e (snd gr) -> (Zpos (Qden (e_wt e)) | Zpos d).
Definition integer_weights (gr : DimacsModel.graph) : Prop :=
  forall e, In e (snd gr) -> Qden (e_wt e) = 1%positive.

(* what the three validators answer on the graph that was read *)
Definition verdicts_of (gr : DimacsModel.graph) : verdicts :=
  {| v_loops := has_loops gr; v_multi := has_multiple_edges gr; v_nonpos := has_non_positive_weights gr |}.

(* the three defects, as statements about the multigraph *)
Definition has_self_loop (gr : DimacsModel.graph) : Prop := exists e, In e (snd gr) /\ is_loop e.
Definition has_repeated_pair (gr : DimacsModel.graph) : Prop := Repeat (snd gr).
Definition has_bad_weight (gr : DimacsModel.graph) : Prop := exists e, In e (snd gr) /\ (e_wt e <= 0)%Q.
Definition defective (gr : DimacsModel.graph) : Prop := has_self_loop gr \/ has_repeated_pair gr \/ has_bad_weight gr.
Definition clean (gr : DimacsModel.graph) : Prop := ~ has_self_loop gr /\ ~ has_repeated_pair gr /\ ~ has_bad_weight gr.

(* ---- the conversion preserves vertex count, edge count, endpoints and order ---- *)

Lemma to_graph_nv gr : nv (to_graph gr) = Z.to_nat (fst gr).
Proof. reflexivity. Qed.

Lemma to_graph_ne gr : ne (to_graph gr) = length (snd gr).
Proof. unfold ne, to_graph; cbn [ge]. apply map_length. Qed.

Lemma to_graph_ends gr i :
  ends (to_graph gr) i = option_map conv_edge (nth_error (snd gr) i).
Proof. unfold ends, to_graph; cbn [ge]. apply nth_error_map. Qed.

Lemma scaled_weights_length d gr : length (scaled_weights d gr) = ne (to_graph gr).
Proof. rewrite to_graph_ne. unfold scaled_weights. apply map_length. Qed.

Lemma scaled_weights_nth d gr i e :
  nth_error (snd gr) i = Some e -> nth_error (scaled_weights d gr) i = Some (scaled_weight d (e_wt e)).
Proof. intros H. unfold scaled_weights. rewrite nth_error_map, H. reflexivity. Qed.

Lemma integer_common_den gr : integer_weights gr <-> common_den 1 gr.
Proof.
  unfold integer_weights, common_den. split; intros H e He.
  - rewrite (H e He). exists 1. reflexivity.
  - specialize (H e He). apply Z.divide_1_r_nonneg in H; [|lia]. congruence.
Qed.

Lemma scaled_weights_int gr : integer_weights gr -> scaled_weights 1 gr = int_weights gr.
Proof.
  intros H. unfold scaled_weights, int_weights. apply map_ext_in. intros e He.
  unfold scaled_weight. rewrite (H e He). change (1 / 1) with 1. apply Z.mul_1_r.
Qed.

(* the scaled weight IS d times the rational weight *)
Lemma scaled_weight_value d q : (Zpos (Qden q) | Zpos d) -> (inject_Z (scaled_weight d q) == inject_Z (Zpos d) * q)%Q.
Proof.
  intros [c Hc]. unfold scaled_weight. rewrite Hc, Z.div_mul by lia.
  unfold Qeq, inject_Z, Qmult; cbn [Qnum Qden]. rewrite Pos.mul_1_l. ring.
Qed.

(* ---- well-formedness of what the reader returns on a well-formed text ---- *)

Lemma denot_wf l : layout_ok l = true -> graph_wf (denot l).
Proof.
  unfold layout_ok, graph_wf, denot; cbn [fst snd]. intros H e He.
  apply andb_true_iff in H. destruct H as [_ Hb].
  rewrite forallb_forall in Hb.
  apply in_flat_map in He. destruct He as (ln & Hln & Hin).
  specialize (Hb ln Hln). destruct ln as [t|el]; [destruct Hin|].
  destruct Hin as [<-|[]]. cbn [line_ok] in Hb. unfold edge_ok in Hb.
  apply andb_true_iff in Hb. destruct Hb as [_ Hd]. unfold declared in Hd.
  repeat (apply andb_true_iff in Hd; destruct Hd as [Hd ?]).
  unfold e_src, e_tgt; cbn [fst snd]. lia.
Qed.

(* ---- validators <-> defects ---- *)

Lemma verdicts_invalid gr : graph_wf gr -> (defective gr <-> invalid (verdicts_of gr)).
Proof.
  intros Hwf. unfold defective, invalid, verdicts_of; cbn [v_loops v_multi v_nonpos].
  pose proof (has_loops_spec gr) as HL. pose proof (has_multiple_edges_spec gr Hwf) as HM.
  pose proof (has_nonpos_spec gr) as HN. unfold has_self_loop, has_repeated_pair, has_bad_weight.
  split.
  - intros [H|[H|H]]; [left; apply HL; exact H|right; left; apply HM; right; exact H|right; right; apply HN; exact H].
  - intros [H|[H|H]]; [left; apply HL; exact H| |right; right; apply HN; exact H].
    apply HM in H. destruct H as [H|H]; [left; exact H|right; left; exact H].
Qed.

Lemma verdicts_valid gr : graph_wf gr -> (clean gr <-> valid (verdicts_of gr)).
Proof.
  intros Hwf. pose proof (verdicts_invalid gr Hwf) as HI. split.
  - intros (H1 & H2 & H3). destruct (valid_or_invalid (verdicts_of gr)) as [H|H]; [exact H|].
    apply HI in H. destruct H as [H|[H|H]]; contradiction.
  - intros Hv. pose proof (valid_not_invalid _ Hv) as Hn. unfold clean.
    repeat split; intros H; apply Hn, HI; [left|right; left|right; right]; exact H.
Qed.

(* the diagnostic of the gate, read off the multigraph: the first defect in the order loops, repeated pair, weights *)
Lemma gate_diag_file gr : graph_wf gr ->
  (has_self_loop gr -> gate_diag (verdicts_of gr) = DLoops) /\
  (~ has_self_loop gr -> has_repeated_pair gr -> gate_diag (verdicts_of gr) = DMulti) /\
  (~ has_self_loop gr -> ~ has_repeated_pair gr -> has_bad_weight gr -> gate_diag (verdicts_of gr) = DNonPos).
Proof.
  intros Hwf. unfold gate_diag, verdicts_of; cbn [v_loops v_multi v_nonpos].
  pose proof (has_loops_spec gr) as HL. pose proof (has_multiple_edges_spec gr Hwf) as HM.
  pose proof (has_nonpos_spec gr) as HN. unfold has_self_loop, has_repeated_pair, has_bad_weight.
  split; [|split].
  - intros H. apply HL in H. rewrite H. reflexivity.
  - intros H1 H2. destruct (has_loops gr) eqn:E; [exfalso; apply H1, HL; reflexivity|].
    assert (Hm : has_multiple_edges gr = true) by (apply HM; right; exact H2). rewrite Hm. reflexivity.
  - intros H1 H2 H3. destruct (has_loops gr) eqn:E; [exfalso; apply H1, HL; reflexivity|].
    destruct (has_multiple_edges gr) eqn:E2.
    + exfalso. destruct (proj1 HM eq_refl) as [H|H]; contradiction.
    + apply HN in H3. rewrite H3. reflexivity.
Qed.

(* ---- simple_graph (to_graph gr)  <->  no self-loop and no repeated pair ---- *)

Lemma conv_same_pair (e e' : wedge) :
  0 <= e_src e -> 0 <= e_tgt e -> 0 <= e_src e' -> 0 <= e_tgt e' ->
  (GraphModel.same_pair (conv_edge e) (conv_edge e') = true <-> DimacsValProofs.same_pair e e').
Proof.
  intros H1 H2 H3 H4. unfold GraphModel.same_pair, DimacsValProofs.same_pair, conv_edge; cbn [fst snd].
  rewrite orb_true_iff, !andb_true_iff, !Nat.eqb_eq. rewrite !Z2Nat.inj_iff by assumption. tauto.
Qed.

Definition nonneg_ends (es : list wedge) : Prop := forall e, In e es -> 0 <= e_src e /\ 0 <= e_tgt e.

Lemma no_parallel_conv es : nonneg_ends es -> (no_parallel (map conv_edge es) = true <-> ~ Repeat es).
Proof.
  induction es as [|e r IH]; intros Hnn.
  - cbn. split; [intros _ H; inversion H|reflexivity].
  - assert (Hr : nonneg_ends r) by (intros x Hx; apply Hnn; right; exact Hx).
    destruct (Hnn e (or_introl eq_refl)) as [He1 He2].
    cbn [map no_parallel]. rewrite andb_true_iff, negb_true_iff, (IH Hr). split.
    + intros [Hex Hrr] HR. inversion HR as [e0 es0 e' Hin Hsp|e0 es0 HR']; subst.
      * destruct (Hr e' Hin) as [A B].
        assert (X : existsb (GraphModel.same_pair (conv_edge e)) (map conv_edge r) = true).
        { apply existsb_exists. exists (conv_edge e'). split; [apply in_map; exact Hin|].
          apply conv_same_pair; assumption. }
        congruence.
      * contradiction.
    + intros HnR. split.
      * destruct (existsb (GraphModel.same_pair (conv_edge e)) (map conv_edge r)) eqn:E; [|reflexivity].
        exfalso. apply existsb_exists in E. destruct E as (x & Hx & Hsp).
        apply in_map_iff in Hx. destruct Hx as (e' & <- & Hin). destruct (Hr e' Hin) as [A B].
        apply HnR. apply (Rep_here e r e' Hin). apply conv_same_pair; assumption.
      * intros HR. apply HnR. apply Rep_later. exact HR.
Qed.

Lemma to_graph_simple gr : graph_wf gr ->
  (simple_graph (to_graph gr) <-> ~ has_self_loop gr /\ ~ has_repeated_pair gr).
Proof.
  intros Hwf. unfold simple_graph, simpleb, has_self_loop, has_repeated_pair.
  assert (Hnn : nonneg_ends (snd gr)) by (intros e He; destruct (Hwf e He); lia).
  rewrite andb_true_iff. cbn [to_graph ge nv]. rewrite (no_parallel_conv (snd gr) Hnn).
  rewrite forallb_forall. split.
  - intros [Hf HR]. split; [|exact HR]. intros (e & He & Hl).
    specialize (Hf (conv_edge e) (in_map conv_edge _ _ He)). unfold conv_edge in Hf; cbn [fst snd] in Hf.
    unfold is_loop in Hl. rewrite Hl in Hf. rewrite Nat.eqb_refl in Hf. rewrite andb_false_r in Hf. discriminate.
  - intros [HnL HR]. split; [|exact HR]. intros x Hx. apply in_map_iff in Hx. destruct Hx as (e & <- & He).
    destruct (Hwf e He) as [[A1 A2] [B1 B2]]. unfold conv_edge; cbn [fst snd].
    rewrite !andb_true_iff, negb_true_iff, !Nat.ltb_lt, Nat.eqb_neq. repeat split; try lia.
    intros E. apply HnL. exists e. split; [exact He|]. unfold is_loop. apply Z2Nat.inj; assumption.
Qed.

(* ---- positive_weights  <->  no non-positive weight ---- *)

Lemma not_Qle0 q : ~ (q <= 0)%Q <-> 0 < Qnum q.
Proof. unfold Qle; cbn [Qnum Qden]. lia. Qed.

Lemma scaled_weight_pos d q : (Zpos (Qden q) | Zpos d) -> (0 < scaled_weight d q <-> 0 < Qnum q).
Proof.
  intros [c Hc]. unfold scaled_weight. rewrite Hc, Z.div_mul by lia.
  assert (0 < c) by nia. split; nia.
Qed.

Lemma to_graph_positive d gr : common_den d gr ->
  (positive_weights (to_graph gr) (scaled_weights d gr) <-> ~ has_bad_weight gr).
Proof.
  intros Hd. unfold positive_weights, has_bad_weight. split.
  - intros [_ HF] (e & He & Hle). unfold scaled_weights in HF. rewrite Forall_map, Forall_forall in HF.
    specialize (HF e He). apply (scaled_weight_pos d _ (Hd e He)) in HF. apply not_Qle0 in HF. contradiction.
  - intros Hn. split; [apply scaled_weights_length|]. unfold scaled_weights. rewrite Forall_map, Forall_forall.
    intros e He. apply (scaled_weight_pos d _ (Hd e He)). apply not_Qle0. intros Hle. apply Hn. exists e. tauto.
Qed.

(* the composite: the validators all answer false exactly when the converted graph is in the domain of the MCB theorems *)
Lemma valid_iff_domain d gr : graph_wf gr -> common_den d gr ->
  (valid (verdicts_of gr) <-> simple_graph (to_graph gr) /\ positive_weights (to_graph gr) (scaled_weights d gr)).
Proof.
  intros Hwf Hd. rewrite <- (verdicts_valid gr Hwf). unfold clean.
  rewrite (to_graph_simple gr Hwf), (to_graph_positive d gr Hd). tauto.
Qed.

(* ==================================================================================================================== *)
(* 2. the programs on a FILE                                                                                            *)
(* ==================================================================================================================== *)

(* the reader either hands over a graph or the program ends abnormally (uncaught std::system_error, undefined
   behaviour ...); the theorems below only concern well-formed texts, where the reader returns (C10_roundtrip).
   The mains read the file only after the command-line front end let them through; on a command line that is not runnable
   the outcome of demo_* does not depend on the verdicts (front_end / the fopen test come first in DemoModel), so composing
   with the reader unconditionally gives the right outcome whenever the reader returns — the only case the theorems use.
   [FReadFail] on a non-runnable command line is therefore NOT a claim about the program. *)
Inductive file_outcome (A : Type) :=
| FRan (r : A)                               (* the reader returned a graph and the program went on to r *)
| FReadFail (r : DimacsModel.result).        (* anything but ROk *)
Arguments FRan {A} r. Arguments FReadFail {A} r.

Definition with_file {A} (bytes : list byte) (k : DimacsModel.graph -> A) : file_outcome A :=
  match DimacsModel.read bytes with
  | ROk gr => FRan (k gr)
  | r => FReadFail r
  end.

(* run gr c = the value entry point c returns on the graph gr that was read *)
Definition demo_mcb_file {W} (run : DimacsModel.graph -> call -> W) (o : opts) (bytes : list byte) :=
  with_file bytes (fun gr => demo_mcb (run gr) o (verdicts_of gr)).
Definition demo_approx_file {W} (run : DimacsModel.graph -> call -> W) (o : opts) (bytes : list byte) :=
  with_file bytes (fun gr => demo_approx (run gr) o (verdicts_of gr)).
Definition demo_stats_file {W} (run : DimacsModel.graph -> call -> W) (o : opts) (bytes : list byte) :=
  with_file bytes (fun gr => demo_stats (run gr) o (verdicts_of gr)).
(* every rank reads the same file *)
Definition demo_mpi_file {W} (run : DimacsModel.graph -> call -> W) (o : opts) (bytes : list byte) (P rank : nat) :=
  with_file bytes (fun gr => demo_mpi (run gr) o (verdicts_of gr) P rank).

Lemma with_file_render {A} l (k : DimacsModel.graph -> A) :
  layout_ok l = true -> with_file (render l) k = FRan (k (denot l)).
Proof. intros H. unfold with_file. rewrite (read_render l H). reflexivity. Qed.

(* ==================================================================================================================== *)
(* 3. what the entry points can return                                                                                  *)
(* ==================================================================================================================== *)

Definition covers (g : GraphModel.graph) (roots : list nat) : Prop := forall v, (v < nv g)%nat -> In v roots.

Definition covered (c : call) : bool :=
  match c with
  | CallMcb Signed _ => true
  | CallMcb FvsTrees false => true
  | CallMcb IsoTrees false => true
  | CallMpi Signed => true
  | CallApprox Signed false _ => true
  | _ => false
  end.

(* P = number of MPI processes of the job (only used by CallMpi) *)
Definition can_return (P : nat) (g : GraphModel.graph) (w : list Z) (c : call) (x : Z) : Prop :=
  match c with
  | CallMcb Signed false =>
      exists roots eord cycles sup, covers g roots /\ mcb_sva_signed_Z g w roots eord = SvaOk cycles x sup
  | CallMcb Signed true =>
      exists roots eord bits perm cycles sup pos,
        covers g roots /\ mcb_sva_signed_tbb_Z g w roots eord bits perm = (SvaOk cycles x sup, pos)
  | CallMcb FvsTrees false =>
      exists roots picks fvs cycles,
        covers g roots /\ greedy_fvs g picks = FvsOk fvs /\ mcb_sva_trees_accept_Z TbFvs g w roots picks cycles = Some x
  | CallMcb IsoTrees false =>
      exists roots picks cycles, covers g roots /\ mcb_sva_trees_accept_Z TbIso g w roots picks cycles = Some x
  | CallMpi Signed =>
      exists roots rtree_of cycles sup rest,
        covers g roots /\ (forall k, rtree_ok P (rtree_of k)) /\
        (mcb_sva_signed_mpi_fixed_Z g w roots P rtree_of = Some (MpiModel.Done (RankOut cycles x sup None :: rest)) \/
         exists eords, (forall r, (r < P)%nat -> nth r eords [] = nth 0%nat eords []) /\
           mcb_sva_signed_mpi_orig_Z g w roots P eords rtree_of = Some (MpiModel.Done (RankOut cycles x sup None :: rest)))
  | CallApprox Signed false k =>
      exists scan roots eord cycles,
        Permutation scan (seq 0 (ne g)) /\ Sorted (fun a b => wt w a <= wt w b) scan /\ covers g roots /\
        approx_sva_signed_Z g w (Z.to_nat k) scan roots eord = ApproxOk cycles x
  | _ => False
  end.

Lemma can_return_covered P g w c x : can_return P g w c x -> covered c = true.
Proof. destruct c as [[] []|[] [] k| |[]]; cbn; intros H; try reflexivity; contradiction. Qed.

Lemma min_basis_is_opt g w B : min_cycle_basis g w B -> is_opt g w (total_weight w B).
Proof. intros H. exists B. split; [exact H|reflexivity]. Qed.

Lemma min_basis_is_opt_eq g w B x : min_cycle_basis g w B -> x = total_weight w B -> is_opt g w x.
Proof. intros H ->. apply min_basis_is_opt. exact H. Qed.

Ltac close_opt E E' := rewrite E in E'; inversion E'; subst; eapply min_basis_is_opt_eq; [eassumption|reflexivity].

(* an exact call = an entry point of mcb-dimacs / mcb-dimacs-mpi *)
Definition exact_call (c : call) : bool :=
  match c with CallMcb _ _ | CallMpi _ => true | _ => false end.

(* every value a covered exact entry point can return is THE optimum *)
Definition is_mpi (c : call) : bool := match c with CallMpi _ => true | _ => false end.

Lemma can_return_exact_opt P g w c x :
  simple_graph g -> positive_weights g w -> (is_mpi c = true -> (1 <= P)%nat) -> exact_call c = true ->
  can_return P g w c x -> is_opt g w x.
Proof.
  intros Hs Hw HP' Hex H.
  assert (HPm : forall f, c = CallMpi f -> (1 <= P)%nat) by (intros f E; apply HP'; rewrite E; reflexivity).
  destruct c as [[] []|f par k| |[]]; cbn in Hex; try discriminate; cbn in H; try contradiction.
  - (* signed tbb *)
    destruct H as (roots & eord & bits & perm & cycles & sup & pos & Hr & E).
    destruct (Properties_C03.C03_signed_tbb g w roots eord bits perm Hs Hw Hr)
      as (cy & t & sp & ps & E' & Hmin & Ht & _).
    close_opt E E'.
  - (* signed *)
    destruct H as (roots & eord & cycles & sup & Hr & E).
    destruct (Properties_C02.C02_signed g w roots eord Hs Hw Hr) as (cy & t & sp & E' & Hmin & Ht).
    close_opt E E'.
  - (* fvs trees *)
    destruct H as (roots & picks & fvs & cycles & Hr & Hf & E).
    destruct (proj1 (Properties_C02_trees.C02_fvs_trees g w roots picks fvs Hs Hw Hr Hf) cycles x E) as [Hmin Ht].
    rewrite Ht. apply min_basis_is_opt. exact Hmin.
  - (* iso trees *)
    destruct H as (roots & picks & cycles & Hr & E).
    destruct (proj1 (Properties_C02_trees.C02_iso_trees_explicit g w roots picks Hs Hw Hr) cycles x E) as [Hmin Ht].
    rewrite Ht. apply min_basis_is_opt. exact Hmin.
  - (* mpi signed *)
    pose proof (HPm Signed eq_refl) as HP.
    destruct H as (roots & rt & cycles & sup & rest & Hr & Hrt & [E|(eords & Hag & E)]).
    + destruct (Properties_C04.C04c_result_fixed g w roots P rt Hs Hw Hr HP Hrt)
        as (fi & cy & t & sp & rs & _ & E' & _ & _ & Hmin & Ht & _).
      close_opt E E'.
    + destruct (Properties_C04.C04c_result_orig_agreeing_orders g w roots P eords rt Hs Hw Hr HP Hrt Hag)
        as (fi & cy & t & sp & rs & _ & E' & _ & _ & Hmin & Ht & _).
      close_opt E E'.
Qed.

(* the optimum exists (the sequential signed model with the trivial oracles returns it) *)
Lemma covers_seq g : covers g (seq 0 (nv g)).
Proof. intros v Hv. apply in_seq. lia. Qed.

Lemma opt_exists g w : simple_graph g -> positive_weights g w -> exists x, is_opt g w x.
Proof.
  intros Hs Hw.
  destruct (Properties_C02.C02_signed g w (seq 0 (nv g)) [] Hs Hw (covers_seq g)) as (cy & t & sp & _ & Hmin & Ht).
  exists (total_weight w cy). apply min_basis_is_opt. exact Hmin.
Qed.

(* a reduction tree exists for every P >= 1: the chain 0 (1 (2 ...)) *)
Fixpoint chain_tree (s n : nat) : rtree :=
  match n with O => RLeaf s | S n' => RNode (RLeaf s) (chain_tree (S s) n') end.

Lemma chain_tree_leaves n : forall s, rleaves (chain_tree s n) = seq s (S n).
Proof. induction n as [|n IH]; intros s; [reflexivity|]. cbn [chain_tree rleaves]. rewrite IH. reflexivity. Qed.

Lemma chain_tree_ok P : (1 <= P)%nat -> rtree_ok P (chain_tree 0 (P - 1)).
Proof.
  intros HP. unfold rtree_ok. rewrite chain_tree_leaves. replace (S (P - 1)) with P by lia. apply Permutation_refl.
Qed.

(* every covered exact entry point has a value it can return (the oracles exist): the hypothesis of the end-to-end
   theorems is satisfiable for every file in the domain *)
Lemma can_return_exists P g w c :
  simple_graph g -> positive_weights g w -> (1 <= P)%nat -> exact_call c = true -> covered c = true ->
  exists x, can_return P g w c x.
Proof.
  intros Hs Hw HP Hex Hc. pose proof (covers_seq g) as Hr.
  destruct c as [[] []|f par k| |[]]; cbn in Hex, Hc; try discriminate; cbn [can_return].
  - destruct (Properties_C03.C03_signed_tbb g w (seq 0 (nv g)) [] [] [] Hs Hw Hr) as (cy & t & sp & ps & E & _).
    exists t, (seq 0 (nv g)), [], [], [], cy, sp, ps. split; [exact Hr|exact E].
  - destruct (Properties_C02.C02_signed g w (seq 0 (nv g)) [] Hs Hw Hr) as (cy & t & sp & E & _).
    exists t, (seq 0 (nv g)), [], cy, sp. split; [exact Hr|exact E].
  - destruct (Properties_C13.C13_det_is_a_run g Hs) as (out & _ & Hf & _).
    destruct (proj2 (Properties_C02_trees.C02_fvs_trees g w (seq 0 (nv g)) out out Hs Hw Hr Hf)) as (cy & t & E).
    exists t, (seq 0 (nv g)), out, out, cy. repeat split; assumption.
  - destruct (proj2 (Properties_C02_trees.C02_iso_trees_explicit g w (seq 0 (nv g)) [] Hs Hw Hr)) as (cy & t & E).
    exists t, (seq 0 (nv g)), [], cy. split; assumption.
  - assert (Hrt : forall k : nat, rtree_ok P (chain_tree 0 (P - 1))) by (intros _; apply chain_tree_ok; exact HP).
    destruct (Properties_C04.C04c_result_fixed g w (seq 0 (nv g)) P (fun _ => chain_tree 0 (P - 1)) Hs Hw Hr HP Hrt)
      as (fi & cy & t & sp & rs & _ & E & _).
    exists t, (seq 0 (nv g)), (fun _ => chain_tree 0 (P - 1)), cy, sp, rs. split; [exact Hr|]. split; [exact Hrt|]. left. exact E.
Qed.

(* ==================================================================================================================== *)
(* 4. end-to-end statements                                                                                             *)
(* ==================================================================================================================== *)

(* ---- 4a. the gate, as a statement about the file text ---- *)

Lemma e2e_gate : forall (W : Type) (run : DimacsModel.graph -> call -> W) (l : layout) (o : opts),
  layout_ok l = true -> defective (denot l) -> o_help o = false ->
  exists r1 r2 r3,
    demo_mcb_file run o (render l) = FRan r1 /\ demo_approx_file run o (render l) = FRan r2 /\
    demo_stats_file run o (render l) = FRan r3 /\ gate_holds r1 /\ gate_holds r2 /\ gate_holds r3.
Proof.
  intros W run l o Hl Hd Hh.
  pose proof (proj1 (verdicts_invalid _ (denot_wf l Hl)) Hd) as Hv.
  destruct (gate_all W (run (denot l)) o _ Hv Hh) as (G1 & G2 & G3).
  unfold demo_mcb_file, demo_approx_file, demo_stats_file. rewrite !(with_file_render l) by exact Hl.
  do 3 eexists. split; [reflexivity|]. split; [reflexivity|]. split; [reflexivity|].
  split; [exact G1|]. split; [exact G2|exact G3].
Qed.

(* runnable command line: exactly EXIT_FAILURE, the diagnostic of the FIRST defect of the multigraph the text denotes (in
   the order self-loop, repeated pair, non-positive weight), empty stdout, no entry point called *)
Definition first_defect_diag (gr : DimacsModel.graph) (d : diag) : Prop :=
  (has_self_loop gr -> d = DLoops) /\
  (~ has_self_loop gr -> has_repeated_pair gr -> d = DMulti) /\
  (~ has_self_loop gr -> ~ has_repeated_pair gr -> has_bad_weight gr -> d = DNonPos).

Lemma e2e_gate_exact : forall (W : Type) (run : DimacsModel.graph -> call -> W) (l : layout) (o : opts),
  layout_ok l = true -> defective (denot l) -> runnable o ->
  exists d, first_defect_diag (denot l) d /\ d <> DNone /\
    demo_mcb_file run o (render l) = FRan (fail d []) /\ demo_approx_file run o (render l) = FRan (fail d []) /\
    demo_stats_file run o (render l) = FRan (fail d []).
Proof.
  intros W run l o Hl Hd Ho. pose proof (denot_wf l Hl) as Hwf.
  pose proof (proj1 (verdicts_invalid _ Hwf) Hd) as Hv.
  destruct (gate_exact W (run (denot l)) o _ Hv Ho) as (G1 & G2 & G3 & G4).
  exists (gate_diag (verdicts_of (denot l))). split; [exact (gate_diag_file _ Hwf)|]. split; [exact G4|].
  unfold demo_mcb_file, demo_approx_file, demo_stats_file. rewrite !(with_file_render l) by exact Hl.
  rewrite G1, G2, G3. repeat split; reflexivity.
Qed.

(* the MPI program (after c11-fix-mpi-gate), verdict level: exact outcome of every rank of every job size *)
Lemma mpi_gate_exact : forall W (run : call -> W) o v P rank, invalid v -> runnable o ->
  demo_mpi run o v P rank = Exited (fail (if Nat.eqb rank 0 then gate_diag v else DNone) [LProcessor]).
Proof.
  intros W run o v P rank Hv (Ha & Hb & Hc & Hd).
  unfold demo_mpi, mpi_join.
  rewrite (existsb_seq_false (fun r' => is_enter (mpi_pre_fixed o v r')) 0 P (fun r' => mpi_pre_fixed_invalid W o v r' Hv)).
  unfold mpi_pre_fixed, front_end, gate_diag. rewrite Ha, Hb, Hc, Hd. cbn [negb].
  destruct (v_loops v) eqn:E1; [rewrite andb_false_r; destruct (Nat.eqb rank 0); reflexivity|].
  destruct (v_multi v) eqn:E2; [rewrite andb_false_r; destruct (Nat.eqb rank 0); reflexivity|].
  destruct (v_nonpos v) eqn:E3; [rewrite andb_false_r; destruct (Nat.eqb rank 0); reflexivity|].
  exfalso; destruct Hv as [H | [H | H]]; congruence.
Qed.

Lemma e2e_mpi_gate : forall (W : Type) (run : DimacsModel.graph -> call -> W) (l : layout) (o : opts) (P rank : nat),
  layout_ok l = true -> defective (denot l) -> o_help o = false ->
  exists r, demo_mpi_file run o (render l) P rank = FRan (Exited r) /\
            o_status r <> 0 /\ no_algorithm r /\ (rank = 0%nat -> o_diag r <> DNone).
Proof.
  intros W run l o P rank Hl Hd Hh.
  pose proof (proj1 (verdicts_invalid _ (denot_wf l Hl)) Hd) as Hv.
  destruct (mpi_gate_fixed W (run (denot l)) o _ P rank Hv Hh) as (r & E & H).
  exists r. split; [|exact H]. unfold demo_mpi_file. rewrite (with_file_render l) by exact Hl. rewrite E. reflexivity.
Qed.

Lemma e2e_mpi_gate_exact : forall (W : Type) (run : DimacsModel.graph -> call -> W) (l : layout) (o : opts) (P rank : nat),
  layout_ok l = true -> defective (denot l) -> runnable o ->
  exists d, first_defect_diag (denot l) d /\ d <> DNone /\
    demo_mpi_file run o (render l) P rank = FRan (Exited (fail (if Nat.eqb rank 0 then d else DNone) [LProcessor])).
Proof.
  intros W run l o P rank Hl Hd Ho. pose proof (denot_wf l Hl) as Hwf.
  pose proof (proj1 (verdicts_invalid _ Hwf) Hd) as Hv.
  destruct (gate_exact W (run (denot l)) o _ Hv Ho) as (_ & _ & _ & G4).
  exists (gate_diag (verdicts_of (denot l))). split; [exact (gate_diag_file _ Hwf)|]. split; [exact G4|].
  unfold demo_mpi_file. rewrite (with_file_render l) by exact Hl.
  rewrite (mpi_gate_exact W (run (denot l)) o _ P rank Hv Ho). reflexivity.
Qed.

(* ---- 4b. valid files: the printed weight is the optimum ---- *)

(* the file is in the domain of the MCB theorems: simple multigraph, positive weights with common denominator d *)
Definition file_domain (d : positive) (l : layout) : Prop :=
  layout_ok l = true /\ clean (denot l) /\ common_den d (denot l).

Lemma file_domain_facts d l : file_domain d l ->
  valid (verdicts_of (denot l)) /\ simple_graph (to_graph (denot l)) /\
  positive_weights (to_graph (denot l)) (scaled_weights d (denot l)).
Proof.
  intros (Hl & Hc & Hd). pose proof (denot_wf l Hl) as Hwf.
  pose proof (proj1 (verdicts_valid _ Hwf) Hc) as Hv. split; [exact Hv|].
  exact (proj1 (valid_iff_domain d _ Hwf Hd) Hv).
Qed.

(* mcb-dimacs, ANY selected entry point, explicit premise: the value it returned is the optimum *)
Lemma e2e_optimum_modulo_entry_point : forall (run : DimacsModel.graph -> call -> Z) (l : layout) (d : positive) (o : opts),
  file_domain d l -> runnable o ->
  let gr := denot l in let c := CallMcb (priority o) (o_parallel o) in
  is_opt (to_graph gr) (scaled_weights d gr) (run gr c) ->
  exists r, demo_mcb_file run o (render l) = FRan r /\ dispatch_ok (run gr) r c /\
            printed_weights r = [LWeight (run gr c)] /\ is_opt (to_graph gr) (scaled_weights d gr) (run gr c).
Proof.
  intros run l d o Hdom Ho gr c Hopt. destruct (file_domain_facts d l Hdom) as (Hv & _ & _).
  destruct Hdom as (Hl & _ & _).
  exists (demo_mcb (run gr) o (verdicts_of gr)). split.
  - unfold demo_mcb_file. rewrite (with_file_render l) by exact Hl. reflexivity.
  - pose proof (proj1 (dispatch_all Z (run gr) o _ Hv Ho)) as D. split; [exact D|]. split; [|exact Hopt].
    destruct D as (_ & _ & _ & D & _). exact D.
Qed.

(* mcb-dimacs, covered entry points: NO premise beyond "the value is one the entry point's model can return" *)
Lemma e2e_optimum : forall (run : DimacsModel.graph -> call -> Z) (l : layout) (d : positive) (o : opts) (P : nat),
  file_domain d l -> runnable o ->
  let gr := denot l in let c := CallMcb (priority o) (o_parallel o) in
  can_return P (to_graph gr) (scaled_weights d gr) c (run gr c) ->
  exists r, demo_mcb_file run o (render l) = FRan r /\ dispatch_ok (run gr) r c /\
            printed_weights r = [LWeight (run gr c)] /\ is_opt (to_graph gr) (scaled_weights d gr) (run gr c).
Proof.
  intros run l d o P Hdom Ho gr c Hret. destruct (file_domain_facts d l Hdom) as (_ & Hs & Hw).
  apply (e2e_optimum_modulo_entry_point run l d o Hdom Ho).
  apply (can_return_exact_opt P _ _ c _ Hs Hw); [discriminate|reflexivity|exact Hret].
Qed.

(* any two runnable option records (two executions, possibly different schedules/oracles: two `run`s) print the same
   weight on the same file, for the covered calls *)
Lemma e2e_options_agree : forall (run1 run2 : DimacsModel.graph -> call -> Z) (l : layout) (d : positive) (o1 o2 : opts)
    (P1 P2 : nat),
  file_domain d l -> runnable o1 -> runnable o2 ->
  let gr := denot l in
  let c1 := CallMcb (priority o1) (o_parallel o1) in let c2 := CallMcb (priority o2) (o_parallel o2) in
  can_return P1 (to_graph gr) (scaled_weights d gr) c1 (run1 gr c1) ->
  can_return P2 (to_graph gr) (scaled_weights d gr) c2 (run2 gr c2) ->
  exists r1 r2 x, demo_mcb_file run1 o1 (render l) = FRan r1 /\ demo_mcb_file run2 o2 (render l) = FRan r2 /\
                  printed_weights r1 = [LWeight x] /\ printed_weights r2 = [LWeight x] /\
                  is_opt (to_graph gr) (scaled_weights d gr) x.
Proof.
  intros run1 run2 l d o1 o2 P1 P2 Hdom Ho1 Ho2 gr c1 c2 H1 H2.
  destruct (e2e_optimum run1 l d o1 P1 Hdom Ho1 H1) as (r1 & E1 & _ & W1 & X1).
  destruct (e2e_optimum run2 l d o2 P2 Hdom Ho2 H2) as (r2 & E2 & _ & W2 & X2).
  exists r1, r2, (run1 gr c1). split; [exact E1|]. split; [exact E2|]. split; [exact W1|]. split; [|exact X1].
  rewrite W2. pose proof (Properties_C08.C08_opt_unique _ _ _ _ X1 X2) as EQ. unfold gr, c1. rewrite EQ. reflexivity.
Qed.

(* the same with the premise for calls without a model theorem *)
Lemma e2e_options_agree_modulo_entry_point :
  forall (run1 run2 : DimacsModel.graph -> call -> Z) (l : layout) (d : positive) (o1 o2 : opts),
  file_domain d l -> runnable o1 -> runnable o2 ->
  let gr := denot l in
  let c1 := CallMcb (priority o1) (o_parallel o1) in let c2 := CallMcb (priority o2) (o_parallel o2) in
  is_opt (to_graph gr) (scaled_weights d gr) (run1 gr c1) -> is_opt (to_graph gr) (scaled_weights d gr) (run2 gr c2) ->
  exists r1 r2 x, demo_mcb_file run1 o1 (render l) = FRan r1 /\ demo_mcb_file run2 o2 (render l) = FRan r2 /\
                  printed_weights r1 = [LWeight x] /\ printed_weights r2 = [LWeight x].
Proof.
  intros run1 run2 l d o1 o2 Hdom Ho1 Ho2 gr c1 c2 H1 H2.
  destruct (e2e_optimum_modulo_entry_point run1 l d o1 Hdom Ho1 H1) as (r1 & E1 & _ & W1 & X1).
  destruct (e2e_optimum_modulo_entry_point run2 l d o2 Hdom Ho2 H2) as (r2 & E2 & _ & W2 & X2).
  exists r1, r2, (run1 gr c1). split; [exact E1|]. split; [exact E2|]. split; [exact W1|].
  rewrite W2. pose proof (Properties_C08.C08_opt_unique _ _ _ _ X1 X2) as EQ. unfold gr, c1. rewrite EQ. reflexivity.
Qed.

(* ---- 4c. mcb-dimacs-mpi ---- *)

Lemma e2e_mpi_optimum_modulo_entry_point :
  forall (run : DimacsModel.graph -> call -> Z) (l : layout) (d : positive) (o : opts) (P rank : nat),
  file_domain d l -> runnable o ->
  let gr := denot l in let c := CallMpi (priority o) in
  is_opt (to_graph gr) (scaled_weights d gr) (run gr c) ->
  exists r, demo_mpi_file run o (render l) P rank = FRan (Exited r) /\
            o_status r = 0 /\ o_diag r = DNone /\ o_run r = Some c /\
            (rank = 0%nat -> printed_weights r = [LWeight (run gr c)] /\ In (LUsingAlgo c) (o_out r) /\
                             is_opt (to_graph gr) (scaled_weights d gr) (run gr c)) /\
            (rank <> 0%nat -> o_out r = [LProcessor]).
Proof.
  intros run l d o P rank Hdom Ho gr c Hopt. destruct (file_domain_facts d l Hdom) as (Hv & _ & _).
  destruct Hdom as (Hl & _ & _).
  destruct (mpi_dispatch_fixed Z (run gr) o (verdicts_of gr) P rank Hv Ho) as (r & E & A & B & C & D0 & D1).
  exists r. split; [unfold demo_mpi_file; rewrite (with_file_render l) by exact Hl; fold gr; rewrite E; reflexivity|].
  split; [exact A|]. split; [exact B|]. split; [exact C|]. split; [|exact D1].
  intros Hr. destruct (D0 Hr) as [X Y]. split; [exact X|]. split; [exact Y|exact Hopt].
Qed.

(* --signed (the default): premise-free, for every P >= 1 (rank < P), every reduction tree *)
Lemma e2e_mpi_optimum :
  forall (run : DimacsModel.graph -> call -> Z) (l : layout) (d : positive) (o : opts) (P rank : nat),
  file_domain d l -> runnable o -> (rank < P)%nat -> priority o = Signed ->
  let gr := denot l in let c := CallMpi Signed in
  can_return P (to_graph gr) (scaled_weights d gr) c (run gr c) ->
  exists r, demo_mpi_file run o (render l) P rank = FRan (Exited r) /\
            o_status r = 0 /\ o_diag r = DNone /\ o_run r = Some c /\
            (rank = 0%nat -> printed_weights r = [LWeight (run gr c)] /\ In (LUsingAlgo c) (o_out r) /\
                             is_opt (to_graph gr) (scaled_weights d gr) (run gr c)) /\
            (rank <> 0%nat -> o_out r = [LProcessor]).
Proof.
  intros run l d o P rank Hdom Ho Hrk Hp gr c Hret. destruct (file_domain_facts d l Hdom) as (_ & Hs & Hw).
  pose proof (e2e_mpi_optimum_modulo_entry_point run l d o P rank Hdom Ho) as H. cbv zeta in H. rewrite Hp in H.
  apply H. apply (can_return_exact_opt P _ _ c _ Hs Hw); [intros _; lia|reflexivity|exact Hret].
Qed.

(* mcb-dimacs (any covered call) and mcb-dimacs-mpi --signed (any P) print the same weight *)
Lemma e2e_mcb_mpi_agree :
  forall (run1 run2 : DimacsModel.graph -> call -> Z) (l : layout) (d : positive) (o1 o2 : opts) (P0 P : nat),
  file_domain d l -> runnable o1 -> runnable o2 -> (1 <= P)%nat -> priority o2 = Signed ->
  let gr := denot l in let c1 := CallMcb (priority o1) (o_parallel o1) in
  can_return P0 (to_graph gr) (scaled_weights d gr) c1 (run1 gr c1) ->
  can_return P (to_graph gr) (scaled_weights d gr) (CallMpi Signed) (run2 gr (CallMpi Signed)) ->
  exists r1 r2 x, demo_mcb_file run1 o1 (render l) = FRan r1 /\ demo_mpi_file run2 o2 (render l) P 0 = FRan (Exited r2) /\
                  printed_weights r1 = [LWeight x] /\ printed_weights r2 = [LWeight x] /\
                  is_opt (to_graph gr) (scaled_weights d gr) x.
Proof.
  intros run1 run2 l d o1 o2 P0 P Hdom Ho1 Ho2 HP Hp gr c1 H1 H2.
  destruct (e2e_optimum run1 l d o1 P0 Hdom Ho1 H1) as (r1 & E1 & _ & W1 & X1).
  destruct (e2e_mpi_optimum run2 l d o2 P 0 Hdom Ho2 HP Hp H2) as (r2 & E2 & _ & _ & _ & D0 & _).
  destruct (D0 eq_refl) as (W2 & _ & X2).
  exists r1, r2, (run1 gr c1). split; [exact E1|]. split; [exact E2|]. split; [exact W1|]. split; [|exact X1].
  rewrite W2. pose proof (Properties_C08.C08_opt_unique _ _ _ _ X1 X2) as EQ. unfold gr, c1. rewrite EQ. reflexivity.
Qed.

(* ---- 4d. approx-mcb-dimacs ---- *)

(* --k <= 1 (after the conversion to std::size_t): rejected after the two size lines, on every valid file *)
Lemma e2e_approx_bad_k : forall (W : Type) (run : DimacsModel.graph -> call -> W) (l : layout) (d : positive) (o : opts),
  file_domain d l -> runnable o -> size_t_of_int (o_k o) <= 1 ->
  demo_approx_file run o (render l) = FRan (fail DBadK [LSize]).
Proof.
  intros W run l d o Hdom Ho Hk. destruct (file_domain_facts d l Hdom) as (Hv & _ & _). destruct Hdom as (Hl & _ & _).
  unfold demo_approx_file. rewrite (with_file_render l) by exact Hl.
  rewrite (approx_bad_k W (run (denot l)) o _ Hv Ho Hk). reflexivity.
Qed.

(* --signed --parallel false, 2 <= k: the printed value lies in [opt, (2k-1) opt].  k < 2^63: the model's hop bound 2k-1 is
   a natural number, the code's is computed in std::size_t — they agree below 2^63 (every --k an int can hold). *)
Lemma e2e_approx_signed :
  forall (run : DimacsModel.graph -> call -> Z) (l : layout) (d : positive) (o : opts) (P : nat),
  file_domain d l -> runnable o -> priority o = Signed -> o_parallel o = false -> 2 <= o_k o < 2 ^ 63 ->
  let gr := denot l in let k := o_k o in let c := CallApprox Signed false k in
  can_return P (to_graph gr) (scaled_weights d gr) c (run gr c) ->
  exists r opt, demo_approx_file run o (render l) = FRan r /\ dispatch_ok (run gr) r c /\
                printed_weights r = [LWeight (run gr c)] /\
                is_opt (to_graph gr) (scaled_weights d gr) opt /\ opt <= run gr c <= (2 * k - 1) * opt.
Proof.
  intros run l d o P Hdom Ho Hp Hpar Hk gr k c Hret. destruct (file_domain_facts d l Hdom) as (Hv & Hs & Hw).
  destruct Hdom as (Hl & _ & _).
  assert (Ek : size_t_of_int (o_k o) = o_k o) by (unfold size_t_of_int; apply Z.mod_small; lia).
  assert (Hk1 : 1 < size_t_of_int (o_k o)) by (rewrite Ek; lia).
  pose proof (proj1 (proj2 (dispatch_all Z (run gr) o _ Hv Ho)) Hk1) as D. rewrite Ek, Hp, Hpar in D. fold k c in D.
  destruct (opt_exists _ _ Hs Hw) as (opt & Hopt).
  exists (demo_approx (run gr) o (verdicts_of gr)), opt. split.
  { unfold demo_approx_file. rewrite (with_file_render l) by exact Hl. reflexivity. }
  split; [exact D|]. split; [destruct D as (_ & _ & _ & D & _); exact D|]. split; [exact Hopt|].
  cbn [can_return c] in Hret. destruct Hret as (scan & roots & eord & cycles & Hperm & Hsort & Hr & E).
  assert (HK : (1 <= Z.to_nat k)%nat) by (unfold k; lia).
  destruct (Properties_C06.C06_global_signed _ _ (Z.to_nat k) scan roots eord Hs Hw HK Hperm Hsort Hr)
    as (cy & t & E' & _ & _ & _ & Hb).
  pose proof (eq_trans (eq_sym E) E') as X. inversion X; subst t cy. specialize (Hb opt Hopt).
  replace (Z.of_nat (2 * Z.to_nat k - 1)) with (2 * k - 1) in Hb by (unfold k; lia). exact Hb.
Qed.

(* ---- 4e. the hypothesis "can_return" is satisfiable on every file of the domain, for every covered exact call ---- *)
Lemma e2e_sound_value_exists : forall (l : layout) (d : positive) (c : call) (P : nat),
  file_domain d l -> (1 <= P)%nat -> exact_call c = true -> covered c = true ->
  exists x, can_return P (to_graph (denot l)) (scaled_weights d (denot l)) c x.
Proof.
  intros l d c P Hdom HP Hex Hc. destruct (file_domain_facts d l Hdom) as (_ & Hs & Hw).
  exact (can_return_exists P _ _ c Hs Hw HP Hex Hc).
Qed.

(* ---- 4f. the rational optimum does not depend on the common denominator ---- *)

Lemma scaled_weights_mul d d' gr : common_den d gr ->
  scaled_weights (d * d') gr = scale_weights (Zpos d') (scaled_weights d gr).
Proof.
  intros Hd. unfold scaled_weights, scale_weights. rewrite map_map. apply map_ext_in. intros e He.
  destruct (Hd e He) as [c Hc]. unfold scaled_weight. rewrite Pos2Z.inj_mul, Hc.
  replace (c * Z.pos (Qden (e_wt e)) * Z.pos d') with (c * Z.pos d' * Z.pos (Qden (e_wt e))) by ring.
  rewrite !Z.div_mul by lia. ring.
Qed.

Lemma scaled_opt_coherent d d' gr x x' :
  common_den d gr -> common_den d' gr ->
  is_opt (to_graph gr) (scaled_weights d gr) x -> is_opt (to_graph gr) (scaled_weights d' gr) x' ->
  x * Zpos d' = x' * Zpos d.
Proof.
  intros Hd Hd' Hx Hx'.
  pose proof (Properties_C08.C08_scale_any _ _ (Zpos d') x ltac:(lia) Hx) as A.
  pose proof (Properties_C08.C08_scale_any _ _ (Zpos d) x' ltac:(lia) Hx') as B.
  rewrite <- (scaled_weights_mul d d' gr Hd) in A. rewrite <- (scaled_weights_mul d' d gr Hd') in B.
  rewrite (Pos.mul_comm d' d) in B. pose proof (Properties_C08.C08_opt_unique _ _ _ _ A B). lia.
Qed.

(* integer files: d = 1, the weight list is the list of numerators *)
Lemma file_domain_int l : layout_ok l = true -> clean (denot l) -> integer_weights (denot l) ->
  file_domain 1 l /\ scaled_weights 1 (denot l) = int_weights (denot l).
Proof.
  intros Hl Hc Hi. split; [|apply scaled_weights_int; exact Hi].
  split; [exact Hl|]. split; [exact Hc|]. apply integer_common_den. exact Hi.
Qed.

(* the headline form for files whose weights are positive INTEGERS: the weight list is the list of numerators *)
Lemma e2e_optimum_int : forall (run : DimacsModel.graph -> call -> Z) (l : layout) (o : opts) (P : nat),
  layout_ok l = true -> clean (denot l) -> integer_weights (denot l) -> runnable o ->
  let gr := denot l in let c := CallMcb (priority o) (o_parallel o) in
  can_return P (to_graph gr) (int_weights gr) c (run gr c) ->
  exists r, demo_mcb_file run o (render l) = FRan r /\
            o_status r = 0 /\ o_diag r = DNone /\ o_run r = Some c /\ In (LUsingAlgo c) (o_out r) /\
            printed_weights r = [LWeight (run gr c)] /\ is_opt (to_graph gr) (int_weights gr) (run gr c).
Proof.
  intros run l o P Hl Hc Hi Ho gr c Hret. destruct (file_domain_int l Hl Hc Hi) as [Hdom Ew].
  fold gr in Ew. rewrite <- Ew in Hret |- *.
  destruct (e2e_optimum run l 1 o P Hdom Ho Hret) as (r & E & (A & B & C & _ & D) & Wt & X).
  exists r. repeat (split; [assumption|]). exact X.
Qed.
