(* TreesProofs5.v — the end theorems about the tree-based exact algorithms (statements as Definitions, proofs by
   composition of TreesProofs3.v (run level) and TreesProofs4.v (sufficiency)); restated in Properties_C01_trees.v /
   Properties_C02_trees.v.  Prefix tf_. *)
From Coq Require Import List Arith Bool Lia ZArith.
From Parmcb Require Import GraphModel GraphSpec GF2Model McbSpec LexSPModel FvsModel FvsProofs CandidatesModel
     CandidatesProofsZ ForestModel SvaModel SvaSpec RefModel TreesModel TreesProofs3 TreesProofs4.
Import ListNotations.

(* the sufficiency premise holds for the Horton and the FVS builder, for every index *)
Lemma tf_sufficient b g wts picks fi trees cands : b <> TbIso -> simple_graph g -> positive_weights g wts ->
  tb_collection Z 0%Z Z.add Z.ltb b g wts picks = CdOk (trees, cands) -> collection_sufficient g wts fi trees cands.
Proof.
  intros Hb Hsg Hpos H. apply tr_sufficient_all_canonical. destruct b; cbn [tb_collection] in H.
  - eapply horton_sufficient; eauto.
  - eapply fvs_sufficient; eauto.
  - congruence.
Qed.

(* ---- C01 ---------------------------------------------------------------------------------------------------------- *)

(* any builder (Horton, FVS, isometric): a run accepted by the acceptance model emitted a cycle basis of m - n + c cycles *)
Definition C01_trees_accept_stmt : Prop :=
  forall (b : tbuilder) (g : graph) (wts : list Z) (roots picks : list nat) (cycles : list (list nat)) (total : Z),
    simple_graph g -> positive_weights g wts -> (forall v, v < nv g -> In v roots) ->
    mcb_sva_trees_accept_Z b g wts roots picks cycles = Some total ->
    cycle_basis g cycles /\ has_cycle_space_dimension g (length cycles).

Theorem tf_C01_trees_accept : C01_trees_accept_stmt.
Proof.
  intros b g wts roots picks cycles total Hsg Hpos Hr H.
  destruct (trees_accept_sound b g wts roots picks Hsg Hpos Hr cycles total H) as (H1 & H2 & _). auto.
Qed.

(* Horton / FVS: the run never gets stuck (the lookup answers in every phase, so no empty cycle is ever emitted): the
   deterministic resolution completes, and its run is an accepted run *)
Definition C01_trees_total_stmt (b : tbuilder) : Prop :=
  forall (g : graph) (wts : list Z) (roots picks : list nat) trees cands,
    simple_graph g -> positive_weights g wts -> (forall v, v < nv g -> In v roots) ->
    tb_collection Z 0%Z Z.add Z.ltb b g wts picks = CdOk (trees, cands) ->
    exists cycles total sup,
      mcb_sva_trees_first_Z b g wts roots picks = TRun (SvaOk cycles total sup) /\
      mcb_sva_trees_accept_Z b g wts roots picks cycles = Some total /\
      cycle_basis g cycles /\ has_cycle_space_dimension g (length cycles).

Lemma tf_total b : b <> TbIso -> C01_trees_total_stmt b.
Proof.
  intros Hb g wts roots picks trees cands Hsg Hpos Hr Hc.
  destruct (trees_first_total_modulo_sufficiency b g wts roots picks Hsg Hpos Hr trees cands Hc)
    as (cycles & total & sup & H1 & [H2 _] & _ & H4 & H5).
  { intros fi _. eapply tf_sufficient; eauto. }
  exists cycles, total, sup. auto.
Qed.

(* the FVS variant, premise-free: for every complete run of greedy_fvs (every pick oracle the model accepts) *)
Definition C01_fvs_trees_stmt : Prop :=
  forall (g : graph) (wts : list Z) (roots picks fvs : list nat),
    simple_graph g -> positive_weights g wts -> (forall v, v < nv g -> In v roots) ->
    greedy_fvs g picks = FvsOk fvs ->
    (exists cycles total sup,
       mcb_sva_trees_first_Z TbFvs g wts roots picks = TRun (SvaOk cycles total sup) /\
       mcb_sva_trees_accept_Z TbFvs g wts roots picks cycles = Some total) /\
    (forall cycles total, mcb_sva_trees_accept_Z TbFvs g wts roots picks cycles = Some total ->
       cycle_basis g cycles /\ has_cycle_space_dimension g (length cycles)).

Theorem tf_C01_fvs_trees : C01_fvs_trees_stmt.
Proof.
  intros g wts roots picks fvs Hsg Hpos Hr Hf. split.
  - destruct (proj2 (cz_C14_total g wts Hsg Hpos) picks fvs Hf) as (trees & cands & Hc).
    destruct (tf_total TbFvs ltac:(discriminate) g wts roots picks trees cands Hsg Hpos Hr Hc)
      as (cycles & total & sup & H1 & H2 & _). eauto.
  - intros cycles total H. eapply tf_C01_trees_accept; eauto.
Qed.

Definition C01_horton_trees_stmt : Prop :=
  forall (g : graph) (wts : list Z) (roots picks : list nat),
    simple_graph g -> positive_weights g wts -> (forall v, v < nv g -> In v roots) ->
    (exists cycles total sup,
       mcb_sva_trees_first_Z TbHorton g wts roots picks = TRun (SvaOk cycles total sup) /\
       mcb_sva_trees_accept_Z TbHorton g wts roots picks cycles = Some total) /\
    (forall cycles total, mcb_sva_trees_accept_Z TbHorton g wts roots picks cycles = Some total ->
       cycle_basis g cycles /\ has_cycle_space_dimension g (length cycles)).

Theorem tf_C01_horton_trees : C01_horton_trees_stmt.
Proof.
  intros g wts roots picks Hsg Hpos Hr. split.
  - destruct (proj1 (cz_C14_total g wts Hsg Hpos)) as (trees & cands & Hc).
    destruct (tf_total TbHorton ltac:(discriminate) g wts roots picks trees cands Hsg Hpos Hr Hc)
      as (cycles & total & sup & H1 & H2 & _). eauto.
  - intros cycles total H. eapply tf_C01_trees_accept; eauto.
Qed.

(* ---- C02 ---------------------------------------------------------------------------------------------------------- *)

(* any builder: the accumulated value of an accepted run is the total weight of the emitted cycles *)
Definition C02_trees_accept_weight_stmt : Prop :=
  forall (b : tbuilder) (g : graph) (wts : list Z) (roots picks : list nat) (cycles : list (list nat)) (total : Z),
    simple_graph g -> positive_weights g wts -> (forall v, v < nv g -> In v roots) ->
    mcb_sva_trees_accept_Z b g wts roots picks cycles = Some total ->
    total = total_weight wts cycles.

Theorem tf_C02_trees_accept_weight : C02_trees_accept_weight_stmt.
Proof.
  intros b g wts roots picks cycles total Hsg Hpos Hr H.
  destruct (trees_accept_sound b g wts roots picks Hsg Hpos Hr cycles total H) as (_ & _ & H3). exact H3.
Qed.

(* any builder, modulo sufficiency of its collection: minimum *)
Definition C02_trees_accept_modulo_sufficiency_stmt : Prop :=
  forall (b : tbuilder) (g : graph) (wts : list Z) (roots picks : list nat) (cycles : list (list nat)) (total : Z),
    simple_graph g -> positive_weights g wts -> (forall v, v < nv g -> In v roots) ->
    (forall fi trees cands, create_index g roots = Some fi ->
       tb_collection Z 0%Z Z.add Z.ltb b g wts picks = CdOk (trees, cands) ->
       collection_sufficient g wts fi trees cands) ->
    mcb_sva_trees_accept_Z b g wts roots picks cycles = Some total ->
    min_cycle_basis g wts cycles /\ total = total_weight wts cycles.

Theorem tf_C02_trees_accept_modulo_sufficiency : C02_trees_accept_modulo_sufficiency_stmt.
Proof.
  intros b g wts roots picks cycles total Hsg Hpos Hr Hsuf H.
  destruct (trees_accept_min_modulo_sufficiency b g wts roots picks Hsg Hpos Hr cycles total Hsuf H) as (H1 & H2 & _). auto.
Qed.

(* FVS and Horton, premise-free: EVERY accepted run (every resolution of the unstable sort) emitted a minimum cycle
   basis and returned its weight; and an accepted run exists *)
Definition C02_fvs_trees_stmt : Prop :=
  forall (g : graph) (wts : list Z) (roots picks fvs : list nat),
    simple_graph g -> positive_weights g wts -> (forall v, v < nv g -> In v roots) ->
    greedy_fvs g picks = FvsOk fvs ->
    (forall cycles total, mcb_sva_trees_accept_Z TbFvs g wts roots picks cycles = Some total ->
       min_cycle_basis g wts cycles /\ total = total_weight wts cycles) /\
    (exists cycles total, mcb_sva_trees_accept_Z TbFvs g wts roots picks cycles = Some total).

Theorem tf_C02_fvs_trees : C02_fvs_trees_stmt.
Proof.
  intros g wts roots picks fvs Hsg Hpos Hr Hf. split.
  - intros cycles total H. eapply tf_C02_trees_accept_modulo_sufficiency; eauto.
    intros fi trees cands _ Hc. eapply (tf_sufficient TbFvs); eauto. discriminate.
  - destruct (tf_C01_fvs_trees g wts roots picks fvs Hsg Hpos Hr Hf) as [(cycles & total & sup & _ & H) _]. eauto.
Qed.

Definition C02_horton_trees_stmt : Prop :=
  forall (g : graph) (wts : list Z) (roots picks : list nat),
    simple_graph g -> positive_weights g wts -> (forall v, v < nv g -> In v roots) ->
    (forall cycles total, mcb_sva_trees_accept_Z TbHorton g wts roots picks cycles = Some total ->
       min_cycle_basis g wts cycles /\ total = total_weight wts cycles) /\
    (exists cycles total, mcb_sva_trees_accept_Z TbHorton g wts roots picks cycles = Some total).

Theorem tf_C02_horton_trees : C02_horton_trees_stmt.
Proof.
  intros g wts roots picks Hsg Hpos Hr. split.
  - intros cycles total H. eapply tf_C02_trees_accept_modulo_sufficiency; eauto.
    intros fi trees cands _ Hc. eapply (tf_sufficient TbHorton); eauto. discriminate.
  - destruct (tf_C01_horton_trees g wts roots picks Hsg Hpos Hr) as [(cycles & total & sup & _ & H) _]. eauto.
Qed.

(* ISO: NOT attempted.  The statement that would make the isometric variant premise-free *)
Definition C02_iso_trees_statement : Prop :=
  forall (g : graph) (wts : list Z) (roots picks : list nat),
    simple_graph g -> positive_weights g wts -> (forall v, v < nv g -> In v roots) ->
    (forall cycles total, mcb_sva_trees_accept_Z TbIso g wts roots picks cycles = Some total ->
       min_cycle_basis g wts cycles /\ total = total_weight wts cycles) /\
    (exists cycles total, mcb_sva_trees_accept_Z TbIso g wts roots picks cycles = Some total).

(* ---- the phase test against the specification ------------------------------------------------------------------- *)

(* trees_phase_ok (parity through the tree parities, as coded) accepts (c, w) only if c is a simple cycle that is odd
   in the DIRECT sense  |c ∩ sg| odd, w is its weight, and no candidate of the collection that is odd in the direct
   sense is lighter *)
Definition trees_phase_ok_spec_stmt : Prop :=
  forall g wts trees cands sg c w,
    simple_graph g -> positive_weights g wts -> trees_collection_ok g wts trees cands ->
    trees_phase_ok g wts trees cands sg c w = true -> tr_answer g wts trees cands sg c w.

Theorem tf_phase_ok_spec : trees_phase_ok_spec_stmt.
Proof.
  intros g wts trees cands sg c w Hsg Hpos Hcol H. unfold trees_phase_ok in H.
  destruct Hcol as [HF Hs].
  destruct (TreesProofs2.tb_answers_ok g wts Hsg trees cands sg HF Hs) as [l [Hl [Hm Hf]]]. rewrite Hl in H.
  destruct (trees_phase_pick Z Z.ltb l c) as [w'|] eqn:Ep; [|discriminate]. apply Z.eqb_eq in H. subst w'.
  eapply tr_pick_spec; eauto. split; assumption.
Qed.

(* ---- the acceptance test against "std::sort by recorded weight, then the first answering candidate" --------------- *)

(* postcondition of std::sort(cycles, a.weight() < b.weight()): a permutation in which no later element is strictly
   lighter than an earlier one.  Whatever arrangement it leaves, the first answering candidate of the scan passes the
   acceptance test: every run the code can produce is a run the acceptance model accepts phase by phase. *)
Definition tf_weight_sorted (l : list (cand Z * tc_answer Z)) : Prop :=
  Sorted.StronglySorted (fun a b => Z.ltb (c_weight (fst b)) (c_weight (fst a)) = false) l.

Lemma tf_first_found_min : forall l x, tf_weight_sorted l -> find (tl_found Z) l = Some x ->
  forall y, In y l -> tl_found Z y = true -> Z.ltb (c_weight (fst y)) (c_weight (fst x)) = false.
Proof.
  induction l as [|a l IH]; intros x Hs Hf y Hy Hfy; [destruct Hy|].
  apply Sorted.StronglySorted_inv in Hs as [Hs Ha]. cbn [find] in Hf. destruct (tl_found Z a) eqn:Efa.
  - injection Hf as <-. destruct Hy as [<-|Hy]; [apply Z.ltb_irrefl|].
    rewrite Forall_forall in Ha. apply Ha. exact Hy.
  - destruct Hy as [<-|Hy]; [congruence|]. apply (IH x Hs Hf y Hy Hfy).
Qed.

Definition trees_sorted_scan_accepted_stmt : Prop :=
  forall (l l' : list (cand Z * tc_answer Z)) x c w,
    Permutation.Permutation l l' -> tf_weight_sorted l' ->
    find (tl_found Z) l' = Some x -> snd x = TcFound c w ->
    exists w', trees_phase_pick Z Z.ltb l c = Some w'.

Theorem tf_sorted_scan_accepted : trees_sorted_scan_accepted_stmt.
Proof.
  intros l l' x c w Hperm Hs Hf Hx.
  pose proof (find_some _ _ Hf) as [Hin' Hfx].
  assert (Hin : In x l) by (eapply Permutation.Permutation_in; [apply Permutation.Permutation_sym; exact Hperm|exact Hin']).
  assert (Hmatch : tl_matches Z Z.ltb l c x = true).
  { unfold tl_matches. rewrite Hx, TreesProofs2.tb_list_eqb_refl. cbn [andb]. unfold tl_is_min. apply forallb_forall.
    intros y Hy. destruct (tl_found Z y) eqn:Efy; [|reflexivity]. cbn [andb].
    rewrite (tf_first_found_min l' x Hs Hf y); [reflexivity| |exact Efy].
    eapply Permutation.Permutation_in; eauto. }
  unfold trees_phase_pick. destruct (find (tl_matches Z Z.ltb l c) l) as [[cd a]|] eqn:Ef.
  - apply find_some in Ef as [_ Hm]. unfold tl_matches in Hm. cbn [snd] in Hm. destruct a as [c' w'|]; [eauto|discriminate].
  - pose proof (find_none _ _ Ef x Hin) as Hn. congruence.
Qed.

Print Assumptions tf_C01_trees_accept.
Print Assumptions tf_C01_fvs_trees.
Print Assumptions tf_C01_horton_trees.
Print Assumptions tf_C02_trees_accept_modulo_sufficiency.
Print Assumptions tf_C02_fvs_trees.
Print Assumptions tf_C02_horton_trees.
Print Assumptions tf_phase_ok_spec.
Print Assumptions tf_sorted_scan_accepted.
