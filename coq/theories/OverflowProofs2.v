(* OverflowProofs2.v — C07, clause "overflows a signed integer", part 2: bounds on the values held and formed by the
   two search frontiers of bidirectional_signed_dijkstra (Z model), from the invariants finv / binv / sinv of
   BidirProofs1-3.v.   S = wsum g wts (sum of all edge weights), Wm = any bound on a single edge weight.
     ov_entry_bounds   every entry of f_dist lies in [0, 2S + Wm]   (any state satisfying finv; settled entries: [0, 2S])
     ov_entry_lim      an entry is 0 (the source) or strictly below the weight limit
     ov_iter_sum       no limit in force: at the head of an iteration that does not stop, with su the vertex popped
                       from `fr` and du its distance,  du + dw <= 2S + Wm  for every entry dw of `other`
                       (the shortest path to su and the shortest path to the predecessor of the entry of `other`
                       are vertex-simple and cannot meet: a common vertex would have given best <= top + top)
     ov_iter           one iteration: du in [0, 2S]; every candidate du + w(e) + dw lies in [0, 2S + 2Wm]; the next
                       head satisfies binv and  find_min + find_min <= 2S + 2Wm
   No axioms. *)
From Coq Require Import List Arith Bool ZArith Lia Permutation.
From Parmcb Require Import GraphModel GF2Model GF2Proofs GraphSpec GraphLemmas McbSpec ForestModel
     HeapModel HeapSpec HeapProofs SvaModel SvaSpec SignedModel SignedZModel SignedProofs RefProofs1
     BidirSpec BidirProofs1 BidirProofs2 BidirProofs3 BidirProofs4 OverflowProofs1.
Import ListNotations.

Local Open Scope Z_scope.

Lemma ov_find_min_entry fr ta : find_min Z fr = Some ta ->
  exists u, heap_top (f_heap Z fr) = Some u /\ In u (f_heap Z fr) /\ fdist fr u = Some ta.
Proof.
  unfold find_min. destruct (heap_top (f_heap Z fr)) as [u|] eqn:E; [|discriminate].
  intros H. exists u. split; [reflexivity|]. split; [|exact H].
  unfold heap_top in E. destruct (f_heap Z fr) as [|x r]; [discriminate|]. injection E as ->. left; reflexivity.
Qed.

Lemma ov_blim_nolimit P d : sp_limit Z P = None -> blim P d.
Proof. intros E. unfold blim, below_limit. rewrite E. reflexivity. Qed.

Lemma ov_blim_limit P l d : sp_limit Z P = Some l -> blim P d <-> d < l.
Proof. intros E. unfold blim, below_limit. rewrite E. apply Z.ltb_lt. Qed.

Lemma ov_lim_cases (P : sparams Z) : (exists l, sp_limit Z P = Some l) \/ sp_limit Z P = None.
Proof. destruct (sp_limit Z P) as [l|]; [left; exists l; reflexivity|right; reflexivity]. Qed.

Section Bounds.
  Variable P : sparams Z.
  Local Notation g := (sp_g Z P).
  Local Notation n := (nv (sp_g Z P)).
  Local Notation wts := (sp_wts Z P).
  Local Notation S := (wsum (sp_g Z P) (sp_wts Z P)).
  Hypothesis Hs : simple_graph g.
  Hypothesis Hpw : positive_weights g wts.
  Variable Wm : Z.
  Hypothesis HWm0 : 0 <= Wm.
  Hypothesis HWm : forall e, (e < ne g)%nat -> wt wts e <= Wm.
  (* a weight limit, when in force, is at most S (it is the weight of a simple cycle found before) *)
  Hypothesis Hlim : forall l, sp_limit Z P = Some l -> l <= S.

  Local Notation finv := (finv P).
  Local Notation B := (2 * S + 2 * Wm).

  Lemma ov_S0 : 0 <= S.
  Proof. apply ov_wsum_nonneg. exact Hpw. Qed.

  (* ---- one frontier ---------------------------------------------------------------------------------- *)

  Lemma ov_settled_bounds done s fr u d : finv done s fr -> settled fr u -> fdist fr u = Some d ->
    0 <= d <= 2 * S.
  Proof.
    intros H Hu E. destruct (fi_settled _ _ _ _ H u Hu) as (d' & E' & Hcd).
    assert (d' = d) by congruence. subst d'. eapply ov_cdist_bounds; eassumption.
  Qed.

  Lemma ov_entry_bounds done s fr u d : finv done s fr -> fdist fr u = Some d -> 0 <= d <= 2 * S + Wm.
  Proof.
    intros H E. split; [eapply (bd_entry_nonneg P Hpw); eassumption|].
    pose proof (bd_dist_entry P done s fr u d H E) as He.
    apply bd_has_entry_iff in He as [->|[[p e] Ep]].
    - rewrite (fi_src _ _ _ _ H) in E. pose proof (fi_sdist _ _ _ _ H) as E0.
      assert (d = 0) by congruence. pose proof ov_S0. lia.
    - destruct (fi_pred _ _ _ _ H u p e Ep) as (_ & Hst & Hp & dp & Edp & Edu & _).
      assert (d = dp + wt wts e) by congruence. subst d.
      pose proof (ov_settled_bounds done s fr p dp H Hp Edp).
      pose proof (HWm e (bd_cstep_edge_lt P _ _ _ Hst)). lia.
  Qed.

  Lemma ov_entry_lim done s fr u d : finv done s fr -> fdist fr u = Some d -> d = 0 \/ blim P d.
  Proof.
    intros H E. pose proof (bd_dist_entry P done s fr u d H E) as He.
    destruct (Nat.eq_dec u s) as [->|Hne].
    - left. pose proof (fi_sdist _ _ _ _ H) as E0. congruence.
    - right. eapply (bd_entry_blim P); eassumption.
  Qed.

  (* with a limit in force every entry is below S *)
  Lemma ov_entry_lim_S done s fr u d l : sp_limit Z P = Some l -> finv done s fr -> fdist fr u = Some d ->
    0 <= d /\ (d = 0 \/ d < l) /\ d <= S.
  Proof.
    intros El H E. pose proof (bd_entry_nonneg P Hpw done s fr u d H E) as H0.
    pose proof (Hlim l El). pose proof ov_S0.
    destruct (ov_entry_lim done s fr u d H E) as [->|Hb].
    - split; [lia|]. split; [left; reflexivity|lia].
    - apply (ov_blim_limit P l d El) in Hb. split; [lia|]. split; [right; lia|lia].
  Qed.

  (* ---- the two frontiers: no limit ---------------------------------------------------------------- *)

  Lemma ov_iter_sum a b fr other best su fr1 :
    sp_limit Z P = None ->
    binv P a b fr other best -> f_heap Z other <> [] ->
    (forall bp x ta tb, best = Some (bp, x) -> find_min Z fr = Some ta -> find_min Z other = Some tb ->
                        ta + tb < bp) ->
    fr_poll Z Z.ltb fr = Some (su, fr1) ->
    exists du, fdist fr1 su = Some du /\ 0 <= du <= 2 * S
      /\ forall v dw, fdist other v = Some dw -> 0 <= dw /\ du + dw <= 2 * S + Wm.
  Proof.
    intros Hnl H Hone Hgo Hpoll.
    pose proof (bi_f _ _ _ _ _ _ H) as Hf. pose proof (bi_o _ _ _ _ _ _ H) as Ho.
    destruct (bd_poll_finv P Hpw a fr su fr1 Hf Hpoll)
      as (du & Edu & Hf1 & Hinh & Hsu1 & Hset1 & Hmem1 & Ed1 & Ep1 & Es1 & Hmax1 & Hub & Hmin).
    exists du. split; [exact Edu|].
    destruct (fi_settled _ _ _ _ Hf1 su Hsu1) as (d0 & Ed0 & Hcd).
    assert (d0 = du) by congruence. subst d0.
    pose proof (ov_cdist_bounds P Hs Hpw a su du Hcd) as Hdub. split; [exact Hdub|].
    destruct (ov_cdist_simple P Hpw a su du Hcd) as (A & HA & HndA & ElA).
    (* the top of fr is su with key du *)
    assert (Efm : find_min Z fr = Some du).
    { unfold fr_poll in Hpoll. unfold find_min.
      destruct (heap_top (f_heap Z fr)) as [u'|]; [|discriminate]. injection Hpoll as -> _.
      unfold fdist, fr_dist in Edu. rewrite Ed1 in Edu. exact Edu. }
    (* the top of other *)
    destruct (f_heap Z other) as [|tv hr] eqn:Eho; [exfalso; apply Hone; first [exact Eho|reflexivity]|].
    assert (Htv : In tv (f_heap Z other)) by (rewrite Eho; left; reflexivity).
    destruct (bd_entry_dist P _ b other tv Ho (fi_heap_entry _ _ _ _ Ho tv Htv)) as (tb & Etb & _).
    assert (Efmo : find_min Z other = Some tb).
    { unfold find_min. rewrite Eho. cbn [heap_top hd_error]. exact Etb. }
    intros v dw Ev. split; [exact (bd_entry_nonneg P Hpw _ b other v dw Ho Ev)|].
    pose proof (bd_dist_entry P _ b other v dw Ho Ev) as Hev.
    apply bd_has_entry_iff in Hev as [->|[[p' e'] Ep']].
    { rewrite (fi_src _ _ _ _ Ho) in Ev. pose proof (fi_sdist _ _ _ _ Ho) as E0.
      assert (dw = 0) by congruence. lia. }
    destruct (fi_pred _ _ _ _ Ho v p' e' Ep') as (_ & Hst' & Hp' & dp' & Edp' & Edv & _).
    assert (dw = dp' + wt wts e') by congruence. subst dw.
    destruct (fi_settled _ _ _ _ Ho p' Hp') as (d0 & Ed0' & Hcd').
    assert (d0 = dp') by congruence. subst d0.
    destruct (ov_cdist_simple P Hpw b p' dp' Hcd') as (Bp & HB & HndB & ElB).
    pose proof (HWm e' (bd_cstep_edge_lt P _ _ _ Hst')) as Hwe'.
    assert (Hdptb : dp' <= tb) by (eapply (fi_mono _ _ _ _ Ho p' tv); eassumption).
    enough (clen P A + clen P Bp <= 2 * S) by lia.
    apply (ov_two_paths P Hs Hpw
             (fun u => settled fr u /\ exists d, fdist fr u = Some d /\ d < du)
             (fun x => settled other x /\ exists d, fdist other x = Some d /\ d <= dp')
             A a su Bp b p' HA HndA HB HndB).
    - (* sources of the steps of A are settled in fr, strictly below du *)
      intros u e v' Hin.
      destruct (ov_csteps_split P A a su u e v' HA Hin) as (A1 & A2 & EA & HA1 & Hst & HA2).
      assert (Hlt : clen P A1 < du).
      { rewrite <- ElA, EA, bd_clen_app, bd_clen_cons.
        pose proof (bd_cstep_wt_pos P Hpw _ _ _ Hst). pose proof (bd_clen_nonneg P A2 Hpw). lia. }
      destruct (bd_lower_bound P Hpw a fr Hf A1 u HA1) as [[Hu (d & Ed & Hle)]|[(v0 & dv & Hv0 & Ev0 & Hle)|Hnb]].
      + split; [exact Hu|]. exists d. split; [exact Ed|lia].
      + specialize (Hmin v0 dv Hv0 Ev0). lia.
      + exfalso. apply Hnb. apply ov_blim_nolimit. exact Hnl.
    - (* vertices of B are settled in other, at most dp' *)
      intros x Hin.
      destruct (ov_vertex_split P Bp b p' x HB Hin) as (B1 & B2 & EB & HB1 & HB2).
      destruct (ov_split_len P Hpw B1 B2 b x p' HB1 HB2) as [Hle Heq]. rewrite <- EB, ElB in Hle, Heq.
      destruct (bd_lower_bound P Hpw b other Ho B1 x HB1) as [[Hx (d & Ed & Hle')]|[(v0 & dv & Hv0 & Ev0 & Hle')|Hnb]].
      + split; [exact Hx|]. exists d. split; [exact Ed|lia].
      + pose proof (fi_mono _ _ _ _ Ho p' v0 dp' dv Hp' Hv0 Edp' Ev0).
        destruct Heq as [_ ->]; [lia|]. split; [exact Hp'|]. exists dp'. split; [exact Edp'|lia].
      + exfalso. apply Hnb. apply ov_blim_nolimit. exact Hnl.
    - (* a vertex settled on both sides contradicts the loop condition *)
      intros x [Hxf (df & Edf & Hdf)] [Hxo (db & Edb & Hdb)].
      assert (Hble : best_le best (df + db)).
      { destruct (Nat.eq_dec x a) as [->|Hxa].
        - assert (Hab : a <> f_src Z other).
          { rewrite (fi_src _ _ _ _ Ho). exact (bi_ne _ _ _ _ _ _ H). }
          destruct (proj1 (bd_has_entry_iff other a) (proj1 Hxo)) as [E|[[p e] Ep]]; [contradiction|].
          destruct (fi_pred _ _ _ _ Ho a p e Ep) as (_ & Hst & Hp & dp & Edp & Eda & _).
          assert (db = dp + wt wts e) by congruence. subst db.
          eapply bd_best_le_mono; [eapply (bi_E2 _ _ _ _ _ _ H p a e dp df Hp)|lia].
          + right. symmetry. exact (fi_src _ _ _ _ Hf).
          + exact Hst.
          + exact Edp.
          + exact Edf.
          + apply ov_blim_nolimit. exact Hnl.
        - destruct (proj1 (bd_has_entry_iff fr x) (proj1 Hxf)) as [E|[[p e] Ep]].
          { exfalso. apply Hxa. rewrite E. exact (fi_src _ _ _ _ Hf). }
          destruct (fi_pred _ _ _ _ Hf x p e Ep) as (_ & Hst & Hp & dp & Edp & Edx & _).
          assert (df = dp + wt wts e) by congruence. subst df.
          eapply bd_best_le_mono; [eapply (bi_E1 _ _ _ _ _ _ H p x e dp db Hp)|lia].
          + left. exact Hxo.
          + exact Hst.
          + exact Edp.
          + exact Edb.
          + apply ov_blim_nolimit. exact Hnl. }
      destruct Hble as (bp & x0 & Eb & Hle).
      specialize (Hgo bp x0 du tb Eb Efm Efmo). lia.
  Qed.

  (* ---- one iteration ------------------------------------------------------------------------------ *)

  (* find_min fr + find_min other <= B *)
  Definition Jtops (fr other : frontier Z) : Prop :=
    forall ta tb, find_min Z fr = Some ta -> find_min Z other = Some tb -> ta + tb <= B.

  Lemma ov_iter a b fr other best su fr1 :
    binv P a b fr other best -> f_heap Z other <> [] ->
    (forall bp x ta tb, best = Some (bp, x) -> find_min Z fr = Some ta -> find_min Z other = Some tb ->
                        ta + tb < bp) ->
    fr_poll Z Z.ltb fr = Some (su, fr1) ->
    exists du, fdist fr1 su = Some du /\ 0 <= du <= 2 * S
      /\ (forall e v dw, (e < ne g)%nat -> blim P (du + wt wts e) -> fdist other v = Some dw ->
            0 <= dw /\ du + wt wts e + dw <= B)
      /\ (blim P du -> exists fr2 best',
            fold_left (scan_edge Z 0 Z.add Z.ltb P other su du) (out_edges g (vertex_of n su)) (Some (fr1, best))
            = Some (fr2, best')
            /\ binv P b a other fr2 best' /\ Jtops other fr2).
  Proof.
    intros H Hone Hgo Hpoll.
    pose proof (bi_f _ _ _ _ _ _ H) as Hf. pose proof (bi_o _ _ _ _ _ _ H) as Ho.
    pose proof ov_S0 as HS0.
    destruct (bd_poll_finv P Hpw a fr su fr1 Hf Hpoll)
      as (du & Edu & Hf1 & Hinh & Hsu1 & Hset1 & Hmem1 & Ed1 & Ep1 & Es1 & Hmax1 & Hub & Hmin).
    exists du. split; [exact Edu|].
    pose proof (ov_settled_bounds _ a fr1 su du Hf1 Hsu1 Edu) as Hdub. split; [exact Hdub|].
    (* du + dw for the entries of other *)
    assert (Hsum : forall e v dw, (e < ne g)%nat -> blim P (du + wt wts e) -> fdist other v = Some dw ->
              0 <= dw /\ du + wt wts e + dw <= B).
    { intros e v dw He Hb Ev. pose proof (HWm e He) as Hwe.
      destruct (ov_lim_cases P) as [[l El]|El].
      - destruct (ov_entry_lim_S _ b other v dw l El Ho Ev) as (H0 & Hc & _). split; [exact H0|].
        apply (ov_blim_limit P l _ El) in Hb. pose proof (Hlim l El). lia.
      - destruct (ov_iter_sum a b fr other best su fr1 El H Hone Hgo Hpoll) as (du' & Edu' & _ & Hs').
        assert (du' = du) by congruence. subst du'. destruct (Hs' v dw Ev). lia. }
    split; [exact Hsum|].
    intros Hb.
    (* replay the edge loop with its invariant (as in bd_iter) *)
    assert (Hfd1 : forall x, fdist fr1 x = fdist fr x).
    { intros x. unfold fdist, fr_dist. rewrite Ed1. reflexivity. }
    assert (Hoth : forall x, has_entry other x -> exists d, fdist other x = Some d).
    { intros x Hx. destruct (bd_entry_dist P _ b other x Ho Hx) as (d & E & _). exists d; exact E. }
    assert (Hsi : sinv P a other su du fr1 best [] fr1 best).
    { constructor; try tauto.
      - eapply bd_finv_done_weaken; [|exact Hf1]. intros u e v _ [Hne|[]]. exact Hne.
      - intros bp x E. destruct (bi_best _ _ _ _ _ _ H bp x E) as (df & db & E1 & E2 & Hle).
        exists df, db. rewrite Hfd1. auto.
      - intros e v dv [].
      - intros x d E. exists d. split; [exact E|lia]. }
    destruct (bd_scan_fold P Hs Hpw a other su du fr1 best Hoth
                (out_edges g (vertex_of n su)) [] fr1 best Hsi)
      as (fr2 & best' & Efold & Hsi2).
    { intros e w Hin. apply gl_out_edges_joins. exact Hin. }
    exists fr2, best'. split; [exact Efold|].
    destruct (bd_iter P Hs Hpw a b fr other best su fr1 H Hpoll) as (du' & Edu' & Hcase).
    assert (du' = du) by congruence. subst du'.
    destruct Hcase as [[Hnb _]|(_ & fr2' & best'' & Efold' & H2 & _)]; [contradiction|].
    rewrite Efold in Efold'. injection Efold' as <- <-.
    split; [exact H2|].
    (* the tops of the next head *)
    intros ta tb Eta Etb.
    destruct (ov_find_min_entry other ta Eta) as (va & _ & _ & Eva).
    destruct (ov_find_min_entry fr2 tb Etb) as (vb & _ & Hvb & Evb).
    pose proof (si_finv _ _ _ _ _ _ _ _ _ _ Hsi2) as Hf2.
    destruct (ov_lim_cases P) as [[l El]|El].
    - destruct (ov_entry_lim_S _ b other va ta l El Ho Eva) as (_ & _ & Ha).
      destruct (ov_entry_lim_S _ a fr2 vb tb l El Hf2 Evb) as (_ & _ & Hb').
      lia.
    - destruct (ov_iter_sum a b fr other best su fr1 El H Hone Hgo Hpoll) as (du' & Edu'' & _ & Hs').
      assert (du' = du) by congruence. subst du'. destruct (Hs' va ta Eva) as [_ Hsa].
      enough (tb <= du + Wm) by lia.
      pose proof (fi_heap_entry _ _ _ _ Hf2 vb Hvb) as Hevb.
      apply bd_has_entry_iff in Hevb as [->|[[p e] Ep]].
      + rewrite (fi_src _ _ _ _ Hf2) in Evb. pose proof (fi_sdist _ _ _ _ Hf2) as E0.
        assert (tb = 0) by congruence. lia.
      + destruct (fi_pred _ _ _ _ Hf2 vb p e Ep) as (_ & Hst & Hp & dp & Edp & Edvb & _).
        assert (tb = dp + wt wts e) by congruence. subst tb.
        pose proof (si_max _ _ _ _ _ _ _ _ _ _ Hsi2 p dp Hp Edp).
        pose proof (HWm e (bd_cstep_edge_lt P _ _ _ Hst)). lia.
  Qed.

  (* the initial state *)
  Lemma ov_find_min_init s : (s < 2 * n)%nat -> find_min Z (fr_init Z 0 n s) = Some 0.
  Proof.
    intros Hlt. unfold find_min, fr_init. cbn [f_heap heap_top hd_error]. unfold fr_dist. cbn [f_dist].
    apply bd_nth_set_nth_eq. rewrite map_length, seq_length. exact Hlt.
  Qed.

  Lemma ov_Jtops_init a b : (a < 2 * n)%nat -> (b < 2 * n)%nat ->
    Jtops (fr_init Z 0 n a) (fr_init Z 0 n b).
  Proof.
    intros Ha Hb ta tb Eta Etb. rewrite (ov_find_min_init a Ha) in Eta. rewrite (ov_find_min_init b Hb) in Etb.
    injection Eta as <-. injection Etb as <-. pose proof ov_S0. lia.
  Qed.

End Bounds.
