(* TreesOrderProofs2.v — whole runs of the tree-based exact variants AS EXECUTED, exact domain (Z, positive weights).
   For EVERY arrangement `order` that ts_arrange validates (a permutation of the positions of the builder's output that is
   non-decreasing in the recorded weight = every result std::sort may leave):
     to_order_run     over a sound and sufficient collection the run of mcb_sva_trees_order (first answering candidate of the
                      arranged scan, per phase) completes; its cycles are an ACCEPTED run of the acceptance model
                      (mcb_sva_trees_accept_Z returns Some of the same total); they form a minimum cycle basis of m-n+c cycles
                      and the total is its weight; the model that goes on after an empty answer (mcb_sva_trees_go_Z) makes the
                      same run with every phase found
     to_builder_*     the premises hold for Horton's, the FVS (every complete run of greedy_fvs) and the isometric builder, and
                      the ISO builder as executed (std::map::operator[] default) coincides with the generic model
     to_order_accepted / to_go_is_order / to_exact    the end statements (restated in Properties_C01_trees_exact.v)
   Prefix to_. *)
From Coq Require Import List Arith Bool Lia ZArith Permutation.
From Parmcb Require Import GraphModel GraphSpec GF2Model McbSpec LexSPModel FvsModel CandidatesModel CandidatesProofsZ
     ForestModel ForestProofs DePinaSpec DePinaProofs SvaModel SvaSpec SvaProofs RefModel TreesModel TreesProofs2 TreesProofs3 TreesProofs4 TreesProofs5
     TreesFloatModel FloatTreesProofs IsoProofsF2 TreesOrderProofs.
Import ListNotations.

(* the exact-domain instance of the run that is compared with the code, in the vocabulary of SvaModel *)
Definition mcb_sva_trees_order_Z := mcb_sva_trees_order Z 0%Z Z.add Z.ltb.

(* `order` is an arrangement std::sort may leave the builder's output in: ts_arrange validates it against the collection as
   executed *)
Definition trees_order_valid (b : tbuilder) (g : graph) (wts : list Z) (picks order : list nat) : Prop :=
  exists trees cands sc, tb_collection_dflt Z 0%Z Z.add Z.ltb b g wts picks = CdOk (trees, cands) /\
                         ts_arrange Z Z.ltb cands order = Some sc.

(* ---- the arranged scan as an instance of the specifications of SvaSpec.v -------------------------------------------------- *)
Section Search.
  Variable g : graph.
  Variable wts : list Z.
  Variable roots : list nat.
  Variable fi : forest_index.
  Variable trees : list (sp_tree Z).
  Variable cands sc : list (cand Z).
  Hypothesis Hsg : simple_graph g.
  Hypothesis Hpos : positive_weights g wts.
  Hypothesis Hr : forall v, v < nv g -> In v roots.
  Hypothesis Hci : create_index g roots = Some fi.
  Hypothesis Hcol : trees_collection_ok g wts trees cands.
  Hypothesis Hperm : Permutation cands sc.
  Hypothesis Hnd : ts_nondecr Z Z.ltb sc = true.

  Notation ord := (trees_search_order Z 0%Z Z.add g wts trees sc fi).
  Notation acc := (trees_search_accept Z 0%Z Z.add Z.ltb g wts trees cands fi).

  Lemma to_order_answer k S c w : ord k S = PFound c w -> tr_answer g wts trees cands (indices_to_edges fi S) c w.
  Proof.
    intros H. destruct (to_phase g wts trees cands sc fi Hsg Hcol Hperm Hnd S) as (l & _ & Hm & Hf & _ & Hpick & _).
    eapply tr_pick_spec; eauto.
  Qed.

  Lemma to_order_sound_c : search_sound_c g fi ord.
  Proof.
    intros k S c w HS H. pose proof (to_order_answer k S c w H) as Ha.
    destruct (tr_answer_sound g wts roots fi trees cands Hsg Hr Hci S c w HS Ha) as (Hsc & Hp & _).
    split; [apply simple_cycle_in_cycle_space; assumption|exact Hp].
  Qed.

  Lemma to_order_min_c : collection_sufficient g wts fi trees cands -> search_min_c g wts fi ord.
  Proof.
    intros Hsuf k S c w HS H. pose proof (to_order_answer k S c w H) as Ha.
    exact (tr_answer_min g wts roots fi trees cands Hsg Hr Hci S c w HS Hsuf Ha).
  Qed.

  (* no empty answer: some candidate answers (the deterministic resolution of TreesModel.v finds one), so the scan does *)
  Lemma to_order_total_c : collection_sufficient g wts fi trees cands -> search_total fi ord.
  Proof.
    intros Hsuf k S HS Hne HSb.
    destruct (tr_first_total_c g wts roots fi trees cands Hsg Hr Hci Hcol Hsuf k S HS Hne HSb) as (c & w & Hfirst).
    destruct (to_phase g wts trees cands sc fi Hsg Hcol Hperm Hnd S) as (l & Hl & _ & _ & _ & _ & Htot).
    apply Htot. unfold trees_search_first in Hfirst. rewrite Hl in Hfirst. unfold trees_phase_first in Hfirst.
    destruct (find _ l) as [x|] eqn:Ef; [|discriminate]. apply find_some in Ef as [Hin Hx].
    apply andb_true_iff in Hx as [Hx _]. exists x. auto.
  Qed.

  (* the acceptance search takes the scan's answer, with the same weight *)
  Lemma to_order_replayed cycles k S c w : ord k S = PFound c w -> nth_error cycles k = Some c -> acc cycles k S = PFound c w.
  Proof.
    intros H Hn. destruct (to_phase g wts trees cands sc fi Hsg Hcol Hperm Hnd S) as (l & Hl & _ & _ & _ & Hpick & _).
    unfold trees_search_accept. rewrite Hn, Hl, (Hpick k c w H). reflexivity.
  Qed.

  Lemma to_order_no_error k S : ord k S <> PError.
  Proof. destruct (to_phase g wts trees cands sc fi Hsg Hcol Hperm Hnd S) as (l & _ & _ & _ & Hne & _). apply Hne. Qed.
End Search.

(* ---- the run ---------------------------------------------------------------------------------------------------------------- *)
Section Run.
  Variable b : tbuilder.
  Variable g : graph.
  Variable wts : list Z.
  Variable roots picks : list nat.
  Hypothesis Hsg : simple_graph g.
  Hypothesis Hpos : positive_weights g wts.
  Hypothesis Hr : forall v, v < nv g -> In v roots.
  Variable trees : list (sp_tree Z).
  Variable cands : list (cand Z).
  Hypothesis Hc : tb_collection Z 0%Z Z.add Z.ltb b g wts picks = CdOk (trees, cands).
  Hypothesis Hsuf : forall fi, create_index g roots = Some fi -> collection_sufficient g wts fi trees cands.

  Lemma to_valid_inv order : trees_order_valid b g wts picks order ->
    exists sc, ts_arrange Z Z.ltb cands order = Some sc.
  Proof.
    intros (trees' & cands' & sc & Hd & Ha).
    rewrite (ft_collection_dflt_refines Z 0%Z Z.add Z.ltb b g wts picks _ Hc) in Hd. injection Hd as <- <-. eauto.
  Qed.

  Lemma to_valid_exists : exists order, trees_order_valid b g wts picks order.
  Proof.
    destruct (to_arrange_exists cands) as (order & sc & Ha). exists order, trees, cands, sc.
    split; [apply (ft_collection_dflt_refines Z 0%Z Z.add Z.ltb); exact Hc|exact Ha].
  Qed.

  Theorem to_order_run order : trees_order_valid b g wts picks order ->
    exists cycles total sup,
      mcb_sva_trees_order_Z b g wts roots picks order = TRun (SvaOk cycles total sup) /\
      mcb_sva_trees_accept_Z b g wts roots picks cycles = Some total /\
      min_cycle_basis g wts cycles /\ total = total_weight wts cycles /\ has_cycle_space_dimension g (length cycles) /\
      exists phases, mcb_sva_trees_go_Z b g wts roots picks order = GoOk phases total sup /\
                     map gp_cycle phases = cycles /\ Forall (ft_found Z) phases.
  Proof.
    intros Hv. destruct (to_valid_inv order Hv) as (sc & Harr).
    destruct (to_arrange_inv Z Z.ltb cands order sc Harr) as (_ & Hperm & Hnd).
    destruct (create_index_correct g roots Hsg Hr) as (fi & Hci & _).
    pose proof (tr_collection_ok b g wts picks trees cands Hsg Hpos Hc) as Hcol.
    pose proof (select_none_ok (fi_csd fi)) as Hsel.
    pose proof (to_order_sound_c g wts roots fi trees cands sc Hsg Hr Hci Hcol Hperm Hnd) as Hsnd.
    pose proof (to_order_total_c g wts roots fi trees cands sc Hsg Hr Hci Hcol Hperm Hnd (Hsuf fi Hci)) as Htot.
    pose proof (to_order_min_c g wts roots fi trees cands sc Hsg Hr Hci Hcol Hperm Hnd (Hsuf fi Hci)) as Hmin.
    destruct (sva_generic_total_c g roots fi Z 0%Z Z.add _ _ Hsg Hr Hci Hsel Hsnd Htot) as (cycles & total & sup & Hrun).
    destruct (sva_generic_min_c g wts roots fi _ _ cycles total sup Hsg Hpos Hr Hci Hsel Hmin Hrun) as (Hm & Hw & Hd).
    pose proof (ft_collection_dflt_refines Z 0%Z Z.add Z.ltb b g wts picks _ Hc) as Hcd.
    exists cycles, total, sup.
    split; [unfold mcb_sva_trees_order_Z, mcb_sva_trees_order; rewrite Hci, Hcd, Harr, Hrun; reflexivity|].
    split.
    { unfold mcb_sva_trees_accept_Z, mcb_sva_trees_accept, mcb_sva_trees_replay, mcb_sva_trees. rewrite Hci, Hc.
      assert (Hrun2 : sva_run Z 0%Z Z.add select_none (trees_search_accept Z 0%Z Z.add Z.ltb g wts trees cands fi cycles) fi
                      = SvaOk cycles total sup).
      { unfold sva_run in *. apply (tr_phases_replay Z.add select_none _ _ fi cycles
                                      (to_order_replayed g wts fi trees cands sc Hsg Hcol Hperm Hnd cycles)); [reflexivity|exact Hrun]. }
      rewrite Hrun2, Nat.eqb_refl. reflexivity. }
    split; [exact Hm|]. split; [exact Hw|]. split; [exact Hd|].
    unfold sva_run in Hrun.
    destruct (ft_go_of_ok Z 0%Z Z.add _ fi _ _ [] [] 0%Z cycles total sup Hrun) as (phs & Hgo & Hcy & Hfound).
    exists phs. cbn [rev app] in Hgo, Hcy.
    split; [unfold mcb_sva_trees_go_Z, mcb_sva_trees_go; rewrite Hci, Hcd, Harr; exact Hgo|]. split; [symmetry; exact Hcy|exact Hfound].
  Qed.
End Run.

(* ---- the three builders ------------------------------------------------------------------------------------------------- *)

(* the premise under which the builder of the variant is run: for the FVS builder a complete run of greedy_fvs (every pick
   oracle the model FvsModel accepts); none for Horton's and the isometric builder *)
Definition trees_builder_ready (b : tbuilder) (g : graph) (picks : list nat) : Prop :=
  b = TbFvs -> exists fvs, greedy_fvs g picks = FvsOk fvs.

Lemma to_builder_total b g wts picks : simple_graph g -> positive_weights g wts -> trees_builder_ready b g picks ->
  exists trees cands, tb_collection Z 0%Z Z.add Z.ltb b g wts picks = CdOk (trees, cands).
Proof.
  intros Hsg Hpos Hb. destruct b; cbn [tb_collection].
  - exact (proj1 (cz_C14_total g wts Hsg Hpos)).
  - destruct (Hb eq_refl) as [fvs Hf]. exact (proj2 (cz_C14_total g wts Hsg Hpos) picks fvs Hf).
  - exact (iso_total g wts Hsg Hpos).
Qed.

Lemma to_builder_sufficient b g wts picks fi trees cands : simple_graph g -> positive_weights g wts ->
  tb_collection Z 0%Z Z.add Z.ltb b g wts picks = CdOk (trees, cands) -> collection_sufficient g wts fi trees cands.
Proof.
  intros Hsg Hpos H. destruct b.
  - eapply (tf_sufficient TbHorton); eauto. discriminate.
  - eapply (tf_sufficient TbFvs); eauto. discriminate.
  - apply tr_sufficient_all_canonical. cbn [tb_collection] in H. exact (iso_sufficient g wts trees cands Hsg Hpos H).
Qed.

(* the default of std::map::operator[] in the ISO builder is never used in the exact domain: the collection as executed IS
   the collection of the generic model (which answers CdInconsistent on a missing key) *)
Lemma to_builder_dflt_same b g wts picks : simple_graph g -> positive_weights g wts -> trees_builder_ready b g picks ->
  tb_collection_dflt Z 0%Z Z.add Z.ltb b g wts picks = tb_collection Z 0%Z Z.add Z.ltb b g wts picks.
Proof.
  intros Hsg Hpos Hb. destruct (to_builder_total b g wts picks Hsg Hpos Hb) as (trees & cands & Hc).
  rewrite Hc. apply (ft_collection_dflt_refines Z 0%Z Z.add Z.ltb). exact Hc.
Qed.

(* ---- end statements ------------------------------------------------------------------------------------------------------- *)

(* every arrangement std::sort may leave gives an accepted run of the acceptance model; such arrangements exist *)
Definition trees_order_accepted_stmt : Prop :=
  forall (b : tbuilder) (g : graph) (wts : list Z) (roots picks : list nat),
    simple_graph g -> positive_weights g wts -> (forall v, v < nv g -> In v roots) -> trees_builder_ready b g picks ->
    (exists order, trees_order_valid b g wts picks order) /\
    forall order, trees_order_valid b g wts picks order ->
      exists cycles total sup,
        mcb_sva_trees_order_Z b g wts roots picks order = TRun (SvaOk cycles total sup) /\
        mcb_sva_trees_accept_Z b g wts roots picks cycles = Some total.

Theorem to_order_accepted : trees_order_accepted_stmt.
Proof.
  intros b g wts roots picks Hsg Hpos Hr Hb. destruct (to_builder_total b g wts picks Hsg Hpos Hb) as (trees & cands & Hc).
  split; [exact (to_valid_exists b g wts picks trees cands Hc)|].
  intros order Hv.
  destruct (to_order_run b g wts roots picks Hsg Hpos Hr trees cands Hc
              (fun fi _ => to_builder_sufficient b g wts picks fi trees cands Hsg Hpos Hc) order Hv)
    as (cycles & total & sup & H1 & H2 & _). eauto.
Qed.

(* the model that is compared with the code (goes on after an empty answer; ISO builder with the std::map default) is the
   model the theorems are about: no empty answer occurs, the default key is never used *)
Definition trees_go_is_order_stmt : Prop :=
  forall (b : tbuilder) (g : graph) (wts : list Z) (roots picks : list nat),
    simple_graph g -> positive_weights g wts -> (forall v, v < nv g -> In v roots) -> trees_builder_ready b g picks ->
    tb_collection_dflt Z 0%Z Z.add Z.ltb b g wts picks = tb_collection Z 0%Z Z.add Z.ltb b g wts picks /\
    forall order, trees_order_valid b g wts picks order ->
      exists phases total sup,
        mcb_sva_trees_go_Z b g wts roots picks order = GoOk phases total sup /\
        Forall (fun p => gp_found p = true) phases /\
        mcb_sva_trees_order_Z b g wts roots picks order = TRun (SvaOk (map gp_cycle phases) total sup).

Theorem to_go_is_order : trees_go_is_order_stmt.
Proof.
  intros b g wts roots picks Hsg Hpos Hr Hb. split; [exact (to_builder_dflt_same b g wts picks Hsg Hpos Hb)|].
  destruct (to_builder_total b g wts picks Hsg Hpos Hb) as (trees & cands & Hc).
  intros order Hv.
  destruct (to_order_run b g wts roots picks Hsg Hpos Hr trees cands Hc
              (fun fi _ => to_builder_sufficient b g wts picks fi trees cands Hsg Hpos Hc) order Hv)
    as (cycles & total & sup & H1 & _ & _ & _ & _ & phases & Hgo & Hcy & Hf).
  exists phases, total, sup. split; [exact Hgo|]. split; [exact Hf|]. rewrite Hcy. exact H1.
Qed.

(* the consequences, explicitly: for EVERY valid arrangement the run as executed ends SvaOk with m-n+c simple cycles that form
   a MINIMUM cycle basis, and the accumulated value (what the entry point returns) is its total weight *)
Definition trees_exact_stmt (b : tbuilder) : Prop :=
  forall (g : graph) (wts : list Z) (roots picks : list nat),
    simple_graph g -> positive_weights g wts -> (forall v, v < nv g -> In v roots) -> trees_builder_ready b g picks ->
    (exists order, trees_order_valid b g wts picks order) /\
    forall order, trees_order_valid b g wts picks order ->
      exists cycles total sup,
        mcb_sva_trees_order_Z b g wts roots picks order = TRun (SvaOk cycles total sup) /\
        cycle_basis g cycles /\ has_cycle_space_dimension g (length cycles) /\
        min_cycle_basis g wts cycles /\ total = total_weight wts cycles.

Theorem to_exact b : trees_exact_stmt b.
Proof.
  intros g wts roots picks Hsg Hpos Hr Hb. destruct (to_builder_total b g wts picks Hsg Hpos Hb) as (trees & cands & Hc).
  split; [exact (to_valid_exists b g wts picks trees cands Hc)|].
  intros order Hv.
  destruct (to_order_run b g wts roots picks Hsg Hpos Hr trees cands Hc
              (fun fi _ => to_builder_sufficient b g wts picks fi trees cands Hsg Hpos Hc) order Hv)
    as (cycles & total & sup & H1 & _ & Hm & Hw & Hd & _).
  exists cycles, total, sup. split; [exact H1|]. split; [exact (proj1 Hm)|]. auto.
Qed.

(* the same per entry point, spelled out (C01: a cycle basis of the right size; C02: minimum, returned value = its weight) *)
Definition C01_fvs_trees_exact_stmt : Prop :=
  forall (g : graph) (wts : list Z) (roots picks fvs : list nat),
    simple_graph g -> positive_weights g wts -> (forall v, v < nv g -> In v roots) -> greedy_fvs g picks = FvsOk fvs ->
    (exists order, trees_order_valid TbFvs g wts picks order) /\
    forall order, trees_order_valid TbFvs g wts picks order ->
      exists cycles total sup,
        mcb_sva_trees_order_Z TbFvs g wts roots picks order = TRun (SvaOk cycles total sup) /\
        cycle_basis g cycles /\ has_cycle_space_dimension g (length cycles).

Definition C02_fvs_trees_exact_stmt : Prop :=
  forall (g : graph) (wts : list Z) (roots picks fvs : list nat),
    simple_graph g -> positive_weights g wts -> (forall v, v < nv g -> In v roots) -> greedy_fvs g picks = FvsOk fvs ->
    (exists order, trees_order_valid TbFvs g wts picks order) /\
    forall order, trees_order_valid TbFvs g wts picks order ->
      exists cycles total sup,
        mcb_sva_trees_order_Z TbFvs g wts roots picks order = TRun (SvaOk cycles total sup) /\
        min_cycle_basis g wts cycles /\ total = total_weight wts cycles.

(* Horton's and the isometric builder: no premise on `picks` (unused) *)
Definition C01_trees_exact_nopicks_stmt (b : tbuilder) : Prop :=
  forall (g : graph) (wts : list Z) (roots picks : list nat),
    simple_graph g -> positive_weights g wts -> (forall v, v < nv g -> In v roots) ->
    (exists order, trees_order_valid b g wts picks order) /\
    forall order, trees_order_valid b g wts picks order ->
      exists cycles total sup,
        mcb_sva_trees_order_Z b g wts roots picks order = TRun (SvaOk cycles total sup) /\
        cycle_basis g cycles /\ has_cycle_space_dimension g (length cycles).

Definition C02_trees_exact_nopicks_stmt (b : tbuilder) : Prop :=
  forall (g : graph) (wts : list Z) (roots picks : list nat),
    simple_graph g -> positive_weights g wts -> (forall v, v < nv g -> In v roots) ->
    (exists order, trees_order_valid b g wts picks order) /\
    forall order, trees_order_valid b g wts picks order ->
      exists cycles total sup,
        mcb_sva_trees_order_Z b g wts roots picks order = TRun (SvaOk cycles total sup) /\
        min_cycle_basis g wts cycles /\ total = total_weight wts cycles.

Theorem to_C01_fvs_exact : C01_fvs_trees_exact_stmt.
Proof.
  intros g wts roots picks fvs Hsg Hpos Hr Hf.
  destruct (to_exact TbFvs g wts roots picks Hsg Hpos Hr (fun _ => ex_intro _ fvs Hf)) as [Hex Hall]. split; [exact Hex|].
  intros order Hv. destruct (Hall order Hv) as (cycles & total & sup & H1 & H2 & H3 & _). eauto 7.
Qed.

Theorem to_C02_fvs_exact : C02_fvs_trees_exact_stmt.
Proof.
  intros g wts roots picks fvs Hsg Hpos Hr Hf.
  destruct (to_exact TbFvs g wts roots picks Hsg Hpos Hr (fun _ => ex_intro _ fvs Hf)) as [Hex Hall]. split; [exact Hex|].
  intros order Hv. destruct (Hall order Hv) as (cycles & total & sup & H1 & _ & _ & H4 & H5). eauto 7.
Qed.

Lemma to_C01_exact_nopicks b : b <> TbFvs -> C01_trees_exact_nopicks_stmt b.
Proof.
  intros Hb g wts roots picks Hsg Hpos Hr.
  destruct (to_exact b g wts roots picks Hsg Hpos Hr (fun E => False_ind _ (Hb E))) as [Hex Hall]. split; [exact Hex|].
  intros order Hv. destruct (Hall order Hv) as (cycles & total & sup & H1 & H2 & H3 & _). eauto 7.
Qed.

Lemma to_C02_exact_nopicks b : b <> TbFvs -> C02_trees_exact_nopicks_stmt b.
Proof.
  intros Hb g wts roots picks Hsg Hpos Hr.
  destruct (to_exact b g wts roots picks Hsg Hpos Hr (fun E => False_ind _ (Hb E))) as [Hex Hall]. split; [exact Hex|].
  intros order Hv. destruct (Hall order Hv) as (cycles & total & sup & H1 & _ & _ & H4 & H5). eauto 7.
Qed.

Theorem to_C01_iso_exact : C01_trees_exact_nopicks_stmt TbIso.
Proof. apply to_C01_exact_nopicks. discriminate. Qed.
Theorem to_C02_iso_exact : C02_trees_exact_nopicks_stmt TbIso.
Proof. apply to_C02_exact_nopicks. discriminate. Qed.
Theorem to_C01_horton_exact : C01_trees_exact_nopicks_stmt TbHorton.
Proof. apply to_C01_exact_nopicks. discriminate. Qed.
Theorem to_C02_horton_exact : C02_trees_exact_nopicks_stmt TbHorton.
Proof. apply to_C02_exact_nopicks. discriminate. Qed.

(* an arrangement that ts_arrange does not validate is reported, not run *)
Lemma to_bad_order b g wts roots picks order trees cands fi :
  create_index g roots = Some fi -> tb_collection_dflt Z 0%Z Z.add Z.ltb b g wts picks = CdOk (trees, cands) ->
  ts_arrange Z Z.ltb cands order = None ->
  mcb_sva_trees_go_Z b g wts roots picks order = GoBadOrder /\ mcb_sva_trees_order_Z b g wts roots picks order = TNoCollection.
Proof.
  intros Hci Hc Ha. unfold mcb_sva_trees_go_Z, mcb_sva_trees_go, mcb_sva_trees_order_Z, mcb_sva_trees_order.
  rewrite Hci, Hc, Ha. split; reflexivity.
Qed.

Print Assumptions to_order_accepted.
Print Assumptions to_go_is_order.
Print Assumptions to_exact.
Print Assumptions to_C01_fvs_exact.
Print Assumptions to_C02_iso_exact.
