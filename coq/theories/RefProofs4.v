(* RefProofs4.v — proofs about RefModel.v, part 4: totality.  Every non-zero canonical witness has an odd
   simple cycle (the fundamental cycle of an off-forest edge it contains), hence ref_phase always finds a
   cycle and ref_mcb always succeeds (given the generic totality statement of SvaSpec.v).  Prefix rf_. *)
From Coq Require Import List Arith Bool ZArith Lia Sorted Permutation.
From Parmcb Require Import GraphModel GF2Model GF2Proofs GF2Lin GraphSpec GraphLemmas McbSpec
  ForestModel ForestProofs DePinaSpec DePinaProofs SvaModel SvaSpec RefModel RefProofs1 RefProofs2 RefProofs3.
Import ListNotations.

(* ---- every walk contains a path with the same ends --------------------------------------------- *)

Lemma rf_wverts_app (a b : rwalk) : wverts (a ++ b) = wverts a ++ wverts b.
Proof. unfold wverts. apply map_app. Qed.

Lemma rf_NoDup_app_r {A} (l l' : list A) : NoDup (l ++ l') -> NoDup l'.
Proof. induction l as [|x l IH]; cbn [app]; intros H; [exact H|]. inversion H; auto. Qed.

Lemma rf_walk_to_path g : simple_graph g -> forall p x z, walk g x p z ->
  exists p', walk g x p' z /\ NoDup (x :: wverts p') /\ incl (wedges p') (wedges p).
Proof.
  intros Hs. induction p as [|[e y] q IH]; intros x z Hw.
  - exists []. split; [exact Hw|]. split; [repeat constructor; intros []|apply incl_refl].
  - inversion Hw as [|x' e0 y' p' z' Hj Hw2]; subst.
    destruct (IH y z Hw2) as (q' & Hq' & Hnd & Hincl).
    assert (Hfull : walk g x ((e, y) :: q') z) by (econstructor; eauto).
    assert (Hinc2 : incl (wedges ((e, y) :: q')) (wedges ((e, y) :: q))).
    { cbn [wedges map fst]. intros a [<-|Ha]; [left; reflexivity|right; apply Hincl; exact Ha]. }
    destruct (cut_at x ((e, y) :: q')) as [[a b]|] eqn:Ec.
    + destruct (rf_cut_at_some x _ a b Ec) as (Hsplit & a' & e' & Ha).
      rewrite Hsplit in Hfull.
      destruct (rf_walk_app_inv g Hs a b x z Hfull) as (y1 & Hwa & Hwb).
      assert (y1 = x) by (rewrite Ha in Hwa; eapply rf_walk_last; exact Hwa). subst y1.
      exists b. split; [exact Hwb|]. split.
      * change (y :: wverts q') with (wverts ((e, y) :: q')) in Hnd.
        rewrite Hsplit, Ha, <- app_assoc, rf_wverts_app in Hnd. cbn [app wverts map snd] in Hnd.
        apply rf_NoDup_app_r in Hnd. exact Hnd.
      * intros f Hf. apply Hinc2. rewrite Hsplit, rf_wedges_app. apply in_or_app. right; exact Hf.
    + exists ((e, y) :: q'). split; [exact Hfull|]. split; [|exact Hinc2].
      constructor; [apply rf_cut_at_none; exact Ec|exact Hnd].
Qed.

(* ---- the fundamental cycle of an off-forest edge ------------------------------------------------ *)

Lemma rf_fundamental_cycle g F e : simple_graph g -> spanning_forest_of g F ->
  e < ne g -> ~ In e F ->
  exists D, simple_cycle g D /\ In e D /\ (forall f, In f D -> f = e \/ In f F).
Proof.
  intros Hs (_ & _ & _ & Hconn) He HnF.
  destruct (ends g e) as [[u v]|] eqn:Ee.
  2:{ unfold ends in Ee. apply nth_error_None in Ee. unfold ne in He. lia. }
  assert (Hj : joins g e u v) by (left; exact Ee).
  destruct (gl_simple_joins g e u v Hs Hj) as (Hu & Hv & Huv).
  assert (Hc : connected g v u).
  { exists [(e, u)]. econstructor; [apply gl_joins_sym; exact Hj|constructor; exact Hu]. }
  destruct (Hconn v u Hc) as (p & Hp & HpF).
  destruct (rf_walk_to_path g Hs p v u Hp) as (p' & Hp' & Hnd & Hincl).
  assert (HeNot : ~ In e (wedges p')) by (intros Hin; apply HnF, HpF, Hincl; exact Hin).
  exists (set_of_list (e :: wedges p')). split; [|split].
  - split; [|split; [apply set_of_list_sorted|]].
    + intros E. assert (Hin : In e (set_of_list (e :: wedges p'))) by (apply rf_set_of_list_In; left; reflexivity).
      rewrite E in Hin. destruct Hin.
    + exists u, ((e, v) :: p'). split; [econstructor; eauto|].
      cbn [wedges wverts map fst snd]. fold (wedges p'). fold (wverts p').
      split; [constructor; [exact HeNot|eapply rf_path_edges_nodup; eauto]|].
      split; [exact Hnd|]. intros f. apply rf_set_of_list_In.
  - apply rf_set_of_list_In. left; reflexivity.
  - intros f Hf. apply (proj1 (rf_set_of_list_In _ _)) in Hf. destruct Hf as [<-|Hf]; [left; reflexivity|].
    right. apply HpF, Hincl. exact Hf.
Qed.

(* ---- the forest of the index: on-forest edges have coordinates >= csd -------------------------- *)

Lemma rf_index_forest g roots fi : simple_graph g -> (forall v, v < nv g -> In v roots) ->
  create_index g roots = Some fi ->
  exists F, spanning_forest_of g F /\ forall e, In e F -> e < ne g /\ fi_csd fi <= rf_idx fi e.
Proof.
  intros Hs Hr Hci.
  destruct (create_index_correct g roots Hs Hr) as (fi' & Hci' & _ & _ & Hfwd & _ & _ & _ & Hon & Hsf).
  rewrite Hci in Hci'. inversion Hci'; subst fi'. clear Hci'.
  eexists. split; [exact Hsf|]. intros e He. apply filter_In in He as [He Hflag].
  apply in_seq in He. split; [lia|].
  destruct (Hfwd e) as (i & Hi & _); [lia|]. rewrite (Hon e i Hi) in Hflag.
  unfold rf_idx. unfold fi_index in Hi. rewrite (nth_error_nth _ _ 0 Hi).
  destruct (Nat.ltb_spec i (fi_csd fi)); [discriminate|assumption].
Qed.

(* ---- every non-zero canonical witness has an odd simple cycle ---------------------------------- *)

Lemma rf_odd_cycle_exists g roots fi S : simple_graph g -> (forall v, v < nv g -> In v roots) ->
  create_index g roots = Some fi ->
  sorted S -> S <> [] -> (forall i, In i S -> i < fi_csd fi) ->
  exists D, simple_cycle g D /\ odd_in (indices_to_edges fi S) D.
Proof.
  intros Hs Hr Hci HS Hne HSb.
  destruct (rf_index_bij g roots fi Hs Hr Hci) as (HA & HB & Hcm).
  destruct (rf_index_forest g roots fi Hs Hr Hci) as (F & HF & HFidx).
  destruct S as [|i0 S']; [congruence|]. set (S := i0 :: S') in *.
  assert (Hi0 : In i0 S) by (left; reflexivity).
  assert (Hi0m : i0 < ne g) by (specialize (HSb i0 Hi0); lia).
  destruct (HB i0 Hi0m) as (He0 & Hie0). set (e0 := rf_rev fi i0) in *.
  assert (HnF : ~ In e0 F).
  { intros Hin. destruct (HFidx e0 Hin) as (_ & Hge). rewrite Hie0 in Hge. specialize (HSb i0 Hi0). lia. }
  destruct (rf_fundamental_cycle g F e0 Hs HF He0 HnF) as (D & HD & HeD & HDF).
  exists D. split; [exact HD|]. unfold odd_in, oddb.
  destruct (rf_simple_cycle_edges g D HD) as (HDs & _).
  assert (Hmem : forall f, memb f (indices_to_edges fi S) = true <-> exists i, In i S /\ rf_rev fi i = f).
  { intros f. unfold indices_to_edges. fold (rf_rev fi). rewrite gl_memb_In, rf_set_of_list_In, in_map_iff.
    split; intros (i & H1 & H2); exists i; auto. }
  rewrite (gl_filter_one (fun e => memb e (indices_to_edges fi S)) e0 D); [reflexivity| | | |].
  - apply gl_sorted_NoDup; exact HDs.
  - exact HeD.
  - apply Hmem. exists i0. split; [exact Hi0|reflexivity].
  - intros f Hf Hsg. destruct (HDF f Hf) as [->|HfF]; [reflexivity|]. exfalso.
    apply Hmem in Hsg as (i & Hi & <-). destruct (HFidx _ HfF) as (_ & Hge).
    destruct (HB i) as (_ & Hir); [specialize (HSb i Hi); lia|]. rewrite Hir in Hge.
    specialize (HSb i Hi). lia.
Qed.

(* ---- ref_phase: sound and total; ref_mcb never fails --------------------------------------------- *)

Lemma rf_sorted_sortedb l : sorted l -> sortedb l = true.
Proof.
  induction l as [|x l IH]; intros H; [reflexivity|]. apply sorted_inv in H as [Hl Hx].
  destruct l as [|y l]; [reflexivity|].
  change (sortedb (x :: y :: l)) with (Nat.ltb x y && sortedb (y :: l)).
  rewrite (IH Hl), andb_true_r. apply Nat.ltb_lt. inversion Hx; assumption.
Qed.

Lemma rf_ref_phase_sound g wts roots fi : simple_graph g -> positive_weights g wts ->
  (forall v, v < nv g -> In v roots) -> create_index g roots = Some fi ->
  search_sound g fi (ref_phase g wts fi).
Proof.
  intros Hs Hpw Hr Hci k S c w H.
  destruct (rf_ref_phase_min g wts roots fi Hs Hpw Hr Hci k S c w H) as ((Hsc & Hodd & _) & _).
  split; [apply simple_cycle_in_cycle_space; assumption|exact Hodd].
Qed.

Lemma rf_ref_phase_total g wts roots fi : simple_graph g -> positive_weights g wts ->
  (forall v, v < nv g -> In v roots) -> create_index g roots = Some fi ->
  search_total fi (ref_phase g wts fi).
Proof.
  intros Hs Hpw Hr Hci k S HS Hne HSb. unfold ref_phase.
  assert (Hok : vec_okb (fi_csd fi) S = true).
  { unfold vec_okb. rewrite (rf_sorted_sortedb S HS). cbn [andb]. apply forallb_forall.
    intros i Hi. apply Nat.ltb_lt. apply HSb; exact Hi. }
  rewrite Hok.
  destruct (rf_odd_cycle_exists g roots fi S Hs Hr Hci HS Hne HSb) as (D & HD & HoD).
  eapply rf_ref_search_total; eauto.
Qed.

Theorem rf_ref_mcb_total_from : sva_generic_total_stmt ->
  forall g wts roots,
    simple_graph g -> positive_weights g wts -> (forall v, v < nv g -> In v roots) ->
    exists B w sup, ref_mcb g wts roots = SvaOk B w sup.
Proof.
  intros Hgen g wts roots Hs Hpw Hr.
  destruct (create_index_correct g roots Hs Hr) as (fi & Hci & _).
  unfold ref_mcb. rewrite Hci.
  apply (Hgen g roots fi Z 0%Z Z.add select_none (ref_phase g wts fi)); auto.
  - apply rf_select_none_ok.
  - eapply rf_ref_phase_sound; eauto.
  - eapply rf_ref_phase_total; eauto.
Qed.

(* consequently the optimum is always defined *)
Theorem rf_opt_weight_total_from : sva_generic_total_stmt ->
  forall g wts roots,
    simple_graph g -> positive_weights g wts -> (forall v, v < nv g -> In v roots) ->
    exists x, opt_weight g wts roots = Some x.
Proof.
  intros Hgen g wts roots Hs Hpw Hr.
  destruct (rf_ref_mcb_total_from Hgen g wts roots Hs Hpw Hr) as (B & w & sup & E).
  exists w. unfold opt_weight. rewrite E. reflexivity.
Qed.
