(* IsoProofsD1.v — Step D of the sufficiency of the isometric collection, part 1: the measure.
   A closed walk w carries the label (weight, number of edges, vertex set) ordered by lc_LT (the order in which the
   lexicographic shortest paths are least).  iso_mlt w' w: the label of w' is lc_LT-below that of w.  On cycle walks
   of g this order is well-founded: iso_meas maps it into (nat, <).
   Then: an odd closed walk is vertex-simple or contains a strictly lighter odd closed walk (iso_simple_or_lighter),
   and the shortcut lemma in the vocabulary of cycle walks (iso_shortcut).  Prefix iso_. *)
From Coq Require Import List Arith Bool Lia ZArith Permutation.
From Parmcb Require Import GraphModel GF2Model GraphSpec GraphLemmas LexSPModel LexSPProofs LexSPProofsDist
     LexSPProofsCons1 LexSPProofsCons2 RefModel RefProofs1 IsoProofs0.
Import ListNotations.

(* ---- sets of vertices below N as numbers: the smaller the vertex the more significant, membership = digit 0 -------- *)
Fixpoint iso_code (A : list nat) (n : nat) : nat :=
  match n with
  | O => 0
  | S m => 2 * iso_code A m + (if memb m A then 0 else 1)
  end.

Lemma iso_code_bound A : forall n, iso_code A n < 2 ^ n.
Proof.
  induction n as [|n IH]; cbn [iso_code Nat.pow]; [lia|]. destruct (memb n A); lia.
Qed.

Lemma iso_memb_iff (A B : list nat) k : (In k A <-> In k B) -> memb k A = memb k B.
Proof.
  intros H. destruct (memb k A) eqn:EA, (memb k B) eqn:EB; try reflexivity.
  - apply gl_memb_In in EA. apply H in EA. apply gl_memb_false in EB. contradiction.
  - apply gl_memb_In in EB. apply H in EB. apply gl_memb_false in EA. contradiction.
Qed.

Lemma iso_code_agree A B : forall n, (forall k, k < n -> (In k A <-> In k B)) -> iso_code A n = iso_code B n.
Proof.
  induction n as [|n IH]; intros H; cbn [iso_code]; [reflexivity|].
  rewrite IH by (intros k Hk; apply H; lia). rewrite (iso_memb_iff A B n) by (apply H; lia). reflexivity.
Qed.

Lemma iso_code_lt_mono A B : forall n m, m <= n -> iso_code A m < iso_code B m -> iso_code A n < iso_code B n.
Proof.
  induction n as [|n IH]; intros m Hm Hlt.
  - assert (m = 0) by lia. subst m. exact Hlt.
  - destruct (Nat.eq_dec m (S n)) as [->|Hne]; [exact Hlt|].
    assert (H : iso_code A n < iso_code B n) by (apply (IH m); [lia|exact Hlt]).
    cbn [iso_code]. destruct (memb n A), (memb n B); lia.
Qed.

Lemma iso_code_slt A B N : lc_slt A B -> (forall k, In k A -> k < N) -> iso_code A N < iso_code B N.
Proof.
  intros [m [HmA [HmB Hag]]] HA.
  apply (iso_code_lt_mono A B N (S m)); [specialize (HA m HmA); lia|].
  cbn [iso_code]. rewrite (iso_code_agree A B m Hag).
  assert (E1 : memb m A = true).
  { destruct (memb m A) eqn:E; [reflexivity|]. apply gl_memb_false in E. contradiction. }
  assert (E2 : memb m B = false).
  { destruct (memb m B) eqn:E; [|reflexivity]. apply gl_memb_In in E. contradiction. }
  rewrite E1, E2. lia.
Qed.

(* lexicographic triples into one number *)
Lemma iso_lex3 (B K W' L' c' W L c : nat) : L' < B -> c' < K ->
  (W' < W \/ (W' = W /\ (L' < L \/ (L' = L /\ c' < c)))) ->
  (W' * B + L') * K + c' < (W * B + L) * K + c.
Proof.
  intros HL Hc H.
  assert (Hstep : forall X' X, X' < X -> X' * K + c' < X * K + c).
  { intros X' X HX. assert (X' * K + K <= X * K) by (replace (X' * K + K) with ((S X') * K) by lia; apply Nat.mul_le_mono_r; lia). lia. }
  destruct H as [H|[-> [H|[-> H]]]].
  - apply Hstep. assert (W' * B + B <= W * B) by (replace (W' * B + B) with ((S W') * B) by lia; apply Nat.mul_le_mono_r; lia). lia.
  - apply Hstep. lia.
  - lia.
Qed.

Section Measure.
  Variable g : graph.
  Variable wts : list Z.
  Variable sg : list nat.
  Hypothesis Hsg : simple_graph g.
  Hypothesis Hpos : positive_weights g wts.

  Definition iso_lab (w : list (nat * nat)) : label Z :=
    {| l_dist := lz_sum wts w; l_cnt := length w; l_set := wverts w |}.

  Definition iso_mlt (w' w : list (nat * nat)) : Prop := lc_LT (iso_lab w') (iso_lab w).

  Definition iso_meas (w : list (nat * nat)) : nat :=
    (Z.to_nat (lz_sum wts w) * S (nv g) + length w) * 2 ^ nv g + iso_code (wverts w) (nv g).

  Lemma iso_walk_verts_lt : forall p x z, walk g x p z -> forall k, In k (wverts p) -> k < nv g.
  Proof.
    induction 1 as [x Hx|x e y p z Hj Hw IH]; intros k Hk; [destruct Hk|].
    cbn [wverts map snd] in Hk. destruct Hk as [<-|Hk]; [|apply IH; exact Hk].
    apply (gl_simple_joins g e x y Hsg Hj).
  Qed.

  Lemma iso_cycle_len x w : iso_cycle_walk g x w -> length w <= nv g.
  Proof.
    intros (Hw & Hnd & _ & _). replace (length w) with (length (wverts w)) by (unfold wverts; apply map_length).
    apply lx_NoDup_bound; [exact Hnd|]. apply (iso_walk_verts_lt w x x Hw).
  Qed.

  Lemma iso_mlt_meas x' w' x w : iso_cycle_walk g x' w' -> iso_cycle_walk g x w -> iso_mlt w' w ->
    iso_meas w' < iso_meas w.
  Proof.
    intros Hc' Hc Hlt. unfold iso_meas.
    pose proof (iso_cycle_len x' w' Hc') as Hl'.
    destruct Hc' as (Hw' & _). destruct Hc as (Hw & _).
    pose proof (lz_sum_nonneg g wts x' w' x' Hpos Hw') as Hn'. pose proof (lz_sum_nonneg g wts x w x Hpos Hw) as Hn.
    apply iso_lex3; [lia|apply iso_code_bound|].
    unfold iso_mlt, lc_LT, iso_lab in Hlt; cbn [l_dist l_cnt l_set] in Hlt.
    destruct Hlt as [H|[H1 [H|[H2 H3]]]].
    - left. lia.
    - right. split; [lia|]. left; exact H.
    - right. split; [lia|]. right. split; [exact H2|].
      apply iso_code_slt; [exact H3|]. apply (iso_walk_verts_lt w' x' x' Hw').
  Qed.

  (* the order only depends on weight, length and vertex SET *)
  Lemma iso_mlt_ext_r w' w v : lz_sum wts v = lz_sum wts w -> length v = length w ->
    (forall k, In k (wverts v) <-> In k (wverts w)) -> iso_mlt w' v -> iso_mlt w' w.
  Proof.
    intros H1 H2 H3 H. unfold iso_mlt in *. apply (lc_LT_EQ_r _ (iso_lab v)); [|exact H].
    unfold lc_EQ, iso_lab; cbn [l_dist l_cnt l_set]. auto.
  Qed.

  Lemma iso_sum_perm : forall v w, Permutation (wedges v) (wedges w) -> lz_sum wts v = lz_sum wts w.
  Proof. intros v w H. rewrite !lz_sum_weight. apply rf_weight_perm. exact H. Qed.

  (* ---- an odd closed walk is vertex-simple, or contains a strictly lighter odd closed walk ------------------------ *)
  Lemma iso_simple_or_lighter x p : walk g x p x -> oddb sg (wedges p) = true ->
    NoDup (wverts p) \/
    exists x' p', walk g x' p' x' /\ oddb sg (wedges p') = true /\ (lz_sum wts p' < lz_sum wts p)%Z.
  Proof.
    intros Hw Hodd. destruct (find_dup p) as [[[[pre ev] a] b]|] eqn:F; [right|left; apply rf_find_dup_none; exact F].
    destruct (rf_find_dup_some p pre ev a b F) as (Hp & a' & e2 & Ha).
    destruct ev as [e v]. cbn [snd] in Ha.
    assert (Hp' : p = (pre ++ [(e, v)]) ++ a ++ b) by (rewrite Hp, <- app_assoc; reflexivity).
    rewrite Hp' in Hw.
    destruct (rf_walk_app_inv g Hsg _ _ _ _ Hw) as (y1 & Hw1 & Hw2).
    assert (y1 = v) by (eapply rf_walk_last; exact Hw1). subst y1.
    destruct (rf_walk_app_inv g Hsg _ _ _ _ Hw2) as (y2 & Hwa & Hwb).
    assert (y2 = v) by (rewrite Ha in Hwa; eapply rf_walk_last; exact Hwa). subst y2.
    assert (Hane : a <> []) by (rewrite Ha; intros E; apply app_eq_nil in E as [_ E]; discriminate).
    assert (Hwc : walk g x (pre ++ (e, v) :: b) x).
    { change (pre ++ (e, v) :: b) with (pre ++ [(e, v)] ++ b). rewrite app_assoc. eapply gl_walk_app; eauto. }
    assert (Hcne : pre ++ (e, v) :: b <> []) by (intros E; apply app_eq_nil in E as [_ E]; discriminate).
    assert (Hsum : lz_sum wts p = (lz_sum wts a + lz_sum wts (pre ++ (e, v) :: b))%Z).
    { rewrite Hp. rewrite !lc_sum_app, !lc_sum_cons, !lc_sum_app. lia. }
    assert (Hodd2 : xorb (oddb sg (wedges a)) (oddb sg (wedges (pre ++ (e, v) :: b))) = true).
    { rewrite <- Hodd, Hp. rewrite !rf_wedges_app. cbn [wedges map fst]. fold (wedges a). fold (wedges b).
      rewrite !rf_wedges_app. rewrite !rf_oddb_app, !rf_oddb_cons, !rf_oddb_app.
      destruct (oddb sg (wedges a)), (oddb sg (wedges pre)), (memb e sg), (oddb sg (wedges b)); reflexivity. }
    pose proof (lc_sum_pos g wts Hpos v a v Hwa Hane) as Hpa.
    pose proof (lc_sum_pos g wts Hpos x _ x Hwc Hcne) as Hpc.
    destruct (oddb sg (wedges a)) eqn:Eo.
    - exists v, a. split; [exact Hwa|]. split; [exact Eo|lia].
    - rewrite xorb_false_l in Hodd2. exists x, (pre ++ (e, v) :: b). split; [exact Hwc|]. split; [exact Hodd2|lia].
  Qed.

  (* a vertex-simple odd closed walk is a cycle walk *)
  Lemma iso_odd_simple_cycle_walk x p : walk g x p x -> NoDup (wverts p) -> oddb sg (wedges p) = true ->
    iso_cycle_walk g x p.
  Proof.
    intros Hw Hnd Hodd. split; [exact Hw|]. split; [exact Hnd|]. split.
    - eapply rf_simple_closed_nodup_edges; eauto.
    - intros ->. cbn [wedges map] in Hodd. rewrite rf_oddb_nil in Hodd. discriminate.
  Qed.

  (* the shortcut lemma: an odd closed walk contains an odd cycle walk that is no heavier *)
  Lemma iso_shortcut x p : walk g x p x -> oddb sg (wedges p) = true ->
    exists x' p', iso_cycle_walk g x' p' /\ oddb sg (wedges p') = true /\ (lz_sum wts p' <= lz_sum wts p)%Z.
  Proof.
    intros Hw Hodd.
    destruct (rf_shortcut_spec g wts sg Hsg Hpos (S (length p)) p x (Nat.lt_succ_diag_r _) Hw Hodd)
      as (p' & x' & _ & H2 & H3 & H4 & H5).
    exists x', p'. split; [apply iso_odd_simple_cycle_walk; assumption|]. split; [exact H4|].
    rewrite !lz_sum_weight. exact H5.
  Qed.

  (* a strictly lighter odd closed walk yields a cycle walk that is below in the order *)
  Lemma iso_lighter_mlt x p w : walk g x p x -> oddb sg (wedges p) = true -> (lz_sum wts p < lz_sum wts w)%Z ->
    exists x' p', iso_cycle_walk g x' p' /\ oddb sg (wedges p') = true /\ iso_mlt p' w.
  Proof.
    intros Hw Hodd Hlt. destruct (iso_shortcut x p Hw Hodd) as (x' & p' & H1 & H2 & H3).
    exists x', p'. split; [exact H1|]. split; [exact H2|]. left. unfold iso_lab; cbn [l_dist]. lia.
  Qed.
End Measure.
