(* SpannerProofs.v — correctness of the hop-bounded BFS (is_bfs_reachable) and of the greedy
   (2k-1)-spanner construction (construct_spanner): property C15. *)
From Coq Require Import List Arith Bool Lia ZArith Sorted Permutation.
From Parmcb Require Import GF2Model GraphModel GraphSpec SpannerModel.
Import ListNotations.

(* ---- arrays as lists -------------------------------------------------------------------- *)

Lemma set_nth_length {A} (l : list A) : forall i x, length (set_nth l i x) = length l.
Proof. induction l as [|y l IH]; intros [|i] x; cbn [set_nth length]; auto. Qed.

Lemma nth_set_nth_eq {A} (l : list A) : forall i x d, i < length l -> nth i (set_nth l i x) d = x.
Proof.
  induction l as [|y l IH]; intros [|i] x d Hi; cbn [set_nth length nth] in *; try lia; auto.
  apply IH; lia.
Qed.

Lemma nth_set_nth_neq {A} (l : list A) : forall i j x d, i <> j -> nth j (set_nth l i x) d = nth j l d.
Proof.
  induction l as [|y l IH]; intros [|i] [|j] x d Hij; cbn [set_nth nth]; auto; try lia.
Qed.

Lemma nth_all_none {A} (l : list A) : forall v, nth v (map (fun _ => @None nat) l) None = None.
Proof. induction l as [|y l IH]; intros [|v]; cbn [map nth]; auto. Qed.

(* ---- well-formed graphs, joins, walks -------------------------------------------------- *)

(* endpoints in range; self-loops and parallel edges are harmless for the BFS *)
Definition wfg (h : graph) : Prop := forall e x y, ends h e = Some (x, y) -> x < nv h /\ y < nv h.

Lemma joins_sym g e x y : joins g e x y -> joins g e y x.
Proof. unfold joins; tauto. Qed.

Lemma joins_range g e x y : wfg g -> joins g e x y -> x < nv g /\ y < nv g.
Proof. intros Hwf [H|H]; apply Hwf in H; tauto. Qed.

Lemma walk_range g x p z : wfg g -> walk g x p z -> x < nv g /\ z < nv g.
Proof.
  intros Hwf Hw; induction Hw as [x Hx|x e y p z Hj Hw IH]; [auto|].
  split; [apply (joins_range g e x y Hwf Hj)|apply IH].
Qed.

Lemma walk_app g x p y : walk g x p y -> forall p' z, walk g y p' z -> walk g x (p ++ p') z.
Proof.
  intros Hw; induction Hw as [x Hx|x e y p z Hj Hw IH]; intros p' z' Hw'; cbn [app]; auto.
  econstructor; eauto.
Qed.

Lemma walk_snoc g x p y e z : wfg g -> walk g x p y -> joins g e y z -> walk g x (p ++ [(e, z)]) z.
Proof.
  intros Hwf Hw Hj. eapply walk_app; eauto.
  econstructor; eauto. constructor. apply (joins_range g e y z Hwf Hj).
Qed.

Lemma walk_snoc_inv g x p v : wfg g -> walk g x p v -> p <> [] ->
  exists p' e z, p = p' ++ [(e, v)] /\ walk g x p' z /\ joins g e z v.
Proof.
  intros Hwf Hw; induction Hw as [x Hx|x e y p z Hj Hw IH]; intros Hne; [congruence|].
  destruct p as [|a p].
  - inversion Hw; subst. exists [], e, x; repeat split; auto.
    constructor. apply (joins_range g e x z Hwf Hj).
  - destruct IH as (p' & e' & z' & Hp & Hw' & Hj'); [discriminate|].
    exists ((e, y) :: p'), e', z'; rewrite Hp; repeat split; auto.
    econstructor; eauto.
Qed.

Lemma walk_split g p1 : wfg g -> forall x e y p2 z, walk g x (p1 ++ (e, y) :: p2) z ->
  exists z', walk g x p1 z' /\ joins g e z' y /\ walk g y p2 z.
Proof.
  intros Hwf; induction p1 as [|[e1 y1] p1 IH]; intros x e y p2 z Hw; cbn [app] in Hw; inversion Hw; subst.
  - exists x; repeat split; auto. constructor.
    match goal with H : joins _ _ _ _ |- _ => apply (joins_range _ _ _ _ Hwf H) end.
  - match goal with H : walk _ _ (_ ++ _) _ |- _ => apply IH in H as (z' & H1 & H2 & H3) end.
    exists z'; repeat split; auto. econstructor; eauto.
Qed.

Lemma walk_rev g x p z : wfg g -> walk g x p z ->
  exists p', walk g z p' x /\ length p' = length p /\ (forall e, In e (wedges p') <-> In e (wedges p)).
Proof.
  intros Hwf Hw; induction Hw as [x Hx|x e y p z Hj Hw IH].
  - exists []; repeat split; auto. constructor; auto.
  - destruct IH as (p' & Hw' & Hlen & Hin).
    exists (p' ++ [(e, x)]); repeat split.
    + eapply walk_snoc; eauto. apply joins_sym; auto.
    + rewrite app_length; cbn [length]; lia.
    + unfold wedges in *; rewrite map_app, in_app_iff; cbn [map fst In]; rewrite Hin; tauto.
    + unfold wedges in *; rewrite map_app, in_app_iff; cbn [map fst In]; rewrite Hin; tauto.
Qed.

(* ---- out_edges lists exactly the incident edges ----------------------------------------- *)

Lemma out_from_complete u es : forall i j a b, nth_error es j = Some (a, b) ->
  (a = u -> In (i + j, b) (out_from u es i)) /\ (b = u -> In (i + j, a) (out_from u es i)).
Proof.
  induction es as [|[s0 t0] es IH]; intros i j a b Hj; [destruct j; discriminate|].
  cbn [out_from]. destruct j as [|j]; cbn [nth_error] in Hj.
  - injection Hj as -> ->. rewrite Nat.add_0_r. split; intros ->; rewrite Nat.eqb_refl.
    + apply in_or_app; left; left; reflexivity.
    + apply in_or_app; right; apply in_or_app; left; left; reflexivity.
  - specialize (IH (S i) j a b Hj). replace (i + S j) with (S i + j) by lia.
    split; intros Hu; apply in_or_app; right; apply in_or_app; right; apply IH; auto.
Qed.

Lemma out_from_sound u es : forall i e y, In (e, y) (out_from u es i) ->
  exists j, e = i + j /\ (nth_error es j = Some (u, y) \/ nth_error es j = Some (y, u)).
Proof.
  induction es as [|[s0 t0] es IH]; intros i e y Hin; cbn [out_from] in Hin; [contradiction|].
  apply in_app_or in Hin as [Hin|Hin]; [|apply in_app_or in Hin as [Hin|Hin]].
  - destruct (Nat.eqb_spec s0 u) as [->|]; [|contradiction].
    destruct Hin as [Hin|[]]; injection Hin as <- <-. exists 0; split; [lia|left; reflexivity].
  - destruct (Nat.eqb_spec t0 u) as [->|]; [|contradiction].
    destruct Hin as [Hin|[]]; injection Hin as <- <-. exists 0; split; [lia|right; reflexivity].
  - apply IH in Hin as (j & -> & Hj). exists (S j); split; [lia|exact Hj].
Qed.

Lemma out_edges_complete h u e y : joins h e u y -> In (e, y) (out_edges h u).
Proof.
  unfold joins, ends, out_edges; intros [H|H];
    apply (out_from_complete u (ge h) 0 e) in H; cbn [Nat.add] in H; apply H; reflexivity.
Qed.

Lemma out_edges_sound h u e y : In (e, y) (out_edges h u) -> joins h e u y.
Proof.
  unfold out_edges; intros H; apply out_from_sound in H as (j & -> & Hj); exact Hj.
Qed.

(* ---- the termination measure: unvisited vertices ---------------------------------------- *)

Fixpoint cntN (dist : list (option nat)) : nat :=
  match dist with
  | [] => 0
  | None :: r => S (cntN r)
  | Some _ :: r => cntN r
  end.

Lemma cntN_set_nth dist : forall w x, w < length dist -> nth w dist None = None ->
  S (cntN (set_nth dist w (Some x))) = cntN dist.
Proof.
  induction dist as [|o dist IH]; intros [|w] x Hw Hn; cbn [length set_nth nth cntN] in *; try lia.
  - subst o; reflexivity.
  - destruct o; rewrite <- (IH w x); auto; lia.
Qed.

Lemma cntN_le dist : cntN dist <= length dist.
Proof. induction dist as [|[|] dist IH]; cbn [cntN length]; lia. Qed.

(* ---- BFS invariant (Appendix B3 of DESIGN.md) ------------------------------------------- *)

Definition within (mh : option nat) (n : nat) : Prop :=
  match mh with None => True | Some hops => n <= hops end.

Section BFS.
Variable h : graph.
Variables s t : nat.
Hypothesis Hwf : wfg h.
Hypothesis Hs : s < nv h.

Definition lab (dist : list (option nat)) (v : nat) : option nat := nth v dist None.

(* d = label of the layer being dequeued; the queue is q1 ++ q2 with labels d on q1 and d+1 on q2;
   u is the vertex being scanned and pend the part of out_edges(u) not yet looked at
   (pend = [] between two iterations of the while loop).  "Done" = labelled and not queued. *)
Record Inv (d : nat) (dist : list (option nat)) (q1 q2 : list nat) (u : nat)
           (pend : list (nat * nat)) : Prop := {
  I_len : length dist = nv h;
  I_s : lab dist s = Some 0;
  I_sound : forall v l, lab dist v = Some l -> exists p, walk h s p v /\ length p = l;
  I_min : forall v l p, lab dist v = Some l -> walk h s p v -> l <= length p;
  I_nodup : NoDup (q1 ++ q2);
  I_q1 : forall x, In x q1 -> lab dist x = Some d;
  I_q2 : forall x, In x q2 -> lab dist x = Some (S d);
  I_done : forall v l, lab dist v = Some l -> ~ In v (q1 ++ q2) -> l <= d;
  I_near : forall v p, walk h s p v -> length p < d ->
             exists l, lab dist v = Some l /\ ~ In v (q1 ++ q2);
  I_closed : forall x e y lx, lab dist x = Some lx -> ~ In x (q1 ++ q2) -> joins h e x y ->
             (x = u /\ lx = d /\ In (e, y) pend) \/ exists ly, lab dist y = Some ly /\ ly <= S lx;
  I_pend : forall e y, In (e, y) pend -> joins h e u y;
  I_t : lab dist t <> None -> In t (q1 ++ q2)
}.

Definition dist0 : list (option nat) := set_nth (map (fun _ => None) (seq 0 (nv h))) s (Some 0).

Lemma dist0_lab v l : lab dist0 v = Some l -> v = s /\ l = 0.
Proof.
  unfold lab, dist0; intros H. destruct (Nat.eq_dec s v) as [->|Hne].
  - rewrite nth_set_nth_eq in H by (rewrite map_length, seq_length; exact Hs). split; congruence.
  - rewrite nth_set_nth_neq, nth_all_none in H by exact Hne. discriminate.
Qed.

Lemma dist0_s : lab dist0 s = Some 0.
Proof. unfold lab, dist0; apply nth_set_nth_eq; rewrite map_length, seq_length; exact Hs. Qed.

Lemma inv_init : Inv 0 dist0 [s] [] s [].
Proof.
  constructor.
  - unfold dist0; rewrite set_nth_length, map_length, seq_length; reflexivity.
  - exact dist0_s.
  - intros v l H; apply dist0_lab in H as [-> ->]. exists []; split; [constructor; exact Hs|reflexivity].
  - intros v l p H _; apply dist0_lab in H as [-> ->]; lia.
  - cbn [app]; constructor; [intros []|constructor].
  - intros x [<-|[]]; exact dist0_s.
  - intros x [].
  - intros v l H Hn; apply dist0_lab in H as [-> ->]; lia.
  - intros v p _ Hl; lia.
  - intros x e y lx H Hn; apply dist0_lab in H as [-> ->]. exfalso; apply Hn; left; reflexivity.
  - intros e y [].
  - intros Ht. destruct (lab dist0 t) as [l|] eqn:E; [|congruence].
    apply dist0_lab in E as [-> ->]; left; reflexivity.
Qed.

Lemma lab_bound d dist q1 q2 u pend v l : Inv d dist q1 q2 u pend -> lab dist v = Some l -> l <= S d.
Proof.
  intros HI Hl. destruct (in_dec Nat.eq_dec v (q1 ++ q2)) as [Hin|Hin].
  - apply in_app_or in Hin as [Hin|Hin];
      [apply (I_q1 _ _ _ _ _ _ HI) in Hin|apply (I_q2 _ _ _ _ _ _ HI) in Hin]; rewrite Hin in Hl;
      injection Hl as <-; lia.
  - pose proof (I_done _ _ _ _ _ _ HI v l Hl Hin); lia.
Qed.

(* all vertices of layer d have been dequeued: move on to layer d+1 *)
Lemma inv_shift d dist q2 u : Inv d dist [] q2 u [] -> Inv (S d) dist q2 [] u [].
Proof.
  intros HI. pose proof HI as [H1 H2 H3 H4 H5 H6 H7 H8 H9 H10 H11 H12].
  cbn [app] in *. constructor; rewrite ?app_nil_r; auto.
  - intros x [].
  - intros v l Hl Hn. pose proof (H8 v l Hl Hn); lia.
  - intros v p Hw Hlen.
    assert (Hnq : forall l, lab dist v = Some l -> l <= d -> ~ In v q2).
    { intros l Hl Hle Hin. apply H7 in Hin. rewrite Hin in Hl; injection Hl as <-; lia. }
    destruct (Nat.eq_dec (length p) d) as [Heq|Hneq]; [|apply H9 with p; auto; lia].
    destruct p as [|a p].
    + inversion Hw; subst. cbn [length] in *. exists 0; split; auto. apply (Hnq 0); auto.
    + destruct (walk_snoc_inv h s (a :: p) v Hwf Hw) as (p' & e & z & Hp & Hw' & Hj); [discriminate|].
      assert (Hl' : length p' < d).
      { rewrite Hp, app_length in Heq; cbn [length] in Heq; lia. }
      destruct (H9 z p' Hw' Hl') as (lz & Hlz & Hnz).
      pose proof (H4 z lz p' Hlz Hw') as Hmin.
      destruct (H10 z e v lz Hlz Hnz Hj) as [(_ & _ & [])|(ly & Hly & Hle)].
      exists ly; split; auto. apply (Hnq ly); auto; lia.
  - intros x e y lx Hl Hn Hj. destruct (H10 x e y lx Hl Hn Hj) as [(_ & _ & [])|Hr]; right; exact Hr.
Qed.

(* pop u from the queue and start scanning its out-edges *)
Lemma inv_dequeue d dist u q1 q2 u0 : Inv d dist (u :: q1) q2 u0 [] -> u <> t ->
  Inv d dist q1 q2 u (out_edges h u) /\ lab dist u = Some d /\ ~ In u (q1 ++ q2).
Proof.
  intros HI Hut. pose proof HI as [H1 H2 H3 H4 H5 H6 H7 H8 H9 H10 H11 H12].
  cbn [app] in *. apply NoDup_cons_iff in H5 as [Hnu H5].
  assert (Hu : lab dist u = Some d) by (apply H6; left; reflexivity).
  split; [|split; auto]. constructor; auto.
  - intros x Hx; apply H6; right; exact Hx.
  - intros v l Hl Hn. destruct (Nat.eq_dec u v) as [->|Hne].
    + rewrite Hu in Hl; injection Hl as <-; lia.
    + apply (H8 v l Hl). intros [Heq|Hin]; auto.
  - intros v p Hw Hlen. destruct (H9 v p Hw Hlen) as (l & Hl & Hn). exists l; split; auto.
    intros Hin; apply Hn; right; exact Hin.
  - intros x e y lx Hl Hn Hj. destruct (Nat.eq_dec u x) as [->|Hne].
    + left. rewrite Hu in Hl; injection Hl as <-. repeat split. apply out_edges_complete; exact Hj.
    + destruct (H10 x e y lx Hl) as [(_ & _ & [])|Hr]; auto. intros [Heq|Hin]; auto.
  - intros e y Hin; apply out_edges_sound; exact Hin.
  - intros Ht. destruct (H12 Ht) as [Heq|Hin]; auto. congruence.
Qed.

(* an out-edge whose other endpoint is already labelled is skipped *)
Lemma inv_pend_drop d dist q1 q2 u e y pend :
  Inv d dist q1 q2 u ((e, y) :: pend) -> (exists ly, lab dist y = Some ly /\ ly <= S d) ->
  Inv d dist q1 q2 u pend.
Proof.
  intros HI Hy. pose proof HI as [H1 H2 H3 H4 H5 H6 H7 H8 H9 H10 H11 H12].
  constructor; auto.
  - intros x e' y' lx Hl Hn Hj. destruct (H10 x e' y' lx Hl Hn Hj) as [(-> & -> & [Heq|Hin])|Hr]; auto.
    injection Heq as <- <-. right; exact Hy.
  - intros e' y' Hin; apply H11; right; exact Hin.
Qed.

Lemma inv_step d dist q1 q2 u e y pend :
  Inv d dist q1 q2 u ((e, y) :: pend) -> lab dist u = Some d -> ~ In u (q1 ++ q2) ->
  exists dist' q2', reach_step s u d (dist, q1 ++ q2) (e, y) = (dist', q1 ++ q2')
    /\ Inv d dist' q1 q2' u pend /\ lab dist' u = Some d /\ ~ In u (q1 ++ q2')
    /\ cntN dist' + length (q1 ++ q2') <= cntN dist + length (q1 ++ q2).
Proof.
  intros HI Hu Hnu. unfold reach_step; cbn [snd].
  destruct (Nat.eqb_spec y u) as [->|Hyu].
  { exists dist, q2; split; [reflexivity|]; split; [|split; [auto|split; [auto|lia]]].
    apply inv_pend_drop with e u; auto. exists d; split; auto. }
  destruct (Nat.eqb_spec y s) as [->|Hys].
  { exists dist, q2; split; [reflexivity|]; split; [|split; [auto|split; [auto|lia]]].
    apply inv_pend_drop with e s; auto.
    exists 0; split; [apply (I_s _ _ _ _ _ _ HI)|lia]. }
  destruct (nth y dist None) as [ly|] eqn:Ey.
  { exists dist, q2; split; [reflexivity|]; split; [|split; [auto|split; [auto|lia]]].
    apply inv_pend_drop with e y; auto.
    exists ly; split; auto. apply (lab_bound _ _ _ _ _ _ y ly HI Ey). }
  pose proof HI as [H1 H2 H3 H4 H5 H6 H7 H8 H9 H10 H11 H12].
  assert (Hj : joins h e u y) by (apply H11; left; reflexivity).
  assert (Hy : y < length dist) by (rewrite H1; apply (joins_range h e u y Hwf Hj)).
  set (dist' := set_nth dist y (Some (S d))).
  assert (Hy' : lab dist' y = Some (S d)) by (apply nth_set_nth_eq; exact Hy).
  assert (Hmono : forall v l, lab dist v = Some l -> lab dist' v = Some l).
  { intros v l Hl. unfold lab, dist'. rewrite nth_set_nth_neq; auto. intros ->. unfold lab in Hl; congruence. }
  assert (Hback : forall v l, lab dist' v = Some l -> v <> y -> lab dist v = Some l).
  { intros v l Hl Hne. unfold lab, dist' in Hl. rewrite nth_set_nth_neq in Hl; auto. }
  assert (Hnq : ~ In y (q1 ++ q2)).
  { intros Hin. apply in_app_or in Hin as [Hin|Hin]; [apply H6 in Hin|apply H7 in Hin];
      unfold lab in Hin; congruence. }
  assert (Hmem : forall v, In v (q1 ++ q2 ++ [y]) <-> In v (q1 ++ q2) \/ v = y).
  { intros v; rewrite !in_app_iff; cbn [In]; intuition. }
  exists dist', (q2 ++ [y]). split; [rewrite app_assoc; reflexivity|].
  split; [|split; [auto|split]].
  - constructor.
    + unfold dist'; rewrite set_nth_length; exact H1.
    + auto.
    + intros v l Hl. destruct (Nat.eq_dec v y) as [->|Hne]; [|apply H3, Hback; auto].
      rewrite Hy' in Hl; injection Hl as <-. destruct (H3 u d Hu) as (p & Hw & Hlen).
      exists (p ++ [(e, y)]); split; [eapply walk_snoc; eauto|].
      rewrite app_length; cbn [length]; lia.
    + intros v l p Hl Hw. destruct (Nat.eq_dec v y) as [->|Hne]; [|apply (H4 v); auto].
      rewrite Hy' in Hl; injection Hl as <-.
      destruct (le_lt_dec (S d) (length p)) as [Hle|Hlt]; auto. exfalso.
      destruct p as [|a p].
      * inversion Hw; subst. unfold lab in H2; congruence.
      * destruct (walk_snoc_inv h s (a :: p) y Hwf Hw) as (p' & e' & z & Hp & Hw' & Hj'); [discriminate|].
        assert (Hl' : length p' < d).
        { rewrite Hp, app_length in Hlt; cbn [length] in Hlt; lia. }
        destruct (H9 z p' Hw' Hl') as (lz & Hlz & Hnz).
        pose proof (H4 z lz p' Hlz Hw') as Hmin.
        destruct (H10 z e' y lz Hlz Hnz Hj') as [(_ & -> & _)|(ly & Hly & _)]; [lia|].
        unfold lab in Hly; congruence.
    + rewrite app_assoc. apply Permutation_NoDup with (y :: (q1 ++ q2)).
      * apply Permutation_cons_append.
      * constructor; auto.
    + auto.
    + intros x Hx; apply in_app_or in Hx as [Hx|[<-|[]]]; auto.
    + intros v l Hl Hn. rewrite Hmem in Hn. apply (H8 v); [apply Hback|]; auto.
    + intros v p Hw Hlen. destruct (H9 v p Hw Hlen) as (l & Hl & Hn). exists l; split; auto.
      rewrite Hmem; intros [Hin| ->]; auto. unfold lab in Hl; congruence.
    + intros x e' y' lx Hl Hn Hj'. rewrite Hmem in Hn.
      assert (Hl0 : lab dist x = Some lx) by (apply Hback; auto).
      destruct (H10 x e' y' lx Hl0) as [(-> & -> & [Heq|Hin])|(ly & Hly & Hle)]; auto.
      * injection Heq as <- <-. right; exists (S d); split; auto.
      * right; exists ly; split; auto.
    + intros e' y' Hin; apply H11; right; exact Hin.
    + intros Ht. rewrite Hmem. destruct (Nat.eq_dec t y) as [Heq|Hne]; [right; exact Heq|]. left; apply H12.
      destruct (lab dist' t) as [l|] eqn:E; [|congruence]. apply Hback in E; auto. congruence.
  - rewrite Hmem. intros [Hin|Heq]; [auto|]. subst y. unfold lab in Hu; congruence.
  - rewrite app_assoc, app_length; cbn [length].
    pose proof (cntN_set_nth dist y (S d) Hy Ey) as Hc. fold dist' in Hc. lia.
Qed.

Lemma inv_fold pend : forall d dist q1 q2 u,
  Inv d dist q1 q2 u pend -> lab dist u = Some d -> ~ In u (q1 ++ q2) ->
  exists dist' q2', fold_left (reach_step s u d) pend (dist, q1 ++ q2) = (dist', q1 ++ q2')
    /\ Inv d dist' q1 q2' u []
    /\ cntN dist' + length (q1 ++ q2') <= cntN dist + length (q1 ++ q2).
Proof.
  induction pend as [|[e y] pend IH]; intros d dist q1 q2 u HI Hu Hnu; cbn [fold_left].
  - exists dist, q2; auto.
  - destruct (inv_step d dist q1 q2 u e y pend HI Hu Hnu) as (dist1 & q21 & Heq & HI1 & Hu1 & Hnu1 & Hm1).
    rewrite Heq. destruct (IH d dist1 q1 q21 u HI1 Hu1 Hnu1) as (dist2 & q22 & Heq2 & HI2 & Hm2).
    exists dist2, q22; split; [exact Heq2|split; [exact HI2|lia]].
Qed.

(* queue empty: everything reachable is labelled *)
Lemma inv_empty_closed d dist u : Inv d dist [] [] u [] ->
  forall x p v, walk h x p v -> lab dist x <> None -> lab dist v <> None.
Proof.
  intros HI x p v Hw; induction Hw as [x Hx|x e y p z Hj Hw IH]; intros Hl; auto.
  apply IH. destruct (lab dist x) as [lx|] eqn:E; [|congruence].
  destruct (I_closed _ _ _ _ _ _ HI x e y lx E) as [(_ & _ & [])|(ly & Hly & _)]; auto. congruence.
Qed.

Lemma reach_loop_spec mh fuel : forall d dist q1 q2 u,
  Inv d dist q1 q2 u [] -> cntN dist + length (q1 ++ q2) < fuel ->
  exists b, reach_loop fuel h s t mh dist (q1 ++ q2) = Some b
    /\ (b = true <-> exists p, walk h s p t /\ within mh (length p)).
Proof.
  induction fuel as [|f IH]; intros d dist q1 q2 u0 HI Hm; [lia|].
  assert (Hstep : forall d dist u q1 q2 u0, Inv d dist (u :: q1) q2 u0 [] ->
            cntN dist + length ((u :: q1) ++ q2) < S f ->
            exists b, reach_loop (S f) h s t mh dist ((u :: q1) ++ q2) = Some b
              /\ (b = true <-> exists p, walk h s p t /\ within mh (length p))).
  { clear d dist q1 q2 u0 HI Hm. intros d dist u q1 q2 u0 HI Hm. cbn [reach_loop app].
    assert (Hu : lab dist u = Some d) by (apply (I_q1 _ _ _ _ _ _ HI); left; reflexivity).
    unfold lab in Hu; rewrite Hu.
    destruct (exceeds d mh) eqn:Ex.
    { exists false; split; auto. split; [discriminate|]. intros (p & Hw & Hwi). exfalso.
      destruct mh as [hops|]; cbn [exceeds within] in *; [|discriminate].
      apply Nat.ltb_lt in Ex.
      destruct (I_near _ _ _ _ _ _ HI t p Hw) as (l & Hl & Hn); [lia|].
      apply Hn, (I_t _ _ _ _ _ _ HI). congruence. }
    destruct (Nat.eqb_spec u t) as [->|Hut].
    { exists true; split; auto. split; auto. intros _.
      destruct (I_sound _ _ _ _ _ _ HI t d Hu) as (p & Hw & Hlen). exists p; split; auto.
      destruct mh as [hops|]; cbn [exceeds within] in *; auto.
      apply Nat.ltb_ge in Ex; lia. }
    destruct (inv_dequeue d dist u q1 q2 u0 HI Hut) as (HI1 & Hu1 & Hnu1).
    destruct (inv_fold _ d dist q1 q2 u HI1 Hu1 Hnu1) as (dist' & q2' & Heq & HI2 & Hm2).
    rewrite Heq. apply (IH d dist' q1 q2' u HI2).
    cbn [app length] in Hm; lia. }
  destruct q1 as [|u q1]; [|eapply Hstep; eauto].
  destruct q2 as [|u q2].
  - cbn [app reach_loop]. exists false; split; auto. split; [discriminate|].
    intros (p & Hw & _). exfalso.
    assert (Ht : lab dist t <> None).
    { apply (inv_empty_closed d dist u0 HI s p t Hw). rewrite (I_s _ _ _ _ _ _ HI); discriminate. }
    apply (I_t _ _ _ _ _ _ HI) in Ht. destruct Ht.
  - apply inv_shift in HI. cbn [app] in *.
    specialize (Hstep (S d) dist u q2 [] u0 HI). rewrite app_nil_r in Hstep. apply Hstep.
    cbn [length] in *; lia.
Qed.

Theorem bfs_spec mh :
  exists b, is_bfs_reachable h s t mh = Some b
    /\ (b = true <-> exists p, walk h s p t /\ within mh (length p)).
Proof.
  unfold is_bfs_reachable.
  apply (reach_loop_spec mh (S (nv h)) 0 dist0 [s] [] s inv_init).
  cbn [app length]. unfold dist0.
  pose proof (cntN_set_nth (map (fun _ => None) (seq 0 (nv h))) s 0) as Hc.
  rewrite map_length, seq_length in Hc. specialize (Hc Hs (nth_all_none _ _)).
  pose proof (cntN_le (map (fun _ => @None nat) (seq 0 (nv h)))) as Hle.
  rewrite map_length, seq_length in Hle. lia.
Qed.

End BFS.

(* ---- BFS correctness, user-facing forms ------------------------------------------------- *)

Theorem bfs_total h s t mh : wfg h -> s < nv h -> exists b, is_bfs_reachable h s t mh = Some b.
Proof. intros Hwf Hs. destruct (bfs_spec h s t Hwf Hs mh) as (b & Hb & _). exists b; exact Hb. Qed.

Theorem bfs_bounded_correct h s t hops : wfg h -> s < nv h ->
  (is_bfs_reachable h s t (Some hops) = Some true <-> exists p, walk h s p t /\ length p <= hops).
Proof.
  intros Hwf Hs. destruct (bfs_spec h s t Hwf Hs (Some hops)) as (b & Hb & Hiff).
  cbn [within] in Hiff. rewrite Hb, <- Hiff. split; congruence.
Qed.

Theorem bfs_unbounded_correct h s t : wfg h -> s < nv h ->
  (is_bfs_reachable h s t None = Some true <-> connected h s t).
Proof.
  intros Hwf Hs. destruct (bfs_spec h s t Hwf Hs None) as (b & Hb & Hiff).
  cbn [within] in Hiff. rewrite Hb. unfold connected. split.
  - intros H; injection H as ->. destruct Hiff as [Hiff _]. destruct (Hiff eq_refl) as (p & Hp & _). exists p; exact Hp.
  - intros (p & Hp). f_equal. apply Hiff. exists p; split; auto.
Qed.

Theorem bfs_false_correct h s t mh : wfg h -> s < nv h ->
  (is_bfs_reachable h s t mh = Some false <-> ~ exists p, walk h s p t /\ within mh (length p)).
Proof.
  intros Hwf Hs. destruct (bfs_spec h s t Hwf Hs mh) as (b & Hb & Hiff). rewrite Hb, <- Hiff.
  destruct b; split; congruence.
Qed.

(* ---- simple graphs ---------------------------------------------------------------------- *)

Lemma simple_ends g e x y : simple_graph g -> ends g e = Some (x, y) -> x < nv g /\ y < nv g /\ x <> y.
Proof.
  unfold simple_graph, simpleb, ends; intros Hs He.
  apply andb_true_iff in Hs as [Hs _]. rewrite forallb_forall in Hs.
  apply nth_error_In in He. apply Hs in He. cbn [fst snd] in He.
  apply andb_true_iff in He as [He H3]. apply andb_true_iff in He as [H1 H2].
  apply Nat.ltb_lt in H1, H2. apply negb_true_iff, Nat.eqb_neq in H3. auto.
Qed.

Lemma simple_wfg g : simple_graph g -> wfg g.
Proof. intros Hs e x y He. destruct (simple_ends g e x y Hs He) as (H1 & H2 & _); auto. Qed.

Lemma sorted_NoDup C : sorted C -> NoDup C.
Proof.
  unfold sorted; induction 1 as [|x C HS IH HF]; constructor; auto.
  intros Hin. rewrite Forall_forall in HF. apply HF in Hin. lia.
Qed.

Lemma In_wedges_split e p : In e (wedges p) -> exists p1 y p2, p = p1 ++ (e, y) :: p2.
Proof.
  unfold wedges; intros Hin. apply in_map_iff in Hin as ([e' y] & He & Hin). cbn [fst] in He; subst e'.
  apply in_split in Hin as (p1 & p2 & ->). exists p1, y, p2; reflexivity.
Qed.

Lemma sorted_scan_prefix (R : nat -> nat -> Prop) pre : forall e rest,
  StronglySorted R (pre ++ e :: rest) -> forall a, In a pre -> R a e.
Proof.
  induction pre as [|x pre IH]; intros e rest HS a Hin; [destruct Hin|].
  cbn [app] in HS. inversion HS as [|? ? HS' HF]; subst. destruct Hin as [<-|Hin].
  - rewrite Forall_forall in HF. apply HF. apply in_or_app; right; left; reflexivity.
  - apply (IH e rest HS' a Hin).
Qed.

(* ---- the spanner graph versus the retained edges of the input --------------------------- *)

Section SpannerGraph.
Variable g : graph.
Hypothesis Hg : simple_graph g.

(* the spanner is the subgraph of the retained edges: same vertex set, edge i = input edge R[i] *)
Definition sp_sub (sp : spanner) : Prop :=
  nv (sp_graph sp) = nv g
  /\ ge (sp_graph sp) = map (fun e => nth e (ge g) (0, 0)) (retained sp)
  /\ forall e, In e (retained sp) -> e < ne g.

Lemma nth_ge_ends e x y : ends g e = Some (x, y) -> nth e (ge g) (0, 0) = (x, y).
Proof. unfold ends; apply nth_error_nth. Qed.

Lemma ends_nth_ge e : e < ne g -> ends g e = Some (nth e (ge g) (0, 0)).
Proof. unfold ends, ne; apply nth_error_nth'. Qed.

Lemma sp_ends_to_g sp i x y : sp_sub sp -> ends (sp_graph sp) i = Some (x, y) ->
  exists e, In e (retained sp) /\ ends g e = Some (x, y).
Proof.
  intros (_ & Hge & Hlt) He. unfold ends in He. rewrite Hge, nth_error_map in He.
  destruct (nth_error (retained sp) i) as [e|] eqn:E; [|discriminate]. cbn [option_map] in He.
  apply nth_error_In in E. exists e; split; auto.
  rewrite (ends_nth_ge e (Hlt e E)). congruence.
Qed.

Lemma g_ends_to_sp sp e x y : sp_sub sp -> In e (retained sp) -> ends g e = Some (x, y) ->
  exists i, ends (sp_graph sp) i = Some (x, y).
Proof.
  intros (_ & Hge & _) Hin He. apply In_nth_error in Hin as (i & Hi). exists i.
  unfold ends. rewrite Hge. rewrite (map_nth_error _ _ _ Hi). f_equal. apply nth_ge_ends; exact He.
Qed.

Lemma sp_wfg sp : sp_sub sp -> wfg (sp_graph sp).
Proof.
  intros Hsp i x y He. destruct (sp_ends_to_g sp i x y Hsp He) as (e & _ & He').
  destruct Hsp as (Hnv & _). rewrite Hnv. destruct (simple_ends g e x y Hg He') as (H1 & H2 & _); auto.
Qed.

Lemma sp_walk_to_g sp x p z : sp_sub sp -> walk (sp_graph sp) x p z ->
  exists p', walk g x p' z /\ length p' = length p /\ incl (wedges p') (retained sp).
Proof.
  intros Hsp Hw; induction Hw as [x Hx|x i y p z Hj Hw IH].
  - exists []; repeat split; [constructor|intros a []]. destruct Hsp as (Hnv & _); rewrite <- Hnv; exact Hx.
  - destruct IH as (p' & Hw' & Hlen & Hincl).
    assert (He : exists e, In e (retained sp) /\ joins g e x y).
    { destruct Hj as [Hj|Hj]; destruct (sp_ends_to_g sp i _ _ Hsp Hj) as (e & Hin & He);
        exists e; split; auto; [left|right]; exact He. }
    destruct He as (e & Hin & Hj').
    exists ((e, y) :: p'); repeat split.
    + econstructor; eauto.
    + cbn [length]; lia.
    + intros a [<-|Ha]; auto.
Qed.

Lemma g_walk_to_sp sp x p z : sp_sub sp -> walk g x p z -> incl (wedges p) (retained sp) ->
  exists p', walk (sp_graph sp) x p' z /\ length p' = length p.
Proof.
  intros Hsp Hw; induction Hw as [x Hx|x e y p z Hj Hw IH]; intros Hincl.
  - exists []; split; [constructor|reflexivity]. destruct Hsp as (Hnv & _); rewrite Hnv; exact Hx.
  - destruct IH as (p' & Hw' & Hlen). { intros a Ha; apply Hincl; right; exact Ha. }
    assert (Hin : In e (retained sp)) by (apply Hincl; left; reflexivity).
    assert (Hi : exists i, joins (sp_graph sp) i x y).
    { destruct Hj as [Hj|Hj]; destruct (g_ends_to_sp sp e _ _ Hsp Hin Hj) as (i & Hi);
        exists i; [left|right]; exact Hi. }
    destruct Hi as (i & Hi). exists ((i, y) :: p'); split; [econstructor; eauto|cbn [length]; lia].
Qed.

End SpannerGraph.

(* ---- the greedy construction ------------------------------------------------------------- *)

Section Build.
Variable g : graph.
Hypothesis Hg : simple_graph g.
Variable w : list Z.
Variable mh : option nat.
Variable scan : list nat.
Hypothesis Hscan : forall e, In e scan -> e < ne g.
Hypothesis Hsorted : StronglySorted (fun a b => (wt w a <= wt w b)%Z) scan.

(* adding an edge whose endpoints have no short connection keeps the girth large *)
Lemma girth_extend sp e v u hops :
  sp_sub g sp -> ends g e = Some (v, u) ->
  (~ exists p, walk (sp_graph sp) v p u /\ length p <= hops) ->
  (forall C, simple_cycle g C -> incl C (retained sp) -> hops + 1 < length C) ->
  forall C, simple_cycle g C -> incl C (retained sp ++ [e]) -> hops + 1 < length C.
Proof.
  intros Hsub He Hno Hold C HC Hincl.
  destruct (in_dec Nat.eq_dec e C) as [HeC|HeC].
  2:{ apply Hold; auto. intros a Ha.
      destruct (in_app_or _ _ _ (Hincl a Ha)) as [H|[H|[]]]; auto. subst a; contradiction. }
  destruct (le_lt_dec (length C) (hops + 1)) as [Hshort|Hlong]; [exfalso|lia].
  pose proof HC as (_ & HsC & x & p & Hw & Hnd & _ & Hmem).
  assert (Hlen : length p = length C).
  { rewrite <- (map_length fst p). apply Permutation_length, NoDup_Permutation; auto.
    - apply sorted_NoDup; exact HsC.
    - intros a; symmetry; apply Hmem. }
  apply Hmem in HeC. destruct (In_wedges_split e p HeC) as (p1 & y & p2 & Hp). subst p.
  pose proof (simple_wfg g Hg) as Hwf.
  destruct (walk_split g p1 Hwf x e y p2 x Hw) as (z & Hw1 & Hj & Hw2).
  pose proof (walk_app g y p2 x Hw2 p1 z Hw1) as Hw3.
  assert (Hin3 : incl (wedges (p2 ++ p1)) (retained sp)).
  { intros a Ha. unfold wedges in Hnd, Ha, Hmem. rewrite map_app in Hnd, Ha; cbn [map fst] in Hnd.
    assert (Ha' : In a (map fst p1 ++ map fst p2)) by (apply in_app_or in Ha; apply in_or_app; tauto).
    pose proof (NoDup_remove_2 _ _ _ Hnd) as Hne.
    assert (Hae : a <> e) by (intros ->; contradiction).
    assert (HaC : In a C).
    { apply Hmem. rewrite map_app; cbn [map fst]. apply in_app_or in Ha'. apply in_or_app; cbn [In]; tauto. }
    destruct (in_app_or _ _ _ (Hincl a HaC)) as [H1|[H1|[]]]; auto. congruence. }
  assert (Hlen3 : length (p2 ++ p1) <= hops).
  { rewrite app_length in *; cbn [length] in Hlen; lia. }
  destruct Hj as [Hj|Hj]; rewrite He in Hj; injection Hj as Hz Hy; subst.
  - destruct (walk_rev g _ _ _ Hwf Hw3) as (p' & Hw' & Hl' & Hm').
    destruct (g_walk_to_sp g sp _ p' _ Hsub Hw') as (p'' & Hw'' & Hl'').
    { intros a Ha; apply Hin3, Hm', Ha. }
    apply Hno; exists p''; split; auto. lia.
  - destruct (g_walk_to_sp g sp _ _ _ Hsub Hw3 Hin3) as (p'' & Hw'' & Hl'').
    apply Hno; exists p''; split; auto. lia.
Qed.

(* invariant of the scan loop after the prefix `pre` of the scan order *)
Record SInv (pre : list nat) (sp : spanner) : Prop := {
  S_nv : nv (sp_graph sp) = nv g;
  S_ge : ge (sp_graph sp) = map (fun e => nth e (ge g) (0, 0)) (retained sp);
  S_perm : Permutation (retained sp ++ dropped sp) pre;
  S_path : forall e u v, In e (dropped sp) -> ends g e = Some (u, v) ->
     exists p, walk g u p v /\ incl (wedges p) (retained sp) /\ within mh (length p)
               /\ Forall (fun a => (wt w a <= wt w e)%Z) (wedges p);
  S_girth : forall hops C, mh = Some hops -> simple_cycle g C -> incl C (retained sp) ->
     hops + 1 < length C
}.

Lemma SInv_sub pre sp : (forall e, In e pre -> In e scan) -> SInv pre sp -> sp_sub g sp.
Proof.
  intros Hpre HI. split; [apply (S_nv _ _ HI)|split; [apply (S_ge _ _ HI)|]].
  intros e He. apply Hscan, Hpre. apply (Permutation_in _ (S_perm _ _ HI)).
  apply in_or_app; left; exact He.
Qed.

Definition sp_init : spanner :=
  {| sp_graph := {| nv := nv g; ge := [] |}; retained := []; dropped := [] |}.

Lemma SInv_init : SInv [] sp_init.
Proof.
  constructor; cbn [sp_init sp_graph retained dropped nv ge map app]; auto.
  - intros e u v [].
  - intros hops C _ (Hne & _) Hincl. destruct C as [|c C]; [congruence|].
    destruct (Hincl c); left; reflexivity.
Qed.

Lemma build_spanner_spec rest : forall pre sp, scan = pre ++ rest -> SInv pre sp ->
  exists sp', build_spanner g mh rest sp = SpOk sp' /\ SInv scan sp'.
Proof.
  induction rest as [|e rest IH]; intros pre sp Hsc HI.
  - rewrite app_nil_r in Hsc; subst pre. exists sp; split; auto.
  - assert (Hpre : forall a, In a pre -> In a scan).
    { intros a Ha; rewrite Hsc; apply in_or_app; left; exact Ha. }
    pose proof (SInv_sub pre sp Hpre HI) as Hsub.
    assert (He : In e scan) by (rewrite Hsc; apply in_or_app; right; left; reflexivity).
    pose proof (ends_nth_ge g e (Hscan e He)) as Hends.
    destruct (nth e (ge g) (0, 0)) as [v u] eqn:Evu.
    destruct (simple_ends g e v u Hg Hends) as (Hv & Hu & Hvu).
    cbn [build_spanner]. rewrite Hends.
    destruct (Nat.eqb_spec v u) as [Heq|_]; [contradiction|].
    assert (Hvsp : v < nv (sp_graph sp)) by (rewrite (S_nv _ _ HI); exact Hv).
    destruct (bfs_spec (sp_graph sp) v u (sp_wfg g Hg sp Hsub) Hvsp mh) as (b & Hb & Hiff).
    rewrite Hb.
    assert (Hsc' : scan = (pre ++ [e]) ++ rest) by (rewrite <- app_assoc; exact Hsc).
    assert (Hle : forall a, In a (retained sp) -> (wt w a <= wt w e)%Z).
    { intros a Ha. apply (sorted_scan_prefix (fun a b => (wt w a <= wt w b)%Z) pre e rest);
        [rewrite <- Hsc; exact Hsorted|].
      apply (Permutation_in _ (S_perm _ _ HI)). apply in_or_app; left; exact Ha. }
    destruct b.
    + apply (IH (pre ++ [e])); auto. constructor; cbn [sp_graph retained dropped].
      * apply (S_nv _ _ HI).
      * apply (S_ge _ _ HI).
      * rewrite app_assoc. apply Permutation_app_tail, (S_perm _ _ HI).
      * intros e' u' v' Hin He'. apply in_app_or in Hin as [Hin|[Hin|[]]];
          [apply (S_path _ _ HI); auto|subst e'].
        rewrite Hends in He'; injection He' as Hu' Hv'; subst u' v'.
        destruct Hiff as [Hiff _]. destruct (Hiff eq_refl) as (p & Hp & Hwi).
        destruct (sp_walk_to_g g sp v p u Hsub Hp) as (p' & Hp' & Hlen & Hincl).
        exists p'; split; [exact Hp'|split; [exact Hincl|split]].
        -- rewrite Hlen; exact Hwi.
        -- apply Forall_forall; intros a Ha; apply Hle, Hincl, Ha.
      * apply (S_girth _ _ HI).
    + apply (IH (pre ++ [e])); auto. constructor; cbn [sp_graph retained dropped nv ge].
      * reflexivity.
      * rewrite (S_ge _ _ HI), map_app; cbn [map]; rewrite Evu; reflexivity.
      * rewrite <- app_assoc; cbn [app].
        eapply Permutation_trans; [apply Permutation_sym, Permutation_middle|].
        eapply Permutation_trans; [apply perm_skip, (S_perm _ _ HI)|apply Permutation_cons_append].
      * intros e' u' v' Hin He'. destruct (S_path _ _ HI e' u' v' Hin He') as (p & H1 & H2 & H3 & H4).
        exists p; split; [exact H1|split; [|split; auto]]. apply incl_appl; exact H2.
      * intros hops C Hmh. apply (girth_extend sp e v u hops Hsub Hends).
        -- intros (p & Hp & Hl). destruct Hiff as [_ Hiff]. rewrite Hmh in Hiff; cbn [within] in Hiff.
           assert (Hft : false = true) by (apply Hiff; exists p; split; auto). discriminate Hft.
        -- intros C'; apply (S_girth _ _ HI); exact Hmh.
Qed.

End Build.

(* ---- construct_spanner: the property-level statements ---------------------------------- *)

Lemma max_hops_pos k : 1 <= k -> max_hops k = Some (2 * k - 1).
Proof. intros Hk; unfold max_hops. destruct (Nat.eqb_spec k 0); [lia|reflexivity]. Qed.

Lemma wt_nil e : wt [] e = 0%Z.
Proof. unfold wt; destruct e; reflexivity. Qed.

Lemma wt_nonneg w e : Forall (fun x => (0 <= x)%Z) w -> (0 <= wt w e)%Z.
Proof.
  intros HF; unfold wt. destruct (lt_dec e (length w)) as [Hlt|Hge].
  - rewrite Forall_nth in HF; apply HF; exact Hlt.
  - rewrite nth_overflow by lia. lia.
Qed.

Lemma weight_bound w c l : Forall (fun a => (wt w a <= c)%Z) l ->
  (weight w l <= Z.of_nat (length l) * c)%Z.
Proof.
  unfold weight; induction 1 as [|a l Ha HF IH]; cbn [map fold_right length]; [lia|].
  rewrite Nat2Z.inj_succ. lia.
Qed.

Lemma scan_in_range g scan : Permutation scan (seq 0 (ne g)) -> forall e, In e scan -> e < ne g.
Proof. intros HP e He. apply (Permutation_in _ HP), in_seq in He. lia. Qed.

(* the scan loop run from the empty spanner establishes the invariant for the whole scan *)
Lemma construct_spanner_inv g w k scan :
  simple_graph g -> Permutation scan (seq 0 (ne g)) ->
  StronglySorted (fun a b => (wt w a <= wt w b)%Z) scan ->
  exists sp, construct_spanner g k scan = SpOk sp /\ SInv g w (max_hops k) scan sp.
Proof.
  intros Hg HP HS. unfold construct_spanner.
  apply (build_spanner_spec g Hg w (max_hops k) scan (scan_in_range g scan HP) HS scan [] (sp_init g)).
  - reflexivity.
  - apply SInv_init.
Qed.

(* totality, partition and subgraph shape need no sortedness and hold for every k (k = 0 included) *)
Theorem construct_spanner_total g k scan :
  simple_graph g -> Permutation scan (seq 0 (ne g)) ->
  exists sp, construct_spanner g k scan = SpOk sp
    /\ Permutation (retained sp ++ dropped sp) (seq 0 (ne g))
    /\ nv (sp_graph sp) = nv g
    /\ ge (sp_graph sp) = map (fun e => nth e (ge g) (0, 0)) (retained sp).
Proof.
  intros Hg HP.
  assert (HS : StronglySorted (fun a b => (wt [] a <= wt [] b)%Z) scan).
  { clear HP. induction scan as [|a l IH]; constructor; auto.
    apply Forall_forall; intros x _. rewrite !wt_nil; lia. }
  destruct (construct_spanner_inv g [] k scan Hg HP HS) as (sp & Hsp & HI).
  exists sp; split; [exact Hsp|split; [|split]].
  - eapply Permutation_trans; [apply (S_perm _ _ _ _ _ HI)|exact HP].
  - apply (S_nv _ _ _ _ _ HI).
  - apply (S_ge _ _ _ _ _ HI).
Qed.

Theorem construct_spanner_k0_total g scan :
  simple_graph g -> Permutation scan (seq 0 (ne g)) -> exists sp, construct_spanner g 0 scan = SpOk sp.
Proof.
  intros Hg HP. destruct (construct_spanner_total g 0 scan Hg HP) as (sp & Hsp & _). exists sp; exact Hsp.
Qed.

Lemma spanner_weights_nth w sp i e :
  nth_error (retained sp) i = Some e -> nth_error (spanner_weights w sp) i = Some (wt w e).
Proof. intros H; unfold spanner_weights, wt. apply (map_nth_error (fun e => nth e w 0%Z) _ _ H). Qed.

(* C15, all clauses at once.  Sortedness is `Sorted` (adjacent elements) w.r.t. the weight preorder,
   equivalent to StronglySorted since <= is transitive.  `length w = ne g` is not used. *)
Theorem construct_spanner_correct g w k scan :
  simple_graph g -> length w = ne g -> 1 <= k ->
  Permutation scan (seq 0 (ne g)) -> Sorted (fun a b => (wt w a <= wt w b)%Z) scan ->
  exists sp, construct_spanner g k scan = SpOk sp
    /\ Permutation (retained sp ++ dropped sp) (seq 0 (ne g))
    /\ (nv (sp_graph sp) = nv g /\ ge (sp_graph sp) = map (fun e => nth e (ge g) (0, 0)) (retained sp))
    /\ (forall i e, nth_error (retained sp) i = Some e -> nth_error (spanner_weights w sp) i = Some (wt w e))
    /\ (forall e u v, In e (dropped sp) -> ends g e = Some (u, v) ->
          exists p, walk g u p v /\ incl (wedges p) (retained sp) /\ length p <= 2 * k - 1
                    /\ Forall (fun a => (wt w a <= wt w e)%Z) (wedges p))
    /\ (forall C, simple_cycle g C -> incl C (retained sp) -> 2 * k < length C).
Proof.
  intros Hg _ Hk HP HS.
  apply Sorted_StronglySorted in HS; [|intros a b c; apply Z.le_trans].
  destruct (construct_spanner_inv g w k scan Hg HP HS) as (sp & Hsp & HI).
  rewrite (max_hops_pos k Hk) in HI.
  exists sp; split; [exact Hsp|split; [|split; [split|split; [|split]]]].
  - eapply Permutation_trans; [apply (S_perm _ _ _ _ _ HI)|exact HP].
  - apply (S_nv _ _ _ _ _ HI).
  - apply (S_ge _ _ _ _ _ HI).
  - intros i e; apply spanner_weights_nth.
  - intros e u v Hin He. destruct (S_path _ _ _ _ _ HI e u v Hin He) as (p & H1 & H2 & H3 & H4).
    exists p; auto.
  - intros C HC Hincl. pose proof (S_girth _ _ _ _ _ HI (2 * k - 1) C eq_refl HC Hincl). lia.
Qed.

(* stretch <= 2k-1 for non-negative weights *)
Theorem construct_spanner_stretch g w k scan :
  simple_graph g -> length w = ne g -> Forall (fun x => (0 <= x)%Z) w -> 1 <= k ->
  Permutation scan (seq 0 (ne g)) -> Sorted (fun a b => (wt w a <= wt w b)%Z) scan ->
  exists sp, construct_spanner g k scan = SpOk sp
    /\ forall e u v, In e (dropped sp) -> ends g e = Some (u, v) ->
         exists p, walk g u p v /\ incl (wedges p) (retained sp)
                   /\ (weight w (wedges p) <= Z.of_nat (2 * k - 1) * wt w e)%Z.
Proof.
  intros Hg Hlen Hpos Hk HP HS.
  destruct (construct_spanner_correct g w k scan Hg Hlen Hk HP HS) as (sp & Hsp & _ & _ & _ & Hpath & _).
  exists sp; split; [exact Hsp|]. intros e u v Hin He.
  destruct (Hpath e u v Hin He) as (p & H1 & H2 & H3 & H4). exists p; split; [exact H1|split; [exact H2|]].
  eapply Z.le_trans; [apply weight_bound; exact H4|].
  apply Z.mul_le_mono_nonneg_r; [apply wt_nonneg; exact Hpos|].
  unfold wedges; rewrite map_length. lia.
Qed.

(* ---- helpers for concrete instances ------------------------------------------------------ *)

Lemma scan_perm_check scan m :
  length scan = m -> forallb (fun e => memb e scan) (seq 0 m) = true -> Permutation scan (seq 0 m).
Proof.
  intros Hlen Hall. apply Permutation_sym, NoDup_Permutation_bis.
  - apply seq_NoDup.
  - rewrite seq_length; lia.
  - intros e He. rewrite forallb_forall in Hall. apply Hall in He.
    unfold memb in He. apply existsb_exists in He as (x & Hx & Hex). apply Nat.eqb_eq in Hex; subst; exact Hx.
Qed.
