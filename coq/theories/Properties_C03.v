(* Properties_C03.v — the TBB-parallel entry points keep their contract under every schedule (model level).
   Only statements; each closed by [exact <lemma>] and followed by Print Assumptions.

   What is proved (for ALL schedule trees — arbitrary split points, any Seq/Fork labelling, any execution order —
   not only for those the bit stream of the correspondence check can produce):
     C03a  a running-minimum parallel_reduce with the left-biased cycle_min join returns a minimum of the unlimited
           per-index results (from limit-monotonicity; and, more robustly, from a global minimum that one index always
           delivers); instantiated for the two reductions of OddCycleFinder in ParSignedModel.v modulo the explicit
           premises "the search model returns no error value" and "the search is limit-monotone" (these premises are what
           the correspondence check tests; the optimality proof of the bidirectional search is not part of C03);
     C03_push_permutation / C03_run_is_generic_loop   the concurrently pushed initial supports are a permutation of the
           unit vectors and the whole run is a run of SvaModel.sva_phases from that permuted basis with the sequential
           update_supports — whatever the partition and order of the updating parallel_for;
     C03b  footprints of the support-update tasks: pairwise disjoint for every partition of (k, N); adequate for the
           model's task function (frame + read dependence); tasks commute; any partition in any order = the sequential loop.
     C03_signed_tbb (end of file)  NO premise about the search: for every simple graph with positive integer weights, every
           root order, pointer order, schedule bit stream and insertion order, the model of mcb_sva_signed_tbb returns SvaOk
           with exactly m-n+c simple cycles forming a MINIMUM cycle basis, and the returned value is their total weight
           (ParSignedProofs.v, on top of the optimality proof of the bidirectional search, BidirProofs*.v).
   What is NOT proved here: memory accesses of the compiled code (race clause: runtime evidence only, ThreadSanitizer on
   the real TBB in the thorough tier); the per-index limit-monotonicity premise of the two `_modulo_search` theorems (kept
   as stated; C03_signed_tbb does not need it — it goes through the global-minimum form of the reduction argument). *)
From Coq Require Import List Arith Bool Lia Permutation.
From Parmcb Require Import GraphModel ForestModel GF2Model SvaModel SignedModel SchedModel ParSignedModel SchedProofs.
Import ListNotations.

(* ---- C03a ------------------------------------------------------------------------------------------------------- *)

(* R = results (cycle with its weight), W = weights with a strict weak order wltb (std::less), res i l = the search of
   index i under the optional limit l.  For every schedule tree t over [lo, lo + size t): the reduction finds nothing iff
   no index finds anything without limit; otherwise its weight is the weight of some unlimited result and no unlimited
   result is lighter. *)
Theorem C03a_schedule_independence :
  forall (R W : Type) (weight : R -> W) (wltb : W -> W -> bool),
    (forall a, wltb a a = false) ->
    (forall a b c, wltb a b = true -> wltb b c = true -> wltb a c = true) ->
    (forall a b c, wltb a b = false -> wltb b c = false -> wltb a c = false) ->
  forall (res : nat -> option W -> option R), limit_monotone R W weight wltb res ->
  forall (t : sched) (lo : nat),
    let out := parallel_reduce (option R) (rm_body R W weight wltb res) (rm_join R W weight wltb) None t lo in
    (out = None <-> forall i, lo <= i < lo + size t -> res i None = None) /\
    (forall x, out = Some x ->
       (exists i y, lo <= i < lo + size t /\ res i None = Some y /\ weight y = weight x) /\
       (forall j y, lo <= j < lo + size t -> res j None = Some y -> wltb (weight y) (weight x) = false)).
Proof. exact reduce_schedule_independent. Qed.
Print Assumptions C03a_schedule_independence.

(* any two schedules of the same range: both find nothing, or both find results of equivalent weight *)
Theorem C03a_two_schedules :
  forall (R W : Type) (weight : R -> W) (wltb : W -> W -> bool),
    (forall a, wltb a a = false) ->
    (forall a b c, wltb a b = true -> wltb b c = true -> wltb a c = true) ->
    (forall a b c, wltb a b = false -> wltb b c = false -> wltb a c = false) ->
  forall (res : nat -> option W -> option R), limit_monotone R W weight wltb res ->
  forall (t1 t2 : sched) (lo : nat), size t1 = size t2 ->
    match parallel_reduce (option R) (rm_body R W weight wltb res) (rm_join R W weight wltb) None t1 lo,
          parallel_reduce (option R) (rm_body R W weight wltb res) (rm_join R W weight wltb) None t2 lo with
    | Some x1, Some x2 => wltb (weight x1) (weight x2) = false /\ wltb (weight x2) (weight x1) = false
    | None, None => True
    | _, _ => False
    end.
Proof. exact reduce_two_schedules. Qed.
Print Assumptions C03a_two_schedules.

(* the robust form: no per-index monotonicity.  If every answer respects its limit and is not below Mw, and some index i0
   of the range answers with weight ~ Mw under every limit that admits Mw, then under every schedule the reduction
   returns a result of weight ~ Mw. *)
Theorem C03a_global_min :
  forall (R W : Type) (weight : R -> W) (wltb : W -> W -> bool),
    (forall a b c, wltb a b = false -> wltb b c = false -> wltb a c = false) ->
  forall (res : nat -> option W -> option R) (Mw : W),
    (forall i l x, res i l = Some x -> wltb (weight x) Mw = false) ->
    (forall i l x, res i (Some l) = Some x -> wltb (weight x) l = true) ->
  forall i0 : nat,
    (forall l, (match l with Some lv => wltb Mw lv = true | None => True end) ->
               exists x, res i0 l = Some x /\ weqv W wltb (weight x) Mw) ->
  forall (t : sched) (lo : nat), lo <= i0 < lo + size t ->
    exists x, parallel_reduce (option R) (rm_body R W weight wltb res) (rm_join R W weight wltb) None t lo = Some x /\
              weqv W wltb (weight x) Mw.
Proof. exact reduce_global_min. Qed.
Print Assumptions C03a_global_min.

(* the reduction of OddCycleFinder::find_all_vertices in the model, under every schedule tree *)
Theorem C03a_find_all_vertices_modulo_search :
  forall (W : Type) (w0 : W) (wadd : W -> W -> W) (wltb : W -> W -> bool),
    (forall a, wltb a a = false) ->
    (forall a b c, wltb a b = true -> wltb b c = true -> wltb a c = true) ->
    (forall a b c, wltb a b = false -> wltb b c = false -> wltb a c = false) ->
  forall (g : graph) (wts : list W) (signed : list nat) (t : sched),
    (forall i best, i < size t -> all_vertices_step W w0 wadd wltb g wts signed i (Some best) <> None) ->
    limit_monotone (list nat * W) W (cw W) wltb (all_res W w0 wadd wltb g wts signed) ->
    exists out,
      parallel_reduce (racc W) (all_vertices_step W w0 wadd wltb g wts signed) (join_err W wltb) (ident_err W) t 0 = Some out /\
      min_result W wltb (all_res W w0 wadd wltb g wts signed) (size t) out.
Proof. exact find_all_vertices_any_schedule. Qed.
Print Assumptions C03a_find_all_vertices_modulo_search.

(* the reduction of OddCycleFinder::find_less_than_vertices in the model, under every schedule tree *)
Theorem C03a_find_less_than_vertices_modulo_search :
  forall (W : Type) (w0 : W) (wadd : W -> W -> W) (wltb : W -> W -> bool),
    (forall a, wltb a a = false) ->
    (forall a b c, wltb a b = true -> wltb b c = true -> wltb a c = true) ->
    (forall a b c, wltb a b = false -> wltb b c = false -> wltb a c = false) ->
  forall (g : graph) (wts : list W) (signed sev : list nat) (t : sched),
    (forall i best, i < size t -> hidden_step W w0 wadd wltb g wts signed sev i (Some best) <> None) ->
    limit_monotone (list nat * W) W (cw W) wltb (hid_res W w0 wadd wltb g wts signed sev) ->
    exists out,
      parallel_reduce (racc W) (hidden_step W w0 wadd wltb g wts signed sev) (join_err W wltb) (ident_err W) t 0 = Some out /\
      min_result W wltb (hid_res W w0 wadd wltb g wts signed sev) (size t) out.
Proof. exact find_less_than_vertices_any_schedule. Qed.
Print Assumptions C03a_find_less_than_vertices_modulo_search.

(* ---- the bit stream yields schedules of the right range ------------------------------------------------------------ *)
Theorem C03_bits_cover : forall bits pos len, size (fst (sched_of_bits bits pos len)) = len.
Proof. exact sched_of_bits_size. Qed.
Print Assumptions C03_bits_cover.

(* the fuel of tree_of_bits is never exhausted: any fuel >= len gives the same tree and position *)
Theorem C03_bits_fuel : forall bits f1 f2 pos len, len <= f1 -> len <= f2 ->
  tree_of_bits f1 bits pos len = tree_of_bits f2 bits pos len.
Proof. exact tree_of_bits_fuel. Qed.
Print Assumptions C03_bits_fuel.

(* ---- the concurrent initialisation ----------------------------------------------------------------------------------- *)

(* for every schedule of the initialising parallel_for and every explicit insertion order `perm` of the concurrent
   pushes, the pushed supports are a permutation of the unit vectors *)
Theorem C03_push_permutation : forall (t : sched) (perm : list nat),
  Permutation (initial_supports t perm) (map (fun i => [i]) (seq 0 (size t))).
Proof. exact initial_supports_perm. Qed.
Print Assumptions C03_push_permutation.

(* every chunk order visits every index of the range exactly once *)
Theorem C03_exec_order_permutation : forall (t : sched) (lo : nat), Permutation (exec_order t lo) (seq lo (size t)).
Proof. exact exec_order_perm. Qed.
Print Assumptions C03_exec_order_permutation.

(* for every bit stream (hence every schedule of every parallel construct of the run): mcb_sva_signed_tbb is a run of the
   generic loop SvaModel.sva_phases — sequential update_supports, the no-early-exit selection — from a permutation of the
   unit vectors, with a per-phase search each of whose answers is an answer of OddCycleFinder::find *)
Theorem C03_run_is_generic_loop :
  forall (W : Type) (w0 : W) (wadd : W -> W -> W) (wltb : W -> W -> bool) (eord : nat -> nat) (bits : list bool)
         (g : graph) (wts : list W) (fi : forest_index) (perm roots : list nat) (fi' : forest_index),
    create_index g roots = Some fi' -> fi' = fi ->
    exists (init : list vec) (search : nat -> vec -> phase_result W),
      Permutation init (map (fun i => [i]) (seq 0 (fi_csd fi))) /\
      fst (mcb_sva_signed_tbb W w0 wadd wltb eord bits perm g wts roots)
      = sva_phases W wadd (select_min_support_tbb (fi_csd fi)) search fi (seq 0 (fi_csd fi)) init [] w0 /\
      (forall k S, exists p, search k S = to_phase W (fst (find W w0 wadd wltb eord bits g wts fi S p))).
Proof. exact mcb_sva_signed_tbb_is_sva_run. Qed.
Print Assumptions C03_run_is_generic_loop.

(* the same from ANY initial content of support[] of the right length (in particular any interleaving of the concurrent
   pushes whatsoever), any phase list without repetition and any stream position *)
Theorem C03_phases_any_initial_order :
  forall (W : Type) (w0 : W) (wadd : W -> W -> W) (wltb : W -> W -> bool) (eord : nat -> nat) (bits : list bool)
         (g : graph) (wts : list W) (fi : forest_index) (ks : list nat) (sup : list vec) (pos : nat)
         (acc : list (list nat)) (total : W),
    NoDup ks -> (forall k, In k ks -> k < fi_csd fi) -> length sup = fi_csd fi ->
    exists search : nat -> vec -> phase_result W,
      fst (par_phases W w0 wadd wltb eord bits g wts fi ks sup pos acc total)
      = sva_phases W wadd (select_min_support_tbb (fi_csd fi)) search fi ks sup acc total /\
      (forall k S, exists p, search k S = to_phase W (fst (find W w0 wadd wltb eord bits g wts fi S p))).
Proof. exact par_phases_is_sva_phases. Qed.
Print Assumptions C03_phases_any_initial_order.

(* ---- C03b ------------------------------------------------------------------------------------------------------- *)

(* for every partition cs of the rows k+1 .. N-1 into chunks and any two distinct tasks A, B of it: a location written
   by one is neither read nor written by the other (reads of B = its rows and SupportRow k) *)
Theorem C03b_footprints :
  forall (k : nat) (cs l1 : list (nat * nat)) (A : nat * nat) (l2 : list (nat * nat)) (B : nat * nat)
         (l3 : list (nat * nat)) (N : nat),
    Permutation (flat_map chunk_indices cs) (seq (S k) (N - S k)) -> cs = l1 ++ A :: l2 ++ B :: l3 ->
    forall x, (In x (chunk_writes A) -> ~ In x (chunk_reads k B)) /\ (In x (chunk_writes B) -> ~ In x (chunk_reads k A)).
Proof. exact footprints_disjoint. Qed.
Print Assumptions C03b_footprints.

(* the footprints are adequate for the model's task function: rows outside the write set are unchanged ... *)
Theorem C03b_frame : forall k cy c sup i, i < length sup -> ~ In (SupportRow i) (chunk_writes c) ->
  nth i (update_chunk k cy (fst c) (snd c) sup) [] = nth i sup [].
Proof. exact update_chunk_frame. Qed.
Print Assumptions C03b_frame.

(* ... and the rows written depend only on the read set *)
Theorem C03b_reads_only : forall k cy c sup1 sup2, length sup1 = length sup2 ->
  (forall j, In (SupportRow j) (chunk_reads k c) -> nth j sup1 [] = nth j sup2 []) ->
  forall i, i < length sup1 -> In (SupportRow i) (chunk_writes c) ->
  nth i (update_chunk k cy (fst c) (snd c) sup1) [] = nth i (update_chunk k cy (fst c) (snd c) sup2) [].
Proof. exact update_chunk_reads_only. Qed.
Print Assumptions C03b_reads_only.

(* pairwise non-interference: two disjoint tasks that do not contain k commute *)
Theorem C03b_commute : forall k cy A B sup, k < length sup ->
  NoDup (chunk_indices A ++ chunk_indices B) -> in_chunk k A = false -> in_chunk k B = false ->
  update_chunk k cy (fst A) (snd A) (update_chunk k cy (fst B) (snd B) sup) =
  update_chunk k cy (fst B) (snd B) (update_chunk k cy (fst A) (snd A) sup).
Proof. exact update_chunk_commute. Qed.
Print Assumptions C03b_commute.

(* every partition of (k, N), executed in any order, equals the sequential update loop of SvaModel *)
Theorem C03b_any_partition : forall k cy cs sup, k < length sup ->
  Permutation (flat_map chunk_indices cs) (seq (S k) (length sup - S k)) ->
  run_chunks k cy cs sup = update_supports sup k cy.
Proof. exact run_chunks_any_partition. Qed.
Print Assumptions C03b_any_partition.

(* in particular the updating parallel_for of the model under every schedule tree *)
Theorem C03b_parallel_for : forall k cy t sup, S k + size t = length sup ->
  parallel_for (list vec) (update_chunk k cy) t (S k) sup = update_supports sup k cy.
Proof. exact parallel_for_update_any_schedule. Qed.
Print Assumptions C03b_parallel_for.

(* ---- non-vacuity ---------------------------------------------------------------------------------------------------- *)

(* five indices with unlimited results 5, -, 3, 3, 7 (the result records which index produced it); limited searches
   return the result only below the limit *)
Definition ex_res (i : nat) (l : option nat) : option (nat * nat) :=
  match nth i [Some 5; None; Some 3; Some 3; Some 7] None with
  | None => None
  | Some w => match l with
              | None => Some (i, w)
              | Some lv => if Nat.ltb w lv then Some (i, w) else None
              end
  end.

Example C03a_nonvacuous :
  (forall a, Nat.ltb a a = false) /\
  (forall a b c, Nat.ltb a b = true -> Nat.ltb b c = true -> Nat.ltb a c = true) /\
  (forall a b c, Nat.ltb a b = false -> Nat.ltb b c = false -> Nat.ltb a c = false) /\
  limit_monotone (nat * nat) nat snd Nat.ltb ex_res /\
  (* a forked schedule with a right-first node, the all-sequential one, and one that isolates every index *)
  let t1 := Fork true (Seq false (Run 1) (Run 1)) (Fork false (Run 2) (Run 1)) in
  let t2 := Run 5 in
  let t3 := Fork false (Fork false (Run 1) (Run 1)) (Fork false (Run 1) (Fork false (Run 1) (Run 1))) in
  parallel_reduce _ (rm_body _ _ snd Nat.ltb ex_res) (rm_join _ _ snd Nat.ltb) None t1 0 = Some (2, 3) /\
  parallel_reduce _ (rm_body _ _ snd Nat.ltb ex_res) (rm_join _ _ snd Nat.ltb) None t2 0 = Some (2, 3) /\
  parallel_reduce _ (rm_body _ _ snd Nat.ltb ex_res) (rm_join _ _ snd Nat.ltb) None t3 0 = Some (2, 3).
Proof.
  split; [apply Nat.ltb_irrefl|].
  split; [intros a b c H1 H2; apply Nat.ltb_lt in H1, H2; apply Nat.ltb_lt; lia|].
  split; [intros a b c H1 H2; apply Nat.ltb_ge in H1, H2; apply Nat.ltb_ge; lia|].
  split.
  - intros i l. unfold ex_res.
    do 5 (destruct i as [|i]; [cbn [nth snd];
      first [ destruct (Nat.ltb _ l) eqn:E;
              [split; [exact E|eexists; split; reflexivity]|intros y Hy; injection Hy as <-; exact E]
            | intros y Hy; discriminate ]|]).
    cbn [nth]. destruct i; intros y Hy; discriminate.
  - cbv zeta. repeat split; vm_compute; reflexivity.
Qed.

(* the robust form applies where limit-monotonicity fails: index 1 answers (weight 4) only when a limit is given *)
Definition ex_res2 (i : nat) (l : option nat) : option (nat * nat) :=
  match i, l with
  | 1, Some lv => if Nat.ltb 4 lv then Some (1, 4) else None
  | 1, None => None
  | _, _ => ex_res i l
  end.

Example C03a_global_min_nonvacuous :
  ~ limit_monotone (nat * nat) nat snd Nat.ltb ex_res2 /\
  (forall i l x, ex_res2 i l = Some x -> Nat.ltb (snd x) 3 = false) /\
  (forall i l x, ex_res2 i (Some l) = Some x -> Nat.ltb (snd x) l = true) /\
  (forall l, (match l with Some lv => Nat.ltb 3 lv = true | None => True end) ->
             exists x, ex_res2 2 l = Some x /\ weqv nat Nat.ltb (snd x) 3) /\
  parallel_reduce _ (rm_body _ _ snd Nat.ltb ex_res2) (rm_join _ _ snd Nat.ltb) None
                  (Fork true (Seq false (Run 1) (Run 1)) (Fork false (Run 2) (Run 1))) 0 = Some (2, 3).
Proof.
  split; [|split; [|split; [|split]]].
  - intros LM. specialize (LM 1 5). cbn in LM. destruct LM as (_ & y & Hy & _). discriminate.
  - intros i l x. unfold ex_res2, ex_res.
    do 5 (destruct i as [|i]; [destruct l as [lv|]; cbn [nth];
      try (destruct (Nat.ltb _ lv)); intros H; try discriminate; injection H as <-; reflexivity|]).
    destruct l; cbn [nth]; destruct i; discriminate.
  - intros i l x. unfold ex_res2, ex_res.
    do 5 (destruct i as [|i]; [cbn [nth];
      try (destruct (Nat.ltb _ l) eqn:E); intros H; try discriminate; injection H as <-; exact E|]).
    cbn [nth]. destruct i; discriminate.
  - intros [lv|] H; unfold ex_res2, ex_res; cbn [nth].
    + rewrite H. eexists. split; [reflexivity|]. split; reflexivity.
    + eexists. split; [reflexivity|]. split; reflexivity.
  - vm_compute. reflexivity.
Qed.

(* bit stream 1 1 1 (cyclic): a range of 5 is split everywhere with forks, right parts first: the pushes arrive reversed *)
Example C03_push_nonvacuous :
  let t := fst (sched_of_bits [true; true; true] 0 5) in
  t = Fork true (Fork true (Run 1) (Run 1)) (Fork true (Run 1) (Fork true (Run 1) (Run 1))) /\
  snd (sched_of_bits [true; true; true] 0 5) = 12 /\
  initial_supports t [] = [[4]; [3]; [2]; [1]; [0]] /\
  initial_supports t [1; 0; 4; 2; 3] = [[3]; [4]; [0]; [2]; [1]] /\
  chunks_of (fst (sched_of_bits [true; false; true; false] 0 4)) 7 = [(10, 1); (9, 1); (7, 2)].
Proof. vm_compute. repeat split; reflexivity. Qed.

(* four supports, phase k = 0, the rows 1..3 partitioned into {3} and {1,2} and executed in that order *)
Example C03b_nonvacuous :
  let sup := [[0; 2]; [1]; [0; 2]; [1; 3]] in
  let cy := [1; 2] in
  Permutation (flat_map chunk_indices [(3, 1); (1, 2)]) (seq 1 (length sup - 1)) /\
  run_chunks 0 cy [(3, 1); (1, 2)] sup = [[0; 2]; [0; 1; 2]; []; [0; 1; 2; 3]] /\
  update_supports sup 0 cy = [[0; 2]; [0; 1; 2]; []; [0; 1; 2; 3]] /\
  chunk_writes (1, 2) = [SupportRow 1; SupportRow 2] /\ chunk_reads 0 (3, 1) = [SupportRow 0; SupportRow 3].
Proof.
  cbv zeta. split; [|vm_compute; repeat split; reflexivity].
  cbn. apply (Permutation_cons_app [1; 2] []). apply Permutation_refl.
Qed.


(* ---- C03 for the signed variant, full strength at model level ----------------------------------------------------------
   C03_signed_tbb   NO premise about the search.  For every simple graph with positive integer weights, every BFS root
                    order, every pointer order of the edge descriptors, EVERY schedule bit stream (hence every schedule
                    tree the stream yields for every parallel_for / parallel_reduce of the run, at every position) and every
                    explicit insertion order of the concurrently pushed initial supports, the model of mcb_sva_signed_tbb
                    answers SvaOk with a MINIMUM cycle basis (simple cycles, independent, spanning, minimum total weight
                    among all cycle bases), exactly m - n + c cycles, and the returned value is their total weight.
   The reductions are handled for ARBITRARY schedule trees (ParSignedProofs.ti_eval / ps_av_reduce / ps_he_reduce), the
   single-signed-edge branch directly (ps_single); the per-search facts come from BidirProofs4.bidir_spec and
   BidirProofsA1-A3.v; the loop from SvaProofs.v started at a permuted unit basis (perm_init_inv). *)
From Coq Require Import ZArith.
From Parmcb Require Import GraphSpec McbSpec SvaSpec SignedProofs2 ParSignedProofs.

Theorem C03_signed_tbb :
  forall (g : graph) (wts : list Z) (roots eord : list nat) (bits : list bool) (perm : list nat),
    simple_graph g -> positive_weights g wts -> (forall v, v < nv g -> In v roots) ->
    exists cycles total sup pos,
      mcb_sva_signed_tbb_Z g wts roots eord bits perm = (SvaOk cycles total sup, pos)
      /\ min_cycle_basis g wts cycles /\ total = total_weight wts cycles
      /\ has_cycle_space_dimension g (length cycles).
Proof. exact signed_tbb_min_basis. Qed.
Print Assumptions C03_signed_tbb.

(* one call of OddCycleFinder::find on a canonical witness, at every stream position: a minimum odd cycle with its weight *)
Theorem C03_find_optimal :
  forall (eord : nat -> nat) (bits : list bool) (g : graph) (wts : list Z) (roots : list nat) (fi : forest_index),
    simple_graph g -> positive_weights g wts -> (forall v, v < nv g -> In v roots) -> create_index g roots = Some fi ->
    forall (S : vec) (pos : nat), canonical_witness fi S ->
    exists c w, fst (ParSignedModel.find Z 0%Z Z.add Z.ltb eord bits g wts fi S pos) = Some (Some (c, w))
                /\ min_odd_cycle g wts (fun D => pairing fi S D = true) c /\ w = weight wts c.
Proof. exact ps_find_opt. Qed.
Print Assumptions C03_find_optimal.

(* non-vacuity: K4 with unit weights under the all-ones stream (every range split, every split a Fork, right parts first:
   5 splits = 15 bits) and the insertion order 2,0,1 of the three initial supports; weight 9 as the real code *)
Example C03_signed_tbb_nonvacuous :
  simple_graph sg_k4 /\ positive_weights sg_k4 sg_k4_wts /\ (forall v, v < nv sg_k4 -> In v sg_k4_roots) /\
  forks (fst (sched_of_bits [true] 0 3)) = 2 /\
  mcb_sva_signed_tbb_Z sg_k4 sg_k4_wts sg_k4_roots sg_k4_eord [true] [2; 0; 1]
  = (SvaOk [[0;1;3];[0;2;4];[1;2;5]] 9%Z [[0];[0;2];[1;2]], 15) /\
  total_weight sg_k4_wts [[0;1;3];[0;2;4];[1;2;5]] = 9%Z.
Proof.
  split; [exact sg_k4_simple|]. split; [exact sg_k4_positive|]. split; [exact sg_k4_roots_cover|].
  split; [vm_compute; reflexivity|]. split; [vm_compute; reflexivity|reflexivity].
Qed.
