(* SpannerScanProofs.v — the scan order recovered by tools/props/c15.py (`recover_scan`: weight-sorted
   merge of the retained and the dropped sequence, retained first on ties) reproduces the outcome of
   construct_spanner: if ANY weight-sorted scan order yields (ret, drop), then the scan order
   merge_scan w ret drop yields exactly the same (ret, drop) (and the same spanner graph).

   Structure: an abstract scan loop `run` over a decision function reach : retained list -> edge -> bool
   that is monotone in the retained list (reach R b = true -> reach (R ++ [a]) b = true); the
   invariant `Good` (every retained edge is not reachable from the retained edges before it; every
   dropped edge is reachable from a prefix of the retained edges none of which is heavier); `Good` holds
   for the outcome of every sorted scan (run_Good) and suffices to replay the merged scan (merge_run).
   Then build_spanner is `run` for reach := hop-bounded BFS on the subgraph of the retained edges
   (build_run), whose monotonicity comes from the BFS specification bfs_spec (walks, not the BFS code). *)
From Coq Require Import List Arith Bool ZArith Sorted Permutation Lia.
From Parmcb Require Import GraphModel GraphSpec SpannerModel SpannerProofs.
Import ListNotations.

(* merge_scan (the scan order recovered from an observed (retained, dropped) pair) is defined in SpannerModel.v,
   where it is extracted and run by the model driver itself (kind M of component c15). *)

Lemma merge_scan_nil_l w d : merge_scan w [] d = d.
Proof. reflexivity. Qed.

Lemma merge_scan_nil_r w r : merge_scan w r [] = r.
Proof. destruct r; reflexivity. Qed.

Lemma merge_scan_cons w a r b d :
  merge_scan w (a :: r) (b :: d) =
  if Z.leb (wt w a) (wt w b) then a :: merge_scan w r (b :: d) else b :: merge_scan w (a :: r) d.
Proof. reflexivity. Qed.

Lemma merge_scan_perm w r : forall d, Permutation (merge_scan w r d) (r ++ d).
Proof.
  induction r as [|a r IHr]; intros d; [apply Permutation_refl|].
  induction d as [|b d IHd]; [rewrite merge_scan_nil_r, app_nil_r; apply Permutation_refl|].
  rewrite merge_scan_cons. destruct (Z.leb (wt w a) (wt w b)).
  - cbn [app]. apply perm_skip, IHr.
  - eapply Permutation_trans; [apply perm_skip, IHd|]. apply (Permutation_middle (a :: r) d b).
Qed.

(* ---- the abstract scan loop --------------------------------------------------------------- *)

Section Abstract.
Variable w : list Z.
Variable reach : list nat -> nat -> bool.       (* reach R e = true: e is dropped when R is retained *)
Variable ok : nat -> Prop.                      (* well-formed edge ids *)
Hypothesis reach_mono : forall R a b, Forall ok R -> ok a -> ok b ->
  reach R b = true -> reach (R ++ [a]) b = true.

Definition wle (a b : nat) : Prop := (wt w a <= wt w b)%Z.

Fixpoint run (scan R D : list nat) : list nat * list nat :=
  match scan with
  | [] => (R, D)
  | e :: s => if reach R e then run s R (D ++ [e]) else run s (R ++ [e]) D
  end.

Record Good (R0 ret drop : list nat) : Prop := {
  G_ret : forall r1 a r2, ret = r1 ++ a :: r2 -> reach (R0 ++ r1) a = false;
  G_drop : forall b, In b drop ->
     exists r1 r2, ret = r1 ++ r2 /\ reach (R0 ++ r1) b = true /\ Forall (fun a => wle a b) r1;
  G_okR : Forall ok R0;
  G_okr : Forall ok ret;
  G_okd : Forall ok drop
}.

(* the outcome of every weight-sorted scan satisfies the invariant; the retained and the dropped
   sequence are weight-sorted themselves *)
Lemma run_Good scan : forall R0 D0,
  StronglySorted wle scan -> Forall ok scan -> Forall ok R0 ->
  exists ret drop, run scan R0 D0 = (R0 ++ ret, D0 ++ drop) /\ Good R0 ret drop
                   /\ incl ret scan /\ incl drop scan
                   /\ StronglySorted wle ret /\ StronglySorted wle drop.
Proof.
  induction scan as [|e s IH]; intros R0 D0 HS Hok HR0.
  - exists [], []. cbn [run]. rewrite !app_nil_r. split; [reflexivity|].
    split; [|split; [intros x []|split; [intros x []|split; constructor]]].
    constructor; auto.
    + intros r1 a r2 H; destruct r1; discriminate H.
    + intros b [].
  - inversion HS as [|? ? HS' HF]; subst. inversion Hok as [|? ? Hoke Hoks]; subst.
    rewrite Forall_forall in HF.
    cbn [run]. destruct (reach R0 e) eqn:Ere.
    + destruct (IH R0 (D0 ++ [e]) HS' Hoks HR0) as (ret & drop & Hrun & HG & Hir & Hid & HSr & HSd).
      exists ret, (e :: drop). rewrite Hrun, <- app_assoc. cbn [app].
      split; [reflexivity|]. split; [|split; [|split; [|split]]].
      * constructor.
        -- apply (G_ret _ _ _ HG).
        -- intros b [<-|Hb]; [|apply (G_drop _ _ _ HG); exact Hb].
           exists [], ret. rewrite app_nil_r. split; [reflexivity|split; [exact Ere|constructor]].
        -- exact HR0.
        -- apply (G_okr _ _ _ HG).
        -- constructor; [exact Hoke|apply (G_okd _ _ _ HG)].
      * intros x Hx; right; apply Hir, Hx.
      * intros x [<-|Hx]; [left; reflexivity|right; apply Hid, Hx].
      * exact HSr.
      * constructor; [exact HSd|]. apply Forall_forall; intros x Hx; apply HF, Hid, Hx.
    + assert (HR1 : Forall ok (R0 ++ [e])) by (apply Forall_app; split; [exact HR0|constructor; auto]).
      destruct (IH (R0 ++ [e]) D0 HS' Hoks HR1) as (ret & drop & Hrun & HG & Hir & Hid & HSr & HSd).
      exists (e :: ret), drop. rewrite Hrun, <- app_assoc. cbn [app].
      split; [reflexivity|]. split; [|split; [|split; [|split]]].
      * constructor.
        -- intros r1 a r2 H. destruct r1 as [|x r1]; cbn [app] in H; injection H as Hx Hr.
           ++ subst a. rewrite app_nil_r; exact Ere.
           ++ subst x. pose proof (G_ret _ _ _ HG r1 a r2 Hr) as H1.
              rewrite <- app_assoc in H1; exact H1.
        -- intros b Hb. destruct (G_drop _ _ _ HG b Hb) as (r1 & r2 & Hr & Hre & Hle).
           exists (e :: r1), r2. split; [cbn [app]; congruence|split].
           ++ rewrite <- app_assoc in Hre; exact Hre.
           ++ constructor; [apply HF, Hid, Hb|exact Hle].
        -- exact HR0.
        -- constructor; [exact Hoke|apply (G_okr _ _ _ HG)].
        -- apply (G_okd _ _ _ HG).
      * intros x [<-|Hx]; [left; reflexivity|right; apply Hir, Hx].
      * intros x Hx; right; apply Hid, Hx.
      * constructor; [exact HSr|]. apply Forall_forall; intros x Hx; apply HF, Hir, Hx.
      * exact HSd.
Qed.

(* per-step lemmas for replaying the merged order *)
Lemma Good_ret_head R0 a r d : Good R0 (a :: r) d -> reach R0 a = false.
Proof.
  intros HG. pose proof (G_ret _ _ _ HG [] a r eq_refl) as H. rewrite app_nil_r in H; exact H.
Qed.

Lemma Good_ret_tail R0 a r d : Good R0 (a :: r) d -> Good (R0 ++ [a]) r d.
Proof.
  intros HG. pose proof (G_okr _ _ _ HG) as Hokr. inversion Hokr as [|? ? Hoka Hokr']; subst.
  constructor.
  - intros r1 x r2 Hr. rewrite <- app_assoc. cbn [app].
    apply (G_ret _ _ _ HG (a :: r1) x r2). cbn [app]; congruence.
  - intros b Hb. destruct (G_drop _ _ _ HG b Hb) as (r1 & r2 & Hr & Hre & Hle).
    destruct r1 as [|x r1]; cbn [app] in Hr.
    + exists [], r. rewrite app_nil_r in *. split; [reflexivity|split; [|constructor]].
      apply reach_mono; auto; [apply (G_okR _ _ _ HG)|].
      pose proof (G_okd _ _ _ HG) as Hokd. rewrite Forall_forall in Hokd; apply Hokd, Hb.
    + injection Hr as Hx Hr; subst x. exists r1, r2. split; [exact Hr|split].
      * rewrite <- app_assoc; exact Hre.
      * inversion Hle; auto.
  - apply Forall_app; split; [apply (G_okR _ _ _ HG)|constructor; auto].
  - exact Hokr'.
  - apply (G_okd _ _ _ HG).
Qed.

Lemma Good_drop_tail R0 r b d : Good R0 r (b :: d) -> Good R0 r d.
Proof.
  intros HG. constructor.
  - apply (G_ret _ _ _ HG).
  - intros x Hx; apply (G_drop _ _ _ HG); right; exact Hx.
  - apply (G_okR _ _ _ HG).
  - apply (G_okr _ _ _ HG).
  - pose proof (G_okd _ _ _ HG) as H; inversion H; auto.
Qed.

(* a dropped edge that comes before the next retained edge in the merged order is dropped again *)
Lemma Good_drop_head R0 r b d :
  Good R0 r (b :: d) -> (forall a r', r = a :: r' -> (wt w b < wt w a)%Z) -> reach R0 b = true.
Proof.
  intros HG Hlt. destruct (G_drop _ _ _ HG b (or_introl eq_refl)) as (r1 & r2 & Hr & Hre & Hle).
  destruct r1 as [|x r1]; [rewrite app_nil_r in Hre; exact Hre|].
  cbn [app] in Hr. specialize (Hlt x (r1 ++ r2) Hr). inversion Hle as [|? ? Hxb _]; subst.
  unfold wle in Hxb. lia.
Qed.

Lemma merge_run ret : forall drop R0 D0, Good R0 ret drop ->
  run (merge_scan w ret drop) R0 D0 = (R0 ++ ret, D0 ++ drop).
Proof.
  induction ret as [|a r IHr].
  - intros drop. rewrite merge_scan_nil_l.
    induction drop as [|b d IHd]; intros R0 D0 HG; cbn [run]; [rewrite !app_nil_r; reflexivity|].
    rewrite (Good_drop_head R0 [] b d HG) by (intros a r' H; discriminate H).
    rewrite (IHd R0 (D0 ++ [b]) (Good_drop_tail _ _ _ _ HG)), <- app_assoc. reflexivity.
  - induction drop as [|b d IHd]; intros R0 D0 HG.
    + rewrite merge_scan_nil_r. cbn [run]. rewrite (Good_ret_head _ _ _ _ HG).
      pose proof (IHr [] (R0 ++ [a]) D0 (Good_ret_tail _ _ _ _ HG)) as H.
      rewrite merge_scan_nil_r in H. rewrite H, <- app_assoc. reflexivity.
    + rewrite merge_scan_cons. destruct (Z.leb (wt w a) (wt w b)) eqn:Eab; cbn [run].
      * rewrite (Good_ret_head _ _ _ _ HG).
        rewrite (IHr (b :: d) (R0 ++ [a]) D0 (Good_ret_tail _ _ _ _ HG)), <- app_assoc. reflexivity.
      * rewrite (Good_drop_head R0 (a :: r) b d HG).
        2:{ intros a' r' H; injection H as <- _. apply Z.leb_gt; exact Eab. }
        rewrite (IHd R0 (D0 ++ [b]) (Good_drop_tail _ _ _ _ HG)), <- app_assoc. reflexivity.
Qed.

(* the merge of two weight-sorted sequences is weight-sorted *)
Lemma merge_scan_sorted r : forall d, StronglySorted wle r -> StronglySorted wle d ->
  StronglySorted wle (merge_scan w r d).
Proof.
  induction r as [|a r IHr]; intros d Hr Hd; [exact Hd|].
  induction d as [|b d IHd]; [rewrite merge_scan_nil_r; exact Hr|].
  inversion Hr as [|? ? Hr' HFa]; subst. inversion Hd as [|? ? Hd' HFb]; subst.
  rewrite Forall_forall in HFa, HFb.
  rewrite merge_scan_cons. destruct (Z.leb (wt w a) (wt w b)) eqn:Eab.
  - apply Z.leb_le in Eab. constructor; [apply IHr; auto|].
    apply Forall_forall; intros x Hx.
    apply (Permutation_in _ (merge_scan_perm w r (b :: d))), in_app_or in Hx as [Hx|[<-|Hx]].
    + apply HFa, Hx.
    + exact Eab.
    + specialize (HFb x Hx). unfold wle in *; lia.
  - apply Z.leb_gt in Eab. constructor; [apply IHd; auto|].
    apply Forall_forall; intros x Hx.
    apply (Permutation_in _ (merge_scan_perm w (a :: r) d)), in_app_or in Hx as [[<-|Hx]|Hx].
    + unfold wle; lia.
    + specialize (HFa x Hx). unfold wle in *; lia.
    + apply HFb, Hx.
Qed.

Theorem run_merge_reproduces scan ret drop :
  StronglySorted wle scan -> Forall ok scan ->
  run scan [] [] = (ret, drop) ->
  run (merge_scan w ret drop) [] [] = (ret, drop)
  /\ incl (merge_scan w ret drop) scan
  /\ StronglySorted wle (merge_scan w ret drop).
Proof.
  intros HS Hok Hrun.
  destruct (run_Good scan [] [] HS Hok (Forall_nil _)) as (r & d & Hrun' & HG & Hir & Hid & HSr & HSd).
  rewrite Hrun in Hrun'. cbn [app] in Hrun'. injection Hrun' as -> ->.
  split; [apply (merge_run r d [] [] HG)|split].
  - intros x Hx. apply (Permutation_in _ (merge_scan_perm w r d)), in_app_or in Hx as [Hx|Hx]; auto.
  - apply merge_scan_sorted; auto.
Qed.

End Abstract.

(* ---- build_spanner is the abstract loop for reach := hop-bounded BFS on the retained subgraph --- *)

Section Concrete.
Variable g : graph.
Hypothesis Hg : simple_graph g.
Variable mh : option nat.

Definition okE (e : nat) : Prop := e < ne g.

(* the subgraph of the edges R: same vertices, edge i = input edge R[i] with the same endpoint order *)
Definition gr (R : list nat) : graph :=
  {| nv := nv g; ge := map (fun e => nth e (ge g) (0, 0)) R |}.

Definition spR (R D : list nat) : spanner := {| sp_graph := gr R; retained := R; dropped := D |}.

Definition reachb (R : list nat) (e : nat) : bool :=
  match ends g e with
  | Some (v, u) => match is_bfs_reachable (gr R) v u mh with Some true => true | _ => false end
  | None => false
  end.

Lemma spR_sub R D : Forall okE R -> sp_sub g (spR R D).
Proof.
  intros HR. split; [reflexivity|split; [reflexivity|]].
  rewrite Forall_forall in HR. exact HR.
Qed.

(* fact (2): reachability within the hop bound is monotone in the retained set *)
Lemma reachb_incl R R' b : Forall okE R -> Forall okE R' -> incl R R' ->
  reachb R b = true -> reachb R' b = true.
Proof.
  intros HR HR' Hincl. unfold reachb.
  destruct (ends g b) as [[v u]|] eqn:Eb; [|discriminate].
  destruct (simple_ends g b v u Hg Eb) as (Hv & _ & _).
  pose proof (spR_sub R [] HR) as Hsub. pose proof (spR_sub R' [] HR') as Hsub'.
  destruct (bfs_spec (gr R) v u (sp_wfg g Hg _ Hsub) Hv mh) as (b1 & Hb1 & Hiff1).
  destruct (bfs_spec (gr R') v u (sp_wfg g Hg _ Hsub') Hv mh) as (b2 & Hb2 & Hiff2).
  rewrite Hb1, Hb2. intros H1.
  assert (Hb1t : b1 = true) by (destruct b1; [reflexivity|discriminate H1]).
  destruct Hiff1 as [Hiff1 _]. destruct (Hiff1 Hb1t) as (p & Hp & Hwi).
  destruct (sp_walk_to_g g (spR R []) v p u Hsub Hp) as (p' & Hp' & Hlen & Hin).
  destruct (g_walk_to_sp g (spR R' []) v p' u Hsub' Hp') as (p'' & Hp'' & Hlen'').
  { intros x Hx. apply Hincl, Hin, Hx. }
  assert (Hb2t : b2 = true).
  { apply Hiff2. exists p''. split; [exact Hp''|]. rewrite Hlen'', Hlen; exact Hwi. }
  rewrite Hb2t; reflexivity.
Qed.

Lemma reachb_mono R a b : Forall okE R -> okE a -> okE b ->
  reachb R b = true -> reachb (R ++ [a]) b = true.
Proof.
  intros HR Ha _. apply reachb_incl; auto.
  - apply Forall_app; split; [exact HR|constructor; auto].
  - apply incl_appl, incl_refl.
Qed.

(* fact (1): the state is determined by the retained list; build_spanner = run *)
Lemma build_run scan : forall R D, Forall okE scan -> Forall okE R ->
  build_spanner g mh scan (spR R D) =
  SpOk (spR (fst (run reachb scan R D)) (snd (run reachb scan R D))).
Proof.
  induction scan as [|e s IH]; intros R D Hs HR; [reflexivity|].
  inversion Hs as [|? ? He Hs']; subst.
  pose proof (ends_nth_ge g e He) as Hends.
  destruct (nth e (ge g) (0, 0)) as [v u] eqn:Evu.
  destruct (simple_ends g e v u Hg Hends) as (Hv & Hu & Hvu).
  destruct (bfs_total (gr R) v u mh (sp_wfg g Hg _ (spR_sub R D HR)) Hv) as (b & Hb).
  assert (Hre : reachb R e = b) by (unfold reachb; rewrite Hends, Hb; destruct b; reflexivity).
  cbn [build_spanner run]. rewrite Hends, Hre.
  destruct (Nat.eqb_spec v u) as [Heq|_]; [contradiction|].
  cbn [spR sp_graph retained dropped]. rewrite Hb.
  destruct b.
  - apply (IH R (D ++ [e]) Hs' HR).
  - assert (HR1 : Forall okE (R ++ [e])) by (apply Forall_app; split; [exact HR|constructor; auto]).
    rewrite <- (IH (R ++ [e]) D Hs' HR1). f_equal. unfold spR. f_equal.
    unfold gr. rewrite map_app. cbn [map ge]. rewrite Evu. reflexivity.
Qed.

End Concrete.

(* ---- the statement for construct_spanner ----------------------------------------------------- *)

Theorem recovered_scan_reproduces g w k scan sp :
  simple_graph g ->
  Permutation scan (seq 0 (ne g)) -> Sorted (fun a b => (wt w a <= wt w b)%Z) scan ->
  construct_spanner g k scan = SpOk sp ->
  let scan' := merge_scan w (retained sp) (dropped sp) in
  construct_spanner g k scan' = SpOk sp
  /\ Permutation scan' (seq 0 (ne g))
  /\ Sorted (fun a b => (wt w a <= wt w b)%Z) scan'.
Proof.
  intros Hg HP HS Hc scan'.
  apply Sorted_StronglySorted in HS; [|intros a b c; apply Z.le_trans].
  assert (Hok : Forall (okE g) scan).
  { apply Forall_forall. exact (scan_in_range g scan HP). }
  change (construct_spanner g k scan) with (build_spanner g (max_hops k) scan (spR g [] [])) in Hc.
  rewrite (build_run g Hg (max_hops k) scan [] [] Hok (Forall_nil _)) in Hc.
  injection Hc as Hsp.
  destruct (run (reachb g (max_hops k)) scan [] []) as [ret drop] eqn:Erun.
  cbn [fst snd] in Hsp. subst sp. cbn [spR retained dropped] in scan'.
  destruct (run_merge_reproduces w (reachb g (max_hops k)) (okE g) (reachb_mono g Hg (max_hops k))
              scan ret drop HS Hok Erun) as (Hrun' & Hincl & HS').
  assert (Hok' : Forall (okE g) scan').
  { apply Forall_forall; intros x Hx. rewrite Forall_forall in Hok. apply Hok, Hincl, Hx. }
  split; [|split].
  - change (construct_spanner g k scan') with (build_spanner g (max_hops k) scan' (spR g [] [])).
    rewrite (build_run g Hg (max_hops k) scan' [] [] Hok' (Forall_nil _)).
    unfold scan'. rewrite Hrun'. reflexivity.
  - eapply Permutation_trans; [apply merge_scan_perm|].
    destruct (construct_spanner_total g k scan Hg HP) as (sp0 & Hsp0 & Hperm & _).
    change (construct_spanner g k scan) with (build_spanner g (max_hops k) scan (spR g [] [])) in Hsp0.
    rewrite (build_run g Hg (max_hops k) scan [] [] Hok (Forall_nil _)), Erun in Hsp0.
    injection Hsp0 as <-. exact Hperm.
  - apply StronglySorted_Sorted. exact HS'.
Qed.
