(* IsoProofsX.v — a FINDING about ISOCyclesBuilder, as a checked example: the "isometric" collection is NOT the set of
   isometric cycles.  The theory (Amaldi–Iuliano–Rizzi) has: a component of the cycle graph without bad node <=> the
   cycle is isometric.  Only "<=" holds for the coded partner rule (IsoProofsA3.isoa_not_bad, used for sufficiency):
   in the third case the code links (x, e = (u,v)) to (v, pred edge of x' in T_x) — the antipodal root — and from there,
   depending on the stored orientation (source, target) of that edge, straight back to (x, e).  Such a 2-node component
   never visits the other vertices of the cycle, so no node of it is marked bad even when the cycle has NO
   representation from those vertices.

   Smallest instance (K4 minus the edge 0-3):  edges 0:(3,2) 1:(0,2) 2:(2,1) 3:(1,3) 4:(1,0), weights 3 1 2 2 3.
   The 4-cycle 0-1-3-2-0 = edges {0,1,3,4} has weight 9; its chord 2-1 (edge 2, weight 2) is shorter than both arcs
   between 2 and 1 (4 and 5), the cycle is the GF(2) sum of the triangles {0,2,3} (weight 7) and {1,2,4} (weight 6) and
   belongs to no minimum cycle basis — yet the model AND the real code (harness c14: "I 3  0 2 6  0 3 9  1 0 7") keep
   the candidate (root 0, edge 3, weight 9).  Harmless for correctness (the collection is a superset of what is
   needed, still a subset of Horton's), but the collection is larger than advertised.  Prefix isox_. *)
From Coq Require Import List Arith Bool Lia ZArith.
From Parmcb Require Import GraphModel GF2Model GraphSpec GraphLemmas LexSPModel LexSPProofsDist LexSPProofsCons1
     LexSPProofsCons2 CandidatesModel RefModel RefProofs1 IsoProofs0.
Import ListNotations.

Definition isox_g : graph := {| nv := 4; ge := [(3,2);(0,2);(2,1);(1,3);(1,0)] |}.
Definition isox_w : list Z := [3;1;2;2;3]%Z.
(* the closed walk of the candidate (root 0, edge 3): P(0,1) = [edge 4], edge 3 to vertex 3, reversed P(0,3) = [edge 1; edge 0] *)
Definition isox_cw : list (nat * nat) := [(4,1);(3,3);(0,2);(1,0)].

Lemma isox_simple : simple_graph isox_g.
Proof. reflexivity. Qed.
Lemma isox_pos : positive_weights isox_g isox_w.
Proof. split; [reflexivity|repeat constructor]. Qed.

Lemma isox_collection :
  match iso_cycles_Z isox_g isox_w with
  | CdOk (_, cs) => map (fun c => (c_tree c, c_edge c, c_weight c)) cs = [(0, 2, 6%Z); (0, 3, 9%Z); (1, 0, 7%Z)]
  | _ => False
  end.
Proof. vm_compute. reflexivity. Qed.

Lemma isox_cycle_walk : iso_cycle_walk isox_g 0 isox_cw.
Proof.
  split; [apply rf_walkb_walk; reflexivity|]. split; [|split; [|discriminate]].
  - unfold isox_cw, wverts; cbn [map snd]. repeat constructor; cbn [In]; intuition discriminate.
  - unfold isox_cw, wedges; cbn [map fst]. repeat constructor; cbn [In]; intuition discriminate.
Qed.

(* a strictly lighter walk between the same endpoints refutes lexmin *)
Lemma isox_not_lexmin x p y q : walkb isox_g x q y = true -> (lz_sum isox_w q < lz_sum isox_w p)%Z ->
  ~ lc_lexmin isox_g isox_w x p y.
Proof.
  intros Hq Hlt [[_ Hmin] _]. specialize (Hmin q (rf_walkb_walk isox_g q x y Hq)). lia.
Qed.

(* started at vertex 2 the cycle walk has no representation, in either direction *)
Lemma isox_no_rep_fwd : ~ iso_rep isox_g isox_w 2 [(1,0);(4,1);(3,3);(0,2)].
Proof.
  intros (pa & e & a & b & pb & Hj & Ha & Hb & E).
  pose proof (lc_lexmin_rev isox_g isox_w isox_simple pb 2 b Hb) as Hrb.
  destruct pa as [|h1 pa]; cbn [app] in E.
  { injection E as <- <- Er. rewrite <- Er in Hrb.
    revert Hrb. apply (isox_not_lexmin 0 _ 2 [(1,2)]); [reflexivity|cbn; lia]. }
  destruct pa as [|h2 pa]; cbn [app] in E.
  { injection E as <- <- <- Er. rewrite <- Er in Hrb.
    revert Hrb. apply (isox_not_lexmin 1 _ 2 [(2,2)]); [reflexivity|cbn; lia]. }
  destruct pa as [|h3 pa]; cbn [app] in E.
  { injection E as <- <- <- <- Er.
    assert (a = 1) by (destruct Ha as [[Hw _] _]; apply (lc_walk_end_fun isox_g _ 2 a 1 Hw); apply rf_walkb_walk; reflexivity).
    subst a. revert Ha. apply (isox_not_lexmin 2 _ 1 [(2,1)]); [reflexivity|cbn; lia]. }
  destruct pa as [|h4 pa]; cbn [app] in E.
  { injection E as <- <- <- <- <- Er.
    assert (a = 3) by (destruct Ha as [[Hw _] _]; apply (lc_walk_end_fun isox_g _ 2 a 3 Hw); apply rf_walkb_walk; reflexivity).
    subst a. revert Ha. apply (isox_not_lexmin 2 _ 3 [(0,3)]); [reflexivity|cbn; lia]. }
  injection E as _ _ _ _ E. destruct pa; discriminate.
Qed.

Lemma isox_no_rep_bwd : ~ iso_rep isox_g isox_w 2 [(0,3);(3,1);(4,0);(1,2)].
Proof.
  intros (pa & e & a & b & pb & Hj & Ha & Hb & E).
  pose proof (lc_lexmin_rev isox_g isox_w isox_simple pb 2 b Hb) as Hrb.
  destruct pa as [|h1 pa]; cbn [app] in E.
  { injection E as <- <- Er. rewrite <- Er in Hrb.
    revert Hrb. apply (isox_not_lexmin 3 _ 2 [(0,2)]); [reflexivity|cbn; lia]. }
  destruct pa as [|h2 pa]; cbn [app] in E.
  { injection E as <- <- <- Er. rewrite <- Er in Hrb.
    revert Hrb. apply (isox_not_lexmin 1 _ 2 [(2,2)]); [reflexivity|cbn; lia]. }
  destruct pa as [|h3 pa]; cbn [app] in E.
  { injection E as <- <- <- <- Er.
    assert (a = 1) by (destruct Ha as [[Hw _] _]; apply (lc_walk_end_fun isox_g _ 2 a 1 Hw); apply rf_walkb_walk; reflexivity).
    subst a. revert Ha. apply (isox_not_lexmin 2 _ 1 [(2,1)]); [reflexivity|cbn; lia]. }
  destruct pa as [|h4 pa]; cbn [app] in E.
  { injection E as <- <- <- <- <- Er.
    assert (a = 0) by (destruct Ha as [[Hw _] _]; apply (lc_walk_end_fun isox_g _ 2 a 0 Hw); apply rf_walkb_walk; reflexivity).
    subst a. revert Ha. apply (isox_not_lexmin 2 _ 0 [(1,0)]); [reflexivity|cbn; lia]. }
  injection E as _ _ _ _ E. destruct pa; discriminate.
Qed.

(* the kept candidate (root 0, edge 3, weight 9) is a cycle walk that is NOT isometric *)
Theorem isox_kept_not_isometric : iso_cycle_walk isox_g 0 isox_cw /\ ~ iso_isometric isox_g isox_w 0 isox_cw.
Proof.
  split; [exact isox_cycle_walk|]. intros Hiso.
  destruct (Hiso [(4,1);(3,3);(0,2)] [(1,0)] 2 eq_refl) as [H|H].
  - apply rf_walkb_walk. reflexivity.
  - exact (isox_no_rep_fwd H).
  - exact (isox_no_rep_bwd H).
Qed.

Print Assumptions isox_kept_not_isometric.
