(* MpiSignedModel.v — executable model of
     include/parmcb/mpi/parmcb_sva_signed.hpp   (find_shortest_odd_cycle_mpi, mcb_sva_signed_mpi)
   on top of SignedModel.v (the exact bidirectional search) and MpiModel.v (collectives, partition, main loop).
   Definitions only.

   Per rank r the C++ has its own std::set<Edge> order (pointer values): `ord r e` = the sort key of edge id e
   on rank r.  AS FOUND (`…_orig`) the key is the pointer rank `eord_r`; rank r sorts the signed edges by it,
   gives the i-th edge the hidden set {i-th, …, last} OF ITS OWN ORDER and searches its ceil-stride slice of ITS
   OWN vector.  With different orders the slices of different ranks are slices of different sequences (D8).
   AS FIXED (pending/c04-fix-layout.patch) the key is the forest index, the same on every rank.

   Local search: tbb::parallel_reduce over the slice; modelled as the left-to-right fold with the running
   minimum passed on as the weight limit (what TBB does on one thread; schedule independence is C03's
   business).  No sparsest-support heuristic in this variant (select = identity). *)
From Coq Require Import ZArith.
From Parmcb Require Export SignedModel MpiModel.

Section MpiSigned.
  Variable W : Type.
  Variable w0 : W.
  Variable wadd : W -> W -> W.
  Variable wltb : W -> W -> bool.

  Variable g : graph.
  Variable wts : list W.

  (* one iteration of the hidden-edge loop (lines 117-131): `ses` = hidden_edges_per_edge.at(se) in vector order,
     its head is se *)
  Definition hidden_step (signed ses : list nat) (best : option (list nat * W)) : lres W :=
    match ses with
    | [] => Some best
    | se :: _ =>
        match ends g se with
        | None => None
        | Some (sv, su) =>
            let P := {| sp_g := g; sp_wts := wts; sp_signed := signed; sp_hidden := ses;
                        sp_use_hidden := true; sp_limit := limit_of W best |} in
            match bidirectional_signed_dijkstra W w0 wadd wltb P sv true su true with
            | SearchError _ => None
            | NotFound _ => Some best
            | Found _ c w =>
                if memb se c then Some best
                else
                  let w' := wadd w (wtof W w0 wts se) in
                  Some (if better W wltb w' best then Some (set_insert se c, w') else best)
            end
        end
    end.

  (* the loop over local_signed_edges_as_vector: `cnt` consecutive entries starting at the head of `ses` *)
  Fixpoint hidden_slice (signed ses : list nat) (cnt : nat) (best : option (list nat * W)) {struct cnt} : lres W :=
    match cnt with
    | O => Some best
    | S cnt' =>
        match ses with
        | [] => Some best
        | _ :: ses' =>
            match hidden_step signed ses best with
            | None => None
            | Some best' => hidden_slice signed ses' cnt' best'
            end
        end
    end.

  (* the |S| = 1 shortcut (lines 73-88), executed by rank 0 only: no signed edges, the single edge hidden, no limit *)
  Definition single_search (signed : list nat) : lres W :=
    match signed with
    | [] => Some None
    | se :: _ =>
        match ends g se with
        | None => None
        | Some (sv, su) =>
            let P := {| sp_g := g; sp_wts := wts; sp_signed := []; sp_hidden := signed;
                        sp_use_hidden := true; sp_limit := None |} in
            match bidirectional_signed_dijkstra W w0 wadd wltb P sv true su true with
            | SearchError _ => None
            | NotFound _ => Some None
            | Found _ c w =>
                if memb se c then Some None
                else Some (Some (set_insert se c, wadd w (wtof W w0 wts se)))
            end
        end
    end.

  Variable P : nat.                        (* world.size() *)
  Variable ord : nat -> nat -> nat.        (* rank -> edge id -> sort key of the signed edges on that rank *)
  Variable fi : forest_index.

  (* rank r's best_local_cycle in the hidden-edge branch *)
  Definition local_hidden (r : nat) (signed : list nat) : lres W :=
    let sv := sort_eord (ord r) signed in
    let total := length sv in
    hidden_slice signed (skipn (slice_lo total P r) sv) (slice_len total P r) None.

  (* … and in the all-vertices branch (allVertices = 0..n-1 on every rank) *)
  Definition local_vertices (r : nat) (signed : list nat) : lres W :=
    all_vertices W w0 wadd wltb g wts signed (slice P r (seq 0 (nv g))) None.

  (* find_shortest_odd_cycle_mpi as seen from rank r *)
  Definition signed_act (r k : nat) (Sv : vec) : action W :=
    let signed := indices_to_edges fi Sv in
    if Nat.eqb (length signed) 1 then
      ANoColl (if Nat.eqb r 0 then single_search signed else Some None)
    else if Nat.ltb (length signed) (nv g) then ARed (local_hidden r signed)
    else ARed (local_vertices r signed).

  Definition signed_prog (r : nat) : prog (payload W) (rank_result W) :=
    spmd_plain W w0 wadd fi signed_act r.
End MpiSigned.

(* all ranks' results; rank 0's is the answer, the others must have emitted nothing *)
Definition mcb_sva_signed_mpi_gen (W : Type) (w0 : W) (wadd : W -> W -> W) (wltb : W -> W -> bool)
           (g : graph) (wts : list W) (roots : list nat) (P : nat) (ord : forest_index -> nat -> nat -> nat)
           (rtree_of : nat -> rtree) : option (outcome (rank_result W)) :=
  match create_index g roots with
  | None => None                           (* ForestIndex failed (never on simple graphs, C16) *)
  | Some fi => Some (run_spmd W wltb fi P rtree_of (signed_prog W w0 wadd wltb g wts P (ord fi) fi))
  end.

(* as found: pointer ranks, one list per rank *)
Definition ord_orig (eords : list (list nat)) (_ : forest_index) (r e : nat) : nat := nth e (nth r eords []) 0.
(* as fixed: the forest index *)
Definition ord_fixed (fi : forest_index) (_ e : nat) : nat := nth e (fi_idx fi) 0.

Definition mcb_sva_signed_mpi_orig_Z (g : graph) (wts : list Z) (roots : list nat) (P : nat)
           (eords : list (list nat)) (rtree_of : nat -> rtree) :=
  mcb_sva_signed_mpi_gen Z 0%Z Z.add Z.ltb g wts roots P (ord_orig eords) rtree_of.

Definition mcb_sva_signed_mpi_fixed_Z (g : graph) (wts : list Z) (roots : list nat) (P : nat)
           (rtree_of : nat -> rtree) :=
  mcb_sva_signed_mpi_gen Z 0%Z Z.add Z.ltb g wts roots P ord_fixed rtree_of.
