(* Properties_C03_trees.v — C03 for the tree-based exact TBB entry points mcb_sva_fvs_trees_tbb / mcb_sva_iso_trees_tbb:
   an EXACT model of ShortestOddCycleLookup<..., true>::compute_shortest_odd_cycle (ParTreesModel.v: parallel_for over the
   trees, parallel_reduce over ALL candidates with the running minimum used as weight limit of CandidateCycleBuilder, the
   cycle_min join, identity ({}, numeric_limits::max, false)) under the schedule semantics of SchedModel.v, and theorems
   for EVERY schedule.  Only statements; each closed by [exact <lemma>] and followed by Print Assumptions.

     C03_trees_nolimit_is_sequential   with use_weight_limit = false the builder with limit exits is TreesModel.tc_build
     C03_trees_limit_monotone          limit-monotonicity of the builder: with limit L it answers exactly when the unlimited
                                       builder answers with weight <= L, same cycle, same weight (`>` not `>=`)
     C03_trees_parallel_for            any partition of the trees into chunks, executed in any order, from any previous
                                       content of the parity fields = the sequential loop TreesModel.tp_all;
     C03_trees_parallel_for_frame      a task leaves the slots outside its chunk untouched
     C03_trees_lookup_accepted         EVERY pair of schedule trees (arbitrary split points, Seq/Fork labelling, execution
                                       order), EVERY permutation of the collection, every previous parity content: the
                                       lookup never errs; it returns exactly the identity tuple iff no candidate answers;
                                       otherwise its answer (c, w) is accepted by the sequential acceptance model,
                                       trees_phase_ok ... c w = true (an answering candidate's cycle of minimum weight)
     C03_trees_lookup_accepted_bits    the same for the schedules read off every bit stream at every position
     C03_trees_phase_ok_spec           what acceptance means against the specification (restated from TreesProofs5)
     C03_trees_arrangement(_complete)  an arrangement given by positions is a permutation of the collection, and every
                                       permutation of the collection is given by some position list
     C03_trees_run_is_generic_loop     the run is a run of SvaModel.sva_phases (no swap) with the lookup as per-phase search
     C03_fvs_trees_tbb / C03_iso_trees_tbb / C03_horton_trees_tbb
                                       NO premise: for every simple graph with positive integer weights, every BFS root
                                       order, every complete greedy_fvs pick run, EVERY schedule bit stream and EVERY
                                       arrangement of the candidates (any permutation — sortedness is not needed), every
                                       value of numeric_limits::max: the model of the entry point returns SvaOk with
                                       m - n + c simple cycles forming a MINIMUM cycle basis, the returned value is their
                                       total weight, and the emitted cycles are an accepted run of the sequential
                                       acceptance model (mcb_sva_trees_accept_Z).
   Not proved here: memory accesses of the compiled code (race clause: footprints at model level only,
   C03_trees_parallel_for_frame; ThreadSanitizer sampling in the thorough tier). *)
From Coq Require Import List Arith Bool ZArith Permutation.
From Parmcb Require Import GraphModel GF2Model GraphSpec McbSpec LexSPModel FvsModel CandidatesModel ForestModel SvaModel
     TreesModel TreesProofs3 SchedModel SchedProofs ParTreesModel ParTreesProofs1 ParTreesProofs2 ParTreesProofs3
     Properties_C02_trees.
Import ListNotations.

(* ---- the builder ------------------------------------------------------------------------------------------------------ *)

Theorem C03_trees_nolimit_is_sequential :
  forall (W : Type) (w0 : W) (wadd : W -> W -> W) (wltb : W -> W -> bool) g wts trees pars sg c lim,
    tc_build_limit W w0 wadd wltb g wts trees pars sg c false lim = tc_build W w0 wadd g wts trees pars sg c.
Proof. exact pq_build_nolimit. Qed.
Print Assumptions C03_trees_nolimit_is_sequential.

(* any trees, any parity fields, any candidate: whenever the unlimited builder answers (C, w) the limited builder answers
   (C, w) iff NOT (limit < w), and not-found otherwise; whenever the unlimited builder answers not-found so does the limited *)
Theorem C03_trees_limit_monotone :
  forall (g : graph) (wts : list Z), positive_weights g wts ->
  forall trees pars sg c (use : bool) (lim : Z),
    match tc_build Z 0%Z Z.add g wts trees pars sg c with
    | TrOk (TcFound C w) => tc_build_limit_Z g wts trees pars sg c use lim
                            = TrOk (if use && (lim <? w)%Z then TcNot else TcFound C w)
    | TrOk TcNot => tc_build_limit_Z g wts trees pars sg c use lim = TrOk TcNot
    | _ => True
    end.
Proof. exact pr_build_rel. Qed.
Print Assumptions C03_trees_limit_monotone.

(* ---- the parallel_for over the trees ---------------------------------------------------------------------------------- *)

Theorem C03_trees_parallel_for :
  forall (W : Type) (g : graph) (trees : list (sp_tree W)) (sg : list nat) ps (cs : list (nat * nat)) pars0,
    tp_all W g trees sg = TrOk ps -> length pars0 = length trees ->
    Permutation (flat_map chunk_indices cs) (seq 0 (length trees)) ->
    fold_left (fun s c => pt_par_chunk W g trees sg (fst c) (snd c) s) cs (TrOk pars0) = TrOk ps.
Proof. exact pq_par_for_any_partition. Qed.
Print Assumptions C03_trees_parallel_for.

Theorem C03_trees_parallel_for_frame :
  forall (W : Type) (g : graph) (trees : list (sp_tree W)) (sg : list nat) b l pars pars' i,
    pt_par_chunk W g trees sg b l (TrOk pars) = TrOk pars' -> ~ (b <= i < b + l) -> nth i pars' [] = nth i pars [].
Proof. exact pq_par_chunk_frame. Qed.
Print Assumptions C03_trees_parallel_for_frame.

(* ---- the lookup --------------------------------------------------------------------------------------------------------- *)

Theorem C03_trees_lookup_accepted :
  forall (g : graph) (wts : list Z) (trees : list (sp_tree Z)) (cands sorted : list (cand Z)) (sg : list nat) (wmax : Z),
    simple_graph g -> positive_weights g wts -> trees_collection_ok g wts trees cands -> Permutation sorted cands ->
  forall (t1 t2 : sched) (pars0 : list (list bool)),
    size t1 = length trees -> size t2 = length sorted -> length pars0 = length trees ->
    exists r pars l,
      pt_lookup_sched_Z wmax g wts trees sorted sg t1 t2 pars0 = TrOk (r, pars) /\
      tp_all Z g trees sg = TrOk pars /\ length pars = length trees /\
      tl_answers_Z g wts trees cands sg = TrOk l /\
      (c3_found Z r = false -> r = pt_ident Z wmax /\ forall x, In x l -> tl_found Z x = false) /\
      (c3_found Z r = true -> trees_phase_ok g wts trees cands sg (c3_set Z r) (c3_weight Z r) = true).
Proof. exact ps_lookup_sched_ok. Qed.
Print Assumptions C03_trees_lookup_accepted.

Theorem C03_trees_lookup_accepted_bits :
  forall (g : graph) (wts : list Z) (trees : list (sp_tree Z)) (cands sorted : list (cand Z)) (sg : list nat) (wmax : Z),
    simple_graph g -> positive_weights g wts -> trees_collection_ok g wts trees cands -> Permutation sorted cands ->
  forall (bits : list bool) (pos : nat) (pars0 : list (list bool)), length pars0 = length trees ->
    exists r pars l pos',
      pt_lookup_Z wmax bits g wts trees sorted sg pos pars0 = (TrOk (r, pars), pos') /\
      tp_all Z g trees sg = TrOk pars /\ length pars = length trees /\
      tl_answers_Z g wts trees cands sg = TrOk l /\
      (c3_found Z r = false -> r = pt_ident Z wmax /\ forall x, In x l -> tl_found Z x = false) /\
      (c3_found Z r = true -> trees_phase_ok g wts trees cands sg (c3_set Z r) (c3_weight Z r) = true).
Proof. exact ps_lookup_ok. Qed.
Print Assumptions C03_trees_lookup_accepted_bits.

(* the builders deliver what the two theorems above ask for *)
Theorem C03_trees_collection_ok :
  forall b g wts picks trees cands, simple_graph g -> positive_weights g wts ->
    tb_collection Z 0%Z Z.add Z.ltb b g wts picks = CdOk (trees, cands) -> trees_collection_ok g wts trees cands.
Proof. exact tr_collection_ok. Qed.
Print Assumptions C03_trees_collection_ok.

(* acceptance against the specification: a simple cycle that is odd in the direct sense |c ∩ sg| odd, reported with its true
   weight, the cycle of a candidate, and no odd candidate of the collection is lighter *)
Theorem C03_trees_phase_ok_spec :
  forall g wts trees cands sg c w,
    simple_graph g -> positive_weights g wts -> trees_collection_ok g wts trees cands ->
    trees_phase_ok g wts trees cands sg c w = true -> tr_answer g wts trees cands sg c w.
Proof. exact TreesProofs5.tf_phase_ok_spec. Qed.
Print Assumptions C03_trees_phase_ok_spec.

Theorem C03_trees_arrangement :
  forall (W : Type) (arr : list nat) (cands sorted : list (cand W)),
    pt_arrange W arr cands = Some sorted -> Permutation sorted cands.
Proof. exact pq_arrange_perm. Qed.
Print Assumptions C03_trees_arrangement.

(* conversely every permutation of the collection is the arrangement of some position list: quantifying over `arr` in the
   entry-point theorems below is quantifying over every outcome std::sort can leave (and more) *)
Theorem C03_trees_arrangement_complete :
  forall (W : Type) (cands sorted : list (cand W)),
    Permutation sorted cands -> exists arr, pt_arrange W arr cands = Some sorted.
Proof. exact pq_arrange_complete. Qed.
Print Assumptions C03_trees_arrangement_complete.

(* ---- the run is a run of the generic support-vector loop ---------------------------------------------------------------- *)

(* for every bit stream, from any phase on: the threaded loop of the model (stream position and parity fields carried from
   phase to phase) IS SvaModel.sva_phases — no swap, sequential update_supports — with a per-phase search each of whose answers
   is an answer of the TBB lookup at some stream position from some content of the parity fields *)
Theorem C03_trees_run_is_generic_loop :
  forall (g : graph) (wts : list Z) (fi : forest_index) (trees : list (sp_tree Z)) (cands sorted : list (cand Z))
         (bits : list bool) (wmax : Z),
    simple_graph g -> positive_weights g wts -> trees_collection_ok g wts trees cands -> Permutation sorted cands ->
  forall (ks : list nat) (sup : list vec) (pos : nat) (pars : list (list bool)) (acc : list (list nat)) (total : Z),
    NoDup ks -> length pars = length trees ->
    exists search : nat -> vec -> phase_result Z,
      (forall k S, exists p pars0, length pars0 = length trees /\
         search k S = match fst (pt_lookup_Z wmax bits g wts trees sorted (indices_to_edges fi S) p pars0) with
                      | TrOk ((c, w, true), _) => PFound c w
                      | TrOk ((_, _, false), _) => PNone
                      | _ => PError
                      end) /\
      fst (pt_phases Z 0%Z Z.add Z.ltb wmax bits g wts fi trees sorted ks sup pos pars acc total)
      = sva_phases Z Z.add select_none search fi ks sup acc total.
Proof. exact ps_phases_is_sva_phases. Qed.
Print Assumptions C03_trees_run_is_generic_loop.

(* ---- the entry points --------------------------------------------------------------------------------------------------- *)

(* one run is good: SvaOk, a minimum cycle basis of m - n + c cycles, returned value = its weight, and the emitted cycles are
   an accepted run of the sequential acceptance model *)
Definition C03_trees_run_good (b : tbuilder) (g : graph) (wts : list Z) (roots picks : list nat) (r : sva_result Z) : Prop :=
  exists cycles total sup,
    r = SvaOk cycles total sup /\ min_cycle_basis g wts cycles /\ total = total_weight wts cycles /\
    has_cycle_space_dimension g (length cycles) /\
    mcb_sva_trees_accept_Z b g wts roots picks cycles = Some total.

(* index and collection exist; the run is good for EVERY permutation `sorted` of the collection, every bit stream and every
   numeric_limits::max; in particular the entry point with the arrangement given by positions *)
Definition C03_trees_tbb_stmt (b : tbuilder) (g : graph) (wts : list Z) (roots picks : list nat) : Prop :=
  exists fi trees cands,
    create_index g roots = Some fi /\ tb_collection Z 0%Z Z.add Z.ltb b g wts picks = CdOk (trees, cands) /\
    (forall (wmax : Z) (bits : list bool) (sorted : list (cand Z)), Permutation sorted cands ->
       C03_trees_run_good b g wts roots picks (fst (pt_run_Z wmax bits g wts fi trees sorted))) /\
    (forall (wmax : Z) (bits : list bool) (arr : list nat), pt_valid_arr arr (length cands) = true ->
       exists r pos, mcb_sva_trees_tbb_Z wmax b g wts roots picks arr bits = (PtRun r, pos) /\
                     C03_trees_run_good b g wts roots picks r).

Theorem C03_fvs_trees_tbb :
  forall (g : graph) (wts : list Z) (roots picks fvs : list nat),
    simple_graph g -> positive_weights g wts -> (forall v, v < nv g -> In v roots) ->
    greedy_fvs g picks = FvsOk fvs -> C03_trees_tbb_stmt TbFvs g wts roots picks.
Proof. exact ps_fvs_trees_tbb. Qed.
Print Assumptions C03_fvs_trees_tbb.

Theorem C03_iso_trees_tbb :
  forall (g : graph) (wts : list Z) (roots picks : list nat),
    simple_graph g -> positive_weights g wts -> (forall v, v < nv g -> In v roots) ->
    C03_trees_tbb_stmt TbIso g wts roots picks.
Proof. exact ps_iso_trees_tbb. Qed.
Print Assumptions C03_iso_trees_tbb.

Theorem C03_horton_trees_tbb :
  forall (g : graph) (wts : list Z) (roots picks : list nat),
    simple_graph g -> positive_weights g wts -> (forall v, v < nv g -> In v roots) ->
    C03_trees_tbb_stmt TbHorton g wts roots picks.
Proof. exact ps_horton_trees_tbb. Qed.
Print Assumptions C03_horton_trees_tbb.

(* any builder, modulo sufficiency of its collection *)
Theorem C03_trees_tbb_modulo_sufficiency :
  forall (b : tbuilder) (g : graph) (wts : list Z) (roots picks : list nat) trees cands,
    simple_graph g -> positive_weights g wts -> (forall v, v < nv g -> In v roots) ->
    tb_collection Z 0%Z Z.add Z.ltb b g wts picks = CdOk (trees, cands) ->
    (forall fi, create_index g roots = Some fi -> collection_sufficient g wts fi trees cands) ->
    C03_trees_tbb_stmt b g wts roots picks.
Proof. exact ps_stmt_of. Qed.
Print Assumptions C03_trees_tbb_modulo_sufficiency.

(* ---- non-vacuity: the theta graph of Properties_C02_trees.v (paths of weight 3, 4, 5 between 0 and 1; optimum 15) ------
   isometric collection: 7 trees, 4 candidates (weights 7, 8, 7, 8).  Under the all-ones stream every range is split
   everywhere, every split is a Fork and right parts run first: 18 bits for the parallel_for over 7 trees, 9 for the
   parallel_reduce over 4 candidates, two phases = 54 bits.  The arrangement 3,1,2,0 is not weight-sorted. *)
Example C03_trees_tbb_nonvacuous :
  simple_graph c02t_g /\ positive_weights c02t_g c02t_w /\ (forall v, v < nv c02t_g -> In v c02t_roots) /\
  greedy_fvs c02t_g [1] = FvsOk [1] /\
  forks (fst (sched_of_bits [true] 0 7)) = 6 /\ forks (fst (sched_of_bits [true] 18 4)) = 3 /\
  mcb_sva_trees_tbb_Z 2147483647 TbIso c02t_g c02t_w c02t_roots [] [3;1;2;0] [true]
  = (PtRun (SvaOk [[0;1;2;3;4];[0;1;5;6;7]] 15%Z [[0];[0;1]]), 54) /\
  mcb_sva_trees_tbb_Z 2147483647 TbIso c02t_g c02t_w c02t_roots [] [3;2;1;0] [true;true;false;true]
  = (PtRun (SvaOk [[0;1;2;3;4];[0;1;5;6;7]] 15%Z [[0];[0;1]]), 27) /\
  mcb_sva_trees_tbb_Z 2147483647 TbFvs c02t_g c02t_w c02t_roots [1] [1;0] [true]
  = (PtRun (SvaOk [[0;1;2;3;4];[0;1;5;6;7]] 15%Z [[0];[0;1]]), 6) /\
  (* not a permutation of the positions: explicit value *)
  mcb_sva_trees_tbb_Z 2147483647 TbFvs c02t_g c02t_w c02t_roots [1] [1;1] [true] = (PtBadArrangement, 0) /\
  (* two calls of one lookup object: signed set {0, 5} -> the 7-cycle through edges 0..4; the empty signed set -> the identity *)
  (match pt_lookup_call_Z 99 TbIso c02t_g c02t_w [] [3;1;2;0] [[0;5]; []] [true] with
   | PtCall _ _ rs => rs = [(TrOk ([0;1;2;3;4], 7%Z, true), 27); (TrOk ([], 99%Z, false), 54)]
   | _ => False end) /\
  total_weight c02t_w [[0;1;2;3;4];[0;1;5;6;7]] = 15%Z.
Proof.
  split; [reflexivity|]. split; [split; [reflexivity|repeat constructor]|].
  split; [intros v Hv; cbn in Hv; unfold c02t_roots; repeat (destruct v as [|v]; [cbn; tauto|]); cbn in Hv; exfalso; apply (Nat.nlt_0_r v); do 7 apply Nat.succ_lt_mono in Hv; exact Hv|].
  vm_compute. repeat split; reflexivity.
Qed.

(* the limit really bites, and `>` is not `>=`: a candidate of weight 8 examined after a running minimum of weight 8 is
   still built (limit 8, weight 8: not rejected by the builder) and then loses the strict comparison of the body; with
   limit 7 the builder gives up *)
Example C03_trees_limit_nonvacuous :
  match iso_cycles_Z c02t_g c02t_w with
  | CdOk (trees, cands) =>
      match tp_all Z c02t_g trees [2;5], nth_error cands 1 with
      | TrOk pars, Some c =>
          tc_build_limit_Z c02t_g c02t_w trees pars [2;5] c false 0%Z = TrOk (TcFound [0;1;5;6;7] 8%Z) /\
          tc_build_limit_Z c02t_g c02t_w trees pars [2;5] c true 8%Z = TrOk (TcFound [0;1;5;6;7] 8%Z) /\
          tc_build_limit_Z c02t_g c02t_w trees pars [2;5] c true 7%Z = TrOk TcNot
      | _, _ => False
      end
  | _ => False
  end.
Proof. vm_compute. repeat split; reflexivity. Qed.
