(* OverflowProofs4.v — C07, clause "overflows a signed integer", part 4: the phases of mcb_sva_signed and the running
   total.  Traced restatements (as in OverflowProofs3.v; erasure lemmas ov_*_erase) of
     all_vertices / hidden_edges   the sums of each search, and  w' = w + w(se)  of the hidden-edge heuristic
     signed_phase, sva_phases      the sums of each phase, then  mcb_weight += w
     mcb_sva_signed_Z_tr           the whole run.
   Results (S = sum of all edge weights, wmax = the largest edge weight):
     ov_phase_tr     every sum formed inside a phase lies in [0, 2S + 2wmax]; the weight a phase returns in [0, S]
     ov_mcb_tr       every sum formed by a run lies in [0, 2S + 2wmax] or is a running total, and the running
                     totals increase from 0 to the returned total
     ov_overflow_search / ov_overflow_total   the statements re-exported by Properties_C07.v
   No axioms. *)
From Coq Require Import List Arith Bool ZArith Lia Permutation.
From Parmcb Require Import GraphModel GF2Model GF2Proofs GraphSpec GraphLemmas McbSpec ForestModel
     HeapModel HeapSpec HeapProofs SvaModel SvaSpec SignedModel SignedZModel SignedProofs RefProofs1
     BidirSpec BidirProofs1 BidirProofs2 BidirProofs3 BidirProofs4 BidirProofs5
     OverflowProofs1 OverflowProofs2 OverflowProofs3.
Import ListNotations.

Local Open Scope Z_scope.

(* ---- the largest edge weight ------------------------------------------------------------------------- *)

Definition wmax (wts : list Z) : Z := fold_right Z.max 0 wts.

Lemma ov_wmax_nonneg wts : 0 <= wmax wts.
Proof. induction wts as [|x l IH]; cbn [wmax fold_right]; [lia|]. fold (wmax l). lia. Qed.

Lemma ov_wmax_in wts x : In x wts -> x <= wmax wts.
Proof.
  induction wts as [|y l IH]; intros Hin; [destruct Hin|]. cbn [wmax fold_right]. fold (wmax l).
  destruct Hin as [->|Hin]; [lia|]. specialize (IH Hin). lia.
Qed.

Lemma ov_wt_le_wmax wts e : wt wts e <= wmax wts.
Proof.
  unfold wt. destruct (nth_in_or_default e wts 0) as [Hin|E]; [apply ov_wmax_in; exact Hin|].
  rewrite E. apply ov_wmax_nonneg.
Qed.

Lemma ov_wmax_le_wsum g wts : positive_weights g wts -> wmax wts <= wsum g wts.
Proof.
  intros Hpw. pose proof (ov_wsum_nonneg g wts Hpw) as H0.
  assert (H : forall l, (forall x, In x l -> x <= wsum g wts) -> fold_right Z.max 0 l <= wsum g wts).
  { induction l as [|y l IH]; intros Hl; cbn [fold_right]; [exact H0|].
    pose proof (Hl y (or_introl eq_refl)). specialize (IH (fun x Hx => Hl x (or_intror Hx))). lia. }
  apply H. intros x Hx. destruct (In_nth _ _ 0 Hx) as (i & Hi & <-).
  apply (ov_wt_le_wsum g wts i Hpw). destruct Hpw as [Hl _]. lia.
Qed.

(* ---- the traced functions ---------------------------------------------------------------------------- *)

Fixpoint all_vertices_tr (g : graph) (wts : list Z) (signed : list nat) (vs : list nat)
         (best : option (list nat * Z)) : option (option (list nat * Z)) * list Z :=
  match vs with
  | [] => (Some best, [])
  | v :: vs' =>
      let P := {| sp_g := g; sp_wts := wts; sp_signed := signed; sp_hidden := [];
                  sp_use_hidden := false; sp_limit := limit_of Z best |} in
      let r := bidirectional_tr P v true v false in
      match fst r with
      | SearchError _ => (None, snd r)
      | NotFound _ => let r' := all_vertices_tr g wts signed vs' best in (fst r', snd r ++ snd r')
      | Found _ c w =>
          let r' := all_vertices_tr g wts signed vs' (if better Z Z.ltb w best then Some (c, w) else best) in
          (fst r', snd r ++ snd r')
      end
  end.

Fixpoint hidden_edges_tr (g : graph) (wts : list Z) (signed : list nat) (ses : list nat)
         (best : option (list nat * Z)) : option (option (list nat * Z)) * list Z :=
  match ses with
  | [] => (Some best, [])
  | se :: ses' =>
      match ends g se with
      | None => (None, [])
      | Some (sv, su) =>
          let P := {| sp_g := g; sp_wts := wts; sp_signed := signed; sp_hidden := ses;
                      sp_use_hidden := true; sp_limit := limit_of Z best |} in
          let r := bidirectional_tr P sv true su true in
          match fst r with
          | SearchError _ => (None, snd r)
          | NotFound _ => let r' := hidden_edges_tr g wts signed ses' best in (fst r', snd r ++ snd r')
          | Found _ c w =>
              if memb se c then let r' := hidden_edges_tr g wts signed ses' best in (fst r', snd r ++ snd r')
              else
                let w' := w + wtof Z 0 wts se in
                let r' := hidden_edges_tr g wts signed ses'
                            (if better Z Z.ltb w' best then Some (set_insert se c, w') else best) in
                (fst r', snd r ++ w' :: snd r')
          end
      end
  end.

Definition signed_phase_tr (eord : nat -> nat) (g : graph) (wts : list Z) (fi : forest_index) (k : nat) (S : vec)
  : phase_result Z * list Z :=
  let signed := indices_to_edges fi S in
  let res :=
    if Nat.leb (nv g) (length signed)
    then all_vertices_tr g wts signed (seq 0 (nv g)) None
    else hidden_edges_tr g wts signed (sort_eord eord signed) None in
  (match fst res with
   | None => PError
   | Some None => PNone
   | Some (Some (c, w)) => PFound c w
   end, snd res).

Fixpoint sva_phases_tr (select : nat -> list vec -> nat) (search : nat -> vec -> phase_result Z * list Z)
         (fi : forest_index) (ks : list nat) (sup : list vec) (acc : list (list nat)) (total : Z)
  : sva_result Z * list Z :=
  match ks with
  | [] => (SvaOk (rev acc) total sup, [])
  | k :: ks' =>
      let ms := select k sup in
      let S1 := if Nat.eqb ms k then sup else swap_nth sup k ms in
      let r := search k (nth k S1 []) in
      match fst r with
      | PError => (SvaError k, snd r)
      | PNone => (SvaNoCycle k, snd r)
      | PFound c w =>
          let cyclek := edges_to_indices fi c in
          let r' := sva_phases_tr select search fi ks' (update_supports S1 k cyclek) (c :: acc) (total + w) in
          (fst r', snd r ++ (total + w) :: snd r')
      end
  end.

Definition mcb_sva_signed_Z_tr (g : graph) (wts : list Z) (roots : list nat) (eord : list nat)
  : sva_result Z * list Z :=
  match create_index g roots with
  | None => (SvaNoIndex, [])
  | Some fi =>
      let csd := fi_csd fi in
      sva_phases_tr (select_min_support csd) (signed_phase_tr (fun e => nth e eord 0%nat) g wts fi) fi
                    (seq 0 csd) (map (fun i => [i]) (seq 0 csd)) [] 0
  end.

(* ---- erasure ------------------------------------------------------------------------------------------ *)

Lemma ov_all_vertices_erase g wts signed : forall vs best,
  fst (all_vertices_tr g wts signed vs best) = all_vertices Z 0 Z.add Z.ltb g wts signed vs best.
Proof.
  induction vs as [|v vs IH]; intros best; [reflexivity|].
  cbn [all_vertices_tr all_vertices]. cbv zeta. rewrite ov_search_erase.
  match goal with |- context [bidirectional_signed_dijkstra ?x1 ?x2 ?x3 ?x4 ?x5 ?x6 ?x7 ?x8 ?x9] =>
    destruct (bidirectional_signed_dijkstra x1 x2 x3 x4 x5 x6 x7 x8 x9) end; cbn [fst]; [apply IH|apply IH|reflexivity].
Qed.

Lemma ov_hidden_edges_erase g wts signed : forall ses best,
  fst (hidden_edges_tr g wts signed ses best) = hidden_edges Z 0 Z.add Z.ltb g wts signed ses best.
Proof.
  induction ses as [|se ses IH]; intros best; [reflexivity|].
  cbn [hidden_edges_tr hidden_edges]. destruct (ends g se) as [[sv su]|]; [|reflexivity]. cbv zeta.
  rewrite ov_search_erase.
  match goal with |- context [bidirectional_signed_dijkstra ?x1 ?x2 ?x3 ?x4 ?x5 ?x6 ?x7 ?x8 ?x9] =>
    destruct (bidirectional_signed_dijkstra x1 x2 x3 x4 x5 x6 x7 x8 x9) as [c w| |] end; cbn [fst];
    [|apply IH|reflexivity].
  destruct (memb se c); cbn [fst]; apply IH.
Qed.

Lemma ov_phase_erase eord g wts fi k S :
  fst (signed_phase_tr eord g wts fi k S) = signed_phase Z 0 Z.add Z.ltb eord g wts fi k S.
Proof.
  unfold signed_phase_tr, signed_phase. cbv zeta. cbn [fst].
  destruct (Nat.leb (nv g) (length (indices_to_edges fi S)));
    [rewrite ov_all_vertices_erase|rewrite ov_hidden_edges_erase]; reflexivity.
Qed.

Lemma ov_sva_phases_erase select (search_tr : nat -> vec -> phase_result Z * list Z)
      (search : nat -> vec -> phase_result Z) fi :
  (forall k S, fst (search_tr k S) = search k S) ->
  forall ks sup acc total,
    fst (sva_phases_tr select search_tr fi ks sup acc total) = sva_phases Z Z.add select search fi ks sup acc total.
Proof.
  intros Hse. induction ks as [|k ks IH]; intros sup acc total; [reflexivity|].
  cbn [sva_phases_tr sva_phases]. cbv zeta. rewrite Hse.
  match goal with |- context [search ?x1 ?x2] => destruct (search x1 x2) as [c w| |] end; cbn [fst];
    [apply IH|reflexivity|reflexivity].
Qed.

Lemma ov_mcb_erase g wts roots eord :
  fst (mcb_sva_signed_Z_tr g wts roots eord) = mcb_sva_signed_Z g wts roots eord.
Proof.
  unfold mcb_sva_signed_Z_tr, mcb_sva_signed_Z, mcb_sva_signed, sva_run.
  destruct (create_index g roots) as [fi|]; [|reflexivity]. cbv zeta.
  apply ov_sva_phases_erase. intros k S. apply ov_phase_erase.
Qed.

(* ---- edges of walks ------------------------------------------------------------------------------------ *)

Lemma ov_cwalk_edges_lt P : forall p x z e, cwalk P x p z -> In e (wedges p) -> (e < ne (sp_g Z P))%nat.
Proof.
  induction p as [|[e0 y] p IH]; intros x z e Hw Hin; [destruct Hin|].
  inversion Hw as [|? ? ? ? ? Hst Hw']; subst. cbn [wedges map fst] in Hin. destruct Hin as [<-|Hin].
  - eapply bd_cstep_edge_lt. exact Hst.
  - eapply IH; eassumption.
Qed.

Lemma ov_walk_edges_lt g : forall p x z e, walk g x p z -> In e (wedges p) -> (e < ne g)%nat.
Proof.
  induction p as [|[e0 y] p IH]; intros x z e Hw Hin; [destruct Hin|].
  inversion Hw as [|? ? ? ? ? Hj Hw']; subst. cbn [wedges map fst] in Hin. destruct Hin as [<-|Hin].
  - eapply gl_joins_lt. exact Hj.
  - eapply IH; eassumption.
Qed.

Lemma ov_simple_cycle_weight g wts C : positive_weights g wts -> simple_cycle g C ->
  0 <= weight wts C <= wsum g wts.
Proof.
  intros Hpw (_ & Sc & x & p & Hw & _ & _ & HE).
  split; [eapply rf_weight_nonneg; exact Hpw|].
  apply ov_weight_nodup_le; [exact Hpw|apply gl_sorted_NoDup; exact Sc|].
  intros e He. apply HE in He. eapply ov_walk_edges_lt; eassumption.
Qed.

(* ---- the phases ---------------------------------------------------------------------------------------- *)

Section Phase.
  Variables (g : graph) (wts : list Z).
  Hypothesis Hs : simple_graph g.
  Hypothesis Hpw : positive_weights g wts.
  Local Notation S := (wsum g wts).
  Local Notation B := (2 * wsum g wts + 2 * wmax wts).
  Local Notation inB := (inrange (2 * wsum g wts + 2 * wmax wts)).

  (* the running best of a phase: a weight in [0, S] *)
  Definition goodbest (best : option (list nat * Z)) : Prop :=
    forall c w, best = Some (c, w) -> 0 <= w <= S.

  Lemma ov_goodbest_limit best : goodbest best -> forall l, limit_of Z best = Some l -> l <= S.
  Proof.
    intros Hb l E. destruct best as [[c w]|]; [|discriminate]. cbn [limit_of] in E. injection E as <-.
    apply (Hb c w eq_refl).
  Qed.

  (* one search of a phase: its sums, and the weight of what it finds *)
  Lemma ov_phase_search signed hidden uh best s spos t tpos :
    goodbest best -> (s < nv g)%nat -> (t < nv g)%nat -> signed_id (nv g) s spos <> signed_id (nv g) t tpos ->
    let P := {| sp_g := g; sp_wts := wts; sp_signed := signed; sp_hidden := hidden;
                sp_use_hidden := uh; sp_limit := limit_of Z best |} in
    Forall inB (snd (bidirectional_tr P s spos t tpos))
    /\ forall c w, fst (bidirectional_tr P s spos t tpos) = Found Z c w ->
         w = weight wts c /\ NoDup c /\ (forall e, In e c -> (e < ne g)%nat) /\ 0 <= w <= S.
  Proof.
    intros Hb Hsn Htn Hne P. split.
    - apply (ov_search_tr P Hs Hpw (wmax wts) (ov_wmax_nonneg wts)); try assumption.
      + intros e _. apply ov_wt_le_wmax.
      + exact (ov_goodbest_limit best Hb).
    - intros c w E. rewrite ov_search_erase in E.
      pose proof (bidir_spec P s spos t tpos Hs Hpw Hsn Htn Hne) as Hsp. cbv zeta in Hsp. rewrite E in Hsp.
      destruct Hsp as (p & [Hw _] & _ & Sc & HE & _ & Ew & _). cbn [P sp_wts] in Ew.
      assert (Hnd : NoDup c) by (apply gl_sorted_NoDup; exact Sc).
      assert (Hlt : forall e, In e c -> (e < ne g)%nat).
      { intros e He. apply HE in He. exact (ov_cwalk_edges_lt P p _ _ e Hw He). }
      split; [exact Ew|]. split; [exact Hnd|]. split; [exact Hlt|]. rewrite Ew.
      split; [eapply rf_weight_nonneg; exact Hpw|apply ov_weight_nodup_le; assumption].
  Qed.

  Lemma ov_goodbest_update c w best : goodbest best -> 0 <= w <= S ->
    goodbest (if better Z Z.ltb w best then Some (c, w) else best).
  Proof.
    intros Hb Hw. destruct (better Z Z.ltb w best); [|exact Hb].
    intros c' w' E. injection E as _ <-. exact Hw.
  Qed.

  Lemma ov_all_vertices_tr signed : forall vs best, (forall v, In v vs -> (v < nv g)%nat) -> goodbest best ->
    Forall inB (snd (all_vertices_tr g wts signed vs best))
    /\ forall res, fst (all_vertices_tr g wts signed vs best) = Some res -> goodbest res.
  Proof.
    induction vs as [|v vs IH]; intros best Hvs Hb.
    - cbn [all_vertices_tr snd fst]. split; [constructor|]. intros res E. injection E as <-. exact Hb.
    - cbn [all_vertices_tr]. cbv zeta.
      assert (Hv : (v < nv g)%nat) by (apply Hvs; left; reflexivity).
      assert (Hvs' : forall v', In v' vs -> (v' < nv g)%nat) by (intros v' Hin; apply Hvs; right; exact Hin).
      assert (Hne : signed_id (nv g) v true <> signed_id (nv g) v false) by (unfold signed_id; lia).
      destruct (ov_phase_search signed [] false best v true v false Hb Hv Hv Hne) as [Hv1 Hf1].
      cbv zeta in Hv1, Hf1.
      match goal with |- context [fst (bidirectional_tr ?x1 ?x2 ?x3 ?x4 ?x5)] =>
        destruct (fst (bidirectional_tr x1 x2 x3 x4 x5)) as [c w| |] eqn:E end.
      + destruct (Hf1 c w eq_refl) as (_ & _ & _ & Hw).
        destruct (IH _ Hvs' (ov_goodbest_update c w best Hb Hw)) as [Hv2 Hr2].
        cbn [snd fst]. split; [apply Forall_app; split; assumption|exact Hr2].
      + destruct (IH best Hvs' Hb) as [Hv2 Hr2].
        cbn [snd fst]. split; [apply Forall_app; split; assumption|exact Hr2].
      + cbn [snd fst]. split; [exact Hv1|discriminate].
  Qed.

  Lemma ov_hidden_edges_tr signed : forall ses best, goodbest best ->
    Forall inB (snd (hidden_edges_tr g wts signed ses best))
    /\ forall res, fst (hidden_edges_tr g wts signed ses best) = Some res -> goodbest res.
  Proof.
    pose proof (ov_wsum_nonneg g wts Hpw) as HS0. pose proof (ov_wmax_nonneg wts) as HW0.
    induction ses as [|se ses IH]; intros best Hb.
    - cbn [hidden_edges_tr snd fst]. split; [constructor|]. intros res E. injection E as <-. exact Hb.
    - cbn [hidden_edges_tr]. destruct (ends g se) as [[sv su]|] eqn:Ee.
      2:{ cbn [snd fst]. split; [constructor|discriminate]. }
      cbv zeta.
      destruct (gl_simple_ends g se sv su Hs Ee) as (Hsv & Hsu & Hneq).
      assert (Hne : signed_id (nv g) sv true <> signed_id (nv g) su true) by (unfold signed_id; exact Hneq).
      destruct (ov_phase_search signed (se :: ses) true best sv true su true Hb Hsv Hsu Hne) as [Hv1 Hf1].
      cbv zeta in Hv1, Hf1.
      match goal with |- context [fst (bidirectional_tr ?x1 ?x2 ?x3 ?x4 ?x5)] =>
        destruct (fst (bidirectional_tr x1 x2 x3 x4 x5)) as [c w| |] eqn:E end.
      + destruct (Hf1 c w eq_refl) as (Ew & Hnd & Hlt & Hw).
        destruct (memb se c) eqn:Em.
        * destruct (IH best Hb) as [Hv2 Hr2].
          cbn [snd fst]. split; [apply Forall_app; split; assumption|exact Hr2].
        * apply gl_memb_false in Em. change (wtof Z 0 wts se) with (wt wts se).
          assert (Hw' : 0 <= w + wt wts se <= S).
          { assert (Hse : (se < ne g)%nat) by (eapply gl_ends_lt; exact Ee).
            pose proof (ov_weight_nodup_le g wts (se :: c) Hpw) as Hle. rewrite rf_weight_cons in Hle.
            pose proof (rf_wt_nonneg g wts se Hpw). split; [lia|]. rewrite Ew.
            rewrite Z.add_comm. apply Hle.
            - constructor; assumption.
            - intros e [<-|He]; [exact Hse|apply Hlt; exact He]. }
          destruct (IH _ (ov_goodbest_update (set_insert se c) (w + wt wts se) best Hb Hw')) as [Hv2 Hr2].
          cbn [snd fst]. split; [|exact Hr2].
          apply Forall_app; split; [exact Hv1|]. constructor; [unfold inrange; lia|exact Hv2].
      + destruct (IH best Hb) as [Hv2 Hr2].
        cbn [snd fst]. split; [apply Forall_app; split; assumption|exact Hr2].
      + cbn [snd fst]. split; [exact Hv1|discriminate].
  Qed.

  Lemma ov_phase_tr eord fi k Sv :
    Forall inB (snd (signed_phase_tr eord g wts fi k Sv))
    /\ forall c w, fst (signed_phase_tr eord g wts fi k Sv) = PFound c w -> 0 <= w <= S.
  Proof.
    unfold signed_phase_tr. cbv zeta. cbn [snd fst].
    assert (Hnone : goodbest None) by (intros c w E; discriminate).
    assert (H : forall res : option (option (list nat * Z)) * list Z,
              Forall inB (snd res) -> (forall r, fst res = Some r -> goodbest r) ->
              Forall inB (snd res)
              /\ forall c w, match fst res with None => PError | Some None => PNone
                                           | Some (Some (c0, w0)) => PFound c0 w0 end = PFound c w -> 0 <= w <= S).
    { intros res Hv Hr. split; [exact Hv|]. intros c w E.
      destruct (fst res) as [[[c0 w0]|]|]; try discriminate. injection E as <- <-.
      apply (Hr _ eq_refl c0 w0 eq_refl). }
    destruct (Nat.leb (nv g) (length (indices_to_edges fi Sv))).
    - destruct (ov_all_vertices_tr (indices_to_edges fi Sv) (seq 0 (nv g)) None) as [Hv Hr]; [|exact Hnone|].
      + intros v Hv. apply in_seq in Hv. lia.
      + apply H; assumption.
    - destruct (ov_hidden_edges_tr (indices_to_edges fi Sv) (sort_eord eord (indices_to_edges fi Sv)) None Hnone)
        as [Hv Hr].
      apply H; assumption.
  Qed.

  (* ---- the phase loop: running totals ------------------------------------------------------------ *)

  Section Sva.
    Variables (select : nat -> list vec -> nat) (search : nat -> vec -> phase_result Z * list Z)
              (fi : forest_index).
    Hypothesis Hsearch : forall k Sv, Forall inB (snd (search k Sv))
                                      /\ forall c w, fst (search k Sv) = PFound c w -> 0 <= w <= S.

    (* the returned total is at least the current one *)
    Lemma ov_sva_total_mono : forall ks sup acc total cycles T sup',
      fst (sva_phases_tr select search fi ks sup acc total) = SvaOk cycles T sup' -> total <= T.
    Proof.
      induction ks as [|k ks IH]; intros sup acc total cycles T sup' E.
      - cbn [sva_phases_tr fst] in E. injection E as _ <- _. lia.
      - cbn [sva_phases_tr] in E. cbv zeta in E.
        match type of E with context [fst (search ?x1 ?x2)] =>
          destruct (Hsearch x1 x2) as [_ Hw]; destruct (fst (search x1 x2)) as [c w| |] end;
          cbn [fst] in E; try discriminate.
        specialize (IH _ _ _ _ _ _ E). specialize (Hw c w eq_refl). lia.
    Qed.

    (* every sum is a search sum or a running total between the current and the returned total;
       without the assumption that the run succeeds: the j-th running total is at most j * S *)
    Lemma ov_sva_phases_tr : forall ks sup acc total j, 0 <= total <= Z.of_nat j * S ->
      Forall (fun v => inB v \/ 0 <= v <= Z.of_nat (j + length ks) * S)
             (snd (sva_phases_tr select search fi ks sup acc total))
      /\ forall cycles T sup', fst (sva_phases_tr select search fi ks sup acc total) = SvaOk cycles T sup' ->
           Forall (fun v => inB v \/ total <= v <= T) (snd (sva_phases_tr select search fi ks sup acc total)).
    Proof.
      pose proof (ov_wsum_nonneg g wts Hpw) as HS0.
      induction ks as [|k ks IH]; intros sup acc total j Ht.
      - cbn [sva_phases_tr snd fst]. split; [constructor|]. intros; constructor.
      - cbn [sva_phases_tr]. cbv zeta.
        match goal with |- context [fst (search ?x1 ?x2)] =>
          destruct (Hsearch x1 x2) as [Hv Hw]; destruct (fst (search x1 x2)) as [c w| |] eqn:Es end.
        + specialize (Hw c w eq_refl).
          assert (Ht' : 0 <= total + w <= Z.of_nat (Datatypes.S j) * S) by lia.
          match goal with |- context [sva_phases_tr select search fi ks ?x1 ?x2 ?x3] =>
            destruct (IH x1 x2 x3 (Datatypes.S j) Ht') as [IH1 IH2];
            pose proof (ov_sva_total_mono ks x1 x2 x3) as Hmono end.
          cbn [snd fst]. cbn [length]. split.
          * apply Forall_app; split; [eapply Forall_impl; [|exact Hv]; cbv beta; intros v Hv'; left; exact Hv'|].
            constructor; [right; nia|].
            eapply Forall_impl; [|exact IH1]. cbv beta. intros v [Hv'|Hv']; [left; exact Hv'|right].
            replace (j + Datatypes.S (length ks))%nat with (Datatypes.S j + length ks)%nat by lia. exact Hv'.
          * intros cycles T sup' E. specialize (Hmono _ _ _ E). specialize (IH2 _ _ _ E).
            apply Forall_app; split; [eapply Forall_impl; [|exact Hv]; cbv beta; intros v Hv'; left; exact Hv'|].
            constructor; [right; lia|].
            eapply Forall_impl; [|exact IH2]. cbv beta. intros v [Hv'|Hv']; [left; exact Hv'|right; lia].
        + cbn [snd fst]. split; [|discriminate].
          eapply Forall_impl; [|exact Hv]. cbv beta. intros v Hv'. left. exact Hv'.
        + cbn [snd fst]. split; [|discriminate].
          eapply Forall_impl; [|exact Hv]. cbv beta. intros v Hv'. left. exact Hv'.
    Qed.
  End Sva.

  (* ---- the whole run --------------------------------------------------------------------------------- *)

  Theorem ov_mcb_tr roots eord :
    (forall fi, create_index g roots = Some fi ->
       Forall (fun v => inB v \/ 0 <= v <= Z.of_nat (fi_csd fi) * S) (snd (mcb_sva_signed_Z_tr g wts roots eord)))
    /\ forall cycles T sup, fst (mcb_sva_signed_Z_tr g wts roots eord) = SvaOk cycles T sup ->
         Forall (fun v => inB v \/ 0 <= v <= T) (snd (mcb_sva_signed_Z_tr g wts roots eord)).
  Proof.
    unfold mcb_sva_signed_Z_tr. destruct (create_index g roots) as [fi|].
    2:{ split; [intros fi E; discriminate|]. intros; constructor. }
    cbv zeta.
    pose proof (ov_sva_phases_tr (select_min_support (fi_csd fi))
                  (signed_phase_tr (fun e => nth e eord 0%nat) g wts fi) fi
                  (fun k Sv => ov_phase_tr _ fi k Sv)
                  (seq 0 (fi_csd fi)) (map (fun i => [i]) (seq 0 (fi_csd fi))) [] 0 0%nat) as [H1 H2]; [lia|].
    split.
    - intros fi' E. injection E as <-. rewrite seq_length in H1. exact H1.
    - exact H2.
  Qed.

End Phase.

(* ---- the statements re-exported by Properties_C07.v ------------------------------------------------- *)

(* every value stored in f_dist by a frontier satisfying the invariant finv of BidirProofs1.v *)
Theorem ov_fdist_entries : forall (P : sparams Z) done s fr u d,
  simple_graph (sp_g Z P) -> positive_weights (sp_g Z P) (sp_wts Z P) ->
  finv P done s fr -> fdist fr u = Some d ->
  0 <= d <= 2 * wsum (sp_g Z P) (sp_wts Z P) + wmax (sp_wts Z P)
  /\ (settled fr u -> d <= 2 * wsum (sp_g Z P) (sp_wts Z P)).
Proof.
  intros P done s fr u d Hs Hpw H E. split.
  - apply (ov_entry_bounds P Hs Hpw (wmax (sp_wts Z P)) (ov_wmax_nonneg _)
             (fun e _ => ov_wt_le_wmax (sp_wts Z P) e) done s fr u d H E).
  - intros Hu. apply (ov_settled_bounds P Hs Hpw done s fr u d H Hu E).
Qed.

Theorem ov_overflow_search : forall (P : sparams Z) s spos t tpos (M : Z),
  simple_graph (sp_g Z P) -> positive_weights (sp_g Z P) (sp_wts Z P) ->
  (s < nv (sp_g Z P))%nat -> (t < nv (sp_g Z P))%nat ->
  signed_id (nv (sp_g Z P)) s spos <> signed_id (nv (sp_g Z P)) t tpos ->
  (forall l, sp_limit Z P = Some l -> l <= wsum (sp_g Z P) (sp_wts Z P)) ->
  fst (bidirectional_tr P s spos t tpos) = bidirectional_signed_dijkstra Z 0 Z.add Z.ltb P s spos t tpos
  /\ Forall (fun v => 0 <= v <= 2 * wsum (sp_g Z P) (sp_wts Z P) + 2 * wmax (sp_wts Z P))
            (snd (bidirectional_tr P s spos t tpos))
  /\ 2 * wsum (sp_g Z P) (sp_wts Z P) + 2 * wmax (sp_wts Z P) <= 4 * wsum (sp_g Z P) (sp_wts Z P)
  /\ (2 * wsum (sp_g Z P) (sp_wts Z P) + 2 * wmax (sp_wts Z P) <= M ->
      Forall (fun v => 0 <= v <= M) (snd (bidirectional_tr P s spos t tpos))).
Proof.
  intros P s spos t tpos M Hs Hpw Hsn Htn Hne Hlim.
  pose proof (ov_search_tr P Hs Hpw (wmax (sp_wts Z P)) (ov_wmax_nonneg _)
                (fun e _ => ov_wt_le_wmax (sp_wts Z P) e) Hlim s spos t tpos Hsn Htn Hne) as Hv.
  split; [apply ov_search_erase|]. split; [exact Hv|].
  split; [pose proof (ov_wmax_le_wsum _ _ Hpw); lia|].
  intros HM. eapply Forall_impl; [|exact Hv]. cbv beta. unfold inrange. intros v Hv'. lia.
Qed.

Lemma ov_total_weight_le g wts : positive_weights g wts -> forall B, Forall (simple_cycle g) B ->
  0 <= total_weight wts B <= Z.of_nat (length B) * wsum g wts.
Proof.
  intros Hpw. induction B as [|C B IH]; intros HB.
  - unfold total_weight. cbn. lia.
  - inversion HB as [|? ? HC HB']; subst. specialize (IH HB').
    change (total_weight wts (C :: B)) with (weight wts C + total_weight wts B).
    pose proof (ov_simple_cycle_weight g wts C Hpw HC). cbn [length]. lia.
Qed.

Theorem ov_overflow_total : forall (g : graph) (wts : list Z) (roots eord : list nat),
  simple_graph g -> positive_weights g wts -> (forall v, (v < nv g)%nat -> In v roots) ->
  exists cycles total sup,
    mcb_sva_signed_Z g wts roots eord = SvaOk cycles total sup
    /\ fst (mcb_sva_signed_Z_tr g wts roots eord) = mcb_sva_signed_Z g wts roots eord
    /\ min_cycle_basis g wts cycles /\ has_cycle_space_dimension g (length cycles)
    /\ total = total_weight wts cycles
    /\ (forall B', min_cycle_basis g wts B' -> total_weight wts B' = total)
    /\ Forall (fun c => 0 <= weight wts c <= wsum g wts) cycles
    /\ 0 <= total <= Z.of_nat (length cycles) * wsum g wts
    /\ Forall (fun v => 0 <= v <= 2 * wsum g wts + 2 * wmax wts \/ 0 <= v <= total)
              (snd (mcb_sva_signed_Z_tr g wts roots eord))
    /\ forall M, 2 * wsum g wts + 2 * wmax wts <= M -> total <= M ->
         Forall (fun v => 0 <= v <= M) (snd (mcb_sva_signed_Z_tr g wts roots eord)).
Proof.
  intros g wts roots eord Hs Hpw Hr.
  destruct (C02_signed g wts roots eord Hs Hpw Hr) as (cycles & total & sup & Erun & Hmin & Etot).
  destruct (C01_signed g wts roots eord Hs Hpw Hr) as (cycles' & total' & sup' & Erun' & _ & Hdim).
  rewrite Erun in Erun'. injection Erun' as <- <- <-.
  exists cycles, total, sup. split; [exact Erun|]. split; [apply ov_mcb_erase|].
  split; [exact Hmin|]. split; [exact Hdim|]. split; [exact Etot|].
  destruct Hmin as [Hcb Hle]. pose proof Hcb as (Hsc & _ & _).
  split.
  { intros B' [Hcb' Hle']. specialize (Hle B' Hcb'). specialize (Hle' cycles Hcb). lia. }
  split.
  { eapply Forall_impl; [|exact Hsc]. cbv beta. intros c Hc. apply ov_simple_cycle_weight; assumption. }
  pose proof (ov_total_weight_le g wts Hpw cycles Hsc) as Htw. rewrite <- Etot in Htw.
  split; [exact Htw|].
  destruct (ov_mcb_tr g wts Hs Hpw roots eord) as [_ H2].
  assert (Hfst : fst (mcb_sva_signed_Z_tr g wts roots eord) = SvaOk cycles total sup)
    by (rewrite ov_mcb_erase; exact Erun).
  specialize (H2 cycles total sup Hfst).
  split; [exact H2|].
  intros M HM1 HM2. eapply Forall_impl; [|exact H2]. cbv beta. unfold inrange. intros v [Hv|Hv]; lia.
Qed.

(* the same precondition in the coarse form  max(4, N) * S <= M *)
Corollary ov_overflow_total_coarse : forall (g : graph) (wts : list Z) (roots eord : list nat) (M : Z),
  simple_graph g -> positive_weights g wts -> (forall v, (v < nv g)%nat -> In v roots) ->
  exists cycles total sup,
    mcb_sva_signed_Z g wts roots eord = SvaOk cycles total sup
    /\ has_cycle_space_dimension g (length cycles)
    /\ (Z.max 4 (Z.of_nat (length cycles)) * wsum g wts <= M ->
        Forall (fun v => 0 <= v <= M) (snd (mcb_sva_signed_Z_tr g wts roots eord)) /\ total <= M).
Proof.
  intros g wts roots eord M Hs Hpw Hr.
  destruct (ov_overflow_total g wts roots eord Hs Hpw Hr)
    as (cycles & total & sup & Erun & _ & _ & Hdim & _ & _ & _ & Htot & _ & HM).
  exists cycles, total, sup. split; [exact Erun|]. split; [exact Hdim|].
  intros Hle. pose proof (ov_wmax_le_wsum g wts Hpw). pose proof (ov_wsum_nonneg g wts Hpw).
  assert (total <= M) by nia. split; [apply HM; [nia|assumption]|assumption].
Qed.

(* NOT PROVED (kept as an unasserted statement): the sharper bound on the returned total through the fundamental
   cycle basis of a spanning forest F — each of the N fundamental cycles is its off-forest edge plus forest edges, so
   their total weight is at most  S - w(F) + N * w(F),  and a minimum cycle basis weighs no more.  What is missing is
   the fact that the fundamental cycles of a spanning forest form a cycle basis (McbSpec.cycle_basis: independent and
   spanning), which no file of this development proves; ov_overflow_total gives  total <= N * S  instead. *)
Definition ov_total_fundamental_stmt : Prop :=
  forall (g : graph) (wts : list Z) (B : list (list nat)) (Fo : list nat),
    simple_graph g -> positive_weights g wts -> min_cycle_basis g wts B -> spanning_forest_of g Fo ->
    total_weight wts B <= wsum g wts + (Z.of_nat (length B) - 1) * weight wts Fo.
