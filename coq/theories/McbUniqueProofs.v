(* McbUniqueProofs.v — the weight vector of a minimum cycle basis is unique (third sentence of C02).

     depina_injection              the exchange argument of DePinaProofs.depina_min, strengthened to an
                                   INJECTION: for a run (Ss, Cs) of de Pina's scheme and any spanning family
                                   B' taken from the class, there is a duplicate-free list ps of positions of
                                   B', one per cycle of the run, with  w(C_k) <= w(B'_{ps_k})  for every k.
     zl_perm_of_injection          counting: such an injection into a family of positive numbers whose sum
                                   is not larger is a bijection, and the two lists of numbers are permutations
                                   of each other.
     weight_pos                    a simple cycle has positive weight (positive edge weights).
     scheme_run_exists             every simple graph with positive weights has a run of the scheme with
                                   per-phase minimum odd cycles (the verified reference algorithm ref_mcb).
     mcb_weight_multiset_unique    two minimum cycle bases of the same graph have the same multiset of
                                   cycle weights (Permutation of the weight lists).
     mcb_sorted_weights_unique     … equivalently: the sorted lists of cycle weights are EQUAL.
     C02_signed_sorted_lemma       the cycles returned by the model mcb_sva_signed_Z have the weight
                                   multiset / sorted weight list of EVERY minimum cycle basis.

   No dimension theory is used (the bijection comes out of the weight accounting).  No axioms. *)
From Coq Require Import List Arith Bool ZArith Lia Permutation Sorted Orders Mergesort.
From Parmcb Require Import GF2Model GF2Proofs GraphModel GraphSpec GF2Lin McbSpec DePinaSpec DePinaProofs
  GraphLemmas ForestModel SvaModel SvaSpec SvaProofs RefModel RefProofs3 RefProofs4
  SignedModel SignedZModel BidirProofs5.
Import ListNotations.

(* ---- lists of integers ---------------------------------------------------------------------------- *)

Definition zsum (l : list Z) : Z := fold_right Z.add 0%Z l.

Lemma zsum_app a b : zsum (a ++ b) = (zsum a + zsum b)%Z.
Proof. unfold zsum. induction a as [|x a IH]; cbn [app fold_right]; [lia|]. rewrite IH. lia. Qed.

Lemma zsum_perm a b : Permutation a b -> zsum a = zsum b.
Proof.
  intros H. induction H as [|x a b H IH|x y a|a b c H1 IH1 H2 IH2]; unfold zsum in *; cbn [fold_right]; lia.
Qed.

Lemma zsum_pos_nonneg l : Forall (fun x => (0 < x)%Z) l -> (0 <= zsum l)%Z.
Proof.
  intros H. induction H as [|x l Hx Hl IH]; unfold zsum in *; cbn [fold_right]; lia.
Qed.

(* a sum of positive numbers that is <= 0 is the empty sum *)
Lemma zsum_pos_zero l : Forall (fun x => (0 < x)%Z) l -> (zsum l <= 0)%Z -> l = [].
Proof.
  intros H Hs. destruct H as [|x l Hx Hl]; [reflexivity|exfalso].
  pose proof (zsum_pos_nonneg l Hl) as H0. unfold zsum in *. cbn [fold_right] in Hs. lia.
Qed.

(* pointwise <= gives <= of the sums … *)
Lemma zsum_Forall2_le a b : Forall2 Z.le a b -> (zsum a <= zsum b)%Z.
Proof.
  intros H. induction H as [|x y a b Hxy H IH]; unfold zsum in *; cbn [fold_right]; lia.
Qed.

(* … and with equal sums the lists are equal *)
Lemma zsum_Forall2_eq a b : Forall2 Z.le a b -> (zsum b <= zsum a)%Z -> a = b.
Proof.
  intros H. induction H as [|x y a b Hxy H IH]; intros Hs; [reflexivity|].
  pose proof (zsum_Forall2_le a b H) as Hle. unfold zsum in *. cbn [fold_right] in Hs.
  assert (x = y) by lia. subst y. f_equal. apply IH. lia.
Qed.

(* reading a list through all of its positions *)
Lemma zl_map_nth_seq {A} (d : A) (b : list A) : map (fun p => nth p b d) (seq 0 (length b)) = b.
Proof.
  induction b as [|x b IH]; [reflexivity|]. cbn [length seq map nth]. f_equal.
  rewrite <- seq_shift, map_map. cbn [nth]. exact IH.
Qed.

Lemma zl_NoDup_app {A} (l1 l2 : list A) :
  NoDup l1 -> NoDup l2 -> (forall x, In x l1 -> ~ In x l2) -> NoDup (l1 ++ l2).
Proof.
  induction l1 as [|x l1 IH]; intros H1 H2 Hd; [exact H2|].
  inversion H1 as [|x' l1' Hx H1']; subst. cbn [app]. constructor.
  - rewrite in_app_iff. intros [H|H]; [contradiction|]. apply (Hd x); [left; reflexivity|exact H].
  - apply IH; auto. intros y Hy. apply Hd. right. exact Hy.
Qed.

(* a duplicate-free list of positions below m, completed by the positions it misses, is a permutation of
   all the positions *)
Lemma zl_positions_split ps m : NoDup ps -> (forall p, In p ps -> p < m) ->
  Permutation (seq 0 m) (ps ++ filter (fun i => negb (existsb (Nat.eqb i) ps)) (seq 0 m)).
Proof.
  intros Hnd Hlt. set (rest := filter (fun i => negb (existsb (Nat.eqb i) ps)) (seq 0 m)).
  assert (Hrest : forall i, In i rest <-> i < m /\ ~ In i ps).
  { intros i. unfold rest. rewrite filter_In, in_seq, negb_true_iff. split.
    - intros (Hi & He). split; [lia|]. intros Hin.
      assert (Ht : existsb (Nat.eqb i) ps = true).
      { apply existsb_exists. exists i. split; [exact Hin|apply Nat.eqb_refl]. }
      rewrite Ht in He. discriminate.
    - intros (Hi & Hn). split; [lia|]. destruct (existsb (Nat.eqb i) ps) eqn:E; [|reflexivity].
      apply existsb_exists in E as (x & Hx & Ex). apply Nat.eqb_eq in Ex. subst x. contradiction. }
  apply NoDup_Permutation.
  - apply seq_NoDup.
  - apply zl_NoDup_app; [exact Hnd|apply NoDup_filter, seq_NoDup|].
    intros x Hx Hr. apply Hrest in Hr. tauto.
  - intros i. rewrite in_seq, in_app_iff, Hrest. split.
    + intros Hi. destruct (in_dec Nat.eq_dec i ps) as [Hin|Hn]; [left; exact Hin|right; split; [lia|exact Hn]].
    + intros [Hin|(Hi & _)]; [apply Hlt in Hin; lia|lia].
Qed.

(* the counting argument: an injection ps of the positions of a into the positions of b that does not
   decrease the entries, all entries of b positive, sum b <= sum a: the lists are permutations of each other *)
Lemma zl_perm_of_injection (a b : list Z) (ps : list nat) :
  NoDup ps -> (forall p, In p ps -> p < length b) ->
  Forall2 (fun x p => (x <= nth p b 0)%Z) a ps ->
  Forall (fun x => (0 < x)%Z) b -> (zsum b <= zsum a)%Z ->
  Permutation a b.
Proof.
  intros Hnd Hlt Hle Hpos Hsum.
  set (f := fun p => nth p b 0%Z).
  set (rest := filter (fun i => negb (existsb (Nat.eqb i) ps)) (seq 0 (length b))).
  pose proof (zl_positions_split ps (length b) Hnd Hlt) as Hperm. fold rest in Hperm.
  assert (Hb : Permutation b (map f ps ++ map f rest)).
  { rewrite <- map_app. rewrite <- (zl_map_nth_seq 0%Z b) at 1. apply Permutation_map. exact Hperm. }
  assert (Hle' : Forall2 Z.le a (map f ps)).
  { clear -Hle. induction Hle as [|x p a ps Hxp H IH]; cbn [map]; constructor; auto. }
  pose proof (zsum_Forall2_le _ _ Hle') as H1.
  pose proof (zsum_perm _ _ Hb) as H2. rewrite zsum_app in H2.
  assert (Hrpos : Forall (fun x => (0 < x)%Z) (map f rest)).
  { apply Forall_forall. intros x Hx. apply in_map_iff in Hx as (i & <- & Hi).
    unfold rest in Hi. apply filter_In in Hi as (Hi & _). apply in_seq in Hi.
    rewrite Forall_forall in Hpos. apply Hpos. unfold f. apply nth_In. lia. }
  assert (Hr0 : map f rest = []) by (apply zsum_pos_zero; [exact Hrpos|lia]).
  rewrite Hr0, app_nil_r in Hb. rewrite Hr0 in H2. unfold zsum at 3 in H2. cbn [fold_right] in H2.
  assert (Ea : a = map f ps) by (apply zsum_Forall2_eq; [exact Hle'|lia]).
  rewrite Ea. symmetry. exact Hb.
Qed.

(* ---- the injection form of de Pina's exchange argument -------------------------------------------- *)

Section Injection.
  Variable inV : vec -> Prop.
  Variable pair : vec -> vec -> bool.
  Hypothesis Hsub : subspace inV.
  Hypothesis Hlin : pair_linear inV pair.
  Variable cls : vec -> Prop.
  Variable w : list Z.

  Lemma mu_firstn_S (Cs : list vec) : forall k, k < length Cs ->
    firstn (S k) Cs = firstn k Cs ++ [nth k Cs []].
  Proof.
    induction Cs as [|C Cs IH]; intros k Hk; [cbn [length] in Hk; lia|]. cbn [length] in Hk.
    destruct k as [|k]; [reflexivity|]. rewrite (firstn_cons (S k)), (firstn_cons k), IH by lia. reflexivity.
  Qed.

  (* after k exchanges: the working list L has the length of B'; the positions in ps (the exchanged ones,
     in the order of the exchanges) hold C_0..C_{k-1}, the others still hold the member of B' *)
  Lemma depina_exchange_inj Ss Cs B' :
    Forall inV Cs -> triangular pair Ss Cs ->
    (forall k D, k < length Cs -> cls D -> inV D -> pair (nth k Ss []) D = true ->
                 (weight w (nth k Cs []) <= weight w D)%Z) ->
    Forall cls B' -> Forall inV B' -> spans inV B' ->
    forall k, k <= length Cs -> exists (L : list vec) (ps : list nat),
      length L = length B' /\ spans inV L /\ Forall inV L /\
      (forall i, i < length L -> ~ In i ps -> nth i L [] = nth i B' []) /\
      (forall i, In i ps -> i < length B' /\ exists j, j < k /\ nth i L [] = nth j Cs []) /\
      NoDup ps /\
      Forall2 (fun C p => (weight w C <= weight w (nth p B' []))%Z) (firstn k Cs) ps.
  Proof.
    intros HCs (Hlen & Hdiag & Hlow) Hmin Hcls HBV Hsp.
    induction k as [|k IH]; intros Hk.
    - exists B', []. split; [reflexivity|]. split; [exact Hsp|]. split; [exact HBV|].
      split; [reflexivity|]. split; [intros i []|]. split; [constructor|]. cbn [firstn]. constructor.
    - destruct IH as (L & ps & HlenL & HspL & HLV & Hun & Hmk & Hnd & Hw); [lia|].
      assert (Hk' : k < length Cs) by lia.
      assert (HCk : inV (nth k Cs [])).
      { rewrite Forall_forall in HCs. apply HCs, nth_In. exact Hk'. }
      destruct (HspL _ HCk) as (mc & Hmc & Hcomb).
      assert (Hodd : pair (nth k Ss []) (comb mc L) = true) by (rewrite Hcomb; apply Hdiag; exact Hk').
      destruct (dp_pair_comb_odd inV pair Hsub Hlin _ _ _ HLV Hodd) as (i & Hi & Hmi & Hpi).
      destruct (in_dec Nat.eq_dec i ps) as [Hin|Hnin].
      + exfalso. destruct (Hmk i Hin) as (_ & j & Hj & Ej). rewrite Ej, Hlow in Hpi by lia. discriminate.
      + pose proof (Hun i Hi Hnin) as Ei.
        assert (HiB : i < length B') by lia.
        assert (HinB : In (nth i B' []) B') by (apply nth_In; exact HiB).
        assert (Hle : (weight w (nth k Cs []) <= weight w (nth i B' []))%Z).
        { apply Hmin; [exact Hk'| | |rewrite <- Ei; exact Hpi].
          - rewrite Forall_forall in Hcls. apply Hcls. exact HinB.
          - rewrite Forall_forall in HBV. apply HBV. exact HinB. }
        exists (GF2Lin.set_nth L i (nth k Cs [])), (ps ++ [i]).
        split; [rewrite set_nth_length; exact HlenL|]. split; [|split; [|split; [|split; [|split]]]].
        * apply exchange_nth with (mc := mc); auto. apply (dp_Forall_sorted inV Hsub). exact HLV.
        * apply dp_Forall_set_nth; assumption.
        * intros i' Hi' Hn'. rewrite set_nth_length in Hi'. rewrite in_app_iff in Hn'.
          rewrite nth_set_nth by exact Hi. destruct (Nat.eqb_spec i' i) as [->|Hne].
          -- exfalso. apply Hn'. right. left. reflexivity.
          -- apply Hun; [exact Hi'|]. intros H. apply Hn'. left. exact H.
        * intros i' Hi'. rewrite nth_set_nth by exact Hi. apply in_app_iff in Hi' as [Hi'|[<-|[]]].
          -- destruct (Hmk i' Hi') as (Hlt & j & Hj & Ej). split; [exact Hlt|].
             destruct (Nat.eqb_spec i' i) as [->|Hne]; [contradiction|].
             exists j. split; [lia|exact Ej].
          -- split; [exact HiB|]. rewrite Nat.eqb_refl. exists k. split; [lia|reflexivity].
        * apply zl_NoDup_app; [exact Hnd|repeat constructor; intros []|].
          intros x Hx [<-|[]]. contradiction.
        * rewrite mu_firstn_S by exact Hk'. apply Forall2_app; [exact Hw|]. constructor; [exact Hle|constructor].
  Qed.

  (* the injection: one position of B' per cycle of the run, all different, each at least as heavy *)
  Lemma depina_injection_abs Ss Cs B' :
    Forall inV Cs -> triangular pair Ss Cs ->
    (forall k D, k < length Cs -> cls D -> inV D -> pair (nth k Ss []) D = true ->
                 (weight w (nth k Cs []) <= weight w D)%Z) ->
    Forall cls B' -> Forall inV B' -> spans inV B' ->
    exists ps : list nat,
      NoDup ps /\ (forall p, In p ps -> p < length B') /\
      Forall2 (fun C p => (weight w C <= weight w (nth p B' []))%Z) Cs ps.
  Proof.
    intros HCs HT Hmin Hcls HBV Hsp.
    destruct (depina_exchange_inj Ss Cs B' HCs HT Hmin Hcls HBV Hsp (length Cs) (le_n _))
      as (L & ps & _ & _ & _ & _ & Hmk & Hnd & Hw).
    rewrite firstn_all in Hw. exists ps. split; [exact Hnd|]. split; [|exact Hw].
    intros p Hp. apply (Hmk p Hp).
  Qed.
End Injection.

Definition depina_injection_stmt : Prop :=
  forall (inV : vec -> Prop) (pair : vec -> vec -> bool) (cls : vec -> Prop) (w : list Z)
         (Ss Cs B' : list vec),
    subspace inV -> pair_linear inV pair -> Forall inV Cs -> triangular pair Ss Cs ->
    (forall k D, k < length Cs -> cls D -> inV D -> pair (nth k Ss []) D = true ->
                 (weight w (nth k Cs []) <= weight w D)%Z) ->
    Forall cls B' -> Forall inV B' -> spans inV B' ->
    exists ps : list nat,
      length ps = length Cs /\ NoDup ps /\ (forall p, In p ps -> p < length B') /\
      (forall k, k < length Cs -> (weight w (nth k Cs []) <= weight w (nth (nth k ps 0%nat) B' []))%Z).

Lemma mu_Forall2_nth {A B} (R : A -> B -> Prop) (l : list A) (l' : list B) da db :
  Forall2 R l l' -> forall k, k < length l -> R (nth k l da) (nth k l' db).
Proof.
  intros H. induction H as [|x y l l' Hxy H IH]; intros k Hk; [cbn [length] in Hk; lia|].
  destruct k as [|k]; cbn [nth]; [exact Hxy|]. apply IH. cbn [length] in Hk. lia.
Qed.

Lemma mu_Forall2_length {A B} (R : A -> B -> Prop) (l : list A) (l' : list B) :
  Forall2 R l l' -> length l = length l'.
Proof. intros H. induction H as [|x y l l' Hxy H IH]; cbn [length]; [reflexivity|]. rewrite IH. reflexivity. Qed.

Theorem depina_injection : depina_injection_stmt.
Proof.
  intros inV pair cls w Ss Cs B' Hsub Hlin HCs HT Hmin Hcls HBV Hsp.
  destruct (depina_injection_abs inV pair Hsub Hlin cls w Ss Cs B' HCs HT Hmin Hcls HBV Hsp)
    as (ps & Hnd & Hlt & Hw).
  exists ps. split; [symmetry; eapply mu_Forall2_length; exact Hw|]. split; [exact Hnd|]. split; [exact Hlt|].
  intros k Hk. exact (mu_Forall2_nth _ _ _ [] 0 Hw k Hk).
Qed.

(* ---- weights of simple cycles are positive -------------------------------------------------------- *)

Lemma weight_pos g w C : positive_weights g w -> simple_cycle g C -> (0 < weight w C)%Z.
Proof.
  intros Hpw (Hne & _ & x & p & Hw & _ & _ & HE).
  destruct C as [|e C]; [contradiction|].
  assert (He : e < ne g).
  { eapply gl_walk_edges_lt; [exact Hw|]. apply HE. left. reflexivity. }
  pose proof (weight_nonneg g w C Hpw) as H0.
  unfold weight in *. cbn [map fold_right].
  assert (Hwe : (0 < wt w e)%Z).
  { destruct Hpw as (Hl & Hall). unfold wt. rewrite Forall_forall in Hall. apply Hall, nth_In. lia. }
  lia.
Qed.

(* ---- the counting step on cycle families ---------------------------------------------------------- *)

Lemma total_weight_zsum w B : total_weight w B = zsum (map (weight w) B).
Proof. reflexivity. Qed.

Lemma mu_weight_nil w : weight w [] = 0%Z.
Proof. reflexivity. Qed.

(* a run of the scheme against a spanning family of simple cycles that is not heavier: same weight multiset *)
Lemma scheme_weights_perm g w (pair : vec -> vec -> bool) (Ss Cs B' : list vec) :
  simple_graph g -> positive_weights g w ->
  pair_linear (in_cycle_space g) pair ->
  Forall (simple_cycle g) Cs -> triangular pair Ss Cs ->
  (forall k D, k < length Cs -> simple_cycle g D -> pair (nth k Ss []) D = true ->
               (weight w (nth k Cs []) <= weight w D)%Z) ->
  Forall (simple_cycle g) B' -> spans (in_cycle_space g) B' ->
  (total_weight w B' <= total_weight w Cs)%Z ->
  Permutation (map (weight w) Cs) (map (weight w) B').
Proof.
  intros Hs Hpw Hlin HCs HT Hmin HB' Hsp Htot.
  assert (Hsc : forall L, Forall (simple_cycle g) L -> Forall (in_cycle_space g) L).
  { intros L HL. eapply Forall_impl; [|exact HL]. intros D HD.
    apply simple_cycle_in_cycle_space; assumption. }
  assert (Hmin' : forall k D, k < length Cs -> simple_cycle g D -> in_cycle_space g D ->
            pair (nth k Ss []) D = true -> (weight w (nth k Cs []) <= weight w D)%Z).
  { intros k D Hk HD _ Hp. apply Hmin; assumption. }
  destruct (depina_injection_abs (in_cycle_space g) pair (cycle_space_subspace g) Hlin (simple_cycle g) w
              Ss Cs B' (Hsc _ HCs) HT Hmin' HB' (Hsc _ HB') Hsp) as (ps & Hnd & Hlt & Hw).
  apply (zl_perm_of_injection _ _ ps).
  - exact Hnd.
  - intros p Hp. rewrite map_length. apply Hlt. exact Hp.
  - clear -Hw. induction Hw as [|C p Cs ps HCp H IH]; cbn [map]; constructor; [|exact IH].
    rewrite <- (mu_weight_nil w), map_nth. exact HCp.
  - apply Forall_forall. intros x Hx. apply in_map_iff in Hx as (D & <- & HD).
    rewrite Forall_forall in HB'. eapply weight_pos; [exact Hpw|apply HB'; exact HD].
  - rewrite <- !total_weight_zsum. exact Htot.
Qed.

(* ---- a run of the scheme exists: the verified reference algorithm --------------------------------- *)

Lemma scheme_run_exists g wts : simple_graph g -> positive_weights g wts ->
  exists (pair : vec -> vec -> bool) (Ss Cs : list vec),
    pair_linear (in_cycle_space g) pair /\ Forall (simple_cycle g) Cs /\ triangular pair Ss Cs /\
    (forall k D, k < length Cs -> simple_cycle g D -> pair (nth k Ss []) D = true ->
                 (weight wts (nth k Cs []) <= weight wts D)%Z) /\
    min_cycle_basis g wts Cs.
Proof.
  intros Hs Hpw. set (roots := seq 0 (nv g)).
  assert (Hr : forall v, v < nv g -> In v roots) by (intros v Hv; apply in_seq; lia).
  destruct (rf_ref_mcb_total_from sva_generic_total g wts roots Hs Hpw Hr) as (Cs & tot & sup & Hrun).
  pose proof (rf_ref_mcb_correct_from sva_generic_min g wts roots Cs tot sup Hs Hpw Hr Hrun) as (Hmcb & _ & _).
  unfold ref_mcb in Hrun. destruct (create_index g roots) as [fi|] eqn:Hci; [|discriminate].
  pose proof (search_min_weaken g wts fi _ (rf_ref_phase_min g wts roots fi Hs Hpw Hr Hci)) as Hmin.
  pose proof (search_min_c_sound g wts fi _ Hs Hmin) as Hsnd.
  pose proof (sva_run_inv g fi Z 0%Z Z.add select_none _ Cs tot sup (rf_select_none_ok _) Hsnd Hrun) as I.
  destruct (sva_inv_final g roots fi Hs Hr Hci Z _ Hsnd sup Cs I) as (Hl & _ & _ & HT & _).
  assert (Hmoc : forall k, k < length Cs ->
            min_odd_cycle g wts (fun D => pairing fi (nth k sup []) D = true) (nth k Cs [])).
  { intros k Hk. assert (Hk' : k < fi_csd fi) by (rewrite <- Hl; exact Hk).
    destruct (inv_found _ _ _ _ _ _ I k Hk') as (x & Hsr).
    apply (Hmin _ _ _ _ (sva_inv_row _ _ _ _ _ _ k I Hk') Hsr). }
  exists (pairing fi), sup, Cs. split; [exact (pairing_linear_cs g roots fi Hs Hr Hci)|].
  split; [|split; [exact HT|split; [|exact Hmcb]]].
  - apply Forall_forall. intros C HC. apply (In_nth _ _ []) in HC as (k & Hk & <-).
    destruct (Hmoc k Hk) as (Hsc & _). exact Hsc.
  - intros k D Hk HD Hp. destruct (Hmoc k Hk) as (_ & _ & Hm). apply Hm; assumption.
Qed.

(* ---- the theorem ---------------------------------------------------------------------------------- *)

Theorem mcb_weight_multiset_unique : forall g wts B B',
  simple_graph g -> positive_weights g wts ->
  min_cycle_basis g wts B -> min_cycle_basis g wts B' ->
  Permutation (map (weight wts) B) (map (weight wts) B').
Proof.
  intros g wts B B' Hs Hpw HB HB'.
  destruct (scheme_run_exists g wts Hs Hpw) as (pair & Ss & Cs & Hlin & HCs & HT & Hmin & (HCb & _)).
  assert (Hone : forall X, min_cycle_basis g wts X ->
            Permutation (map (weight wts) Cs) (map (weight wts) X)).
  { intros X ((HXs & _ & HXsp) & HXmin).
    apply (scheme_weights_perm g wts pair Ss Cs X); auto. }
  apply Permutation_trans with (l' := map (weight wts) Cs); [symmetry; apply Hone; exact HB|apply Hone; exact HB'].
Qed.

(* ---- the sorted form: the sorted weight lists are EQUAL ------------------------------------------- *)

Module ZLeOrder <: TotalLeBool.
  Definition t := Z.
  Definition leb := Z.leb.
  Lemma leb_total : forall x y, leb x y = true \/ leb y x = true.
  Proof. intros x y. unfold leb. destruct (Z.leb_spec x y); [left; reflexivity|right; apply Z.leb_le; lia]. Qed.
End ZLeOrder.
Module ZSort := Mergesort.Sort ZLeOrder.

(* the sorted list of the weights of the cycles of a family *)
Definition sorted_weights (w : list Z) (B : list vec) : list Z := ZSort.sort (map (weight w) B).

Lemma mu_sorted_perm_eq (a b : list Z) :
  StronglySorted Z.le a -> StronglySorted Z.le b -> Permutation a b -> a = b.
Proof.
  intros Ha. revert b. induction Ha as [|x a Ha IH Hx]; intros b Hb Hp.
  - apply Permutation_nil in Hp. symmetry. exact Hp.
  - destruct Hb as [|y b Hb Hy]; [apply Permutation_sym, Permutation_nil in Hp; discriminate|].
    assert (Exy : x = y).
    { assert (Hxin : In x (y :: b)) by (eapply Permutation_in; [exact Hp|left; reflexivity]).
      assert (Hyin : In y (x :: a)) by (eapply Permutation_in; [symmetry; exact Hp|left; reflexivity]).
      rewrite Forall_forall in Hx, Hy.
      destruct Hxin as [E|Hxb]; [symmetry; exact E|]. destruct Hyin as [E|Hya]; [exact E|].
      pose proof (Hx _ Hya). pose proof (Hy _ Hxb). lia. }
    subst y. f_equal. apply IH; [exact Hb|]. eapply Permutation_cons_inv. exact Hp.
Qed.

Lemma mu_sort_sorted (l : list Z) : StronglySorted Z.le (ZSort.sort l).
Proof.
  pose proof (ZSort.StronglySorted_sort l) as H.
  assert (Htr : Relations_1.Transitive (fun x y => is_true (ZLeOrder.leb x y))).
  { intros x y z Hxy Hyz. unfold is_true, ZLeOrder.leb in *. rewrite Z.leb_le in *. lia. }
  specialize (H Htr). clear Htr.
  induction H as [|x l0 H IH Hx]; constructor; [exact IH|].
  eapply Forall_impl; [|exact Hx]. intros y Hy. unfold is_true, ZLeOrder.leb in Hy. apply Z.leb_le. exact Hy.
Qed.

Lemma mu_sort_eq_iff_perm (a b : list Z) : ZSort.sort a = ZSort.sort b <-> Permutation a b.
Proof.
  split.
  - intros E. eapply Permutation_trans; [apply ZSort.Permuted_sort|]. rewrite E.
    symmetry. apply ZSort.Permuted_sort.
  - intros Hp. apply mu_sorted_perm_eq; try apply mu_sort_sorted.
    eapply Permutation_trans; [symmetry; apply ZSort.Permuted_sort|].
    eapply Permutation_trans; [exact Hp|apply ZSort.Permuted_sort].
Qed.

Theorem mcb_sorted_weights_unique : forall g wts B B',
  simple_graph g -> positive_weights g wts ->
  min_cycle_basis g wts B -> min_cycle_basis g wts B' ->
  sorted_weights wts B = sorted_weights wts B'.
Proof.
  intros g wts B B' Hs Hpw HB HB'. unfold sorted_weights. apply mu_sort_eq_iff_perm.
  eapply mcb_weight_multiset_unique; eauto.
Qed.

(* ---- the corollary for the model of the code (signed variant, Z weights) -------------------------- *)

(* every successful run: the emitted cycles carry the weight multiset of EVERY minimum cycle basis *)
Theorem C02_signed_sorted_any_lemma :
  forall (g : graph) (wts : list Z) (roots eord : list nat) cycles total sup,
    simple_graph g -> positive_weights g wts -> (forall v, v < nv g -> In v roots) ->
    mcb_sva_signed_Z g wts roots eord = SvaOk cycles total sup ->
    forall B', min_cycle_basis g wts B' ->
      Permutation (map (weight wts) cycles) (map (weight wts) B')
      /\ sorted_weights wts cycles = sorted_weights wts B'.
Proof.
  intros g wts roots eord cycles total sup Hs Hpw Hr Hrun B' HB'.
  destruct (BidirProofs5.C02_signed g wts roots eord Hs Hpw Hr) as (c & t & s & Hrun' & Hmcb & _).
  rewrite Hrun in Hrun'. injection Hrun' as <- _ _.
  split; [eapply mcb_weight_multiset_unique|eapply mcb_sorted_weights_unique]; eauto.
Qed.

(* … and the run always succeeds (C02_signed), so: *)
Theorem C02_signed_sorted_lemma :
  forall (g : graph) (wts : list Z) (roots eord : list nat),
    simple_graph g -> positive_weights g wts -> (forall v, v < nv g -> In v roots) ->
    exists cycles total sup,
      mcb_sva_signed_Z g wts roots eord = SvaOk cycles total sup
      /\ min_cycle_basis g wts cycles /\ total = total_weight wts cycles
      /\ forall B', min_cycle_basis g wts B' ->
           Permutation (map (weight wts) cycles) (map (weight wts) B')
           /\ sorted_weights wts cycles = sorted_weights wts B'.
Proof.
  intros g wts roots eord Hs Hpw Hr.
  destruct (BidirProofs5.C02_signed g wts roots eord Hs Hpw Hr) as (c & t & s & Hrun & Hmcb & Ht).
  exists c, t, s. split; [exact Hrun|]. split; [exact Hmcb|]. split; [exact Ht|].
  intros B' HB'. split; [eapply mcb_weight_multiset_unique|eapply mcb_sorted_weights_unique]; eauto.
Qed.

Print Assumptions depina_injection.
Print Assumptions C02_signed_sorted_any_lemma.
Print Assumptions C02_signed_sorted_lemma.
Print Assumptions mcb_weight_multiset_unique.
Print Assumptions mcb_sorted_weights_unique.
