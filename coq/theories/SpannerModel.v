(* SpannerModel.v — executable model of parmcb::is_bfs_reachable (include/parmcb/detail/bfs.hpp) and
   BaseApproxSpannerAlgorithm::construct_spanner (include/parmcb/detail/approx_spanner.hpp).
   Definitions only; proofs in SpannerProofs.v.

   Nondeterminism: std::sort by weight returns *some* weight-sorted permutation of the edges; the
   oracle `scan` is that permutation (theorems quantify over all of them). *)
From Coq Require Export ZArith.
From Parmcb Require Export GraphModel.

(* max_hops = 2 * k - 1 in size_t arithmetic; for k = 0 it wraps to SIZE_MAX, i.e. no bound at all
   (hop distances are < nv <= SIZE_MAX), modelled as None *)
Definition max_hops (k : nat) : option nat := if Nat.eqb k 0 then None else Some (2 * k - 1).

Definition exceeds (d : nat) (mh : option nat) : bool :=
  match mh with None => false | Some h => Nat.ltb h d end.

(* the for-loop over out_edges(u): state = (dist, queue); dist[v] = None means "not visited" *)
Definition reach_step (s u du : nat) (st : list (option nat) * list nat) (ew : nat * nat)
  : list (option nat) * list nat :=
  let '(dist, q) := st in
  let w := snd ew in
  if Nat.eqb w u then st                      (* self-loop *)
  else if Nat.eqb w s then st
  else match nth w dist None with
       | Some _ => st                         (* visited *)
       | None => (set_nth dist w (Some (S du)), q ++ [w])
       end.

Fixpoint reach_loop (fuel : nat) (g : graph) (s t : nat) (mh : option nat)
         (dist : list (option nat)) (q : list nat) : option bool :=
  match fuel with
  | O => None
  | S f =>
      match q with
      | [] => Some false
      | u :: q' =>
          match nth u dist None with
          | None => None                      (* unreachable: queued vertices have a distance *)
          | Some du =>
              if exceeds du mh then Some false
              else if Nat.eqb u t then Some true
              else
                let '(dist', q'') := fold_left (reach_step s u du) (out_edges g u) (dist, q') in
                reach_loop f g s t mh dist' q''
          end
      end
  end.

Definition is_bfs_reachable (g : graph) (s t : nat) (mh : option nat) : option bool :=
  reach_loop (S (nv g)) g s t mh
             (set_nth (map (fun _ => None) (seq 0 (nv g))) s (Some 0)) [s].

(* construct_spanner: the spanner's edge i is the i-th retained input edge, with the same endpoint
   order (add_edge(spanner_v, spanner_u)); `retained` doubles as the map _edge_spanner_to_g,
   `dropped` is _non_spanner_edges. *)
Record spanner := { sp_graph : graph; retained : list nat; dropped : list nat }.

Inductive sp_result := SpOk (sp : spanner) | SpSelfLoop | SpBadEdge | SpOutOfFuel.

Fixpoint build_spanner (g : graph) (mh : option nat) (scan : list nat) (sp : spanner) : sp_result :=
  match scan with
  | [] => SpOk sp
  | e :: scan' =>
      match ends g e with
      | None => SpBadEdge
      | Some (v, u) =>
          if Nat.eqb v u then SpSelfLoop      (* throw std::runtime_error("Self loops?") *)
          else
            match is_bfs_reachable (sp_graph sp) v u mh with
            | None => SpOutOfFuel
            | Some false =>
                build_spanner g mh scan'
                  {| sp_graph := {| nv := nv g; ge := ge (sp_graph sp) ++ [(v, u)] |};
                     retained := retained sp ++ [e]; dropped := dropped sp |}
            | Some true =>
                build_spanner g mh scan'
                  {| sp_graph := sp_graph sp; retained := retained sp; dropped := dropped sp ++ [e] |}
            end
      end
  end.

Definition construct_spanner (g : graph) (k : nat) (scan : list nat) : sp_result :=
  build_spanner g (max_hops k) scan
                {| sp_graph := {| nv := nv g; ge := [] |}; retained := []; dropped := [] |}.

(* the spanner's weight map after the repair of D6: edge i of the spanner carries the weight of the
   input edge it was copied from *)
Definition spanner_weights (w : list Z) (sp : spanner) : list Z :=
  map (fun e => nth e w 0%Z) (retained sp).

(* a stable weight-sorted scan order (insertion sort by weight, ties by edge id): one legal resolution
   of std::sort, used by whole-algorithm models *)
Fixpoint insert_by_weight (w : list Z) (e : nat) (l : list nat) : list nat :=
  match l with
  | [] => [e]
  | x :: r => if Z.leb (nth e w 0%Z) (nth x w 0%Z) then e :: l else x :: insert_by_weight w e r
  end.
Definition stable_scan (w : list Z) (m : nat) : list nat :=
  fold_right (insert_by_weight w) [] (seq 0 m).

(* the scan order recovered from what the implementation retained and dropped (formerly recover_scan of
   tools/props/c15.py, now executed here: kind M of the model driver takes RET and DROP as observed and merges
   them itself): weight-sorted merge of the retained and the dropped sequence, retained first on ties
     while i < len(ret) or j < len(drop):
       if j >= len(drop) or (i < len(ret) and w[ret[i]] <= w[drop[j]]): take ret[i]  else: take drop[j]
   SpannerScanProofs.v proves that this order reproduces (ret, drop) whenever any weight-sorted order does. *)
Fixpoint merge_scan (w : list Z) (r : list nat) : list nat -> list nat :=
  match r with
  | [] => fun d => d
  | a :: r' =>
      fix aux (d : list nat) : list nat :=
        match d with
        | [] => a :: r'
        | b :: d' => if Z.leb (nth a w 0%Z) (nth b w 0%Z) then a :: merge_scan w r' d else b :: aux d'
        end
  end.
