(* TreesProofs3.v — the lookup of one phase and the whole run of _mcb_sva_trees (TreesModel.v), exact domain.
     tr_collection_ok      the three builders return trees satisfying the tree specification and a sound collection
     tr_pick_spec / tr_first_spec   an accepted / chosen answer is the cycle C of a candidate of the collection: a simple
                           cycle, odd w.r.t. the signed set, reported with its true weight, and no odd candidate of the
                           collection is lighter
     collection_sufficient the premise "for every odd simple cycle there is an odd candidate that is no heavier"
     trees_accept_sound    an accepted run emitted a cycle basis (simple cycles, independent, spanning) of m - n + c
                           cycles and the accumulated value is its total weight            [no premise]
     trees_accept_min_modulo_sufficiency   ... a MINIMUM cycle basis                       [premise: sufficiency]
     trees_first_total_modulo_sufficiency  the deterministic resolution completes with a minimum cycle basis, and the
                           acceptance model accepts its run                                [premise: sufficiency]
   Prefix tr_. *)
From Coq Require Import List Arith Bool Lia ZArith Permutation.
From Parmcb Require Import GraphModel GraphSpec GraphLemmas GF2Model GF2Proofs GF2Lin McbSpec HeapModel LexSPModel
     LexSPProofsHeap LexSPProofs LexSPProofsDist FvsModel FvsProofs CandidatesModel CandidatesProofs CandidatesProofsZ
     ForestModel ForestProofs DePinaSpec DePinaProofs SvaModel SvaSpec SvaProofs RefModel RefProofs1 RefProofs2 RefProofs3 RefProofs4
     TreesModel TreesProofs1 TreesProofs2.
Import ListNotations.

(* ---- the collections ----------------------------------------------------------------------------------------- *)

Definition trees_collection_ok (g : graph) (wts : list Z) (trees : list (sp_tree Z)) (cands : list (cand Z)) : Prop :=
  Forall (fun t => sptree_Z g wts (st_src t) = LxOk t) trees /\ c14_sound g wts trees cands.

Lemma tr_roots_trees g wts roots trees cs :
  cycles_of_roots Z 0%Z Z.add Z.ltb g wts roots = CdOk (trees, cs) ->
  Forall (fun t => sptree_Z g wts (st_src t) = LxOk t) trees /\ Forall2 (fun s t => st_src t = s) roots trees.
Proof.
  intros H. apply cd_cycles_of_roots_inv in H as [F2 _]. induction F2 as [|s t roots trees Hst F2 IH].
  - split; constructor.
  - destruct IH as [IH1 IH2]. destruct (cd_sptree_src Z 0%Z Z.add Z.ltb g wts s t Hst) as [Hsrc _].
    split; constructor; auto. unfold sptree_Z. rewrite Hsrc. exact Hst.
Qed.

Lemma tr_collection_ok b g wts picks trees cands : simple_graph g -> positive_weights g wts ->
  tb_collection Z 0%Z Z.add Z.ltb b g wts picks = CdOk (trees, cands) -> trees_collection_ok g wts trees cands.
Proof.
  intros Hsg Hpos H. destruct b; cbn [tb_collection] in H.
  - split; [apply (tr_roots_trees g wts _ _ _ H)|apply (cz_C14_sound_horton g wts trees cands Hsg Hpos H)].
  - split; [|apply (cz_C14_sound_fvs g wts picks trees cands Hsg Hpos H)].
    unfold fvs_cycles in H. destruct (greedy_fvs g picks) as [fvs| | |]; try discriminate.
    apply (tr_roots_trees g wts _ _ _ H).
  - split; [|apply (cz_C14_sound_iso g wts trees cands Hsg Hpos H)].
    destruct (cd_iso_nested Z 0%Z Z.add Z.ltb g wts trees cands H) as [hcs [Hh _]].
    apply (tr_roots_trees g wts _ _ _ Hh).
Qed.

(* the cycle of a candidate is determined by the candidate *)
Lemma tr_c14_cycle_unique g wts t c C C' :
  lx_tree_spec Z 0%Z Z.add g wts (st_src t) t -> c14_cycle g wts t c C -> c14_cycle g wts t c C' -> C = C'.
Proof.
  intros Hspec [a [b [pa [pb [He [Hpa [Hpb [_ [_ [_ [_ [_ [_ [_ [HC [Hsc _]]]]]]]]]]]]]]]]
               [a' [b' [pa' [pb' [He' [Hpa' [Hpb' [_ [_ [_ [_ [_ [_ [_ [HC' [Hsc' _]]]]]]]]]]]]]]]].
  rewrite He in He'. injection He' as <- <-. unfold c12_twalk in *.
  destruct (ts_root _ _ _ _ _ _ _ Hspec) as [ndr [Hr1 [Hr2 _]]].
  pose proof (lx_twalk_unique Z g (st_nodes t) (st_src t) ndr Hr1 Hr2 _ _ Hpa _ Hpa') as <-.
  pose proof (lx_twalk_unique Z g (st_nodes t) (st_src t) ndr Hr1 Hr2 _ _ Hpb _ Hpb') as <-.
  apply sorted_ext; [apply Hsc|apply Hsc'|]. intros i. apply eq_true_iff_eq. rewrite !mem_In, HC, HC'. reflexivity.
Qed.

(* ---- the sufficiency premise ----------------------------------------------------------------------------- *)

(* D is dominated: some candidate of the collection is odd w.r.t. sg and no heavier than D *)
Definition tr_dominated (g : graph) (wts : list Z) (trees : list (sp_tree Z)) (cands : list (cand Z))
           (sg D : list nat) : Prop :=
  exists c t C, In c cands /\ nth_error trees (c_tree c) = Some t /\ c14_cycle g wts t c C /\
                oddb sg C = true /\ (weight wts C <= weight wts D)%Z.

(* for every signed edge set: every odd simple cycle is dominated (what Horton's and the FVS collection satisfy) *)
Definition collection_sufficient_all (g : graph) (wts : list Z) (trees : list (sp_tree Z)) (cands : list (cand Z)) : Prop :=
  forall sg D, simple_cycle g D -> oddb sg D = true -> tr_dominated g wts trees cands sg D.

(* ... only for the signed sets of canonical witnesses (all that a run ever asks for).  Since a graph has finitely
   many simple cycles this is the same as "if an odd simple cycle exists, some odd candidate is no heavier than EVERY
   odd simple cycle" *)
Definition collection_sufficient (g : graph) (wts : list Z) (fi : forest_index)
           (trees : list (sp_tree Z)) (cands : list (cand Z)) : Prop :=
  forall S, canonical_witness fi S -> forall D, simple_cycle g D -> oddb (indices_to_edges fi S) D = true ->
            tr_dominated g wts trees cands (indices_to_edges fi S) D.

Lemma tr_sufficient_all_canonical g wts fi trees cands :
  collection_sufficient_all g wts trees cands -> collection_sufficient g wts fi trees cands.
Proof. intros H S _ D HD Ho. apply H; assumption. Qed.

(* ---- one phase ------------------------------------------------------------------------------------------------ *)
Section Phase.
  Variable g : graph.
  Variable wts : list Z.
  Variable trees : list (sp_tree Z).
  Variable cands : list (cand Z).
  Hypothesis Hsg : simple_graph g.
  Hypothesis Hpos : positive_weights g wts.
  Hypothesis Hcol : trees_collection_ok g wts trees cands.

  (* what an entry chosen under tl_is_min says *)
  Definition tr_answer (sg : list nat) (c : list nat) (w : Z) : Prop :=
    simple_cycle g c /\ oddb sg c = true /\ w = weight wts c /\
    (exists cd t, In cd cands /\ nth_error trees (c_tree cd) = Some t /\ c14_cycle g wts t cd c) /\
    forall cd t C, In cd cands -> nth_error trees (c_tree cd) = Some t -> c14_cycle g wts t cd C ->
                   oddb sg C = true -> (weight wts c <= weight wts C)%Z.

  Lemma tr_entry_found sg x : tl_entry_ok g wts trees sg x -> tl_found Z x = true ->
    exists t C, nth_error trees (c_tree (fst x)) = Some t /\ c14_cycle g wts t (fst x) C /\
                oddb sg C = true /\ snd x = TcFound C (weight wts C).
  Proof.
    intros [t [C [Ht [Hc Hs]]]] Hf. exists t, C. unfold tl_found in Hf. rewrite Hs in *.
    destruct (oddb sg C); [auto|discriminate].
  Qed.

  Lemma tr_min_spec sg l x : map fst l = cands -> Forall (tl_entry_ok g wts trees sg) l ->
    In x l -> tl_is_min Z Z.ltb l (fst x) = true ->
    forall t C, nth_error trees (c_tree (fst x)) = Some t -> c14_cycle g wts t (fst x) C ->
    forall cd t' C', In cd cands -> nth_error trees (c_tree cd) = Some t' -> c14_cycle g wts t' cd C' ->
                     oddb sg C' = true -> (weight wts C <= weight wts C')%Z.
  Proof.
    intros Hm Hf Hx Hmin t C Ht HC cd t' C' Hcd Ht' HC' Ho.
    rewrite <- Hm in Hcd. apply in_map_iff in Hcd as [y [<- Hy]].
    rewrite Forall_forall in Hf. destruct (Hf y Hy) as [t'' [C'' [Ht'' [HC'' Hs]]]].
    rewrite Ht' in Ht''. injection Ht'' as <-.
    assert (Hspec : lx_tree_spec Z 0%Z Z.add g wts (st_src t') t').
    { destruct Hcol as [HF _]. eapply tb_sound_trees_ok; eauto. }
    pose proof (tr_c14_cycle_unique g wts t' (fst y) C' C'' Hspec HC' HC'') as <-.
    unfold tl_is_min in Hmin. rewrite forallb_forall in Hmin. specialize (Hmin y Hy).
    unfold tl_found in Hmin. rewrite Hs, Ho in Hmin. cbn [andb negb] in Hmin.
    destruct HC as [_ [_ [_ [_ [_ [_ [_ [_ [_ [_ [_ [_ [_ [_ [_ [_ Hw]]]]]]]]]]]]]]]].
    destruct HC' as [_ [_ [_ [_ [_ [_ [_ [_ [_ [_ [_ [_ [_ [_ [_ [_ Hw']]]]]]]]]]]]]]]].
    rewrite Hw, Hw' in Hmin. apply negb_true_iff, Z.ltb_ge in Hmin. exact Hmin.
  Qed.

  Lemma tr_c14_simple t cd C : c14_cycle g wts t cd C -> simple_cycle g C.
  Proof. intros [_ [_ [_ [_ [_ [_ [_ [_ [_ [_ [_ [_ [_ [_ [_ [H _]]]]]]]]]]]]]]]]. exact H. Qed.

  Lemma tr_pick_spec sg l c w : map fst l = cands -> Forall (tl_entry_ok g wts trees sg) l ->
    trees_phase_pick Z Z.ltb l c = Some w -> tr_answer sg c w.
  Proof.
    intros Hm Hf Hp. unfold trees_phase_pick in Hp.
    destruct (find (tl_matches Z Z.ltb l c) l) as [[cd a]|] eqn:Ef; [|discriminate].
    apply find_some in Ef as [Hin Hma]. unfold tl_matches in Hma. cbn [snd fst] in Hma.
    destruct a as [c' w'|]; [|discriminate]. injection Hp as <-.
    apply andb_true_iff in Hma as [Heq Hmin]. apply tb_list_eqb_eq in Heq. subst c'.
    pose proof Hf as Hf'. rewrite Forall_forall in Hf'.
    destruct (tr_entry_found sg _ (Hf' _ Hin) eq_refl) as [t [C [Ht [HC [Ho Hs]]]]]. cbn [fst snd] in *.
    injection Hs as -> ->.
    split; [eapply tr_c14_simple; eauto|]. split; [exact Ho|]. split; [reflexivity|]. split.
    - exists cd, t. split; [rewrite <- Hm; apply in_map_iff; exists (cd, TcFound C (weight wts C)); auto|auto].
    - apply (tr_min_spec sg l (cd, TcFound C (weight wts C)) Hm Hf Hin Hmin t C Ht HC).
  Qed.

  Lemma tr_first_spec sg l c w : map fst l = cands -> Forall (tl_entry_ok g wts trees sg) l ->
    trees_phase_first Z Z.ltb l = Some (c, w) -> tr_answer sg c w.
  Proof.
    intros Hm Hf Hp. unfold trees_phase_first in Hp.
    destruct (find _ l) as [[cd a]|] eqn:Ef; [|discriminate].
    apply find_some in Ef as [Hin Hma]. apply andb_true_iff in Hma as [Hfo Hmin].
    destruct a as [c' w'|]; [|discriminate]. injection Hp as <- <-.
    pose proof Hf as Hf'. rewrite Forall_forall in Hf'.
    destruct (tr_entry_found sg _ (Hf' _ Hin) Hfo) as [t [C [Ht [HC [Ho Hs]]]]]. cbn [fst snd] in *.
    injection Hs as -> ->.
    split; [eapply tr_c14_simple; eauto|]. split; [exact Ho|]. split; [reflexivity|]. split.
    - exists cd, t. split; [rewrite <- Hm; apply in_map_iff; exists (cd, TcFound C (weight wts C)); auto|auto].
    - apply (tr_min_spec sg l (cd, TcFound C (weight wts C)) Hm Hf Hin Hmin t C Ht HC).
  Qed.

  (* among the answering entries one has minimum recorded weight (Z is a total order) *)
  Lemma tr_min_exists (l0 : list (cand Z * tc_answer Z)) : forall l,
    (exists x, In x l /\ tl_found Z x = true) ->
    exists x, In x l /\ tl_found Z x = true /\
              forall y, In y l -> tl_found Z y = true -> (c_weight (fst x) <= c_weight (fst y))%Z.
  Proof.
    induction l as [|a l IH]; intros [x [Hx Hf]]; [destruct Hx|].
    destruct (existsb (tl_found Z) l) eqn:Ex.
    - apply existsb_exists in Ex as [y [Hy Hfy]]. destruct (IH (ex_intro _ y (conj Hy Hfy))) as [m [Hm [Hfm Hmin]]].
      destruct (tl_found Z a) eqn:Efa.
      + destruct (Z_le_gt_dec (c_weight (fst a)) (c_weight (fst m))) as [Hle|Hgt].
        * exists a. split; [left; reflexivity|]. split; [exact Efa|].
          intros z [<-|Hz] Hfz; [lia|]. specialize (Hmin z Hz Hfz). lia.
        * exists m. split; [right; exact Hm|]. split; [exact Hfm|].
          intros z [<-|Hz] Hfz; [lia|]. apply Hmin; assumption.
      + exists m. split; [right; exact Hm|]. split; [exact Hfm|].
        intros z [<-|Hz] Hfz; [congruence|]. apply Hmin; assumption.
    - assert (Hxa : x = a).
      { destruct Hx as [Hx|Hx]; [auto|]. exfalso.
        assert (existsb (tl_found Z) l = true) by (apply existsb_exists; eauto). congruence. }
      subst x. exists a. split; [left; reflexivity|]. split; [exact Hf|].
      intros z [<-|Hz] Hfz; [lia|]. exfalso.
      assert (existsb (tl_found Z) l = true) by (apply existsb_exists; eauto). congruence.
  Qed.

  (* if some entry answers, the deterministic resolution finds one *)
  Lemma tr_first_total l : (exists x, In x l /\ tl_found Z x = true) ->
    exists c w, trees_phase_first Z Z.ltb l = Some (c, w).
  Proof.
    intros Hex. destruct (tr_min_exists l l Hex) as [m [Hm [Hfm Hmin]]].
    unfold trees_phase_first.
    destruct (find (fun x => tl_found Z x && tl_is_min Z Z.ltb l (fst x)) l) as [[cd a]|] eqn:Ef.
    - apply find_some in Ef as [_ Hma]. apply andb_true_iff in Hma as [Hfo _]. unfold tl_found in Hfo. cbn [snd] in Hfo.
      destruct a as [c w|]; [eauto|discriminate].
    - exfalso. pose proof (find_none _ _ Ef m Hm) as Hn. cbv beta in Hn. rewrite Hfm in Hn. cbn [andb] in Hn.
      unfold tl_is_min in Hn. assert (forallb (fun x => negb (tl_found Z x && (c_weight (fst x) <? c_weight (fst m))%Z)) l = true).
      { apply forallb_forall. intros y Hy. destruct (tl_found Z y) eqn:Efy; [|reflexivity]. cbn [andb].
        apply negb_true_iff, Z.ltb_ge. apply Hmin; assumption. }
      congruence.
  Qed.

  (* the acceptance test accepts the answer of the deterministic resolution *)
  Lemma tr_first_picked sg l c w : map fst l = cands -> Forall (tl_entry_ok g wts trees sg) l ->
    trees_phase_first Z Z.ltb l = Some (c, w) -> trees_phase_pick Z Z.ltb l c = Some w.
  Proof.
    intros Hm Hf Hp. pose proof (tr_first_spec sg l c w Hm Hf Hp) as [_ [_ [Hw _]]].
    unfold trees_phase_first in Hp.
    destruct (find _ l) as [[cd a]|] eqn:Ef; [|discriminate].
    apply find_some in Ef as [Hin Hma]. apply andb_true_iff in Hma as [Hfo Hmin].
    destruct a as [c' w'|]; [|discriminate]. injection Hp as -> ->.
    unfold trees_phase_pick.
    destruct (find (tl_matches Z Z.ltb l c) l) as [[cd2 a2]|] eqn:Ef2.
    - apply find_some in Ef2 as [Hin2 Hma2]. unfold tl_matches in Hma2. cbn [snd fst] in Hma2.
      destruct a2 as [c2 w2|]; [|discriminate]. apply andb_true_iff in Hma2 as [Heq _]. apply tb_list_eqb_eq in Heq. subst c2.
      rewrite Forall_forall in Hf. destruct (tr_entry_found sg _ (Hf _ Hin2) eq_refl) as [t [C [_ [_ [_ Hs]]]]].
      cbn [snd] in Hs. injection Hs as <- ->. rewrite Hw. reflexivity.
    - exfalso. pose proof (find_none _ _ Ef2 _ Hin) as Hn. unfold tl_matches in Hn. cbn [snd fst] in Hn.
      cbn [fst] in Hmin. rewrite tb_list_eqb_refl, Hmin in Hn. discriminate.
  Qed.
End Phase.

(* ---- the searches as instances of the specifications of SvaSpec.v ---------------------------------------------- *)
Section Search.
  Variable g : graph.
  Variable wts : list Z.
  Variable roots : list nat.
  Variable fi : forest_index.
  Variable trees : list (sp_tree Z).
  Variable cands : list (cand Z).
  Hypothesis Hsg : simple_graph g.
  Hypothesis Hpos : positive_weights g wts.
  Hypothesis Hr : forall v, v < nv g -> In v roots.
  Hypothesis Hci : create_index g roots = Some fi.
  Hypothesis Hcol : trees_collection_ok g wts trees cands.

  Notation acc := (trees_search_accept Z 0%Z Z.add Z.ltb g wts trees cands fi).
  Notation fst_search := (trees_search_first Z 0%Z Z.add Z.ltb g wts trees cands fi).

  Lemma tr_bridge S D : canonical_witness fi S -> simple_cycle g D ->
    pairing fi S D = oddb (indices_to_edges fi S) D.
  Proof.
    intros (HS & _ & HSb) HD. destruct (rf_simple_cycle_edges g D HD) as (HDs & HDb).
    eapply rf_bridge; eauto.
  Qed.

  Lemma tr_answers S : exists l, tl_answers Z 0%Z Z.add g wts trees cands (indices_to_edges fi S) = TrOk l /\
    map fst l = cands /\ Forall (tl_entry_ok g wts trees (indices_to_edges fi S)) l.
  Proof. destruct Hcol as [HF Hs]. apply (tb_answers_ok g wts Hsg trees cands _ HF Hs). Qed.

  Lemma tr_accept_answer cycles k S c w : acc cycles k S = PFound c w ->
    nth_error cycles k = Some c /\ tr_answer g wts trees cands (indices_to_edges fi S) c w.
  Proof.
    unfold trees_search_accept. destruct (nth_error cycles k) as [c0|] eqn:En; [|discriminate].
    destruct (tr_answers S) as [l [Hl [Hm Hf]]]. rewrite Hl.
    destruct (trees_phase_pick Z Z.ltb l c0) as [w0|] eqn:Ep; [|discriminate].
    intros [= <- <-]. split; [reflexivity|]. eapply tr_pick_spec; eauto.
  Qed.

  Lemma tr_first_answer k S c w : fst_search k S = PFound c w ->
    tr_answer g wts trees cands (indices_to_edges fi S) c w.
  Proof.
    unfold trees_search_first. destruct (tr_answers S) as [l [Hl [Hm Hf]]]. rewrite Hl.
    destruct (trees_phase_first Z Z.ltb l) as [[c0 w0]|] eqn:Ep; [|discriminate].
    intros [= <- <-]. eapply tr_first_spec; eauto.
  Qed.

  (* an answer is sound for the basis property ... *)
  Lemma tr_answer_sound S c w : canonical_witness fi S ->
    tr_answer g wts trees cands (indices_to_edges fi S) c w ->
    simple_cycle g c /\ pairing fi S c = true /\ w = weight wts c.
  Proof.
    intros HS (Hsc & Ho & Hw & _). split; [exact Hsc|]. split; [|exact Hw]. rewrite tr_bridge; assumption.
  Qed.

  (* ... and, with the sufficiency premise, a minimum odd cycle *)
  Lemma tr_answer_min S c w : canonical_witness fi S -> collection_sufficient g wts fi trees cands ->
    tr_answer g wts trees cands (indices_to_edges fi S) c w ->
    min_odd_cycle g wts (fun D => pairing fi S D = true) c /\ w = weight wts c.
  Proof.
    intros HS Hsuf Ha. destruct (tr_answer_sound S c w HS Ha) as (Hsc & Hp & Hw). split; [|exact Hw].
    split; [exact Hsc|]. split; [exact Hp|]. intros D HD HpD. rewrite tr_bridge in HpD by assumption.
    destruct (Hsuf S HS D HD HpD) as (cd & t & C & Hcd & Ht & HC & Ho & Hle).
    destruct Ha as (_ & _ & _ & _ & Hmin). specialize (Hmin cd t C Hcd Ht HC Ho). lia.
  Qed.

  Lemma tr_accept_sound_c cycles : search_sound_c g fi (acc cycles).
  Proof.
    intros k S c w HS H. destruct (tr_accept_answer cycles k S c w H) as [_ Ha].
    destruct (tr_answer_sound S c w HS Ha) as (Hsc & Hp & _).
    split; [apply simple_cycle_in_cycle_space; assumption|exact Hp].
  Qed.

  Lemma tr_first_sound_c : search_sound_c g fi fst_search.
  Proof.
    intros k S c w HS H. pose proof (tr_first_answer k S c w H) as Ha.
    destruct (tr_answer_sound S c w HS Ha) as (Hsc & Hp & _).
    split; [apply simple_cycle_in_cycle_space; assumption|exact Hp].
  Qed.

  Lemma tr_accept_min_c cycles : collection_sufficient g wts fi trees cands -> search_min_c g wts fi (acc cycles).
  Proof.
    intros Hsuf k S c w HS H. destruct (tr_accept_answer cycles k S c w H) as [_ Ha].
    apply tr_answer_min; assumption.
  Qed.

  Lemma tr_first_min_c : collection_sufficient g wts fi trees cands -> search_min_c g wts fi fst_search.
  Proof.
    intros Hsuf k S c w HS H. pose proof (tr_first_answer k S c w H) as Ha. apply tr_answer_min; assumption.
  Qed.

  (* totality of the deterministic resolution: a canonical witness has an odd simple cycle (fundamental cycle of one
     of its non-forest edges), hence by sufficiency an odd candidate, hence an answering entry *)
  Lemma tr_first_total_c : collection_sufficient g wts fi trees cands -> search_total fi fst_search.
  Proof.
    intros Hsuf k S HS Hne HSb.
    assert (Hcan : canonical_witness fi S) by (split; [|split]; assumption).
    destruct (rf_odd_cycle_exists g roots fi S Hsg Hr Hci HS Hne HSb) as (D & HD & HoD).
    destruct (Hsuf S Hcan D HD HoD) as (cd & t & C & Hcd & Ht & HC & Ho & _).
    unfold trees_search_first. destruct (tr_answers S) as [l [Hl [Hm Hf]]]. rewrite Hl.
    assert (Hex : exists x, In x l /\ tl_found Z x = true).
    { rewrite <- Hm in Hcd. apply in_map_iff in Hcd as [y [Hy1 Hy2]]. exists y. split; [exact Hy2|].
      rewrite Forall_forall in Hf. destruct (Hf y Hy2) as [t' [C' [Ht' [HC' Hs]]]]. subst cd.
      rewrite Ht in Ht'. injection Ht' as <-.
      assert (Hspec : lx_tree_spec Z 0%Z Z.add g wts (st_src t) t).
      { destruct Hcol as [HF _]. eapply tb_sound_trees_ok; eauto. }
      pose proof (tr_c14_cycle_unique g wts t (fst y) C C' Hspec HC HC') as <-.
      unfold tl_found. rewrite Hs, Ho. reflexivity. }
    destruct (tr_first_total l Hex) as [c [w Hp]]. rewrite Hp. eauto.
  Qed.

  (* the acceptance search agrees with the deterministic one on the latter's own answers *)
  Lemma tr_first_replayed cycles k S c w : fst_search k S = PFound c w -> nth_error cycles k = Some c ->
    acc cycles k S = PFound c w.
  Proof.
    unfold trees_search_first, trees_search_accept. intros H Hn. rewrite Hn.
    destruct (tr_answers S) as [l [Hl [Hm Hf]]]. rewrite Hl in *.
    destruct (trees_phase_first Z Z.ltb l) as [[c0 w0]|] eqn:Ep; [|discriminate].
    injection H as -> ->. rewrite (tr_first_picked g wts trees cands Hcol _ l c w Hm Hf Ep). reflexivity.
  Qed.
End Search.

(* ---- generic facts about the emitted list of sva_phases --------------------------------------------------------- *)

Lemma tr_phases_prefix {W} (wadd : W -> W -> W) select (search : nat -> vec -> phase_result W) fi :
  forall ks sup acc total cycles tot sup',
    sva_phases W wadd select search fi ks sup acc total = SvaOk cycles tot sup' ->
    exists rest, cycles = rev acc ++ rest /\ length rest = length ks.
Proof.
  induction ks as [|k ks IH]; intros sup acc total cycles tot sup' H; cbn [sva_phases] in H.
  - inversion H; subst. exists []. rewrite app_nil_r. auto.
  - cbv zeta in H. destruct (search k _) as [c w| |] eqn:E; try discriminate.
    apply IH in H as (rest & -> & Hl). exists (c :: rest). cbn [rev length]. rewrite <- app_assoc. auto.
Qed.

(* a run under search s1 is also a run under any search s2 that agrees with s1 wherever s1's answer is the cycle the
   final list holds at that phase *)
Lemma tr_phases_replay {W} (wadd : W -> W -> W) select (s1 s2 : nat -> vec -> phase_result W) fi L :
  (forall k S c w, s1 k S = PFound c w -> nth_error L k = Some c -> s2 k S = PFound c w) ->
  forall n a sup acc total tot sup',
    length acc = a ->
    sva_phases W wadd select s1 fi (seq a n) sup acc total = SvaOk L tot sup' ->
    sva_phases W wadd select s2 fi (seq a n) sup acc total = SvaOk L tot sup'.
Proof.
  intros Hag. induction n as [|n IH]; intros a sup acc total tot sup' Hla H; cbn [seq sva_phases] in *; [exact H|].
  cbv zeta in *. destruct (s1 a _) as [c w| |] eqn:E; try discriminate.
  pose proof (tr_phases_prefix wadd select s1 fi _ _ _ _ _ _ _ H) as (rest & HL & _).
  assert (Hn : nth_error L a = Some c).
  { rewrite HL. cbn [rev]. rewrite <- app_assoc. rewrite nth_error_app2 by (rewrite rev_length; lia).
    rewrite rev_length, Hla, Nat.sub_diag. reflexivity. }
  rewrite (Hag _ _ _ _ E Hn). apply IH; [cbn [length]; lia|exact H].
Qed.

Lemma tr_accept_answer_nth g wts trees cands fi cycles k S c w :
  trees_search_accept Z 0%Z Z.add Z.ltb g wts trees cands fi cycles k S = PFound c w -> nth_error cycles k = Some c.
Proof.
  unfold trees_search_accept. destruct (nth_error cycles k) as [c0|]; [|discriminate].
  destruct (tl_answers _ _ _ _ _ _ _ _) as [l| | |]; try discriminate.
  destruct (trees_phase_pick Z Z.ltb l c0); [|discriminate]. intros [= <- _]. reflexivity.
Qed.

(* ---- the run ---------------------------------------------------------------------------------------------------- *)
Section Run.
  Variable b : tbuilder.
  Variable g : graph.
  Variable wts : list Z.
  Variable roots picks : list nat.
  Hypothesis Hsg : simple_graph g.
  Hypothesis Hpos : positive_weights g wts.
  Hypothesis Hr : forall v, v < nv g -> In v roots.

  Lemma tr_accept_inv cycles total : mcb_sva_trees_accept_Z b g wts roots picks cycles = Some total ->
    exists fi trees cands sup,
      create_index g roots = Some fi /\ tb_collection Z 0%Z Z.add Z.ltb b g wts picks = CdOk (trees, cands) /\
      sva_run Z 0%Z Z.add select_none (trees_search_accept Z 0%Z Z.add Z.ltb g wts trees cands fi cycles) fi
      = SvaOk cycles total sup.
  Proof.
    unfold mcb_sva_trees_accept_Z, mcb_sva_trees_accept, mcb_sva_trees_replay, mcb_sva_trees.
    destruct (create_index g roots) as [fi|] eqn:Hci; [|discriminate].
    destruct (tb_collection Z 0%Z Z.add Z.ltb b g wts picks) as [[trees cands]| | | |] eqn:Hc; try discriminate.
    destruct (sva_run _ _ _ _ _ _) as [cs tot sup| | |] eqn:Hrun; try discriminate.
    destruct (Nat.eqb_spec (length cycles) (length cs)) as [Hl|]; [|discriminate]. intros [= <-].
    exists fi, trees, cands, sup. split; [reflexivity|]. split; [reflexivity|].
    assert (Hcs : cs = cycles).
    { pose proof Hrun as Hrun'. unfold sva_run in Hrun'.
      destruct (tr_phases_prefix Z.add select_none _ fi _ _ _ _ _ _ _ Hrun') as (rest0 & E0 & Hl0).
      cbn [rev app] in E0. rewrite seq_length in Hl0.
      destruct (rf_sva_phases_cycles Z.add select_none _ fi cycles
                  (tr_accept_answer_nth g wts trees cands fi cycles)
                  _ _ _ _ _ _ _ Hrun') as (rest & E & HF).
      cbn [rev app] in E. subst rest0. subst rest.
      rewrite (rf_Forall2_seq_nth cycles _ 0 cs HF) by (cbn [plus]; lia). reflexivity. }
    rewrite Hcs in Hrun. exact Hrun.
  Qed.
End Run.

Section Run2.
  Variable b : tbuilder.
  Variable g : graph.
  Variable wts : list Z.
  Variable roots picks : list nat.
  Hypothesis Hsg : simple_graph g.
  Hypothesis Hpos : positive_weights g wts.
  Hypothesis Hr : forall v, v < nv g -> In v roots.

  (* (1) an accepted run emitted a cycle basis of the right size, and the accumulated value is its weight *)
  Theorem trees_accept_sound cycles total :
    mcb_sva_trees_accept_Z b g wts roots picks cycles = Some total ->
    cycle_basis g cycles /\ has_cycle_space_dimension g (length cycles) /\ total = total_weight wts cycles.
  Proof.
    intros Hacc. destruct (tr_accept_inv b g wts roots picks cycles total Hacc) as (fi & trees & cands & sup & Hci & Hc & Hrun).
    pose proof (tr_collection_ok b g wts picks trees cands Hsg Hpos Hc) as Hcol.
    pose proof (tr_accept_sound_c g wts roots fi trees cands Hsg Hr Hci Hcol cycles) as Hsnd.
    pose proof (select_none_ok (fi_csd fi)) as Hsel.
    destruct (sva_generic_basis_c g roots fi Z 0%Z Z.add _ _ cycles total sup Hsg Hr Hci Hsel Hsnd Hrun)
      as (Hl & Hd & _ & _ & _ & Hind & Hsp).
    pose proof (sva_run_inv g fi Z 0%Z Z.add _ _ cycles total sup Hsel Hsnd Hrun) as I.
    assert (Hans : forall k S c w, canonical_witness fi S ->
              trees_search_accept Z 0%Z Z.add Z.ltb g wts trees cands fi cycles k S = PFound c w ->
              simple_cycle g c /\ w = weight wts c).
    { intros k S c w HS H. destruct (tr_accept_answer g wts fi trees cands Hsg Hcol cycles k S c w H) as [_ Ha].
      destruct (tr_answer_sound g wts roots fi trees cands Hsg Hr Hci S c w HS Ha) as (H1 & _ & H2). auto. }
    split; [|split; [exact Hd|]].
    - split; [|split; assumption]. rewrite Forall_forall. intros C HC. apply (In_nth _ _ []) in HC as (j & Hj & <-).
      assert (Hj' : j < fi_csd fi) by (rewrite <- Hl; exact Hj).
      destruct (inv_found _ _ _ _ _ _ I j Hj') as (w & Hsr).
      apply (Hans _ _ _ _ (sva_inv_row _ _ _ _ _ _ j I Hj') Hsr).
    - unfold sva_run in Hrun.
      exact (sva_phases_weight g wts select_none _ fi Hsel Hsnd (fun k S c w HS H => proj2 (Hans k S c w HS H))
               (fi_csd fi) 0 _ [] 0%Z cycles total sup eq_refl (sva_inv_init fi Z _) Hrun eq_refl).
  Qed.

  (* (2) with the sufficiency premise the accepted basis is a MINIMUM cycle basis *)
  Theorem trees_accept_min_modulo_sufficiency cycles total :
    (forall fi trees cands, create_index g roots = Some fi ->
       tb_collection Z 0%Z Z.add Z.ltb b g wts picks = CdOk (trees, cands) ->
       collection_sufficient g wts fi trees cands) ->
    mcb_sva_trees_accept_Z b g wts roots picks cycles = Some total ->
    min_cycle_basis g wts cycles /\ total = total_weight wts cycles /\ has_cycle_space_dimension g (length cycles).
  Proof.
    intros Hsuf Hacc. destruct (tr_accept_inv b g wts roots picks cycles total Hacc) as (fi & trees & cands & sup & Hci & Hc & Hrun).
    pose proof (tr_collection_ok b g wts picks trees cands Hsg Hpos Hc) as Hcol.
    pose proof (tr_accept_min_c g wts roots fi trees cands Hsg Hr Hci Hcol cycles (Hsuf fi trees cands Hci Hc)) as Hmin.
    exact (sva_generic_min_c g wts roots fi _ _ cycles total sup Hsg Hpos Hr Hci (select_none_ok (fi_csd fi)) Hmin Hrun).
  Qed.

  (* ... and an accepted run exists: the deterministic resolution completes, returns a minimum cycle basis, and its
     run is accepted by the acceptance model *)
  Theorem trees_first_total_modulo_sufficiency trees cands :
    tb_collection Z 0%Z Z.add Z.ltb b g wts picks = CdOk (trees, cands) ->
    (forall fi, create_index g roots = Some fi -> collection_sufficient g wts fi trees cands) ->
    exists cycles total sup,
      mcb_sva_trees_first_Z b g wts roots picks = TRun (SvaOk cycles total sup) /\
      min_cycle_basis g wts cycles /\ total = total_weight wts cycles /\
      has_cycle_space_dimension g (length cycles) /\
      mcb_sva_trees_accept_Z b g wts roots picks cycles = Some total.
  Proof.
    intros Hc Hsuf. destruct (create_index_correct g roots Hsg Hr) as (fi & Hci & _).
    pose proof (tr_collection_ok b g wts picks trees cands Hsg Hpos Hc) as Hcol.
    pose proof (select_none_ok (fi_csd fi)) as Hsel.
    pose proof (tr_first_sound_c g wts roots fi trees cands Hsg Hr Hci Hcol) as Hsnd.
    pose proof (tr_first_total_c g wts roots fi trees cands Hsg Hr Hci Hcol (Hsuf fi Hci)) as Htot.
    pose proof (tr_first_min_c g wts roots fi trees cands Hsg Hr Hci Hcol (Hsuf fi Hci)) as Hmin.
    destruct (sva_generic_total_c g roots fi Z 0%Z Z.add _ _ Hsg Hr Hci Hsel Hsnd Htot) as (cycles & total & sup & Hrun).
    destruct (sva_generic_min_c g wts roots fi _ _ cycles total sup Hsg Hpos Hr Hci Hsel Hmin Hrun) as (Hm & Hw & Hd).
    exists cycles, total, sup.
    split; [unfold mcb_sva_trees_first_Z, mcb_sva_trees_first, mcb_sva_trees; rewrite Hci, Hc; rewrite Hrun; reflexivity|].
    split; [exact Hm|]. split; [exact Hw|]. split; [exact Hd|].
    unfold mcb_sva_trees_accept_Z, mcb_sva_trees_accept, mcb_sva_trees_replay, mcb_sva_trees. rewrite Hci, Hc.
    assert (Hrun2 : sva_run Z 0%Z Z.add select_none (trees_search_accept Z 0%Z Z.add Z.ltb g wts trees cands fi cycles) fi
                    = SvaOk cycles total sup).
    { unfold sva_run in *. apply (tr_phases_replay Z.add select_none _ _ fi cycles
                                    (tr_first_replayed g wts fi trees cands Hsg Hcol cycles)); [reflexivity|exact Hrun]. }
    rewrite Hrun2, Nat.eqb_refl. reflexivity.
  Qed.
End Run2.

Print Assumptions trees_accept_sound.
Print Assumptions trees_accept_min_modulo_sufficiency.
Print Assumptions trees_first_total_modulo_sufficiency.
