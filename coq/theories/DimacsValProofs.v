(* DimacsValProofs.v — has_loops, has_multiple_edges, has_non_positive_weights of DimacsModel.v answer true
   exactly when the multigraph has a self-loop / a repeated unordered pair (or a self-loop) / a weight <= 0. *)
From Coq Require Import ZArith List Bool QArith Lia ZifyBool.
From Parmcb Require Import DimacsModel.
Import ListNotations.
Local Open Scope Z_scope.

Definition e_src (e : wedge) : Z := fst (fst e).
Definition e_tgt (e : wedge) : Z := snd (fst e).
Definition e_wt (e : wedge) : Q := snd e.

Definition is_loop (e : wedge) : Prop := e_src e = e_tgt e.

(* the same unordered pair of endpoints *)
Definition same_pair (e1 e2 : wedge) : Prop :=
  (e_src e1 = e_src e2 /\ e_tgt e1 = e_tgt e2) \/ (e_src e1 = e_tgt e2 /\ e_tgt e1 = e_src e2).

(* some edge is followed, later in the list, by an edge with the same unordered pair *)
Inductive Repeat : list wedge -> Prop :=
| Rep_here e es e' : In e' es -> same_pair e e' -> Repeat (e :: es)
| Rep_later e es : Repeat es -> Repeat (e :: es).

(* endpoints are vertices 0..n-1 *)
Definition graph_wf (g : graph) : Prop :=
  forall e, In e (snd g) -> 0 <= e_src e < fst g /\ 0 <= e_tgt e < fst g.

(* ---- has_loops, has_non_positive_weights ---- *)

Lemma has_loops_spec g : has_loops g = true <-> exists e, In e (snd g) /\ is_loop e.
Proof.
  unfold has_loops. rewrite existsb_exists. split; intros (e & Hin & H); exists e; split; auto;
    destruct e as [[u v] w]; unfold is_loop, e_src, e_tgt in *; cbn in *; lia.
Qed.

Lemma has_nonpos_spec g : has_non_positive_weights g = true <-> exists e, In e (snd g) /\ (e_wt e <= 0)%Q.
Proof.
  unfold has_non_positive_weights. rewrite existsb_exists. split; intros (e & Hin & H); exists e; split; auto;
    destruct e as [[u v] w]; unfold e_wt in *; cbn in *; apply Qle_bool_iff; assumption.
Qed.

(* ---- duplicates in a list ---- *)

Inductive Dup : list Z -> Prop :=
| Dup_here x l : In x l -> Dup (x :: l)
| Dup_later x l : Dup l -> Dup (x :: l).

Lemma Dup_app a b : Dup (a ++ b) <-> Dup a \/ Dup b \/ exists x, In x a /\ In x b.
Proof.
  induction a as [|y a IH]; cbn [app].
  - split; [auto|]. intros [H|[H|(x & [] & _)]]; [inversion H|exact H].
  - split.
    + intros H. inversion H as [? ? Hin|? ? Hd]; subst.
      * apply in_app_or in Hin. destruct Hin as [Hin|Hin].
        -- left. constructor. exact Hin.
        -- right. right. exists y. split; [left; reflexivity|exact Hin].
      * apply IH in Hd. destruct Hd as [Hd|[Hd|(x & Ha & Hb)]].
        -- left. apply Dup_later. exact Hd.
        -- right. left. exact Hd.
        -- right. right. exists x. split; [right; exact Ha|exact Hb].
    + intros [H|[H|(x & Ha & Hb)]].
      * inversion H as [? ? Hin|? ? Hd]; subst.
        -- apply Dup_here. apply in_or_app. left. exact Hin.
        -- apply Dup_later. apply IH. left. exact Hd.
      * apply Dup_later. apply IH. right. left. exact H.
      * destruct Ha as [->|Ha].
        -- apply Dup_here. apply in_or_app. right. exact Hb.
        -- apply Dup_later. apply IH. right. right. exists x. split; assumption.
Qed.

Lemma zmem_spec x l : zmem x l = true <-> In x l.
Proof.
  unfold zmem. rewrite existsb_exists. split.
  - intros (y & Hin & E). assert (x = y) by lia. subst. exact Hin.
  - intros Hin. exists x. split; [exact Hin|lia].
Qed.

Lemma dup_scan_spec l : forall seen,
  dup_scan seen l = true <-> (exists x, In x l /\ In x seen) \/ Dup l.
Proof.
  induction l as [|u l IH]; intros seen; cbn [dup_scan].
  - split; [discriminate|]. intros [(x & [] & _)|H]; inversion H.
  - destruct (zmem u seen) eqn:E.
    + split; [|reflexivity]. intros _. left. exists u. split; [left; reflexivity|]. apply zmem_spec. exact E.
    + assert (~ In u seen) as Hnot by (intros Hin; apply zmem_spec in Hin; congruence).
      rewrite IH. split.
      * intros [(x & Hl & [->|Hs])|Hd].
        -- right. apply Dup_here. exact Hl.
        -- left. exists x. split; [right; exact Hl|exact Hs].
        -- right. apply Dup_later. exact Hd.
      * intros [(x & [->|Hl] & Hs)|Hd].
        -- contradiction.
        -- left. exists x. split; [exact Hl|right; exact Hs].
        -- inversion Hd as [? ? Hin|? ? Hd']; subst.
           ++ left. exists u. split; [exact Hin|left; reflexivity].
           ++ right. exact Hd'.
Qed.

Lemma dup_scan_nil l : dup_scan [] l = true <-> Dup l.
Proof.
  rewrite dup_scan_spec. split; [|auto]. intros [(x & _ & [])|H]. exact H.
Qed.

(* ---- incident lists ---- *)

(* edge e joins v and x *)
Definition joins (e : wedge) (v x : Z) : Prop := (e_src e = v /\ e_tgt e = x) \/ (e_tgt e = v /\ e_src e = x).

Definition inc1 (v : Z) (e : wedge) : list Z :=
  let '(a, b, _) := e in (if a =? v then [b] else []) ++ (if b =? v then [a] else []).

Lemma incident_cons v e es : incident v (e :: es) = inc1 v e ++ incident v es.
Proof. reflexivity. Qed.

Lemma in_inc1 v e x : In x (inc1 v e) <-> joins e v x.
Proof.
  destruct e as [[a b] w]. unfold inc1, joins, e_src, e_tgt. cbn [fst snd].
  destruct (a =? v) eqn:A; destruct (b =? v) eqn:B; cbn; split; intros H; try lia; intuition lia.
Qed.

Lemma in_incident v es x : In x (incident v es) <-> exists e, In e es /\ joins e v x.
Proof.
  induction es as [|e es IH].
  - cbn. split; [tauto|]. intros (e & [] & _).
  - rewrite incident_cons, in_app_iff, in_inc1, IH. split.
    + intros [H|(e' & Hin & H)]; [exists e; split; [left; reflexivity|exact H]|exists e'; split; [right; exact Hin|exact H]].
    + intros (e' & [->|Hin] & H); [left; exact H|right; exists e'; split; assumption].
Qed.

Lemma dup_inc1 v e : Dup (inc1 v e) -> is_loop e.
Proof.
  destruct e as [[a b] w]. unfold inc1, is_loop, e_src, e_tgt. cbn [fst snd].
  destruct (a =? v) eqn:A; destruct (b =? v) eqn:B; cbn; intros H.
  - lia.
  - inversion H as [? ? Hin|? ? H']; [destruct Hin|inversion H'].
  - inversion H as [? ? Hin|? ? H']; [destruct Hin|inversion H'].
  - inversion H.
Qed.

Lemma joins_same_pair e e' v x : joins e v x -> joins e' v x -> same_pair e e'.
Proof. unfold joins, same_pair. intros [[? ?]|[? ?]] [[? ?]|[? ?]]; [left|right|right|left]; split; congruence. Qed.

(* a duplicate among the neighbours of some vertex comes from a loop or a repeated pair *)
Lemma dup_incident_sound v es : Dup (incident v es) -> (exists e, In e es /\ is_loop e) \/ Repeat es.
Proof.
  induction es as [|e es IH]; [intros H; inversion H|].
  rewrite incident_cons, Dup_app. intros [H|[H|(x & H1 & H2)]].
  - left. exists e. split; [left; reflexivity|apply (dup_inc1 v); exact H].
  - destruct (IH H) as [(e' & Hin & Hl)|Hr].
    + left. exists e'. split; [right; exact Hin|exact Hl].
    + right. apply Rep_later. exact Hr.
  - right. apply in_inc1 in H1. apply in_incident in H2. destruct H2 as (e' & Hin & Hj).
    apply (Rep_here e es e' Hin). apply (joins_same_pair e e' v x); assumption.
Qed.

Lemma loop_dup_incident e es : In e es -> is_loop e -> Dup (incident (e_src e) es).
Proof.
  induction es as [|e0 es IH]; [intros []|]. intros [->|Hin] Hl; rewrite incident_cons, Dup_app.
  - left. destruct e as [[a b] w]. unfold is_loop, e_src, e_tgt in *. cbn [fst snd] in *. subst b.
    unfold inc1. rewrite Z.eqb_refl. cbn. apply Dup_here. left. reflexivity.
  - right. left. auto.
Qed.

Lemma repeat_dup_incident es :
  Repeat es -> exists e, In e es /\ Dup (incident (e_src e) es).
Proof.
  induction 1 as [e es e' Hin Hsp|e es _ (e0 & Hin & Hd)].
  - exists e. split; [left; reflexivity|]. rewrite incident_cons, Dup_app. right. right.
    exists (e_tgt e). split.
    + apply in_inc1. left. split; reflexivity.
    + apply in_incident. exists e'. split; [exact Hin|]. unfold joins.
      destruct Hsp as [[? ?]|[? ?]]; [left|right]; split; congruence.
  - exists e0. split; [right; exact Hin|]. rewrite incident_cons, Dup_app. right. left. exact Hd.
Qed.

Lemma in_vertices n v : In v (map Z.of_nat (seq 0 (Z.to_nat n))) <-> 0 <= v < n.
Proof.
  rewrite in_map_iff. split.
  - intros (k & <- & Hk). apply in_seq in Hk. lia.
  - intros Hv. exists (Z.to_nat v). split; [lia|]. apply in_seq. lia.
Qed.

(* has_multiple_edges on an arbitrary multigraph: a repeated pair or a self-loop *)
Theorem has_multiple_edges_spec g :
  graph_wf g ->
  (has_multiple_edges g = true <-> (exists e, In e (snd g) /\ is_loop e) \/ Repeat (snd g)).
Proof.
  intros Hwf. unfold has_multiple_edges. rewrite existsb_exists. split.
  - intros (v & _ & H). apply dup_scan_nil in H. apply (dup_incident_sound v). exact H.
  - intros [(e & Hin & Hl)|Hr].
    + exists (e_src e). split; [apply in_vertices, (Hwf e Hin)|]. apply dup_scan_nil. apply loop_dup_incident; assumption.
    + destruct (repeat_dup_incident _ Hr) as (e & Hin & Hd).
      exists (e_src e). split; [apply in_vertices, (Hwf e Hin)|]. apply dup_scan_nil. exact Hd.
Qed.

Corollary has_multiple_edges_loop_free g :
  graph_wf g -> has_loops g = false -> (has_multiple_edges g = true <-> Repeat (snd g)).
Proof.
  intros Hwf Hnl. rewrite has_multiple_edges_spec by assumption. split; [|auto].
  intros [H|H]; [|exact H]. apply has_loops_spec in H. congruence.
Qed.

Corollary has_multiple_edges_of_loop g :
  graph_wf g -> has_loops g = true -> has_multiple_edges g = true.
Proof.
  intros Hwf Hl. apply has_multiple_edges_spec; [assumption|]. left. apply has_loops_spec. exact Hl.
Qed.

(* Repeat in terms of positions *)
Lemma Repeat_index es d :
  Repeat es <-> exists i j, (i < j < length es)%nat /\ same_pair (nth i es d) (nth j es d).
Proof.
  split.
  - induction 1 as [e es e' Hin Hsp|e es _ (i & j & Hij & Hsp)].
    + destruct (In_nth _ _ d Hin) as (j & Hj & E). exists 0%nat, (S j). cbn [nth length]. rewrite E. split; [lia|exact Hsp].
    + exists (S i), (S j). cbn [nth length]. split; [lia|exact Hsp].
  - induction es as [|e es IH]; intros (i & j & Hij & Hsp); [cbn in Hij; lia|].
    destruct j as [|j]; [lia|]. destruct i as [|i]; cbn [nth length] in *.
    + apply (Rep_here e es (nth j es d)); [apply nth_In; lia|exact Hsp].
    + apply Rep_later, IH. exists i, j. split; [lia|exact Hsp].
Qed.
