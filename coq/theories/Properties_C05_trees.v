(* Properties_C05_trees.v — C05 for the tree-based approximate entry points, PREMISE-FREE:
     include/parmcb/parmcb_approx_sva_trees.hpp   approx_mcb_sva_fvs_trees, approx_mcb_sva_iso_trees
   (sic: BOTH instantiate detail::mcb_sva_fvs_trees; the model follows the code, see ApproxTreesModel.v).
   Model: ApproxModel.approx_run (constructor + run + sequential dropped-edge builder) with the exact phase
   ApproxTreesModel.fvs_trees_exact = an ACCEPTED run of TreesModel's mcb_sva_trees (FVS builder) on the SPANNER graph:
   `scycles` is the family the exact phase emitted (every resolution of the unstable std::sort among equal candidate
   weights is an accepted run, Properties_C01_trees.C01_trees_sorted_scan_accepted), `roots` the BFS root order of the
   spanner's ForestIndex, `picks` the pick oracle of greedy_fvs on the spanner, `scan` the order std::sort left the edges in.
   Only statements; each closed by [exact <lemma>] and followed by Print Assumptions.

     C05_fvs_trees    for every simple graph with positive integer weights, every k >= 1, every scan order (sorted or
                      not), every root order covering the vertices and every complete run of greedy_fvs on the spanner:
                      EVERY run of the model whose exact phase is an accepted run on the spanner returns ApproxOk with
                      exactly m - n + c duplicate-free lists of edge ids of the CALLER's graph whose canonical forms are
                      simple cycles forming a cycle basis of the caller's graph, and the returned value is their total
                      weight under the CALLER's weights; and such a run exists.
   The premises of Properties_C05.C05_basis_modulo_exact / C05_weight_modulo_exact / C05_no_error_modulo_exact are
   discharged by Properties_C01_trees.C01_fvs_trees / Properties_C02_trees.C02_fvs_trees applied to the spanner (a simple
   graph with positive weights on the same vertices: ApproxTreesProofs1.ap_spanner_wf). *)
From Coq Require Import List Arith Bool ZArith Permutation Sorted Lia.
From Parmcb Require Import GraphModel GF2Model GraphSpec McbSpec SpannerModel SvaModel FvsModel TreesModel
  ApproxModel ApproxTreesModel ApproxTreesProofs1.
Import ListNotations.

Theorem C05_fvs_trees :
  forall g w k scan roots picks,
    simple_graph g -> positive_weights g w -> 1 <= k -> Permutation scan (seq 0 (ne g)) ->
    (forall v, v < nv g -> In v roots) ->
    (* greedy_fvs on the spanner runs to completion under the pick oracle *)
    (forall sp, construct_spanner g k scan = SpOk sp -> exists fvs, greedy_fvs (sp_graph sp) picks = FvsOk fvs) ->
    (forall scycles,
       (* the exact phase's answer is an accepted run of mcb_sva_fvs_trees on the spanner *)
       (forall sp, construct_spanner g k scan = SpOk sp ->
          exists t, mcb_sva_trees_accept_Z TbFvs (sp_graph sp) (spanner_weights w sp) roots picks scycles = Some t) ->
       exists cycles total,
         approx_sva_fvs_trees_Z g w k scan roots picks scycles = ApproxOk cycles total
         /\ cycle_basis g (map set_of_list cycles) /\ has_cycle_space_dimension g (length cycles)
         /\ Forall (fun c => NoDup c /\ forall e, In e c -> e < ne g) cycles
         /\ total = total_weight w cycles)
    /\ (exists scycles,
          forall sp, construct_spanner g k scan = SpOk sp ->
            exists t, mcb_sva_trees_accept_Z TbFvs (sp_graph sp) (spanner_weights w sp) roots picks scycles = Some t).
Proof. exact at_C05_fvs_trees. Qed.
Print Assumptions C05_fvs_trees.

(* the generic form behind it: ANY exact phase that answers, on the spanner of the run, with a minimum cycle basis of the
   spanner, its weight and the right count (also used for the TBB variants, Properties_C03_approx.v) *)
Theorem C05_any_exact_phase :
  forall (exact : graph -> list Z -> sva_result Z) g w k scan,
    simple_graph g -> positive_weights g w -> 1 <= k -> Permutation scan (seq 0 (ne g)) ->
    (forall sp, construct_spanner g k scan = SpOk sp ->
       exists cs t sup, exact (sp_graph sp) (spanner_weights w sp) = SvaOk cs t sup
         /\ min_cycle_basis (sp_graph sp) (spanner_weights w sp) cs
         /\ t = total_weight (spanner_weights w sp) cs
         /\ has_cycle_space_dimension (sp_graph sp) (length cs)) ->
    exists cycles total,
      approx_run exact g w k scan = ApproxOk cycles total
      /\ cycle_basis g (map set_of_list cycles) /\ has_cycle_space_dimension g (length cycles)
      /\ Forall (fun c => NoDup c /\ forall e, In e c -> e < ne g) cycles
      /\ total = total_weight w cycles
      /\ (k = 1 -> min_cycle_basis g w (map set_of_list cycles))
      /\ (Sorted (fun a b => (wt w a <= wt w b)%Z) scan ->
            (forall B', cycle_basis g B' -> (total <= Z.of_nat (2 * k - 1) * total_weight w B')%Z)
            /\ (forall x, OptSpec.is_opt g w x -> (x <= total <= Z.of_nat (2 * k - 1) * x)%Z)).
Proof. exact ap_generic_full. Qed.
Print Assumptions C05_any_exact_phase.

(* non-vacuity: the graph of Properties_C05.C05_nonvacuous (K4 on 0..3, a pendant edge 3-4, a 5-cycle 4-5-6-7-8), k = 2:
   the spanner keeps the 5-cycle and drops the three heaviest K4 edges; greedy_fvs on the spanner completes with the
   single pick 4, the exact phase's answer [[3;4;5;6;8]] (spanner edge ids: the 5-cycle) is an accepted run, and the
   model returns the translated 5-cycle followed by the three dropped-edge triangles, weight 24. *)
Example C05_fvs_trees_nonvacuous :
  let g := {| nv := 9; ge := [(0,1); (0,2); (0,3); (1,2); (1,3); (2,3); (3,4);
                               (4,5); (5,6); (6,7); (7,8); (8,4)] |} in
  let w := [1; 1; 2; 2; 2; 3; 1; 1; 1; 1; 1; 5]%Z in
  let scan := [6; 0; 1; 10; 7; 8; 9; 3; 2; 4; 5; 11] in
  let roots := [4; 0; 1; 2; 3; 5; 6; 7; 8] in
  simple_graph g /\ positive_weights g w /\ Permutation scan (seq 0 (ne g))
  /\ (forall v, v < nv g -> In v roots)
  /\ (forall sp, construct_spanner g 2 scan = SpOk sp -> exists fvs, greedy_fvs (sp_graph sp) [4] = FvsOk fvs)
  /\ (forall sp, construct_spanner g 2 scan = SpOk sp ->
        exists t, mcb_sva_trees_accept_Z TbFvs (sp_graph sp) (spanner_weights w sp) roots [4] [[3;4;5;6;8]] = Some t)
  /\ approx_sva_fvs_trees_Z g w 2 scan roots [4] [[3;4;5;6;8]]
     = ApproxOk [[10; 7; 8; 9; 11]; [1; 0; 3]; [2; 0; 4]; [2; 1; 5]] 24%Z.
Proof.
  cbv zeta. split; [vm_compute; reflexivity|]. split; [split; [reflexivity|repeat constructor]|].
  split; [apply SpannerProofs.scan_perm_check; vm_compute; reflexivity|].
  split; [intros v Hv; do 9 (destruct v as [|v]; [cbn [In]; tauto|]); exfalso; cbn [nv] in Hv; lia|].
  split; [|split; [|vm_compute; reflexivity]].
  - intros sp Hsp.
    match type of Hsp with ?l = _ => eassert (E : l = _) by (vm_compute; reflexivity) end.
    pose proof (eq_trans (eq_sym Hsp) E) as E1. injection E1 as ->. clear Hsp E.
    eexists. vm_compute. reflexivity.
  - intros sp Hsp.
    match type of Hsp with ?l = _ => eassert (E : l = _) by (vm_compute; reflexivity) end.
    pose proof (eq_trans (eq_sym Hsp) E) as E1. injection E1 as ->. clear Hsp E.
    eexists. vm_compute. reflexivity.
Qed.
