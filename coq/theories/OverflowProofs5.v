(* OverflowProofs5.v — C07, clause "overflows a signed integer", part 5: two concrete instances.
     ov_k4_*   K4 with unit weights (the instance of the other non-vacuity examples): every hypothesis of
               ov_overflow_total holds and the trace of the run is computed: 47 sums, the largest is the returned total 9.
     ov_k7_*   K7 with all 21 weights equal to 51130563:  2 * S = 2147483646 <= INT_MAX = 2147483647, but the minimum
               cycle basis consists of 15 triangles, so the run returns 45 * 51130563 = 2300875335 > INT_MAX:
               "2 * sum(w) <= INT_MAX" does NOT keep the running total  mcb_weight += w  of mcb_sva_signed within int.
   No axioms. *)
From Coq Require Import List Arith Bool ZArith Lia.
From Parmcb Require Import GraphModel GF2Model GraphSpec GraphLemmas McbSpec ForestModel SvaModel
     SignedModel SignedZModel SignedProofs SignedProofs2 OverflowProofs1 OverflowProofs3 OverflowProofs4.
Import ListNotations.

Local Open Scope Z_scope.

Lemma ov_k4_trace :
  snd (mcb_sva_signed_Z_tr sg_k4 sg_k4_wts sg_k4_roots sg_k4_eord)
  = [1; 1; 1; 2; 1; 2; 2; 1; 2; 3; 3; 1; 1; 1; 2; 2; 1; 2; 3; 1; 1; 1; 1; 2; 2;
     1; 2; 3; 6; 1; 1; 1; 2; 2; 1; 2; 3; 1; 1; 1; 1; 2; 2; 1; 2; 3; 9]
  /\ wsum sg_k4 sg_k4_wts = 6 /\ wmax sg_k4_wts = 1.
Proof. vm_compute. repeat split; reflexivity. Qed.

Definition ov_k7 : graph :=
  {| nv := 7; ge := [(0,1);(0,2);(0,3);(0,4);(0,5);(0,6);(1,2);(1,3);(1,4);(1,5);(1,6);(2,3);(2,4);(2,5);(2,6);
                     (3,4);(3,5);(3,6);(4,5);(4,6);(5,6)]%nat |}.
Definition ov_k7_wts : list Z := map (fun _ => 51130563) (seq 0 21).
Definition ov_k7_roots : list nat := seq 0 7.
Definition ov_k7_eord : list nat := seq 0 21.

Lemma ov_k7_simple : simple_graph ov_k7.
Proof. reflexivity. Qed.

Lemma ov_k7_positive : positive_weights ov_k7 ov_k7_wts.
Proof. split; [reflexivity|]. unfold ov_k7_wts. apply Forall_forall. intros x Hx. apply in_map_iff in Hx as (_ & <- & _). lia. Qed.

Lemma ov_k7_roots_cover : forall v, (v < nv ov_k7)%nat -> In v ov_k7_roots.
Proof. intros v Hv. apply in_seq. cbn [nv ov_k7] in Hv. lia. Qed.

Lemma ov_k7_run : exists cycles sup,
  mcb_sva_signed_Z ov_k7 ov_k7_wts ov_k7_roots ov_k7_eord = SvaOk cycles 2300875335 sup /\ length cycles = 15%nat.
Proof. vm_compute. eexists _, _. split; reflexivity. Qed.

Lemma ov_k7_sums : 2 * wsum ov_k7 ov_k7_wts = 2147483646 /\ wmax ov_k7_wts = 51130563.
Proof. vm_compute. split; reflexivity. Qed.
