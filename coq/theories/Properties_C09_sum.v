(* Properties_C09_sum.v — final statements of the QUANTITATIVE clause of property C09 "returns the sum of its cycle weights
   (up to rounding, relative 1e-9)": a proved rounding-error bound for the returned double.

   Reading aid.  FR x : R is the real value of the double x (Flocq: B2R (Prim2B x); Flocq.IEEE754.PrimFloat ties Coq's
   primitive floats to Flocq's binary64, PrimFloat.add = Bplus mode_NE).  f64_u = 2^-53 (unit roundoff), f64_max = 2^1024.
   rsum l is the exact real sum of a list of reals.  f64_nonneg w: w is finite and +0.0 <= w;  f64_weight_ok w: moreover
   w <= 0x1p+900 (both are computable tests on doubles).  c09_exact_weight wts cycles is the EXACT real sum, over all cycles
   and all edges e of each cycle, of FR (nth e wts +0.0) — the weight of the emitted cycles in exact arithmetic.

     C09_float_sum_error            left-to-right PrimFloat.add fold from +0.0 of n finite NON-NEGATIVE doubles (in particular:
                                    strictly positive ones) with (1+u)^(n-1) * sum < 2^1024: the result is finite, >= 0 and
                                    |S - sum| <= ((1+u)^(n-1) - 1) * sum      [no absolute term: subnormal sums are exact]
     C09_float_sum_error_bounded    the same with the no-overflow premise replaced by: every w <= 2^900, n <= 2^50
     C09_float_sum_within_1e9       ... and n <= 2^23: |S - sum| <= sum / 10^9
     C09_returned_value_error_sharp the binary64 signed model returns SvaOk cycles total: |FR total - exact| <=
                                    ((1+u)^((k-1)+(N-1)) - 1) * exact, k cycles, N any bound on the cycle lengths,
                                    no-overflow premise stated directly
     C09_returned_value_error       weights <= 2^900, T = k + total number of edges over all cycles <= 2^50:
                                    total is finite and |FR total - exact| <= ((1+u)^T - 1) * exact
     C09_returned_value_within_1e9  ... T <= 2^23 = 8388608: |FR total - exact| <= exact / 10^9
     C09_returned_value_within_1e9_graph
                                    ... for every simple graph with at most 2^22 = 4194304 edges (no premise on the output)
     C09_trees_returned_value_*     the same four for the tree-based variants (the model compared bit-exactly with the code,
                                    any builder) whenever every phase found an answer.
   These combine C09_binary64_returned_value_is_fold / C09_binary64_trees_partial (Properties_C09.v) with FloatSumProofs.v.
   Hypotheses are weaker than the property's domain (weights in [1e-3, 1e3] are finite, positive and <= 2^900).
   NOT proved (unchanged): that SvaOk is reached under rounding and that the exact sum is within 1e-9 of the TRUE MINIMUM.

   Assumptions (none declared by us): the axioms of Coq's Reals (ClassicalDedekindReals.sig_forall_dec, sig_not_dec,
   FunctionalExtensionality.functional_extensionality_dep), Classical_Prop.classic (Flocq), and Coq's FloatAxioms
   specification of the primitive float / int63 operations used by Flocq.IEEE754.PrimFloat. *)
From Coq Require Import List Arith ZArith Reals.
From Coq Require Floats.   (* not imported: Print Assumptions then names the primitives in full *)
From Parmcb Require Import GraphModel GraphSpec SvaModel SignedModel SignedFloatModel TreesModel TreesFloatModel
     FloatProofs FloatTreesProofs FloatSumProofs FloatSumProofs2.
Import ListNotations.
Local Open Scope R_scope.

(* ---- a list of doubles -------------------------------------------------------------------------------------------- *)

Theorem C09_float_sum_error (ws : list PrimFloat.float) :
  Forall (fun w => f64_nonneg w = true) ws ->
  (1 + f64_u) ^ Nat.pred (length ws) * rsum (map FR ws) < f64_max ->
  let s := fold_left PrimFloat.add ws PrimFloat.zero in
  PrimFloat.is_finite s = true /\ 0 <= FR s
  /\ Rabs (FR s - rsum (map FR ws)) <= ((1 + f64_u) ^ Nat.pred (length ws) - 1) * rsum (map FR ws).
Proof. exact (fs2_list_sharp ws). Qed.
Print Assumptions C09_float_sum_error.

Theorem C09_float_sum_error_bounded (ws : list PrimFloat.float) :
  Forall (fun w => f64_weight_ok w = true) ws -> (Z.of_nat (length ws) <= 2 ^ 50)%Z ->
  let s := fold_left PrimFloat.add ws PrimFloat.zero in
  PrimFloat.is_finite s = true /\ 0 <= FR s
  /\ Rabs (FR s - rsum (map FR ws)) <= ((1 + f64_u) ^ Nat.pred (length ws) - 1) * rsum (map FR ws).
Proof. exact (fs2_list_bounded ws). Qed.
Print Assumptions C09_float_sum_error_bounded.

Theorem C09_float_sum_within_1e9 (ws : list PrimFloat.float) :
  Forall (fun w => f64_weight_ok w = true) ws -> (Z.of_nat (length ws) <= 2 ^ 23)%Z ->
  let s := fold_left PrimFloat.add ws PrimFloat.zero in
  PrimFloat.is_finite s = true /\ 0 <= FR s
  /\ Rabs (FR s - rsum (map FR ws)) <= / 10 ^ 9 * rsum (map FR ws).
Proof. exact (fs2_list_1e9 ws). Qed.
Print Assumptions C09_float_sum_within_1e9.

(* ---- the signed variants --------------------------------------------------------------------------------------------- *)

Theorem C09_returned_value_error_sharp (g : graph) (wts : list PrimFloat.float) (roots eord : list nat)
        (cycles : list (list nat)) (total : PrimFloat.float) (sup : list vec) (N : nat) :
  mcb_sva_signed_F g wts roots eord = SvaOk cycles total sup ->
  Forall (fun w => f64_nonneg w = true) wts -> Forall (fun c => (length c <= N)%nat) cycles ->
  let K := (Nat.pred (length cycles) + Nat.pred N)%nat in
  (1 + f64_u) ^ K * c09_exact_weight wts cycles < f64_max ->
  PrimFloat.is_finite total = true
  /\ Rabs (FR total - c09_exact_weight wts cycles) <= ((1 + f64_u) ^ K - 1) * c09_exact_weight wts cycles.
Proof. exact (fun H => fs2_signed_sharp g wts roots eord cycles total sup H N). Qed.
Print Assumptions C09_returned_value_error_sharp.

Theorem C09_returned_value_error (g : graph) (wts : list PrimFloat.float) (roots eord : list nat)
        (cycles : list (list nat)) (total : PrimFloat.float) (sup : list vec) :
  mcb_sva_signed_F g wts roots eord = SvaOk cycles total sup ->
  Forall (fun w => f64_weight_ok w = true) wts ->
  let T := (length cycles + length (concat cycles))%nat in
  (Z.of_nat T <= 2 ^ 50)%Z ->
  PrimFloat.is_finite total = true
  /\ Rabs (FR total - c09_exact_weight wts cycles) <= ((1 + f64_u) ^ T - 1) * c09_exact_weight wts cycles.
Proof. exact (fs2_signed_T g wts roots eord cycles total sup). Qed.
Print Assumptions C09_returned_value_error.

Theorem C09_returned_value_within_1e9 (g : graph) (wts : list PrimFloat.float) (roots eord : list nat)
        (cycles : list (list nat)) (total : PrimFloat.float) (sup : list vec) :
  mcb_sva_signed_F g wts roots eord = SvaOk cycles total sup ->
  Forall (fun w => f64_weight_ok w = true) wts ->
  (Z.of_nat (length cycles + length (concat cycles)) <= 2 ^ 23)%Z ->
  PrimFloat.is_finite total = true
  /\ Rabs (FR total - c09_exact_weight wts cycles) <= c09_exact_weight wts cycles / 10 ^ 9.
Proof. exact (fs2_signed_1e9 g wts roots eord cycles total sup). Qed.
Print Assumptions C09_returned_value_within_1e9.

Theorem C09_returned_value_within_1e9_graph (g : graph) (wts : list PrimFloat.float) (roots eord : list nat)
        (cycles : list (list nat)) (total : PrimFloat.float) (sup : list vec) :
  mcb_sva_signed_F g wts roots eord = SvaOk cycles total sup ->
  simple_graph g -> (forall v, (v < nv g)%nat -> In v roots) ->
  Forall (fun w => f64_weight_ok w = true) wts -> (Z.of_nat (ne g) <= 2 ^ 22)%Z ->
  PrimFloat.is_finite total = true
  /\ Rabs (FR total - c09_exact_weight wts cycles) <= c09_exact_weight wts cycles / 10 ^ 9.
Proof. exact (fs2_signed_graph_1e9 g wts roots eord cycles total sup). Qed.
Print Assumptions C09_returned_value_within_1e9_graph.

(* ---- the tree-based variants (C09_binary64_trees_partial: the model compared bit-exactly with the code) -------------- *)

Theorem C09_trees_returned_value_error_sharp (b : tbuilder) (g : graph) (wts : list PrimFloat.float)
        (roots picks order : list nat) (phases : list (go_phase PrimFloat.float)) (total : PrimFloat.float)
        (sup : list vec) (N : nat) :
  simple_graph g -> (forall v, (v < nv g)%nat -> In v roots) ->
  tf_mcb_sva_trees_go b g wts roots picks order = GoOk phases total sup ->
  Forall (fun p => gp_found p = true) phases ->
  let cycles := map gp_cycle phases in
  Forall (fun w => f64_nonneg w = true) wts -> Forall (fun c => (length c <= N)%nat) cycles ->
  let K := (Nat.pred (length cycles) + Nat.pred N)%nat in
  (1 + f64_u) ^ K * c09_exact_weight wts cycles < f64_max ->
  PrimFloat.is_finite total = true
  /\ Rabs (FR total - c09_exact_weight wts cycles) <= ((1 + f64_u) ^ K - 1) * c09_exact_weight wts cycles.
Proof. exact (fun Hs Hr Hrun Hf => fs2_trees_sharp b g wts roots picks order phases total sup Hs Hr Hrun Hf N). Qed.
Print Assumptions C09_trees_returned_value_error_sharp.

Theorem C09_trees_returned_value_error (b : tbuilder) (g : graph) (wts : list PrimFloat.float)
        (roots picks order : list nat) (phases : list (go_phase PrimFloat.float)) (total : PrimFloat.float) (sup : list vec) :
  simple_graph g -> (forall v, (v < nv g)%nat -> In v roots) ->
  tf_mcb_sva_trees_go b g wts roots picks order = GoOk phases total sup ->
  Forall (fun p => gp_found p = true) phases ->
  let cycles := map gp_cycle phases in
  Forall (fun w => f64_weight_ok w = true) wts ->
  let T := (length cycles + length (concat cycles))%nat in
  (Z.of_nat T <= 2 ^ 50)%Z ->
  PrimFloat.is_finite total = true
  /\ Rabs (FR total - c09_exact_weight wts cycles) <= ((1 + f64_u) ^ T - 1) * c09_exact_weight wts cycles.
Proof. exact (fs2_trees_T b g wts roots picks order phases total sup). Qed.
Print Assumptions C09_trees_returned_value_error.

Theorem C09_trees_returned_value_within_1e9 (b : tbuilder) (g : graph) (wts : list PrimFloat.float)
        (roots picks order : list nat) (phases : list (go_phase PrimFloat.float)) (total : PrimFloat.float) (sup : list vec) :
  simple_graph g -> (forall v, (v < nv g)%nat -> In v roots) ->
  tf_mcb_sva_trees_go b g wts roots picks order = GoOk phases total sup ->
  Forall (fun p => gp_found p = true) phases ->
  let cycles := map gp_cycle phases in
  Forall (fun w => f64_weight_ok w = true) wts ->
  (Z.of_nat (length cycles + length (concat cycles)) <= 2 ^ 23)%Z ->
  PrimFloat.is_finite total = true
  /\ Rabs (FR total - c09_exact_weight wts cycles) <= c09_exact_weight wts cycles / 10 ^ 9.
Proof. exact (fs2_trees_1e9 b g wts roots picks order phases total sup). Qed.
Print Assumptions C09_trees_returned_value_within_1e9.

Theorem C09_trees_returned_value_within_1e9_graph (b : tbuilder) (g : graph) (wts : list PrimFloat.float)
        (roots picks order : list nat) (phases : list (go_phase PrimFloat.float)) (total : PrimFloat.float) (sup : list vec) :
  simple_graph g -> (forall v, (v < nv g)%nat -> In v roots) ->
  tf_mcb_sva_trees_go b g wts roots picks order = GoOk phases total sup ->
  Forall (fun p => gp_found p = true) phases ->
  let cycles := map gp_cycle phases in
  Forall (fun w => f64_weight_ok w = true) wts -> (Z.of_nat (ne g) <= 2 ^ 22)%Z ->
  PrimFloat.is_finite total = true
  /\ Rabs (FR total - c09_exact_weight wts cycles) <= c09_exact_weight wts cycles / 10 ^ 9.
Proof. exact (fs2_trees_graph_1e9 b g wts roots picks order phases total sup). Qed.
Print Assumptions C09_trees_returned_value_within_1e9_graph.

(* ---- the hypotheses are satisfiable on concrete inputs with inexact weights -------------------------------------------- *)

(* the four doubles nearest to 0.1, 0.1, 0.8, 0.6 *)
Example C09_float_sum_nonvacuous :
  Forall (fun w => f64_weight_ok w = true) d9_weights /\ (Z.of_nat (length d9_weights) <= 2 ^ 23)%Z
  /\ d9_weights <> [] /\ Forall (fun w => PrimFloat.ltb PrimFloat.zero w = true) d9_weights.
Proof.
  split; [repeat constructor|]. split; [vm_compute; discriminate|]. split; [discriminate|repeat constructor].
Qed.

(* the witness of known finding D9 (4-cycle, 0.1 0.1 0.8 0.6) under the signed model: all hypotheses of
   C09_returned_value_within_1e9_graph (hence of the others) hold *)
Example C09_returned_value_nonvacuous :
  mcb_sva_signed_F d9_graph d9_weights d9_roots d9_eord = SvaOk [[0; 1; 2; 3]]%nat d9_total [[0%nat]]
  /\ simple_graph d9_graph /\ (forall v, (v < nv d9_graph)%nat -> In v d9_roots)
  /\ Forall (fun w => f64_weight_ok w = true) d9_weights /\ (Z.of_nat (ne d9_graph) <= 2 ^ 22)%Z
  /\ (Z.of_nat (length [[0; 1; 2; 3]]%nat + length (concat [[0; 1; 2; 3]]%nat)) <= 2 ^ 23)%Z.
Proof.
  split; [exact d9_signed_ok|]. split; [exact d9_simple|]. split; [exact d9_roots_cover|].
  split; [repeat constructor|]. split; vm_compute; discriminate.
Qed.

(* ... so the bound holds of the double the signed model returns on it *)
Example C09_returned_value_on_d9 :
  PrimFloat.is_finite d9_total = true
  /\ Rabs (FR d9_total - c09_exact_weight d9_weights [[0; 1; 2; 3]]%nat)
     <= c09_exact_weight d9_weights [[0; 1; 2; 3]]%nat / 10 ^ 9.
Proof.
  destruct C09_returned_value_nonvacuous as (H1 & H2 & H3 & H4 & H5 & _).
  exact (C09_returned_value_within_1e9_graph _ _ _ _ _ _ _ H1 H2 H3 H4 H5).
Qed.

(* D9b's graph (5-cycle + chord, decimal weights) under the FVS trees variant: both phases found *)
Example C09_trees_returned_value_nonvacuous :
  simple_graph d9b_graph /\ (forall v, (v < nv d9b_graph)%nat -> In v d9b_roots)
  /\ Forall (fun w => f64_weight_ok w = true) d9b_weights /\ (Z.of_nat (ne d9b_graph) <= 2 ^ 22)%Z
  /\ exists phases total sup, tf_mcb_sva_trees_go TbFvs d9b_graph d9b_weights d9b_roots [3%nat] [0; 1]%nat = GoOk phases total sup
       /\ Forall (fun p => gp_found p = true) phases /\ length phases = 2%nat.
Proof.
  split; [exact d9b_simple|]. split; [exact d9b_roots_cover|]. split; [repeat constructor|].
  split; [vm_compute; discriminate|].
  eexists _, _, _. split; [vm_compute; reflexivity|]. split; [repeat constructor|reflexivity].
Qed.
