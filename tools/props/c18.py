"""C18 — prime-field arithmetic (fp, primes, SpVecFP) matches arithmetic modulo p.
Theorems: Properties_C18.v (functional statements over Z) and Properties_C18_overflow.v (every intermediate value of the
computation is bounded: the built-in instantiations cannot overflow inside the stated domain).
Tie: exact comparison of ext_gcd / get_mult_inverse / is_prime / SpVecFP histories between the real templates
(long long, int and cpp_int instantiations, harness/c18.cpp) and the extracted model; the built-in instantiations are
additionally driven right up to the proved bounds in two builds with -fsanitize=signed-integer-overflow
-fno-sanitize-recover=all (with and without the extras of PARMCB_INVARIANTS_CHECK) and compared with the extracted TRACED
model (component c18ov), which also predicts, case by case, whether some intermediate value leaves the type."""
import json, math, os, re
import lib

PID = "C18"
THEOREMS = ["Properties_C18.v", "Properties_C18_overflow.v", "Properties_C18_rename.v"]
UBSAN = ["-fsanitize=signed-integer-overflow", "-fno-sanitize-recover=all"]
# the three builds of harness/c18.cpp
BUILDS = {"c18": dict(name="c18", srcs=["c18.cpp"]),
          "c18_ubsan": dict(name="c18_ubsan", srcs=["c18.cpp"], flags=UBSAN),                                  # repository configuration (PARMCB_INVARIANTS_CHECK, assertions on)
          "c18_ubsan_nochk": dict(name="c18_ubsan_nochk", srcs=["c18.cpp"], flags=UBSAN, defines=["C18_NO_INVARIANTS_CHECK"])}   # without the invariant checks
TMAX = {"": 2 ** 63 - 1, "i": 2 ** 31 - 1}      # kind suffix -> largest value of the C++ type ("" = long long, "i" = int)
SQRT_SIDE = 2 ** 52                              # long long is_prime: sqrt goes through a double (documented side condition)
SMALL_PRIMES = [2, 3, 5, 7, 11, 13, 101, 257, 65537, 2147483647]
BIG_PRIMES = [170141183460469231731687303715884105727, 2305843009213693951, 1000000007]


def is_prime_ref(n):
    if n < 2: return False
    for q in (2, 3, 5, 7, 11, 13, 17, 19, 23, 29, 31, 37):
        if n % q == 0: return n == q
    d, r = n - 1, 0
    while d % 2 == 0: d //= 2; r += 1
    for a in (2, 3, 5, 7, 11, 13, 17, 19, 23, 29, 31, 37):
        x = pow(a, d, n)
        if x in (1, n - 1): continue
        for _ in range(r - 1):
            x = x * x % n
            if x == n - 1: break
        else:
            return False
    return True


def interesting_ints(rng, big):
    lim = 2 ** 200 if big else 2 ** 31 - 1
    pool = [0, 1, -1, 2, -2, 3, 4, -4, 5, 6, 7, 12, 18, 46, -240, 1000, 2 ** 16, 2 ** 16 + 1, 2 ** 30, 2 ** 31 - 1, -(2 ** 31 - 1)]
    fib = [1, 1]
    while fib[-1] < lim: fib.append(fib[-1] + fib[-2])
    fib = [f for f in fib if f <= lim]
    r = rng.random()
    if r < 0.25: v = rng.choice(pool)
    elif r < 0.35: v = rng.choice(fib[-12:]) * rng.choice([1, -1])
    elif r < 0.45: v = rng.choice(fib) * rng.choice([1, -1])
    elif r < 0.6: v = rng.randint(-50, 50)
    elif r < 0.7: v = (2 ** rng.randint(1, 190 if big else 30)) + rng.choice([-1, 0, 1])
    else: v = rng.randint(-lim, lim)
    if abs(v) > lim: v = lim if v > 0 else -lim
    return v


def gen_vec_history(rng, big, maxops):
    p = rng.choice(BIG_PRIMES + SMALL_PRIMES if big else SMALL_PRIMES + [4, 6, 9, 15])  # composite moduli are allowed by the theorem (p >= 2)
    K = rng.randint(2, 4); D = rng.choice([1, 2, 4, 8, 20])
    nops = rng.randint(1, maxops); ops = []
    def scalar():
        r = rng.random()
        # keep long long products in range: values < p <= 2^31, scalars |c| <= 2^31
        lim = 2 ** 190 if big else 2 ** 31 - 1
        if r < 0.3: return rng.choice([0, 1, -1, p, -p, 2 * p, p - 1, 1 - p, p + 1])if (big or p < 2 ** 30) else rng.choice([0, 1, -1, p, -p, p - 1])
        if r < 0.6: return rng.randint(-20, 20)
        return rng.randint(-lim, lim)
    for _ in range(nops):
        r = rng.random(); d, a, b = rng.randrange(K), rng.randrange(K), rng.randrange(K)
        if r < 0.2: ops.append("U %d %d" % (d, rng.randrange(D)))
        elif r < 0.26: ops.append("C %d %d" % (d, a))
        elif r < 0.30: ops.append("A %d %d" % (d, a if rng.random() < 0.8 else d))
        elif r < 0.32: ops.append("M %d %d" % (d, a))          # move-assignment from a temporary into a vector built for ANOTHER prime
        elif r < 0.5: ops.append("P %d %d %d" % (d, a, b))
        elif r < 0.62: ops.append("Q %d %d" % (d, a if rng.random() < 0.8 else d))
        elif r < 0.74: ops.append("S %d %d %d" % (d, a, scalar()))
        elif r < 0.79: ops.append("R %d %d" % (d, scalar()))
        elif r < 0.82:
            # v *= (reference to v's own leading coefficient): the predicted value comes from the dense computation on the history so far
            sofar = dense_vec("V %d %d %d %d %s" % (p, K, D, len(ops), " ".join(ops))).split(" ; V")[1 + d].split()
            ops.append("RA %d %d" % (d, int(sofar[0].split(":")[1]) if sofar else scalar()))
        elif r < 0.85: ops.append("X %d" % d)
        elif r < 0.95: ops.append("D %d %d" % (a, b))
        else: ops.append("Z %d" % a)
    wide = "W" if rng.random() < 0.25 else ""       # a quarter of the histories with coordinates at both ends of the size_t index space
    return "%s %d %d %d %d %s" % (("VWB" if big else "VW") if wide else ("VB" if big else "V"), p, K, D, len(ops), " ".join(ops))


def model_line(case):
    """the model (and the dense reference) see the history itself: the narrow type, the renaming of coordinates (VW) and the aliasing of the scalar (RA) are the harness's business"""
    t = case.split(" ", 1)
    if t[0] in ("Vs", "VW"): case = "V " + t[1]
    elif t[0] == "VWB": case = "VB " + t[1]
    return case.replace(" RA ", " R ") if case[0] == "V" else case


def gen_short_dot(rng):
    """SpVecFP<short>: (p-1)^2 fits the type (p <= 181), every single operation of the code stays in range, but a dot product over N >= 182 common indices
    would not if its terms were accumulated without the per-term reduction (seeded change C18/r6m1); also long sums and scalings"""
    p = rng.choice([181, 179, 173, 127, 2, 3])
    N = rng.randint(185, 400)
    ops = []
    for i in range(N):
        ops += ["U 1 %d" % i, "R 1 %d" % rng.choice([p - 1, p - 1, -1, p - 2 if p > 2 else 1]), "Q 0 1", "U 1 %d" % i, "Q 2 1"]
        if i % 97 == 96: ops.append("D 0 2")
    ops += ["D 0 2", "D 0 0", "D 2 2", "Z 0", "S 1 0 %d" % (p - 1), "D 1 2"]
    return "Vs %d 3 %d %d %s" % (p, N, len(ops), " ".join(ops))


def dense_vec(line):
    t = line.split(); p = int(t[1]); K = int(t[2]); n = int(t[4]); i = 5
    st = [dict() for _ in range(K)]; outs = []
    def norm(d): return {k: v % p for k, v in d.items() if v % p != 0}
    for _ in range(n):
        o = t[i]
        if o == "U": d, x = int(t[i + 1]), int(t[i + 2]); st[d] = norm({x: 1}); i += 3
        elif o in ("C", "A", "M"): d, a = int(t[i + 1]), int(t[i + 2]); st[d] = dict(st[a]); i += 3
        elif o == "P":
            d, a, b = int(t[i + 1]), int(t[i + 2]), int(t[i + 3]); i += 4
            st[d] = norm({k: st[a].get(k, 0) + st[b].get(k, 0) for k in set(st[a]) | set(st[b])})
        elif o == "Q":
            d, a = int(t[i + 1]), int(t[i + 2]); i += 3
            st[d] = norm({k: st[d].get(k, 0) + st[a].get(k, 0) for k in set(st[a]) | set(st[d])})
        elif o == "S": d, a, c = int(t[i + 1]), int(t[i + 2]), int(t[i + 3]); i += 4; st[d] = norm({k: v * c for k, v in st[a].items()})
        elif o in ("R", "RA"): d, c = int(t[i + 1]), int(t[i + 2]); i += 3; st[d] = norm({k: v * c for k, v in st[d].items()})
        elif o == "X": st[int(t[i + 1])] = {}; i += 2
        elif o == "D": a, b = int(t[i + 1]), int(t[i + 2]); i += 3; outs.append(sum(st[a][k] * st[b][k] for k in set(st[a]) & set(st[b])) % p)
        elif o == "Z": outs.append(len(st[int(t[i + 1])])); i += 2
    return "O" + "".join(" %d" % x for x in outs) + "".join(" ; V" + "".join(" %d:%d" % (k, v[k]) for k in sorted(v)) for v in st)


def judge(case, impl):
    """does the implementation's answer violate the property text? returns reason or None"""
    t = case.split(); kind = t[0][0] + ("B" if t[0].endswith("B") else "")     # the type suffix i (int) does not matter to the judge
    try:
        if kind in ("G", "GB"):
            a, b = int(t[1]), int(t[2]); r = impl.split()
            if r[0] != "G": return "ext_gcd did not return: " + impl
            g, x, y = int(r[1]), int(r[2]), int(r[3])
            if g != math.gcd(a, b) or g < 0: return "ext_gcd(%d,%d) returned g=%d, gcd is %d" % (a, b, g, math.gcd(a, b))
            if a * x + b * y != g: return "ext_gcd(%d,%d) returned x=%d y=%d with a*x+b*y=%d != g=%d" % (a, b, x, y, a * x + b * y, g)
        elif kind in ("I", "IB"):
            a, p = int(t[1]), int(t[2])
            if p <= 0: return None
            if math.gcd(a, p) == 1:
                if not impl.startswith("I "): return "get_mult_inverse(%d,%d) did not return a value: %s" % (a, p, impl)
                x = int(impl.split()[1])
                if (a * x) % p != 1 % p: return "get_mult_inverse(%d,%d)=%d is not an inverse" % (a, p, x)
            elif impl != "THROW": return "get_mult_inverse(%d,%d) must throw (gcd=%d) but gave %s" % (a, p, math.gcd(a, p), impl)
        elif kind in ("P", "PB"):
            p = int(t[1])
            if p >= 2 and impl != ("P 1" if is_prime_ref(p) else "P 0"): return "is_prime(%d) = %s" % (p, impl)
        elif kind in ("V", "VB"):
            d = dense_vec(case)
            if impl != d: return "SpVecFP history differs from the dense computation mod p: impl %s | dense %s" % (impl[:120], d[:120])
    except Exception as ex:
        return "unparsable implementation answer %r (%s)" % (impl, ex)
    return None


def gen_cases(c, tier):
    rng = c.rng; cases = []
    npairs = 10000 if tier == "quick" else 100000
    for _ in range(npairs):
        big = rng.random() < 0.3
        cases.append("%s %d %d" % ("GB" if big else "G", interesting_ints(rng, big), interesting_ints(rng, big)))
    for a in range(-6, 7):
        for b in range(-6, 7):
            if (a, b) != (0, 0): cases.append("G %d %d" % (a, b))
    for _ in range(npairs // 5):
        big = rng.random() < 0.3
        p = rng.choice((BIG_PRIMES if big else []) + SMALL_PRIMES + [1, 4, 6, 9, 12, 15, 35, 1 << 20, 0, -3, -7]) if rng.random() < 0.6 else rng.randint(1, 5000)
        cases.append("%s %d %d" % ("IB" if big else "I", interesting_ints(rng, big), p))
    pmax = 10000 if tier == "quick" else 100000
    for p in range(1, pmax + 1):
        cases.append("P %d" % p)
    for _ in range(300 if tier == "quick" else 3000):
        r = rng.random()
        if r < 0.3: q = rng.choice([3, 5, 7, 11, 101, 1009, 9973, 31607]); p = q * q          # squares of primes: the sqrt boundary
        elif r < 0.5: q = rng.choice([3, 5, 7, 11, 101, 1009, 9973]); p = q * (q + 2)
        else: p = rng.randint(2, 10 ** 9)
        cases.append("%s %d" % ("PB" if rng.random() < 0.3 else "P", p))
    # multiprecision p whose integer square root has tiny low 64 bits (p = B^2 + c, B a multiple of 2^64) and a small prime factor:
    # a bound computed through a 64-bit intermediate would stop the trial division before reaching that factor
    for B in (1 << 64, 1 << 65, 3 << 64, 1 << 96, 5 << 70):
        for cc in range(1, 80, 2):
            pp = B * B + cc
            if any(pp % f == 0 for f in (3, 5, 7, 11, 13, 17, 19, 23, 29, 31)):
                cases.append("PB %d" % pp)
    nh = 2000 if tier == "quick" else 20000
    for _ in range(nh):
        cases.append(gen_vec_history(rng, rng.random() < 0.3, 40 if tier == "quick" else 100))
    return cases


# ------------------------------------------------------------------------------------------------------------------
# the built-in instantiations up to the proved bounds (Properties_C18_overflow.v)
# ------------------------------------------------------------------------------------------------------------------
LL_PRIMES = [9223372036854775783, 9223372036854775643, 6148914691236517223, 4611686018427388039, 2305843009213693951, 3037000507, 3037000493]
INT_PRIMES = [2147483647, 2147483629, 2147483587, 1431655777, 1073741827, 46349, 46337]


def near_max_int(rng, mx):
    """values biased to the ends of [-mx, mx]: the maximum, halves, thirds, Fibonacci numbers (worst case of Euclid), powers of two"""
    r = rng.random()
    fib = [1, 1]
    while fib[-1] + fib[-2] <= mx: fib.append(fib[-1] + fib[-2])
    if r < 0.2: v = mx - rng.randint(0, 3)
    elif r < 0.3: v = mx // rng.choice([2, 3, 4]) + rng.randint(-2, 2)
    elif r < 0.45: v = rng.choice(fib[-6:])
    elif r < 0.55: v = 2 ** rng.randint(2, mx.bit_length() - 1) + rng.choice([-1, 0, 1])
    elif r < 0.65: v = rng.randint(0, 50)
    elif r < 0.75: v = rng.randint(1, 2 ** (mx.bit_length() // 2 + 1))
    else: v = rng.randint(0, mx)
    v = min(v, mx)
    return v if rng.random() < 0.5 else -v


def gen_wide_history(rng, sfx, maxops, outside):
    """SpVecFP history over a built-in type whose products reach (p-1)*max(2,p-1,B) ~ max(T); outside: slightly beyond"""
    mx = TMAX[sfx]; root = math.isqrt(mx) + 1                                  # (root-1)^2 <= mx < root^2
    r = rng.random()
    if r < 0.35: p = root - rng.randint(0, 3)
    elif r < 0.5: p = rng.choice([q for q in (LL_PRIMES if sfx == "" else INT_PRIMES) if q <= root])
    elif r < 0.7: p = rng.choice([2, 3, 5, 7, 11, 257, 65537, 4, 6, 9])
    else: p = rng.randint(2, root)
    if outside and rng.random() < 0.5: p = root + rng.randint(1, 3)
    B = mx // (p - 1)                                                           # |scalar| <= B keeps (p-1)*|scalar| <= max(T)
    if outside and rng.random() < 0.7: B = min(mx, B + 1 + rng.randint(0, 2))     # scalars must still be values of the type
    K = rng.randint(2, 3); D = rng.choice([1, 2, 4]); ops = []
    def scalar():
        q = rng.random()
        if q < 0.35: return rng.choice([B, -B, B - 1, 1 - B])
        if q < 0.6: return rng.choice([-1, 1, p - 1, 1 - p, p, -p, 0]) if p <= B else rng.choice([-1, 1, 0])
        if q < 0.75: return rng.randint(-20, 20)
        return rng.randint(-B, B)
    # make large entries early: unit vectors times -1 hold p-1
    for d in range(K):
        ops.append("U %d %d" % (d, rng.randrange(D)))
        if rng.random() < 0.8: ops.append("R %d -1" % d)
    for _ in range(rng.randint(1, maxops)):
        r = rng.random(); d, a, b = rng.randrange(K), rng.randrange(K), rng.randrange(K)
        if r < 0.1: ops.append("U %d %d" % (d, rng.randrange(D)))
        elif r < 0.3: ops.append("P %d %d %d" % (d, a, b))
        elif r < 0.42: ops.append("Q %d %d" % (d, a))
        elif r < 0.62: ops.append("S %d %d %d" % (d, a, scalar()))
        elif r < 0.74: ops.append("R %d %d" % (d, scalar()))
        elif r < 0.94: ops.append("D %d %d" % (a, b))
        else: ops.append("Z %d" % a)
    return "V%s %d %d %d %d %s" % (sfx, p, K, D, len(ops), " ".join(ops))


def gen_wide_cases(c, tier):
    """cases for the built-in types near the bounds of Properties_C18_overflow.v; a small share lies just OUTSIDE them (the minimum
    value of the type, moduli above sqrt(max)+1, scalars above max/(p-1)): there the traced model predicts the overflow"""
    rng = c.rng; cases = []
    n = 1500 if tier == "quick" else 15000
    for sfx in ("", "i"):
        mx = TMAX[sfx]; primes = LL_PRIMES if sfx == "" else INT_PRIMES
        for _ in range(n):
            cases.append("G%s %d %d" % (sfx, near_max_int(rng, mx), near_max_int(rng, mx)))
        for a in (mx, -mx, mx - 1, 1 - mx):
            for b in (mx, -mx, mx - 1, 1 - mx, 0, 1, -1, 2, 5, mx // 2, mx // 2 + 1):
                cases.append("G%s %d %d" % (sfx, a, b)); cases.append("G%s %d %d" % (sfx, b, a))
        for b in (0, 1, 3, -5, mx, -mx - 1):                                    # the minimum value: -a is not representable
            cases.append("G%s %d %d" % (sfx, -mx - 1, b)); cases.append("G%s %d %d" % (sfx, b, -mx - 1))
        for _ in range(n // 2):
            r = rng.random()
            if r < 0.5: p = rng.choice(primes[:4])
            elif r < 0.7: p = mx - rng.randint(0, 40)
            elif r < 0.8: p = rng.choice([mx // 2 + rng.randint(-3, 3), mx // 3 * 2 + rng.randint(0, 5)])
            else: p = rng.randint(1, mx)
            a = near_max_int(rng, mx) if rng.random() < 0.7 else rng.randint(-60, 60)
            cases.append("I%s %d %d" % (sfx, a, p))
        for _ in range(n // 5):
            cases.append(gen_wide_history(rng, sfx, 12 if tier == "quick" else 30, False))
        for _ in range(n // 40):
            cases.append(gen_wide_history(rng, sfx, 8, True))
    # is_prime<int> up to 2^31 - 1 (the model's loop runs at most 46341 times there)
    mx = TMAX["i"]
    ps = set(INT_PRIMES + [mx - k for k in range(0, 60)] + [46340 ** 2 + k for k in range(-4, 5)] + [46339 ** 2, 46337 ** 2, 46337 * 46349, 3 * 715827881])
    for _ in range(150 if tier == "quick" else 1500):
        ps.add(rng.randint(2, mx))
    cases += ["Pi %d" % q for q in sorted(ps) if 2 <= q <= mx]
    # is_prime<long long> just below 2^52 (trial division up to 2^26 in the code; the model is not executed, see check)
    for q in ([4503599627370449, 4503599627370495, 67108859 * 67108837] if tier == "quick" else
              [4503599627370449, 4503599627370439, 4503599627370495, 67108859 * 67108837, 67108859 ** 2, 4503599627370493]):
        cases.append("P %d" % q)
    return cases


def parse_ov(line):
    """model line of component c18ov -> (answer, (lo, hi), (lo_chk, hi_chk) or None)"""
    parts = [x.strip() for x in line.split(" | ")]
    a = parts[1].split()
    rng0 = (int(a[0]), int(a[1]))
    rng1 = None
    if len(parts) > 2:
        b = parts[2].split(); rng1 = (int(b[0]), int(b[1]))
    return parts[0], rng0, rng1


def is_overflow_report(impl):
    return impl.startswith("CRASH") and "runtime error" in impl and ("overflow" in impl or "negation of" in impl)


OVF_RE = re.compile(r"fp\.hpp:\d+:\d+: runtime error: signed integer overflow: (-?\d+) ([*+-]) (-?\d+) cannot be represented")


def known_signature(fid, case, impl, san):
    """is this answer exactly the documented behaviour of the known finding?  (matched on the operands of the reported operation, not on
    line numbers)  D18a: the assertion of ext_gcd multiplies an argument by its coefficient, or adds the two products (their sum is the gcd);
    D18b: is_prime squares sqrtt = floor(sqrt p) + 1; in the plain build the wrapped square makes is_prime throw"""
    t = case.split()
    if not san:
        return fid == "D18b" and impl == "P THROW"
    m = OVF_RE.search(impl)
    if not (impl.startswith("CRASH") and m): return False
    u, op, v = int(m.group(1)), m.group(2), int(m.group(3))
    if fid == "D18b":
        return op == "*" and u == v == math.isqrt(int(t[1])) + 1
    a, b = int(t[1]), int(t[2])
    if op == "*": return u in (a, b) or v in (a, b)
    return op == "+" and u + v == math.gcd(a, b)


def check_wide(c, exes):
    """run the near-the-bounds stream through the sanitizer builds (and the vector / is_prime part through the plain build) and
    compare with the traced model"""
    cases = gen_wide_cases(c, c.tier)
    findings = {f["id"]: f for f in lib.known_findings(PID)}
    def heavy(cs):
        t = cs.split(); return t[0] == "P" and int(t[1]) > 10 ** 12
    light = [i for i, cs in enumerate(cases) if not heavy(cs)]
    mo_l = lib.run_model("c18ov", [cases[i] for i in light])
    mo = [None] * len(cases)
    for i, m in zip(light, mo_l): mo[i] = m
    known = {"D18a": [], "D18b": []}
    reported = {}
    stats = {"predicted_overflow_confirmed": 0, "inside_bounds_compared": 0}
    def report(kind, why, rec, found):
        if sanlog and re.search(r"Sanitizer|runtime error:", rec.get("impl") or ""):
            with open(sanlog, "a") as f:
                f.write(json.dumps({"cmd": [exes.get(rec.get("build"))], "case": rec["case"], "rc": 1, "report": rec["impl"]}) + "\n")
        key = (kind, rec.get("build"), found)
        if reported.get(key, 0) >= 2: return
        reported[key] = reported.get(key, 0) + 1
        c.violation(why, rec, found)
    # sanitizer re-run by C07 (VERIF_SANITIZE): all three builds carry the sanitizers.  The reports this stream EXPECTS (cases outside the
    # bounds, known findings D18a/D18b) must not be logged as "report on a valid input"; every unexpected one is logged by report() below
    sanlog = os.environ.pop("VERIF_SAN_LOG", None)
    all_san = bool(os.environ.get("VERIF_SANITIZE"))
    for build in ("c18_ubsan_nochk", "c18_ubsan", "c18"):
        exe = exes.get(build)
        if not exe: continue
        chk = build != "c18_ubsan_nochk"; san = build != "c18" or all_san
        idx = []; n_assert = {}
        for i, cs in enumerate(cases):
            t = cs.split(); k = t[0][0]
            if build == "c18" and k in "GI": continue                       # plain build: an overflowing assertion would be undefined behaviour there
            if build == "c18_ubsan_nochk" and k == "I" and int(t[2]) <= 0: continue   # the p <= 0 test is one of the invariant checks
            if build == "c18_ubsan" and k in "GI" and mo[i] is not None and " | " in mo[i]:
                # most pairs near max(T) overflow in the assertion (D18a) and abort the process: a sample of them is enough
                _, q0, q1 = parse_ov(mo[i]); mx = TMAX[t[0][1:]]
                if -mx - 1 <= q0[0] and q0[1] <= mx and not (-mx - 1 <= q1[0] and q1[1] <= mx):
                    n_assert[t[0]] = n_assert.get(t[0], 0) + 1
                    if n_assert[t[0]] > 40: continue
            idx.append(i)
        io = lib.run_lines([exe], [cases[i] for i in idx], timeout=900, env={"UBSAN_OPTIONS": "print_stacktrace=0:halt_on_error=1"})   # the report line itself must end the CRASH answer
        for i, impl in zip(idx, io):
            cs = cases[i]; t = cs.split(); k = t[0][0]; sfx = t[0][1:]; mx = TMAX[sfx]
            rec = {"component": "c18ov", "build": build, "case": cs, "impl": impl, "model": mo[i]}
            if mo[i] is None:                                               # is_prime<long long> near 2^52: Miller-Rabin reference, theorem C18_overflow_is_prime for the bounds
                if int(t[1]) < SQRT_SIDE:
                    why = judge(cs, impl)
                    if why: report(k, why, rec, True)
                    stats["inside_bounds_compared"] += 1
                continue
            if mo[i].startswith("MODEL-"):
                report(k, "traced model fails on %s: %s" % (cs[:80], mo[i]), dict(rec, theorem_or_correspondence="extracted FpOverflowModel (c18ov)"), False); continue
            ans, r0, r1 = parse_ov(mo[i])
            fits0 = -mx - 1 <= r0[0] and r0[1] <= mx
            fits1 = fits0 if (r1 is None or not chk) else (-mx - 1 <= r1[0] and r1[1] <= mx)
            if not fits0:
                # outside the proved domain: the traced model says some intermediate value leaves the type
                if not san: continue
                if is_overflow_report(impl): stats["predicted_overflow_confirmed"] += 1
                else:
                    report(k, "correspondence c18ov (%s, %s) no longer checks: the traced model predicts a value outside the type (trace range %d..%d) but the sanitizer build reports no overflow: %s"
                           % (t[0], build, r0[0], r0[1], impl[:100]),
                           dict(rec, theorem_or_correspondence="correspondence c18ov: traced FpOverflowModel vs harness/c18.cpp (%s)" % build), False)
                continue
            if not fits1:
                # inside the domain of the theorems, but the extras of PARMCB_INVARIANTS_CHECK leave the type: known findings D18a / D18b
                fid = "D18a" if k in "GI" else "D18b"
                if impl == ans: continue                                    # repaired library
                if fid in findings and known_signature(fid, cs, impl, san):
                    known[fid].append((cs, impl, build)); continue
                why = judge(cs, impl) or "%s answers %s" % (t[0], impl[:160])
                report(k, why, rec, True); continue
            stats["inside_bounds_compared"] += 1
            if impl != ans:
                why = judge(cs, impl)
                if why or impl.startswith("CRASH"):
                    report(k, why or ("%s did not return: %s" % (cs[:80], impl[:200])), rec, True)
                else:
                    report(k, "correspondence c18ov (%s, %s) no longer checks; implementation answer still satisfies the property text" % (t[0], build),
                           dict(rec, theorem_or_correspondence="correspondence c18ov: traced FpOverflowModel vs harness/c18.cpp (%s), case kind %s" % (build, t[0])), False)
            else:
                why = judge(cs, impl)                                       # model and code agree: the independent judge must agree too
                if why: report(k, why, rec, True)
    if sanlog: os.environ["VERIF_SAN_LOG"] = sanlog
    for i, cs in enumerate(cases):
        t = cs.split(); k = t[0][0]
        nt = (k == "G" and t[1] != "0" and t[2] != "0") or (k == "I" and int(t[2]) > 1) or (k == "P" and int(t[1]) >= 2) or k == "V"
        c.count(cs, nt, bucket=t[0] + "-wide")
    for fid, hits in known.items():
        if hits:
            cs, impl, build = min(hits, key=lambda h: len(h[0]))
            c.known(findings[fid], "finding=%s signature=\"%s\" %d case(s) inside the domain of Properties_C18_overflow.v on which only the PARMCB_INVARIANTS_CHECK code overflows, e.g. %s -> %s (%s)"
                    % (fid, findings[fid]["signature"], len(hits), cs, impl[:160], build))
    c.extra["wide_stream"] = dict(stats, cases=len(cases), known_D18a=len(known["D18a"]), known_D18b=len(known["D18b"]))


def check(tier, seed):
    c = lib.Check(PID, tier, seed, THEOREMS)
    c.rule = ("ext_gcd on sign/zero/boundary/Fibonacci-biased pairs (long long |v| < 2^31, cpp_int up to 2^200) and all pairs in [-6,6]^2; "
              "get_mult_inverse on prime, composite, 1 and non-positive moduli; is_prime on every p up to the tier bound plus squares/products of primes and random p < 1e9; "
              "SpVecFP histories over prime and composite moduli with negative / multiple-of-p scalars; "
              "wide stream (long long and int, sanitizer builds): pairs biased to max(T), max(T)/2, Fibonacci numbers and powers of two, incl. the minimum value (predicted overflow); "
              "inverses modulo primes and composites up to max(T); is_prime<int> up to 2^31-1 and is_prime<long long> just below 2^52; vector histories with p up to "
              "sqrt(max(T))+1, entries p-1 and scalars up to max(T)/(p-1), a share just outside the bounds; distinct by md5; non-trivial = "
              "gcd with both arguments non-zero, inverse with p > 1, p >= 2, history with an addition or scaling")
    c.step_prove()
    ok = c.step_model()
    built = lib.build_many(list(BUILDS.values()))
    exes = {}
    for nm, (e, err) in built.items():
        if e is None:
            c.violation("implementation harness %s does not compile against the working tree" % nm,
                        {"theorem_or_correspondence": "harness build " + nm, "log": err, "kind": "impl-build"}, False)
        else: exes[nm] = e
    exe = exes.get("c18")
    if ok and exe:
        cases = []
        corpus = os.path.join(lib.ROOT, "corpus", PID)
        if os.path.isdir(corpus):
            for f in sorted(os.listdir(corpus)):
                cases += [l.strip() for l in open(os.path.join(corpus, f)) if l.strip() and not l.startswith("#")]
        c.extra["corpus_cases"] = len(cases)
        cases += gen_cases(c, tier)
        cases += [gen_short_dot(c.rng) for _ in range(12 if tier == "quick" else 60)]
        # is_prime on multiprecision inputs beyond 10^12: the model's trial division (Z.iter over sqrt p steps, no early exit) cannot be
        # EXECUTED there (theorem C18_is_prime covers them); the implementation's answer is compared with a Miller-Rabin reference instead
        heavy = {i for i, cs in enumerate(cases) if cs.split()[0] == "PB" and abs(int(cs.split()[1])) > 10 ** 12}
        light = [i for i in range(len(cases)) if i not in heavy]
        mo_l = lib.run_model("c18", [model_line(cases[i]) for i in light])   # the Z model does not depend on the C++ type
        mo = [None] * len(cases)
        for i, m in zip(light, mo_l): mo[i] = m
        for i in heavy: mo[i] = "P 1" if is_prime_ref(int(cases[i].split()[1])) else "P 0"
        c.extra["is_prime_cases_beyond_model_execution"] = len(heavy)
        io = lib.run_lines([exe], cases, timeout=600)
        # the same stream in the sanitizer build of the repository configuration: an overflow aborts the case (answer CRASH ...)
        if exes.get("c18_ubsan"):
            io_s = lib.run_lines([exes["c18_ubsan"]], cases, timeout=600)
            for i, cs in enumerate(cases):
                if io_s[i] != io[i] and io[i] == mo[i]: io[i] = io_s[i]
        for i, cs in enumerate(cases):
            t = cs.split(); k = t[0]
            nt = (k in ("G", "GB") and t[1] != "0" and t[2] != "0") or (k in ("I", "IB") and int(t[2]) > 1) or \
                 (k in ("P", "PB") and int(t[1]) >= 2) or (k in ("V", "VB", "Vs", "VW", "VWB") and (" P " in cs or " S " in cs or " R " in cs or " Q " in cs or " RA " in cs))
            c.count(cs, nt, bucket=k)
        bad = lib.diff_lines(cases, mo, io)
        c.extra["disagreements_checked"] = len(bad)
        reported = {}
        for i in sorted(bad, key=lambda j: len(cases[j])):
            k = cases[i].split()[0]
            why = judge(cases[i], io[i])
            key = (k, why is not None)
            if reported.get(key, 0) >= 2: continue
            reported[key] = reported.get(key, 0) + 1
            if why:
                c.violation(why, {"component": "c18", "case": cases[i], "impl": io[i], "model": mo[i]}, True)
            else:
                c.violation("correspondence c18 (%s) no longer checks; implementation answer still satisfies the property text" % k,
                            {"component": "c18", "theorem_or_correspondence": "correspondence c18: extracted FpModel vs harness/c18.cpp, case kind " + k,
                             "case": cases[i], "impl": io[i], "model": mo[i]}, False)
        check_wide(c, exes)
    return c.finish(
        assumptions=["built-in integer types: no overflow is PROVED (Properties_C18_overflow.v) for ext_gcd / get_mult_inverse on all arguments above the minimum value of T, "
                     "for is_prime on 2 <= p <= max(T), for SpVecFP when (p-1)*max(2,p-1,|scalar|) <= max(T); the minimum value of T is outside the domain (-a overflows)",
                     "the extras of PARMCB_INVARIANTS_CHECK (assertion of ext_gcd: a*x, b*y; is_prime: sqrtt*sqrtt) overflow inside that domain: known findings D18a, D18b",
                     "is_prime for long long takes floor of a double sqrt: exact for p < 2^52 (tested: every p < 1e9 of the stream and a few p just below 2^52)",
                     "PARMCB_INVARIANTS_CHECK defined as in the repository's build"],
        explanation="ext_gcd/mult_inverse/is_prime/SpVecFP theorems are proved for all integers over the model; this run compares the model with "
                    "fp<T>, primes<T>, SpVecFP<T> for T = long long, int and cpp_int exactly (coefficients, exceptions, vector contents). The built-in types are "
                    "driven up to the proved bounds (|a|,|b| up to max(T), moduli up to max(T), vector moduli up to sqrt(max(T))+1 with scalars up to max(T)/(p-1)) in "
                    "two -fsanitize=signed-integer-overflow builds and compared with the traced model, which predicts for every case whether an intermediate value "
                    "leaves the type; cases just outside the bounds must be reported by the sanitizer.")


def replay(path):
    r = json.load(open(path))
    lib.ensure_model()
    line = r["case"]
    if r.get("component") == "c18ov":
        build = r.get("build", "c18_ubsan")
        exe, err = lib.build_cpp(**BUILDS[build])
        m, i = lib.run_model("c18ov", [line], par=1)[0], lib.run_lines([exe], [line], par=1)[0]
        t = line.split(); mx = TMAX[t[0][1:]]
        ans, r0, r1 = parse_ov(m)
        chk = build != "c18_ubsan_nochk"
        rr = r1 if (chk and r1 is not None) else r0
        fits = -mx - 1 <= rr[0] and rr[1] <= mx
        print("case :", line); print("build:", build); print("model:", m); print("impl :", i)
        print("trace range of the traced model (with%s the invariant checks): %d..%d, fits the type: %s" % ("" if chk else "out", rr[0], rr[1], fits))
        why = judge(line, i) if -mx - 1 <= r0[0] and r0[1] <= mx else None
        print("judge:", why)
        if why or (fits and i != ans) or (not fits and build != "c18" and not is_overflow_report(i) and i != ans):
            print("VIOLATION property=%s replay=%s" % (PID, path)); return 1
        return 0
    exe, err = lib.build_cpp(name="c18", srcs=["c18.cpp"])
    m, i = lib.run_model("c18", [model_line(line)], par=1)[0], lib.run_lines([exe], [line], par=1)[0]
    why = judge(line, i)
    print("case :", line); print("model:", m); print("impl :", i); print("judge:", why)
    if why or m != i:
        print("VIOLATION property=%s replay=%s" % (PID, path)); return 1
    return 0
