"""C18 — prime-field arithmetic (fp, primes, SpVecFP) matches arithmetic modulo p.
Theorems: Properties_C18.v.  Tie: exact comparison of ext_gcd / get_mult_inverse / is_prime / SpVecFP histories
between the real templates (long long and cpp_int instantiations, harness/c18.cpp) and the extracted model."""
import json, math, os
import lib

PID = "C18"
THEOREMS = ["Properties_C18.v"]
SMALL_PRIMES = [2, 3, 5, 7, 11, 13, 101, 257, 65537, 2147483647]
BIG_PRIMES = [170141183460469231731687303715884105727, 2305843009213693951, 1000000007]


def is_prime_ref(n):
    if n < 2: return False
    for q in (2, 3, 5, 7, 11, 13, 17, 19, 23, 29, 31, 37):
        if n % q == 0: return n == q
    d, r = n - 1, 0
    while d % 2 == 0: d //= 2; r += 1
    for a in (2, 3, 5, 7, 11, 13, 17, 19, 23, 29, 31, 37):
        x = pow(a, d, n)
        if x in (1, n - 1): continue
        for _ in range(r - 1):
            x = x * x % n
            if x == n - 1: break
        else:
            return False
    return True


def interesting_ints(rng, big):
    lim = 2 ** 200 if big else 2 ** 31 - 1
    pool = [0, 1, -1, 2, -2, 3, 4, -4, 5, 6, 7, 12, 18, 46, -240, 1000, 2 ** 16, 2 ** 16 + 1, 2 ** 30, 2 ** 31 - 1, -(2 ** 31 - 1)]
    fib = [1, 1]
    while fib[-1] < lim: fib.append(fib[-1] + fib[-2])
    fib = [f for f in fib if f <= lim]
    r = rng.random()
    if r < 0.25: v = rng.choice(pool)
    elif r < 0.35: v = rng.choice(fib[-12:]) * rng.choice([1, -1])
    elif r < 0.45: v = rng.choice(fib) * rng.choice([1, -1])
    elif r < 0.6: v = rng.randint(-50, 50)
    elif r < 0.7: v = (2 ** rng.randint(1, 190 if big else 30)) + rng.choice([-1, 0, 1])
    else: v = rng.randint(-lim, lim)
    if abs(v) > lim: v = lim if v > 0 else -lim
    return v


def gen_vec_history(rng, big, maxops):
    p = rng.choice(BIG_PRIMES + SMALL_PRIMES if big else SMALL_PRIMES + [4, 6, 9, 15])  # composite moduli are allowed by the theorem (p >= 2)
    K = rng.randint(2, 4); D = rng.choice([1, 2, 4, 8, 20])
    nops = rng.randint(1, maxops); ops = []
    def scalar():
        r = rng.random()
        # keep long long products in range: values < p <= 2^31, scalars |c| <= 2^31
        lim = 2 ** 190 if big else 2 ** 31 - 1
        if r < 0.3: return rng.choice([0, 1, -1, p, -p, 2 * p, p - 1, 1 - p, p + 1])if (big or p < 2 ** 30) else rng.choice([0, 1, -1, p, -p, p - 1])
        if r < 0.6: return rng.randint(-20, 20)
        return rng.randint(-lim, lim)
    for _ in range(nops):
        r = rng.random(); d, a, b = rng.randrange(K), rng.randrange(K), rng.randrange(K)
        if r < 0.2: ops.append("U %d %d" % (d, rng.randrange(D)))
        elif r < 0.26: ops.append("C %d %d" % (d, a))
        elif r < 0.30: ops.append("A %d %d" % (d, a if rng.random() < 0.8 else d))
        elif r < 0.32: ops.append("M %d %d" % (d, a))          # move-assignment from a temporary into a vector built for ANOTHER prime
        elif r < 0.5: ops.append("P %d %d %d" % (d, a, b))
        elif r < 0.62: ops.append("Q %d %d" % (d, a if rng.random() < 0.8 else d))
        elif r < 0.74: ops.append("S %d %d %d" % (d, a, scalar()))
        elif r < 0.82: ops.append("R %d %d" % (d, scalar()))
        elif r < 0.85: ops.append("X %d" % d)
        elif r < 0.95: ops.append("D %d %d" % (a, b))
        else: ops.append("Z %d" % a)
    return "%s %d %d %d %d %s" % ("VB" if big else "V", p, K, D, len(ops), " ".join(ops))


def dense_vec(line):
    t = line.split(); p = int(t[1]); K = int(t[2]); n = int(t[4]); i = 5
    st = [dict() for _ in range(K)]; outs = []
    def norm(d): return {k: v % p for k, v in d.items() if v % p != 0}
    for _ in range(n):
        o = t[i]
        if o == "U": d, x = int(t[i + 1]), int(t[i + 2]); st[d] = norm({x: 1}); i += 3
        elif o in ("C", "A", "M"): d, a = int(t[i + 1]), int(t[i + 2]); st[d] = dict(st[a]); i += 3
        elif o == "P":
            d, a, b = int(t[i + 1]), int(t[i + 2]), int(t[i + 3]); i += 4
            st[d] = norm({k: st[a].get(k, 0) + st[b].get(k, 0) for k in set(st[a]) | set(st[b])})
        elif o == "Q":
            d, a = int(t[i + 1]), int(t[i + 2]); i += 3
            st[d] = norm({k: st[d].get(k, 0) + st[a].get(k, 0) for k in set(st[a]) | set(st[d])})
        elif o == "S": d, a, c = int(t[i + 1]), int(t[i + 2]), int(t[i + 3]); i += 4; st[d] = norm({k: v * c for k, v in st[a].items()})
        elif o == "R": d, c = int(t[i + 1]), int(t[i + 2]); i += 3; st[d] = norm({k: v * c for k, v in st[d].items()})
        elif o == "X": st[int(t[i + 1])] = {}; i += 2
        elif o == "D": a, b = int(t[i + 1]), int(t[i + 2]); i += 3; outs.append(sum(st[a][k] * st[b][k] for k in set(st[a]) & set(st[b])) % p)
        elif o == "Z": outs.append(len(st[int(t[i + 1])])); i += 2
    return "O" + "".join(" %d" % x for x in outs) + "".join(" ; V" + "".join(" %d:%d" % (k, v[k]) for k in sorted(v)) for v in st)


def judge(case, impl):
    """does the implementation's answer violate the property text? returns reason or None"""
    t = case.split(); kind = t[0]
    try:
        if kind in ("G", "GB"):
            a, b = int(t[1]), int(t[2]); r = impl.split()
            if r[0] != "G": return "ext_gcd did not return: " + impl
            g, x, y = int(r[1]), int(r[2]), int(r[3])
            if g != math.gcd(a, b) or g < 0: return "ext_gcd(%d,%d) returned g=%d, gcd is %d" % (a, b, g, math.gcd(a, b))
            if a * x + b * y != g: return "ext_gcd(%d,%d) returned x=%d y=%d with a*x+b*y=%d != g=%d" % (a, b, x, y, a * x + b * y, g)
        elif kind in ("I", "IB"):
            a, p = int(t[1]), int(t[2])
            if p <= 0: return None
            if math.gcd(a, p) == 1:
                if not impl.startswith("I "): return "get_mult_inverse(%d,%d) did not return a value: %s" % (a, p, impl)
                x = int(impl.split()[1])
                if (a * x) % p != 1 % p: return "get_mult_inverse(%d,%d)=%d is not an inverse" % (a, p, x)
            elif impl != "THROW": return "get_mult_inverse(%d,%d) must throw (gcd=%d) but gave %s" % (a, p, math.gcd(a, p), impl)
        elif kind in ("P", "PB"):
            p = int(t[1])
            if p >= 2 and impl != ("P 1" if is_prime_ref(p) else "P 0"): return "is_prime(%d) = %s" % (p, impl)
        elif kind in ("V", "VB"):
            d = dense_vec(case)
            if impl != d: return "SpVecFP history differs from the dense computation mod p: impl %s | dense %s" % (impl[:120], d[:120])
    except Exception as ex:
        return "unparsable implementation answer %r (%s)" % (impl, ex)
    return None


def gen_cases(c, tier):
    rng = c.rng; cases = []
    npairs = 10000 if tier == "quick" else 100000
    for _ in range(npairs):
        big = rng.random() < 0.3
        cases.append("%s %d %d" % ("GB" if big else "G", interesting_ints(rng, big), interesting_ints(rng, big)))
    for a in range(-6, 7):
        for b in range(-6, 7):
            if (a, b) != (0, 0): cases.append("G %d %d" % (a, b))
    for _ in range(npairs // 5):
        big = rng.random() < 0.3
        p = rng.choice((BIG_PRIMES if big else []) + SMALL_PRIMES + [1, 4, 6, 9, 12, 15, 35, 1 << 20, 0, -3, -7]) if rng.random() < 0.6 else rng.randint(1, 5000)
        cases.append("%s %d %d" % ("IB" if big else "I", interesting_ints(rng, big), p))
    pmax = 10000 if tier == "quick" else 100000
    for p in range(1, pmax + 1):
        cases.append("P %d" % p)
    for _ in range(300 if tier == "quick" else 3000):
        r = rng.random()
        if r < 0.3: q = rng.choice([3, 5, 7, 11, 101, 1009, 9973, 31607]); p = q * q          # squares of primes: the sqrt boundary
        elif r < 0.5: q = rng.choice([3, 5, 7, 11, 101, 1009, 9973]); p = q * (q + 2)
        else: p = rng.randint(2, 10 ** 9)
        cases.append("%s %d" % ("PB" if rng.random() < 0.3 else "P", p))
    # multiprecision p whose integer square root has tiny low 64 bits (p = B^2 + c, B a multiple of 2^64) and a small prime factor:
    # a bound computed through a 64-bit intermediate would stop the trial division before reaching that factor
    for B in (1 << 64, 1 << 65, 3 << 64, 1 << 96, 5 << 70):
        for cc in range(1, 80, 2):
            pp = B * B + cc
            if any(pp % f == 0 for f in (3, 5, 7, 11, 13, 17, 19, 23, 29, 31)):
                cases.append("PB %d" % pp)
    nh = 2000 if tier == "quick" else 20000
    for _ in range(nh):
        cases.append(gen_vec_history(rng, rng.random() < 0.3, 40 if tier == "quick" else 100))
    return cases


def check(tier, seed):
    c = lib.Check(PID, tier, seed, THEOREMS)
    c.rule = ("ext_gcd on sign/zero/boundary/Fibonacci-biased pairs (long long |v| < 2^31, cpp_int up to 2^200) and all pairs in [-6,6]^2; "
              "get_mult_inverse on prime, composite, 1 and non-positive moduli; is_prime on every p up to the tier bound plus squares/products of primes and random p < 1e9; "
              "SpVecFP histories over prime and composite moduli with negative / multiple-of-p scalars; distinct by md5; non-trivial = "
              "gcd with both arguments non-zero, inverse with p > 1, p >= 2, history with an addition or scaling")
    c.step_prove()
    ok = c.step_model()
    exe = c.harness(name="c18", srcs=["c18.cpp"])
    if ok and exe:
        cases = []
        corpus = os.path.join(lib.ROOT, "corpus", PID)
        if os.path.isdir(corpus):
            for f in sorted(os.listdir(corpus)):
                cases += [l.strip() for l in open(os.path.join(corpus, f)) if l.strip() and not l.startswith("#")]
        c.extra["corpus_cases"] = len(cases)
        cases += gen_cases(c, tier)
        # is_prime on multiprecision inputs beyond 10^12: the model's trial division (Z.iter over sqrt p steps, no early exit) cannot be
        # EXECUTED there (theorem C18_is_prime covers them); the implementation's answer is compared with a Miller-Rabin reference instead
        heavy = {i for i, cs in enumerate(cases) if cs.split()[0] == "PB" and abs(int(cs.split()[1])) > 10 ** 12}
        light = [i for i in range(len(cases)) if i not in heavy]
        mo_l = lib.run_model("c18", [cases[i] for i in light])
        mo = [None] * len(cases)
        for i, m in zip(light, mo_l): mo[i] = m
        for i in heavy: mo[i] = "P 1" if is_prime_ref(int(cases[i].split()[1])) else "P 0"
        c.extra["is_prime_cases_beyond_model_execution"] = len(heavy)
        io = lib.run_lines([exe], cases, timeout=600)
        for i, cs in enumerate(cases):
            t = cs.split(); k = t[0]
            nt = (k in ("G", "GB") and t[1] != "0" and t[2] != "0") or (k in ("I", "IB") and int(t[2]) > 1) or \
                 (k in ("P", "PB") and int(t[1]) >= 2) or (k in ("V", "VB") and (" P " in cs or " S " in cs or " R " in cs or " Q " in cs))
            c.count(cs, nt, bucket=k)
        bad = lib.diff_lines(cases, mo, io)
        c.extra["disagreements_checked"] = len(bad)
        reported = {}
        for i in sorted(bad, key=lambda j: len(cases[j])):
            k = cases[i].split()[0]
            why = judge(cases[i], io[i])
            key = (k, why is not None)
            if reported.get(key, 0) >= 2: continue
            reported[key] = reported.get(key, 0) + 1
            if why:
                c.violation(why, {"component": "c18", "case": cases[i], "impl": io[i], "model": mo[i]}, True)
            else:
                c.violation("correspondence c18 (%s) no longer checks; implementation answer still satisfies the property text" % k,
                            {"component": "c18", "theorem_or_correspondence": "correspondence c18: extracted FpModel vs harness/c18.cpp, case kind " + k,
                             "case": cases[i], "impl": io[i], "model": mo[i]}, False)
    return c.finish(
        assumptions=["built-in integer types: no overflow (|a|,|b| < 2^31 for long long pairs; p <= 2^31 and |scalar| < 2^31 for long long vectors); the theorems are over unbounded Z",
                     "is_prime for long long takes floor of a double sqrt: exact for p < 2^52 (tested range p < 1e9)",
                     "PARMCB_INVARIANTS_CHECK defined as in the repository's build"],
        explanation="ext_gcd/mult_inverse/is_prime/SpVecFP theorems are proved for all integers over the model; this run compares the model with "
                    "fp<T>, primes<T>, SpVecFP<T> for T = long long and cpp_int exactly (coefficients, exceptions, vector contents).")


def replay(path):
    r = json.load(open(path))
    lib.ensure_model()
    exe, err = lib.build_cpp(name="c18", srcs=["c18.cpp"])
    line = r["case"]
    m, i = lib.run_model("c18", [line], par=1)[0], lib.run_lines([exe], [line], par=1)[0]
    why = judge(line, i)
    print("case :", line); print("model:", m); print("impl :", i); print("judge:", why)
    if why or m != i:
        print("VIOLATION property=%s replay=%s" % (PID, path)); return 1
    return 0
