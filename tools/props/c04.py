"""C04 — the MPI entry points are correct for every rank count and memory layout.
Theorems: Properties_C04.v (C04a partition, C04b no deadlock for the signed and the tree variants, C04c minimum basis on
rank 0 for the fixed code / for agreeing orders modulo the per-index search premise, C04_layout_refuted = D8);
Properties_C04_trees.v / Properties_C04_trees_tbb.v (the four tree variants, exact per-rank model MpiTreesModel.v: C04c_local_collection,
premise-free C04c_result_{fvs,iso}_trees[_tbb]_mpi, C04_trace_is_run).

Tie: harness/mpi/c04.cpp runs the five real entry points under a real `mpiexec -n P` (Open MPI + Boost.MPI), many cases per
MPI job.  Before the graph of a case is built every rank performs a (seed, rank)-dependent allocate/free pattern, so the
ranks' heaps — hence the pointer order of std::set<edge_descriptor> — differ; each rank reports the order it got (EORD),
its BFS roots, what it returned/emitted and a DONE marker.  Compared / judged per case:
  * every rank finishes inside the watchdog (a hang = "rank left inside a collective" is a violation with the batch as replay);
  * ranks != 0 emit nothing;
  * rank 0's answer: independent Python judge (count, simple cycles, GF(2) independence, minimum weight, returned value)
    and the verified checker `mcbcheck` (RefModel.v);
  * mcb_sva_signed_mpi: EXACT comparison (cycle by cycle, returned weight) with the extracted model of the FIXED code
    (MpiSignedModel.mcb_sva_signed_mpi_fixed_Z, Boost's reduction tree); on a difference the as-found model
    (…_orig_Z) is run on the recovered per-rank orders;
  * the reduction order of boost::mpi::reduce is re-observed (string concatenation declared commutative) and compared with
    MpiModel.boost_reduce_tree.
Per-rank tie of the four tree variants (Properties_C04_trees.v, model MpiTreesModel.v): with the hook of
pending/c04-hook-localmin.patch in the working tree every rank reports (on its stderr, captured per rank by the harness) the
chunk it received, its candidate vector after the sort and its local minimum in every phase.  For EVERY rank these are compared
with the extracted model (component `treesmpi`): the chunk exactly; the rebuilt candidate vector as a multiset of
(tree id, root, edge index, weight); the reported order must be a weight-sorted permutation (mt_sort_Z under the recovered
arrangement); sequential flavour: every rank's local minimum in every phase EXACTLY (model run under the recovered arrangements
and Boost's reduction tree), and rank 0's emitted cycles and weight; TBB flavour (real TBB inside every rank): every reported local
minimum must be accepted by mt_rank_accept_tbb_Z ("a minimum answering local candidate") and the reduction of the reported
minima along Boost's tree (ties to the right operand) must be what rank 0 emitted.  Without the hook (no VERIF-MPITREES line in
any rank's stderr) the per-rank comparison is skipped and the evidence says so (per_rank_skipped_no_hook).
Known finding D8 is decided by behaviour: a wrong answer is a KNOWN-FINDING only if D8 is listed with status "known",
the entry point is mcb_sva_signed_mpi, P >= 2, the ranks' EORD differ AND the as-found model predicts the implementation's
answer exactly.  Anything else is a VIOLATION.  With the fix applied the implementation equals the fixed model and the
check is silent.
Boundary configurations: all five entry points are also instantiated with `long long` weights (kind token L) on 64-bit integers ABOVE 2^53 (props/c12.py weigh64:
sums that are not doubles, distinct weights that collide as doubles, (m+4)*sum(w) < 2^63): rank 0's answer judged and compared with the models (which compute over Z
and never see the weight type), and the per-rank hook lines — the hook prints weights through operator<<, i.e. a long long as its exact decimal integer — parsed with
Python integers only (exact_int: no float on the integral path).  Sizes beyond narrow index types (own MPI jobs, P in {2, 3}): graphs with 257..400 vertices
(signed variant through the exact model comparison; FVS tree variants with several hundred candidates to scatter), K45 + pendants on 320 vertices (witnesses with
>= n signed edges: the all-vertices branch and its vertex slices over more than 255 vertices) and stars with 66009 vertices whose hub and cycle-carrying leaves have
indices >= 65536 and < 256 (signed, fvs_trees[_tbb]; harness kind G = no ROOTS / EORD oracles) — the latter two judged against the property text only, through the
2-core of the graph (props/c03.py two_core)."""
import json, os, subprocess, shutil, threading, random, concurrent.futures as cf
import lib, gen, mcb_oracle as O, exact_common as X

PID = "C04"
THEOREMS = ["Properties_C04.v", "Properties_C04_trees.v", "Properties_C04_trees_tbb.v", "Properties_C02_trees.v",
            "Properties_C04_stride.v"]
GROUP = "c04"
HARNESS = dict(name="c04", srcs=["mpi/c04.cpp"], mpi=True, libs=["-ltbb", "-lboost_timer", "-lboost_mpi", "-lboost_serialization"])
MPIEXEC = ["mpiexec", "--allow-run-as-root", "--oversubscribe", "--bind-to", "none"]
MPIENV = {"OMPI_MCA_rmaps_base_oversubscribe": "1", "OMPI_MCA_mpi_yield_when_idle": "1", "OMPI_MCA_btl_vader_single_copy_mechanism": "none"}
ALGS = ["signed", "fvs", "fvs_tbb", "iso", "iso_tbb"]
ENTRY = {"signed": "mcb_sva_signed_mpi", "fvs": "mcb_sva_fvs_trees_mpi", "fvs_tbb": "mcb_sva_fvs_trees_tbb_mpi",
         "iso": "mcb_sva_iso_trees_mpi", "iso_tbb": "mcb_sva_iso_trees_tbb_mpi"}
KEYS = ["ROOTS", "EORD", "RET", "N", "CYC", "RANK", "REDTREE"]
D8_GRAPH = "4 5 0 1 1 0 2 1 0 3 3 1 3 4 2 3 1"
from props.c03 import CORE_N, BIG_N, reduce_to_core      # graphs with more than CORE_N vertices are judged through their 2-core; more than BIG_N: judged only


def per_rank_feasible(alg, g, tier):
    """the per-rank model (treesmpi) is list-based: small graphs, plus the FVS variants on graphs with up to 400 vertices and cycle space dimension <= 12
    (a handful of trees and candidates; a few seconds each)"""
    n, es = g
    maxn, maxm = (16, 48) if tier == "quick" else (24, 90)
    if n <= maxn and len(es) <= maxm: return True
    return alg.startswith("fvs") and n <= 400 and len(es) - n + O.components(n, es) <= 12


def model_feasible(line, g):
    """the list-based extracted models are run up to a few hundred vertices when the cycle space is small; beyond that rank 0's answer is judged only"""
    n, es = g
    return not line.startswith("G ") and n <= BIG_N and (n <= CORE_N or len(es) - n + O.components(n, es) <= 60)


# --------------------------------------------------------------------------------------------------------------
# running one MPI job over a list of cases
# --------------------------------------------------------------------------------------------------------------
def kill_ranks(exe, outprefix):
    """kill the harness processes of one job: argv[0] = exe and argv[2] = the job's (unique) output prefix"""
    import signal
    for pid in os.listdir("/proc"):
        if not pid.isdigit(): continue
        try:
            argv = open("/proc/%s/cmdline" % pid, "rb").read().split(b"\0")
        except OSError:
            continue
        if len(argv) >= 3 and argv[0].decode(errors="replace") == exe and argv[2].decode(errors="replace") == outprefix:
            try: os.kill(int(pid), signal.SIGKILL)
            except OSError: pass


def run_watchdog(cmd, outfiles, timeout, stall):
    """run an MPI job; kill it (rc 124) when no rank has completed a case for `stall` seconds or after `timeout` seconds"""
    import time, signal, tempfile
    e = dict(os.environ); e.update(MPIENV)
    if os.environ.get("VERIF_SANITIZE"):      # C07's sanitizer re-run of this stream: Open MPI's own allocations are not ours to judge
        e.setdefault("ASAN_OPTIONS", "detect_leaks=0:exitcode=97:allocator_may_return_null=1")
        e.setdefault("UBSAN_OPTIONS", "print_stacktrace=1:halt_on_error=1")
    errf = tempfile.TemporaryFile(mode="w+")
    p = subprocess.Popen(cmd, stdout=subprocess.DEVNULL, stderr=errf, env=e, start_new_session=True)
    t0 = last = time.time(); size = -1; rc = None
    while True:
        try:
            rc = p.wait(timeout=0.5); break
        except subprocess.TimeoutExpired:
            pass
        now = time.time()
        sz = 0
        for f in outfiles:
            try: sz += os.path.getsize(f)
            except OSError: pass
        if sz != size: size = sz; last = now
        if now - last > stall or now - t0 > timeout:
            try: os.killpg(p.pid, signal.SIGKILL)
            except OSError: pass
            kill_ranks(cmd[-4], cmd[-2])      # the ranks run in process groups of their own
            try: p.wait(timeout=10)
            except subprocess.TimeoutExpired: pass
            rc = 124; break
    errf.seek(0); se = errf.read(); errf.close()
    return rc, se


def read_traces(op, P):
    """the hook lines every rank wrote to its (redirected) stderr, per case index of the job: [ {case: [lines]} per rank ], tails"""
    errs, tails = [], []
    for r in range(P):
        try: txt = open("%s.err.%d" % (op, r), errors="replace").read()
        except OSError: txt = ""
        per, cur, other = {}, None, []
        for l in txt.split("\n"):
            if l.startswith("VERIF-CASE "):
                try: cur = int(l.split()[1]); per[cur] = []
                except (ValueError, IndexError): cur = None
            elif l.startswith("VERIF-MPITREES "):
                if cur is not None: per[cur].append(l)
            elif l.strip():
                other.append(l)
        errs.append(per); tails.append(" ".join(other[-4:])[-300:])
    return errs, tails


def run_batch(exe, P, lines, tag, timeout, threads=1, stall=90, traces=None):
    """returns (results, runs): results[i] = list of P rank lines | ("HANG"|"CRASH rc", partial rank lines, stderr tail) |
    ("SKIPPED",..). After a failure the rest of the batch is run in a fresh job.
    traces (a dict, filled if given): case index -> [hook lines of rank r for r in range(P)]"""
    wd = os.path.join(lib.BUILD, "c04run")
    os.makedirs(wd, exist_ok=True)
    results = [None] * len(lines)
    start, restarts = 0, 0
    hangs = 0
    while start < len(lines) and restarts < 4 and hangs < 2:
        cf_ = os.path.join(wd, "%s.%d.cases" % (tag, restarts))
        op = os.path.join(wd, "%s.%d.out" % (tag, restarts))
        with open(cf_, "w") as f:
            f.write("\n".join(lines[start:]) + "\n")
        for r in range(P):
            for fn in ("%s.%d" % (op, r), "%s.err.%d" % (op, r)):
                try: os.remove(fn)
                except OSError: pass
        cmd = MPIEXEC + ["-n", str(P), exe, cf_, op, str(threads)]
        rc, se = run_watchdog(cmd, ["%s.%d" % (op, r) for r in range(P)], timeout, stall)
        outs = []
        for r in range(P):
            try:
                ls = open("%s.%d" % (op, r)).read().split("\n")
                if ls and ls[-1] == "": ls.pop()
            except OSError:
                ls = []
            outs.append(ls)
        done = min(len(o) for o in outs)
        # a rank that printed an exception line has not completed the case
        for i in range(done):
            if any(o[i].startswith("IMPL-EXCEPTION") for o in outs):
                done = i; break
        errs, tails = read_traces(op, P)
        if any(tails): se = (se or "") + " | ranks' stderr: " + " / ".join(t for t in tails if t)
        sanlog = os.environ.get("VERIF_SAN_LOG")
        if sanlog:                              # C07: a sanitizer report of any rank, with the case the job was at
            import re as _re
            for r in range(P):
                try: txt = open("%s.err.%d" % (op, r), errors="replace").read()
                except OSError: txt = ""
                if _re.search(r"Sanitizer|runtime error:", txt):
                    i0 = txt.find("runtime error:") if "Sanitizer" not in txt else txt.find("==")
                    with open(sanlog, "a") as f:
                        f.write(json.dumps({"cmd": cmd, "case": lines[min(start + done, len(lines) - 1)], "rc": rc, "rank": r,
                                            "report": txt[max(0, i0):][:3000]}) + "\n")
                    break
        for i in range(done):
            results[start + i] = [o[i] for o in outs]
            if traces is not None: traces[start + i] = [errs[r].get(i, []) for r in range(P)]
        if done == len(lines) - start and rc == 0:
            start = len(lines); break
        if done == len(lines) - start:      # all cases complete but the job did not end cleanly
            results.append(None); lines = lines + ["<end of job>"]
        kind = "HANG" if rc in (124, 137) else "CRASH rc=%s" % rc
        hangs += kind == "HANG"
        partial = [o[done] if len(o) > done else None for o in outs]
        results[start + done] = (kind, partial, (se or "")[-600:])
        start = start + done + 1; restarts += 1
    for i in range(len(results)):
        if results[i] is None:
            results[i] = ("SKIPPED", [], "")
    return results


def model_lines(graph_tokens, rank_fields, P):
    roots = rank_fields[0].get("ROOTS", [])
    fixed = "%s %d %s %d" % (graph_tokens, len(roots), " ".join(roots), P)
    orig = fixed + "".join(" %d %s" % (len(f.get("EORD", [])), " ".join(f.get("EORD", []))) for f in rank_fields)
    return fixed, orig



# --------------------------------------------------------------------------------------------------------------
# per-rank tie of the tree variants (hook lines vs model component `treesmpi`)
# --------------------------------------------------------------------------------------------------------------
TREES_CORR = "correspondence c04/treesmpi: MpiTreesModel (mt_local_Z, mt_sort_Z, mt_rank_lookup_seq_Z, mt_rank_accept_tbb_Z, mt_trace_run_Z) vs the per-rank hook lines of mpi/parmcb_sva_trees.hpp"


def toks(line):
    """tokens of a case line `[G] alg ty scale pseed graph` without the leading G (harness kind: no oracles)"""
    t = line.split()
    return t[1:] if t and t[0] == "G" else t


def exact_int(tok, scale, integral=False):
    """a weight printed by the hook -> the integer the model works with, None if not exact.  integral (int / long long weights): the hook printed the integer
    itself, read here as a Python integer — a 64-bit weight above 2^53 must not pass through float.  double: integer * 2^scale"""
    if integral:
        import re
        return int(tok) if re.fullmatch(r"-?[0-9]+", tok) else None
    try:
        v = float(tok) * (2.0 ** (-scale))
    except ValueError:
        return None
    return int(v) if v == int(v) and abs(v) < 2 ** 53 else None


def parse_hook(lines, scale, integral=False):
    """hook lines of ONE rank for ONE case -> {"chunk": [(v,e)], "sorted": [(tree, root, eidx, w)], "local": {k: (exists, w, idx tuple)}} | None"""
    d = {"chunk": None, "sorted": None, "local": {}, "bad": None}
    try:
        for l in lines:
            t = l.split()
            kind = t[1]
            if kind == "CHUNK":
                n = int(t[3]); d["chunk"] = [(int(t[4 + 2 * i]), int(t[5 + 2 * i])) for i in range(n)]
                if len(t) != 4 + 2 * n: d["bad"] = "malformed CHUNK line"
            elif kind == "SORTED":
                n = int(t[3]); ent = []
                if len(t) != 4 + 4 * n: d["bad"] = "malformed SORTED line"
                for i in range(n):
                    w = exact_int(t[7 + 4 * i], scale, integral)
                    if w is None: d["bad"] = "recorded weight %s is not an exact multiple of the weight unit" % t[7 + 4 * i]
                    ent.append((int(t[4 + 4 * i]), int(t[5 + 4 * i]), int(t[6 + 4 * i]), w))
                d["sorted"] = ent
            elif kind == "LOCAL":
                k = int(t[3]); ex = int(t[4]); n = int(t[6])
                if len(t) != 7 + n: d["bad"] = "malformed LOCAL line"
                if ex:
                    w = exact_int(t[5], scale, integral)
                    if w is None: d["bad"] = "local minimum weight %s is not an exact multiple of the weight unit" % t[5]
                    d["local"][k] = (1, w, tuple(sorted(int(x) for x in t[7:7 + n])))
                else:
                    d["local"][k] = (0, None, ())
    except (ValueError, IndexError):
        d["bad"] = "malformed hook line"
    return d


def parse_lres(t, pos):
    """tokens of a local/global answer of the model at t[pos:] -> ((exists, w, idx tuple) | "ERR", next pos)"""
    if t[pos] == "ERR": return "ERR", pos + 1
    if t[pos] == "0": return (0, None, ()), pos + 1
    w = int(t[pos + 1]); n = int(t[pos + 2])
    return (1, w, tuple(sorted(int(x) for x in t[pos + 3:pos + 3 + n]))), pos + 3 + n


def parse_trees_model(mo):
    """output of model component treesmpi -> dict, or a string (the model's complaint)"""
    if not mo.startswith("PAIRS"): return mo.strip()[:200] or "no output"
    d = {"ranks": {}, "ph": [], "emit": None}
    try:
        for sec in mo.split("|"):
            t = sec.split()
            if not t: continue
            if t[0] == "PAIRS":
                n = int(t[1]); d["pairs"] = [(int(t[2 + 2 * i]), int(t[3 + 2 * i])) for i in range(n)]
            elif t[0] == "R":
                r = int(t[1]); n = int(t[3]); chunk = [(int(t[4 + 2 * i]), int(t[5 + 2 * i])) for i in range(n)]
                pos = 4 + 2 * n; ent = {"chunk": chunk, "cands": None, "sort": None, "err": None}
                if pos < len(t) and t[pos] == "CANDS":
                    n2 = int(t[pos + 1]); pos += 2
                    ent["cands"] = [(int(t[pos + 4 * i]), int(t[pos + 4 * i + 1]), int(t[pos + 4 * i + 2]), int(t[pos + 4 * i + 3])) for i in range(n2)]
                    pos += 4 * n2
                    if pos < len(t) and t[pos] == "SORT": ent["sort"] = t[pos + 1]
                elif pos < len(t):
                    ent["err"] = t[pos]
                d["ranks"][r] = ent
            elif t[0] == "PH":
                pos = 2; loc = []; glob = None
                while pos < len(t):
                    if t[pos] == "L": x, pos = parse_lres(t, pos + 1); loc.append(x)
                    elif t[pos] == "A": loc.append(t[pos + 1]); pos += 2
                    elif t[pos] == "G": glob, pos = parse_lres(t, pos + 1)
                    else: raise ValueError(t[pos])
                d["ph"].append((loc, glob))
            elif t[0] == "EMIT":
                n = int(t[1]); pos = 2; cyc = []
                for _ in range(n):
                    k = int(t[pos]); cyc.append(tuple(sorted(int(x) for x in t[pos + 1:pos + 1 + k]))); pos += 1 + k
                d["emit"] = cyc
    except (ValueError, IndexError) as ex:
        return "unparsable model output (%s): %s" % (ex, mo[:160])
    return d


def trees_model_line(alg, gt, roots, picks, P, hooks):
    """input line of model component treesmpi for one run; hooks = parse_hook of every rank"""
    flav = "tbb" if alg.endswith("_tbb") else "seq"
    head = "%s %s %s %d %s %d %s %d" % (alg[:3], flav, gt, len(roots), " ".join(roots), len(picks), " ".join(picks), P)
    if flav == "seq":
        return head + "".join(" %d%s" % (len(h["sorted"]), "".join(" %d %d" % (e[0], e[2]) for e in h["sorted"])) for h in hooks)
    nph = len(hooks[0]["local"])
    out = [head, str(nph)]
    for k in range(nph):
        for h in hooks:
            ex, w, ix = h["local"].get(k, (0, None, ()))
            out.append("1 %d %d%s" % (w, len(ix), "".join(" %d" % x for x in ix)) if ex else "0")
    return " ".join(out)


def compare_trees(alg, P, hooks, md, ret, cycles):
    """every rank's chunk, rebuilt candidate vector, sort order and per-phase local minimum against the model; rank 0's emission.
    -> None or a description of the first difference"""
    from collections import Counter
    tbb = alg.endswith("_tbb")
    if isinstance(md, str): return "the model fails on this run: " + md
    for r in range(P):
        h, m = hooks[r], md["ranks"].get(r)
        if m is None or m["err"] or m["cands"] is None:
            return "model: rank %d cannot rebuild its chunk (%s)" % (r, m and m["err"])
        if h["chunk"] != m["chunk"]:
            return "rank %d received the chunk %s, the model scatters %s (all pairs: %s)" % (r, h["chunk"], m["chunk"], md.get("pairs"))
        if Counter(h["sorted"]) != Counter(m["cands"]):
            return "rank %d rebuilt the candidates (tree id, root, edge index, weight) %s, the model %s" % (r, sorted(h["sorted"]), sorted(m["cands"]))
        ws = [e[3] for e in h["sorted"]]
        if any(a > b for a, b in zip(ws, ws[1:])) or (not tbb and m["sort"] != "ok"):
            return "rank %d: the candidate vector is not sorted by recorded weight after std::sort: %s" % (r, ws)
    nph = len(md["ph"])
    for r in range(P):
        if sorted(hooks[r]["local"]) != list(range(nph)):
            return "rank %d reported local minima for the phases %s, the model runs %d phases" % (r, sorted(hooks[r]["local"]), nph)
    for k, (loc, glob) in enumerate(md["ph"]):
        for r in range(P):
            if tbb:
                if loc[r] != "1":
                    return "phase %d, rank %d: the reported local minimum %s is not acceptable (not 'not found iff no local candidate answers, else an answering local candidate of minimum weight')" % (k, r, hooks[r]["local"][k])
            elif loc[r] != hooks[r]["local"][k]:
                return "phase %d, rank %d: local minimum (exists, weight, edge indices) %s, the model computes %s" % (k, r, hooks[r]["local"][k], loc[r])
        if glob == "ERR" or not glob[0]:
            return "phase %d: the model's reduction delivers no cycle (%s)" % (k, glob)
        if k >= len(cycles) or tuple(sorted(cycles[k])) != md["emit"][k]:
            return "phase %d: rank 0 emitted %s, the reduction of the %s local minima along Boost's tree (ties to the right operand) delivers %s" % (
                k, sorted(cycles[k]) if k < len(cycles) else None, "reported" if tbb else "model's", list(md["emit"][k]))
    got = [tuple(sorted(cy)) for cy in cycles]
    if got != md["emit"]:
        return "rank 0 emitted %s, the reduction of the %s local minima along Boost's tree gives %s" % (got, "reported" if tbb else "model's", md["emit"])
    tot = sum(g[1] for _, g in md["ph"])
    if ret != tot:
        return "rank 0 returned %s, the reduced minima weigh %d" % (ret, tot)
    return None

# --------------------------------------------------------------------------------------------------------------
# case generation
# --------------------------------------------------------------------------------------------------------------
def tiny_graphs():
    """graphs on which P exceeds the number of vertices / candidates / signed edges"""
    return [(3, [(0, 1, 2), (1, 2, 3), (0, 2, 4)]), (4, [(0, 1, 1), (1, 2, 1), (2, 3, 1), (3, 0, 1)]),
            (4, [(0, 1, 1), (0, 2, 1), (0, 3, 3), (1, 3, 4), (2, 3, 1)]), (2, [(0, 1, 5)]), (1, []), (0, []),
            (5, [(0, 1, 1), (1, 2, 1), (0, 2, 1), (3, 4, 7)]), (6, [(0, 1, 1), (1, 2, 2), (0, 2, 2), (3, 4, 1), (4, 5, 1), (3, 5, 1)])]


def gen_cases(rng, tier):
    ng = {"quick": 260, "thorough": 700}[tier]
    maxn = 12 if tier == "quick" else 22
    graphs = [(g, "tiny") for g in tiny_graphs()]
    for i in range(ng):
        r = rng.random()
        if r < 0.25:      # dense small graphs: supports with 1 < |S| < n (hidden-edge branch) and |S| >= n (all-vertices branch)
            n = rng.randint(4, 8); g0 = gen.random_graph(rng, n, rng.choice([0.6, 0.8, 1.0]))
        elif r < 0.40:    # small dense graphs with distinct-ish weights in a random edge order (the hidden-edge bookkeeping matters there)
            import exact_common
            graphs.append((exact_common.dense_small(rng), "dense-small")); continue
        else:
            g0 = gen.structural(rng, maxn if rng.random() < 0.9 else maxn + 8)
        g, style = gen.weigh(rng, g0)
        graphs.append((g, style))
    # complete graphs whose light edges sit among the LAST vertices: in the all-vertices branch (|S| >= n) a partition of the vertices that drops the
    # tail (floor instead of ceil stride, P not dividing n) loses exactly the searches that find the minimum (seeded changes C04/m1, C04/r6m1)
    for n in ((8, 9, 9, 13) if tier == "quick" else (8, 8, 9, 9, 11, 13, 14)):
        t = rng.choice([3, 4])
        es = [(u, v, (rng.randint(1, 3) if u >= n - t else rng.randint(20, 60))) for u in range(n) for v in range(u + 1, n)]
        rng.shuffle(es)
        graphs.append(((n, es), "tail-light"))
    # ... and complete graphs in which the triangle on the LAST three vertices is the lightest cycle through the last vertex (the BFS root, with heavy edges) while
    # many lighter cycles pass through its one non-tree edge: it is in the minimum basis and found in a late phase with at least |V| signed edges
    for n, jit in (((7, 1), (7, 10), (8, 10), (11, 10)) if tier == "quick" else ((7, 1), (7, 10), (7, 10), (8, 1), (8, 10), (9, 10), (11, 10), (13, 10))):
        hub = n - 1; o = {n - 3, n - 2}
        def wgt(u, v):
            q = {u, v}
            b = 1 if q == o else 20 if hub in q and (q - {hub}) <= o else 30 if hub in q else 2 if q & o else 3
            return b * jit + (rng.randint(0, jit - 1) if jit > 1 else 0)
        es = [(u, v, wgt(u, v)) for u in range(n) for v in range(u + 1, n)]
        rng.shuffle(es)
        graphs.append(((n, es), "tail-hub"))
    cases = []
    pseed = 0
    for gi, (g, style) in enumerate(graphs):
        gt = gen.graph_tokens(g)
        small = gen.int_domain_ok(g)
        for ai, alg in enumerate(ALGS):
            ty = "I" if (gi % 3 == ai % 3) and small else "D"
            scale = 0 if ty == "I" else rng.choice([0, 0, -3, 5])
            pseed += 1
            ps = 0 if rng.random() < 0.15 else pseed          # a few cases without the deliberate perturbation
            cases.append(("%s %s %d %d %s" % (alg, ty, scale, ps, gt), g, style))
    rng.shuffle(cases)
    return cases


def gen_cases_dense(rng, tier):
    """the signed variant on DENSE graphs with a wide weight range (7..9 vertices, about 3n edges, weights 1..20 / 1..60, random edge order): supports with several
    entries whose signed edges fall into different ranks' slices AND several into one slice, shortest odd cycles through three and more signed edges
    (own generator stream)"""
    cases = []
    for i in range(70 if tier == "quick" else 400):
        n = rng.randint(7, 9); m = min(n * (n - 1) // 2, 3 * n + rng.randint(-2, 2))
        pairs = [(u, v) for u in range(n) for v in range(u + 1, n)]; rng.shuffle(pairs)
        W = rng.choice([20, 20, 60])
        es = [(u, v, rng.randint(1, W)) if rng.random() < 0.5 else (v, u, rng.randint(1, W)) for u, v in pairs[:m]]
        g = (n, es)
        ty = "I" if i % 2 else "D"
        cases.append(("signed %s 0 %d %s" % (ty, 0 if i % 5 == 0 else 200000 + i, gen.graph_tokens(g)), g, "dense-wide"))
    return cases


def gen_cases64(rng, tier):
    """the five entry points instantiated with long long weights above 2^53 (own generator stream)"""
    graphs = []
    for i in range(56 if tier == "quick" else 200):
        g, style = X.gen_graph64(rng, 12 if tier == "quick" else 20)
        graphs.append((g, "64:" + style))
    cases = []
    for gi, (g, style) in enumerate(graphs):
        gt = gen.graph_tokens(g)
        for alg in ALGS:
            cases.append(("%s L 0 %d %s" % (alg, 0 if rng.random() < 0.15 else 100000 + 5 * gi + ALGS.index(alg), gt), g, style))
    rng.shuffle(cases)
    return cases


def size_cases(rng, tier, P):
    """cases beyond narrow index types, run in MPI jobs of their own (P in {2, 3}); see props/c03.py for the families.  No isometric variant on the large ones."""
    from props import c03
    cases = []
    def add(alg, ty, g, style, ps=None):
        kind = "G " if g[0] > c03.BIG_N else ""
        cases.append(("%s%s %s 0 %d %s" % (kind, alg, ty, rng.randint(1, 10 ** 6) if ps is None else ps, gen.graph_tokens(g)), g, style))
    for i in range(4 if tier == "quick" else 12):            # 257..400 vertices, small cycle space: exact model comparison of the signed variant
        w64 = i % 2 == 0
        g = c03.mid_sparse(rng, w64)
        ty = "L" if w64 else "I" if gen.int_domain_ok(g) and i % 4 == 1 else "D"
        add("signed", ty, g, "mid-sparse")
        add(("fvs", "fvs_tbb", "iso", "iso_tbb")[i % 4], ty, g, "mid-sparse")
    for i in range(2 if tier == "quick" else 4):             # more than 255 candidate cycles PER RANK to scatter: FVS trees of a graph with 300 vertices and dimension 60..80
        g = gen.random_connected_sparse(rng, rng.randint(280, 330), rng.randint(60, 80))
        g = c03.weigh64(rng, g)[0] if i % 2 else gen.weigh(rng, g, "ties")[0]
        add("fvs" if (i + P) % 2 else "fvs_tbb", "L" if i % 2 else "D", g, "mid-fvs")
    g = c03.clique_pendants(rng, 45, 320, rng.choice(["ties", "unit"]), w64=(P == 3))            # the all-vertices branch over 320 vertices (the clique sits at the indices 275..319)
    add("signed", "L" if P == 3 else "D", g, "clique+pendants")
    for i, variant in enumerate(("tri", "rim", "dense")):
        g, _ = c03.big_star(rng, variant)
        ty = "L" if (i + P) % 2 else "D"
        add("signed", ty, g, "star-" + variant)
        if variant != "tri" or tier != "quick": add("fvs" if (i + P) % 2 else "fvs_tbb", ty, g, "star-" + variant)
    return cases


# --------------------------------------------------------------------------------------------------------------
# judging
# --------------------------------------------------------------------------------------------------------------
class Judge:
    def __init__(self, c, exe, refok, d8, exe13=None):
        self.c, self.exe, self.refok, self.d8, self.exe13 = c, exe, refok, d8, exe13
        self.picks = {}
        self.nviol = {}
        self.stats = {"signed_exact_fixed": 0, "signed_as_found_exact": 0, "known_d8": 0, "latent_d8": 0, "eord_differ": 0,
                      "ref_cases": 0, "ref_distinct": 0, "hangs": 0,
                      "per_rank_runs_compared": 0, "per_rank_agree": 0, "per_rank_skipped_no_hook": 0, "per_rank_skipped_size": 0,
                      "per_rank_ranks_compared": 0, "per_rank_local_minima_compared": 0}
        self.opts = {}
        self.refcache = {}
        self.lock = threading.Lock()

    def report(self, kind, why, rep, found=True):
        with self.lock:
            if self.nviol.get(kind, 0) >= 3: return
            self.nviol[kind] = self.nviol.get(kind, 0) + 1
            self.c.violation(why, rep, found)

    def per_rank(self, P, lines, parsed, traces, tier, replay_of):
        """the four tree variants: every rank's chunk, rebuilt candidates, sort order and per-phase local minimum vs the model"""
        import trees_common
        todo = []
        for i, (alg, g, res, rf, why, differ) in sorted(parsed.items()):
            if alg == "signed": continue
            tr = traces.get(i) if traces is not None else None
            if not tr or not any(tr):
                with self.lock: self.stats["per_rank_skipped_no_hook"] += 1
                continue
            if not per_rank_feasible(alg, g, tier):
                with self.lock: self.stats["per_rank_skipped_size"] += 1
                continue
            todo.append(i)
        if not todo: return
        # feedback vertex sets of the real greedy_fvs (pick oracle of the FVS builder)
        need = sorted({gen.graph_tokens(parsed[i][1]) for i in todo if parsed[i][0].startswith("fvs")} - set(self.picks))
        if need and self.exe13:
            for gt, pk in zip(need, trees_common.fvs_picks(self.exe13, need)):
                with self.lock: self.picks[gt] = pk
        ml, meta = [], []
        for i in todo:
            alg, g, res, rf, why, differ = parsed[i]
            t = toks(lines[i]); scale = int(t[2]) if t[1] == "D" else 0
            gt = gen.graph_tokens(g)
            hooks = [parse_hook(tr_r, scale, integral=(t[1] != "D")) for tr_r in traces[i]]
            bad = next(("rank %d: %s" % (r, h["bad"]) for r, h in enumerate(hooks) if h["bad"]), None)
            if not bad:
                bad = next(("rank %d wrote no %s line" % (r, k.upper()) for r, h in enumerate(hooks) for k in ("chunk", "sorted") if h[k] is None), None)
            picks = self.picks.get(gt) if alg.startswith("fvs") else []
            if picks is None: bad = bad or "greedy_fvs of the real code failed on this graph"
            if bad:
                rep = replay_of(i, {"rank_lines": res, "hook_lines": traces[i], "theorem_or_correspondence": TREES_CORR})
                self.report("per-rank", "%s with %d ranks: per-rank trace unusable: %s" % (ENTRY[alg], P, bad), rep, False); continue
            ml.append(trees_model_line(alg, gt, rf[0].get("ROOTS", []), picks, P, hooks)); meta.append((i, hooks))
        if not ml: return
        mo = lib.run_model("treesmpi", ml, group=GROUP, timeout=1500)
        for (i, hooks), line, out in zip(meta, ml, mo):
            alg, g, res, rf, why, differ = parsed[i]
            try:
                ret, cycles = O.parse_alg_output(res[0])
            except Exception:
                continue
            diff = compare_trees(alg, P, hooks, parse_trees_model(out), ret, cycles)
            with self.lock:
                self.stats["per_rank_runs_compared"] += 1; self.stats["per_rank_ranks_compared"] += P
                self.stats["per_rank_local_minima_compared"] += P * len(hooks[0]["local"])
                if not diff: self.stats["per_rank_agree"] += 1
            if diff:
                rep = replay_of(i, {"rank_lines": res, "hook_lines": traces[i], "model_case": line, "model": out[:3000],
                                    "theorem_or_correspondence": TREES_CORR})
                if why:      # the answer itself violates the property text: the failing input is already exhibited by the judge
                    self.report("per-rank", "%s with %d ranks: %s — and rank 0's answer is wrong: %s" % (ENTRY[alg], P, diff, why), rep, True)
                else:
                    self.report("per-rank", "correspondence %s (P=%d) vs MpiTreesModel no longer checks: %s; rank 0's answer still satisfies the property text" %
                                (ENTRY[alg], P, diff), rep, False)

    def judge_batch(self, P, cases, results, tier, exact=True, traces=None):
        """cases: list of (line, graph, style); results from run_batch.  exact=False (several TBB threads per rank: ties depend on
        the schedule): answers are judged only; a wrong answer of the signed variant counts as D8 if the as-found model is wrong too"""
        c = self.c
        lines = [x[0] for x in cases]
        def replay_of(i, extra=None):
            rep = {"component": "c04", "P": P, "case": lines[i] if i < len(lines) else "<end of job>", "index": i,
                   "batch": lines[:i + 1], "mpiexec": " ".join(MPIEXEC + ["-n", str(P)])}
            rep.update(extra or {}); return rep
        todo_fixed, todo_ref = [], []
        parsed = {}
        for i, res in enumerate(results):
            if i >= len(lines):
                if isinstance(res, tuple) and res[0] != "SKIPPED":
                    self.report("hang", "P=%d: the MPI job did not end cleanly after its last case (%s): %s" % (P, res[0], res[2][-200:]), replay_of(i - 1, {"stderr": res[2]}))
                continue
            line, g, style = cases[i]
            t = toks(line); alg = t[0]; n, es = g
            m = len(es); N = m - n + O.components(n, es)
            c.count("P=%d %s" % (P, line), N >= 2, bucket="P=%d %s%s N%s%s" % (P, alg, " L" if t[1] == "L" else "", "0" if N == 0 else "1" if N == 1 else "2-5" if N <= 5 else ">5",
                                                                             "" if n <= 255 else " n>255" if n <= 65535 else " n>65535"))
            if isinstance(res, tuple):
                kind, partial, se = res
                if kind == "SKIPPED":
                    c.notes.append("P=%d: case %d skipped after repeated failures of the batch" % (P, i)); continue
                if kind == "HANG":
                    self.stats["hangs"] += 1
                    waiting = [r for r, p in enumerate(partial) if p is None]
                    self.report("hang", "%s with %d ranks: not all ranks returned within the watchdog — rank(s) %s left inside a collective (or spinning)" % (ENTRY.get(alg, alg), P, waiting),
                                replay_of(i, {"rank_lines": partial, "stderr": se}))
                else:
                    self.report("crash", "%s with %d ranks: the MPI job died (%s): %s" % (ENTRY.get(alg, alg), P, kind, " | ".join(str(p)[:120] for p in partial if p) or se[-200:]),
                                replay_of(i, {"rank_lines": partial, "stderr": se}))
                continue
            rf = [lib.fields(l, KEYS) for l in res]
            bad = None
            for r, (l, f) in enumerate(zip(res, rf)):
                if not l.rstrip().endswith("DONE") or f.get("RANK", [None])[0] != str(r):
                    bad = "rank %d did not report completion: %s" % (r, l[:150]); break
                if r >= 1 and (f["RANK"][2] != "0"):
                    bad = "rank %d emitted %s cycles (only rank 0 may emit)" % (r, f["RANK"][2]); break
            if bad:
                self.report("ranks", "%s with %d ranks: %s" % (ENTRY[alg], P, bad), replay_of(i, {"rank_lines": res})); continue
            if any(f.get("ROOTS") != rf[0].get("ROOTS") for f in rf):
                self.report("roots", "%s with %d ranks: the ranks' spanning forests start from different roots (the forest index would differ between ranks)" % (ENTRY[alg], P),
                            replay_of(i, {"rank_lines": res})); continue
            try:
                ret, cycles = O.parse_alg_output(res[0])
            except Exception:
                self.report("crash", "%s with %d ranks: unparsable answer on rank 0: %s" % (ENTRY[alg], P, res[0][:200]), replay_of(i, {"rank_lines": res})); continue
            jn, jes, jcycles, why = n, es, cycles, None
            if n > CORE_N:                               # large graphs: judged on the 2-core (same cycle space; the oracle builds a tree per vertex)
                with self.lock: red = reduce_to_core(n, es, cycles)
                if isinstance(red, str): why = red
                else: jn, jes, jcycles = red
            key = gen.graph_tokens((jn, jes))
            with self.lock:
                if key not in self.opts and not why: self.opts[key] = O.mcb(jn, jes)
            why = why or O.judge_basis(jn, jes, jcycles)
            if not why:
                why = O.judge_weight(jn, jes, jcycles, ret, self.opts[key]) if isinstance(ret, int) else "returned value %s is not an exact integer multiple of the weight unit" % ret
            differ = any(f.get("EORD") != rf[0].get("EORD") for f in rf)
            if differ: self.stats["eord_differ"] += 1
            parsed[i] = (alg, g, res, rf, why, differ)
            if alg == "signed" and exact and not model_feasible(line, g):
                if why: self.report("judge", "mcb_sva_signed_mpi with %d ranks: %s" % (P, why), replay_of(i, {"rank_lines": res, "judge_only": True}))
                self.stats["signed_judged_only_size"] = self.stats.get("signed_judged_only_size", 0) + 1
            elif alg == "signed" and exact:
                todo_fixed.append(i)
            elif alg == "signed" and why:
                # several TBB threads: which of several equally light cycles a phase keeps depends on the schedule, so the
                # one-thread as-found model cannot predict the later phases; D8 is matched by its signature alone here
                if differ and P >= 2 and self.d8 is not None:
                    with self.lock:
                        self.stats["known_d8_tbb"] = self.stats.get("known_d8_tbb", 0) + 1
                        if self.stats["known_d8_tbb"] <= 1:
                            c.known(self.d8, "D8 mcb_sva_signed_mpi P=%d (4 TBB threads per rank) ranks' edge orders differ: %s | graph %s" % (P, why, key))
                else:
                    self.report("judge", "mcb_sva_signed_mpi with %d ranks (4 TBB threads per rank): %s" % (P, why), replay_of(i, {"rank_lines": res, "ranks_edge_orders_differ": differ}))
            elif why:
                self.report("judge", "%s with %d ranks: %s" % (ENTRY[alg], P, why), replay_of(i, {"rank_lines": res, "ranks_edge_orders_differ": differ}))
            if self.refok and not why and n <= (16 if tier == "quick" else 20) and m <= 40:
                todo_ref.append(i)
        # ---- the four tree-based MPI entry points: rank 0's run must be accepted by the acceptance model of the sequential tree
        #      variants (each phase a minimum-weight odd candidate); every accepted run is a minimum cycle basis (C02_fvs_trees, C02_iso_trees)
        try:
            import trees_common
            tl, tio, torig = [], [], []
            for i, (alg, g, res, rf, why, differ) in sorted(parsed.items()):
                if alg != "signed" and not why and g[0] <= CORE_N:
                    t = toks(lines[i])
                    tl.append("A %s %s %s %s" % (alg[:3], t[1], t[2], gen.graph_tokens(g))); tio.append(res[0]); torig.append("P=%d %s" % (P, lines[i]))
            if tl:
                with self.lock:
                    st = trees_common.run_trees(c, tier, "weight", lines=tl, io=tio, orig=torig, label="MPI tree variant, rank 0, P=%d" % P)
                    self.stats["trees_mpi_replayed"] = self.stats.get("trees_mpi_replayed", 0) + st.get("replayed", 0)
                    self.stats["trees_mpi_accepted"] = self.stats.get("trees_mpi_accepted", 0) + st.get("accepted", 0)
        except ImportError:
            pass
        # ---- the four tree-based MPI entry points, rank by rank (hook lines vs MpiTreesModel) -------------------------
        self.per_rank(P, lines, parsed, traces, tier, replay_of)
        # ---- exact comparison of the signed variant with the models -------------------------------------------
        if todo_fixed:
            ml = [model_lines(gen.graph_tokens(parsed[i][1]), parsed[i][3], P) for i in todo_fixed]
            mf = lib.run_model("signedmpi_fixed", [x[0] for x in ml], group=GROUP)
            need_orig = []
            for i, (fx, og), mo in zip(todo_fixed, ml, mf):
                alg, g, res, rf, why, differ = parsed[i]
                impl = X.canon_alg(res[0]) + " OTHERS 0"
                if impl == mo.strip():
                    self.stats["signed_exact_fixed"] += 1
                    if why:
                        self.report("judge", "mcb_sva_signed_mpi with %d ranks: %s (the fixed model returns the same answer)" % (P, why),
                                    replay_of(i, {"rank_lines": res, "model_fixed": mo}))
                else:
                    need_orig.append((i, og, mo))
            if need_orig:
                mo_ = lib.run_model("signedmpi", [x[1] for x in need_orig], group=GROUP)
                for (i, og, mfx), mor in zip(need_orig, mo_):
                    alg, g, res, rf, why, differ = parsed[i]
                    impl = X.canon_alg(res[0]) + " OTHERS 0"
                    as_found = impl == mor.strip()
                    rep = replay_of(i, {"rank_lines": res, "model_fixed": mfx, "model_as_found": mor, "model_case_as_found": og,
                                        "ranks_edge_orders_differ": differ})
                    if as_found: self.stats["signed_as_found_exact"] += 1
                    if as_found and not why:
                        self.stats["latent_d8"] += 1      # pointer-order dependent tie-breaking (as modelled), still a minimum basis
                    elif as_found and differ and P >= 2 and self.d8 is not None:
                        with self.lock:
                            self.stats["known_d8"] += 1
                            if self.stats["known_d8"] <= 3:
                                c.known(self.d8, "D8 mcb_sva_signed_mpi P=%d ranks' edge orders differ: %s | graph %s | EORD %s" %
                                        (P, why, gen.graph_tokens(g), " / ".join(" ".join(f["EORD"]) for f in rf)))
                    elif why:
                        self.report("judge", "mcb_sva_signed_mpi with %d ranks: %s%s" % (P, why, "" if differ else " (all ranks have the SAME edge order)"), rep)
                    else:
                        rep["theorem_or_correspondence"] = "correspondence c04/signedmpi: MpiSignedModel.mcb_sva_signed_mpi_fixed_Z (and _orig_Z) vs harness/mpi/c04.cpp"
                        self.report("corr", "correspondence mcb_sva_signed_mpi (P=%d) vs the extracted MPI models no longer checks (rank 0's cycles / weight differ from the fixed model%s); "
                                    "the implementation's answer still satisfies the property text" % (P, "" if as_found else " and from the as-found model"), rep, False)
        # ---- verified checker ----------------------------------------------------------------------------------
        if todo_ref:
            rl = []
            for i in todo_ref:
                ret, cycles = O.parse_alg_output(parsed[i][2][0]); rl.append(X.ref_case(parsed[i][1], cycles))
            with self.lock:
                fresh = sorted({x for x in rl if x not in self.refcache})
            for x, y in zip(fresh, lib.run_model("mcbcheck", fresh, group="ref", timeout=1500)):
                with self.lock: self.refcache[x] = y
            ro = [self.refcache[x] for x in rl]
            with self.lock: self.stats["ref_cases"] += len(rl); self.stats["ref_distinct"] = len(self.refcache)
            for i, r in zip(todo_ref, ro):
                f = lib.fields(r, ["SIMPLE", "BASIS", "OPT", "TOTAL", "MIN"])
                if r.startswith(("MODEL-", "CRASH", "ERR")) or "MIN" not in f:
                    self.report("ref-fail", "verified checker mcbcheck failed to run: " + r[:200],
                                replay_of(i, {"theorem_or_correspondence": "extracted RefModel.mcb_checkb", "ref": r}), False); continue
                if f["MIN"][0] != "1":
                    self.report("ref", "%s with %d ranks: verified checker: rank 0's family is not a minimum cycle basis (BASIS %s total %s optimum %s) although the Python judge accepted it" %
                                (ENTRY[parsed[i][0]], P, f["BASIS"][0], f["TOTAL"][0], f["OPT"][0]), replay_of(i, {"ref": r, "rank_lines": parsed[i][2]}))


def check_redtree(c, exe, Ps):
    """the reduction order of boost::mpi::reduce (custom op, serialized type, declared commutative) vs MpiModel.boost_reduce_tree"""
    mo = lib.run_model("redtree", [str(P) for P in Ps], group=GROUP)
    def one(P):
        return run_batch(exe, P, ["T 3"], "red%d" % P, 90)[0]
    with cf.ThreadPoolExecutor(max_workers=2) as ex:
        outs = list(ex.map(one, Ps))
    n = 0
    for P, res, m in zip(Ps, outs, mo):
        c.count("T P=%d" % P, P >= 2, bucket="redtree")
        if isinstance(res, tuple):
            c.violation("reduction self-test with %d ranks did not complete (%s)" % (P, res[0]), {"component": "c04", "P": P, "case": "T 3", "batch": ["T 3"], "index": 0, "stderr": res[2]}, True)
            continue
        got = " ".join(lib.fields(res[0], KEYS).get("REDTREE", []))
        want = m.replace("REDTREE ", "").replace(" OK", "").strip()
        if not m.strip().endswith(" OK") or got != want:
            n += 1
            if n <= 2:
                c.violation("correspondence: boost::mpi::reduce combines %d ranks as %s, MpiModel.boost_reduce_tree says %s" % (P, got, m),
                            {"component": "c04", "P": P, "case": "T 3", "batch": ["T 3"], "index": 0, "impl": got, "model": m,
                             "theorem_or_correspondence": "correspondence c04/redtree: MpiModel.boost_reduce_tree vs Boost.MPI tree_reduce_impl"}, False)


def check(tier, seed):
    c = lib.Check(PID, tier, seed, THEOREMS)
    Ps = [1, 2, 3, 5] if tier == "quick" else [1, 2, 3, 4, 5, 6, 7, 8, 13]
    c.rule = ("(entry point in {signed, fvs_trees, fvs_trees_tbb, iso_trees, iso_trees_tbb}_mpi) x (P in %s) x (double|int weights) x (per-rank heap perturbation seed) x graph: "
              "tiny graphs with fewer vertices / candidates / signed edges than ranks (incl. empty, edgeless, forests), dense small graphs (hidden-edge branch 1 < |S| < n and all-vertices branch), "
              "structured families and random graphs with unit/ties/wide/pow2 weights; the same entry points with long long weights above 2^53 (2^53+r, 2^54+{0..3}, 2^54+permutation, 2^b+r up to b = 60, "
              "heavy/light mixes; (m+4)*sum(w) < 2^63); in MPI jobs of their own (P = 2, 3): 257..400 vertices, K45 + pendants on 320 vertices (all-vertices branch), stars with 66009 vertices whose hub and "
              "cycle-carrying leaves have indices >= 65536 and < 256 (signed, fvs_trees[_tbb]; judged through the 2-core); many cases per MPI job (heaps drift apart between ranks); distinct by md5 of (P, case); "
              "non-trivial = cycle space dimension >= 2") % Ps
    c.step_prove()
    ok = c.step_model(GROUP)
    refok = X.have_ref() and c.step_model("ref")
    exe = c.harness(**HARNESS)
    d8 = next((f for f in lib.known_findings(PID) if f.get("id") == "D8"), None)
    exe13 = c.harness(name="c13", srcs=["c13.cpp"])
    if ok and exe:
        J = Judge(c, exe, refok, d8, exe13)
        check_redtree(c, exe, sorted(set(Ps + ([13] if tier == "quick" else [14, 16]))))
        corpus = [l for l in lib.corpus_cases(PID)]
        c.extra["corpus_cases"] = len(corpus)
        batches = []
        cases = []
        for l in corpus:
            t = toks(l); n, es, _ = lib.parse_graph_tokens(t, 4); cases.append((l, (n, es), "corpus"))
        cases += gen_cases(c.rng, tier)          # the same cases for every P: the answers must not depend on P either
        c64 = gen_cases64(random.Random(seed * 7919 + 404), tier)      # long long weights above 2^53 (own stream: the double / int stream is unchanged)
        cases += c64
        c.extra["cases_64bit_weights"] = len(c64)
        cases += gen_cases_dense(random.Random(seed * 7919 + 406), tier)
        for P in Ps:
            batches.append((P, cases, "%s_P%d" % (tier, P), 1))
        for P in (2, 3):                         # sizes beyond narrow index types: MPI jobs of their own
            sz = size_cases(random.Random(seed * 7919 + 405 + P), tier, P)
            batches.append((P, sz, "%s_P%d_size" % (tier, P), 1))
            c.extra.setdefault("size_cases", {})["P=%d" % P] = {"n>255": sum(1 for x in sz if 255 < x[1][0] <= 65535), "n>65535 (judged only)": sum(1 for x in sz if x[1][0] > 65535)}
        if tier == "thorough":      # real TBB with several worker threads inside every rank (tbb variants and the signed variant's local reduce)
            extra = gen_cases(c.rng, "quick")
            for P in (2, 5):
                batches.append((P, extra, "%s_P%d_tbb4" % (tier, P), 4))
        wd = 300 if tier == "quick" else 1500
        # run the MPI jobs a few at a time (at most ~16 processes), judge as they complete
        sem = threading.Semaphore(16)
        def work(b):
            P, cases, tag, threads = b
            need = min(P, 16)
            for _ in range(need): sem.acquire()
            traces = {}
            try:
                res = run_batch(exe, P, [x[0] for x in cases], tag, wd, threads, stall=(90 if tier == "quick" else 150), traces=traces)
            finally:
                for _ in range(need): sem.release()
            J.judge_batch(P, cases, res, tier, exact=(threads == 1), traces=traces)      # several TBB threads: schedule-dependent ties, judged only
        with cf.ThreadPoolExecutor(max_workers=6) as ex:
            list(ex.map(work, sorted(batches, key=lambda b: (-b[0], b[2]))))
        c.extra.update(J.stats)
        if J.stats["known_d8"]:
            c.notes.append("D8 (known finding) hit %d times; %d further layout-dependent answers that happened to be minimum bases" % (J.stats["known_d8"], J.stats["latent_d8"]))
        elif d8 is not None and J.stats["eord_differ"] > 20:
            c.notes.append("known finding D8 is listed but did not show although the ranks' edge orders differed in %d cases: stale (fix applied?)" % J.stats["eord_differ"])
        c.extra["verified_checker_cases"] = J.stats["ref_cases"]
        if J.stats["per_rank_runs_compared"] == 0 and J.stats["per_rank_skipped_no_hook"]:
            c.notes.append("per-rank comparison of the tree variants SKIPPED: the working tree has no VERIF-MPITREES hook (pending/c04-hook-localmin.patch not applied); "
                           "%d runs were judged on rank 0's answer and replayed through the sequential acceptance model only" % J.stats["per_rank_skipped_no_hook"])
    return c.finish(
        assumptions=["lock-step semantics of the collectives (MpiModel.run) stands for MPI; progress of the real runtime is observed by the watchdog only",
                     "boost::mpi::reduce combines along MpiModel.boost_reduce_tree (re-observed on every run for every P used); the theorems hold for every tree over the ranks",
                     "stride: ceil((double) total / P) equals the integer ceiling used by the model for total < 2^53: Properties_C04_stride.C04_stride_matches_model (binary64 division by Flocq; the C library's ceil is taken as the exact ceiling of its argument)",
                     "per-rank BFS root order and pointer order of edge descriptors are recovered from the run (ROOTS equal on all ranks is checked, EORD per rank is fed to the as-found model)",
                     "local tbb::parallel_reduce runs on one TBB thread in the exact comparison (= left-to-right fold); C04c is modulo the per-index search premise (MpiProofs3.signed_phase_premise)",
                     "double weights are integer multiples of a power of two, sums below 2^53; int weights with (m+4)*sum < 2^31, long long weights with (m+4)*sum < 2^63 (exact domain)",
                     "tree variants: every rank's ForestIndex is the same (ROOTS equal on all ranks is checked); std::sort's order among equal recorded weights is recovered per rank from the hook's SORTED line and "
                     "validated by MpiTreesModel.mt_sort_Z (a permutation, no later element strictly lighter); greedy_fvs's pick oracle is recovered by running the real greedy_fvs (harness/c13.cpp)",
                     "tree variants, TBB flavour: tbb::parallel_reduce is not modelled schedule by schedule here; C04c_result_*_tbb_mpi hold for every local lookup accepted by mt_rank_accept_tbb_Z and every reported "
                     "local minimum of every rank and phase is checked against that relation",
                     "the per-rank comparison needs the PARMCB_VERIF hook of pending/c04-hook-localmin.patch (switched on at run time by PARMCB_VERIF_MPI_TRACE, which only harness/mpi/c04.cpp sets); "
                     "without it the tree variants are tied through rank 0's answer only"],
        trusted_extra=["Open MPI 4.1.4 / Boost.MPI 1.83 runtime, mpiexec; harness/mpi/c04.cpp (redirects every rank's stderr to a file of its own); ocaml/driver_c04.ml "
                       "(treesmpi: recovers each rank's arrangement as positions in the model's unsorted vector, feeds reported local minima to mt_trace_run_Z)"],
        explanation="C04a/C04b hold for every P >= 1 (and C04b for every per-rank order); C04c holds for the fixed code for all layouts and for the code as found only when the ranks' "
                    "orders agree (C04_layout_refuted exhibits D8 on a 4-vertex graph). This run executes the real entry points under mpiexec with deliberately different per-rank heaps, "
                    "requires every rank to finish and ranks != 0 to stay silent, judges rank 0's basis (Python judge + verified checker) and compares mcb_sva_signed_mpi exactly with the "
                    "extracted model of the fixed code; a wrong answer is tolerated only as the listed known finding D8 and only if the as-found model predicts it exactly. "
                    "The four tree variants are premise-free too (Properties_C04_trees.v: exact per-rank model, C04c_local_collection, C04c_result_{fvs,iso}_trees[_tbb]_mpi) and are tied rank by rank: "
                    "chunk, rebuilt candidate vector, sort order and the local minimum of every phase of EVERY rank against the extracted model (see per_rank_* counters).")


# --------------------------------------------------------------------------------------------------------------
def replay(path):
    r = json.load(open(path))
    lib.ensure_model(GROUP)
    exe, err = lib.build_cpp(**HARNESS)
    if exe is None:
        print("harness does not build:", err); print("VIOLATION property=%s replay=%s" % (PID, path)); return 1
    P = int(r["P"]); batch = r["batch"]; idx = len(batch) - 1
    traces = {}
    res = run_batch(exe, P, batch, "replay", 240, traces=traces)
    last = res[idx]
    print("P:", P); print("case:", batch[idx][:3000])
    bad = None
    if isinstance(last, tuple):
        bad = "%s: %s" % (last[0], last[1])
    elif batch[idx].startswith("T "):
        m = lib.run_model("redtree", [str(P)], par=1, group=GROUP)[0]
        got = " ".join(lib.fields(last[0], KEYS).get("REDTREE", [])); print("impl:", got); print("model:", m)
        if got != m.replace("REDTREE ", "").replace(" OK", "").strip(): bad = "reduction tree differs"
    else:
        for l in last: print("rank:", l[:300])
        t = toks(batch[idx]); n, es, _ = lib.parse_graph_tokens(t, 4)
        feasible = model_feasible(batch[idx], (n, es))
        rf = [lib.fields(l, KEYS) for l in last]
        try:
            ret, cycles = O.parse_alg_output(last[0])
            jn, jes, jcycles = n, es, cycles
            if n > CORE_N:
                red = reduce_to_core(n, es, cycles)
                if isinstance(red, str): bad = red
                else: jn, jes, jcycles = red
            bad = bad or O.judge_basis(jn, jes, jcycles) or (O.judge_weight(jn, jes, jcycles, ret) if isinstance(ret, int) else "non-integer weight")
        except Exception:
            bad = "no answer on rank 0"
        if not bad and any(f.get("RANK", [0, 0, "x"])[2] != "0" for f in rf[1:]): bad = "a rank other than 0 emitted cycles"
        if t[0] != "signed" and not bad and traces.get(idx) and any(traces[idx]) and per_rank_feasible(t[0], (n, es), "thorough"):
            # per-rank comparison with MpiTreesModel (hook lines present)
            import trees_common
            scale = int(t[2]) if t[1] == "D" else 0
            hooks = [parse_hook(x, scale, integral=(t[1] != "D")) for x in traces[idx]]
            picks = []
            if t[0].startswith("fvs"):
                exe13, _ = lib.build_cpp(name="c13", srcs=["c13.cpp"])
                picks = trees_common.fvs_picks(exe13, [" ".join(t[4:])])[0] if exe13 else None
            if picks is None or any(h["bad"] or h["chunk"] is None or h["sorted"] is None for h in hooks):
                bad = "per-rank trace unusable"
            else:
                ml = trees_model_line(t[0], " ".join(t[4:]), rf[0].get("ROOTS", []), picks, P, hooks)
                mo = lib.run_model("treesmpi", [ml], par=1, group=GROUP)[0]
                for rk, x in enumerate(traces[idx]):
                    for l in x: print("hook[%d]:" % rk, l[:200])
                print("model(treesmpi):", mo[:1500])
                bad = compare_trees(t[0], P, hooks, parse_trees_model(mo), ret, cycles)
        if t[0] == "signed" and not bad and feasible:
            fx, og = model_lines(" ".join(t[4:]), rf, P)
            m = lib.run_model("signedmpi_fixed", [fx], par=1, group=GROUP)[0]; print("model(fixed):", m)
            if m.strip() != X.canon_alg(last[0]) + " OTHERS 0": bad = "differs from the fixed model"
    print("judge:", bad)
    if bad:
        print("VIOLATION property=%s replay=%s" % (PID, path)); return 1
    return 0
