"""C20 — the concurrency knob actually limits TBB parallelism.
Theorems: Properties_C20.v (model TbbControlModel.v: oneTBB's min-rule, set_global_tbb_concurrency as found / as fixed,
the demos' option block as found / as fixed).

Tie, part A (knob): harness/c20.cpp (real libtbb) runs histories of parmcb::set_global_tbb_concurrency calls interleaved
with raw global_control objects, each in a fresh process, and prints tbb::global_control::active_value after every
operation (+ optionally the number of threads that execute a parallel_for afterwards); compared with the extracted model
(default value and boost's hardware concurrency are read from the run and passed to the model) and judged by an
independent Python simulation of the property text.  Raw-only prefixes exercise the ASSUMED min-rule of oneTBB itself.

Tie, part B (demos): mcb-dimacs / approx-mcb-dimacs / mcb-dimacs-mpi are compiled from the working tree's src/*.cpp with
-DPARMCB_VERIF and run on a tiny DIMACS file under option combinations; the hook line
`PARMCB_VERIF active_parallelism=<v>` (stderr, just before the algorithm call), the `Using <ALGO>` and `Using cores:` lines
are compared with the model's decision function.  If the hook is not yet in the tree the check observes through a
temporary instrumented COPY of the sources (pending/c20-hook-demos.patch applied in the build directory) or, if that is
impossible, skips part B with a note.  Once the hook is in the tree a missing hook line is a violation.

Known findings D4 (knob has no effect) / D5 (demos apply the knob only under --verbose) are decided by behaviour:
a failure is a KNOWN-FINDING only if the finding is listed with status "known" AND the implementation's answer is exactly
what the as-found model (set_concurrency_orig / demo_knob_orig) predicts; anything else is a VIOLATION.  A listed finding
whose witness no longer fails is reported as stale (a note, not a violation)."""
import json, os, shutil, glob, concurrent.futures as cf
import lib

PID = "C20"
THEOREMS = ["Properties_C20.v"]
GROUP = "c20"
HARNESS = dict(name="c20", srcs=["c20.cpp"], libs=["-ltbb", "-lboost_thread", "-lpthread"])
HOOK_MARK = "PARMCB_VERIF active_parallelism="
HOOK_PATCH = os.path.join(lib.ROOT, "pending", "c20-hook-demos.patch")
DEMOS = {"mcb": "mcb-dimacs", "approx": "approx-mcb-dimacs", "mpi": "mcb-dimacs-mpi"}
MPIEXEC = ["mpiexec", "--allow-run-as-root", "--oversubscribe", "--bind-to", "none"]
TINY = "c tiny valid instance for the C20 demo runs\np sp 4 5\na 1 2 1\na 2 3 2\na 3 4 3\na 4 1 4\na 1 3 5\n"
D4_WITNESS = "T 2 S 1 S 2"
D5_WITNESS = "DEMO mcb --parallel true --cores 3"


# --------------------------------------------------------------------------------------------------------------
# part A: histories of the knob
# --------------------------------------------------------------------------------------------------------------
def gen_history(rng, hw, maxlen):
    pool = sorted({1, 2, 3, max(1, hw - 1), hw, hw + 1, 2 * hw, 63, 64})
    def val():
        return rng.choice(pool) if rng.random() < 0.4 else rng.randint(1, 64)
    r = rng.random(); ops = []
    k = rng.randint(1, maxlen)
    if r < 0.35:                                   # pure call sequences
        ops = ["S %d" % val() for _ in range(k)]
        mode = "calls"
    elif r < 0.5:                                  # strictly decreasing, then a larger one: a lingering minimum shows
        vs = sorted({val() for _ in range(max(2, k))}, reverse=True)
        ops = ["S %d" % v for v in vs] + ["S %d" % rng.randint(vs[-1] + 1, 64 + vs[-1])]
        ops = ops[-maxlen:]
        mode = "dec-inc"
    elif r < 0.6:                                  # repeated equal values
        v = val(); ops = ["S %d" % (v if rng.random() < 0.7 else val()) for _ in range(k)]
        mode = "equal"
    else:                                          # mixed with raw controls / raw only
        rawonly = r >= 0.88
        slots = {}
        for _ in range(k):
            q = rng.random()
            if not rawonly and q < 0.45:
                ops.append("S %d" % val())
            elif slots and q < 0.7:
                s = rng.choice(sorted(slots)); del slots[s]; ops.append("D %d" % s)
            else:
                free = [s for s in range(4) if s not in slots]
                if not free:
                    s = rng.choice(sorted(slots)); del slots[s]; ops.append("D %d" % s)
                else:
                    s = rng.choice(free); v = val() if rng.random() < 0.8 else rng.randint(65, 300); slots[s] = v
                    ops.append("C %d %d" % (s, v))
        if not rawonly and not any(o.startswith("S") for o in ops):
            ops[-1:] = ["S %d" % val()] if len(ops) == maxlen else []; ops.append("S %d" % val())
        mode = "raw" if rawonly else "mixed"
    if rng.random() < 0.3:
        # the same calls made from other threads: ST = a helper thread that makes the call and exits before the next operation,
        # SK = one long-lived worker thread that stays alive to the end of the history (values >= 1 only: 0 aborts the process from whichever thread)
        ops = [(rng.choice(["ST", "SK", "S"]) + o[1:]) if o.startswith("S ") and o != "S 0" else o for o in ops]
        mode += "+threads"
    w = " W" if rng.random() < 0.15 else ""
    return "T %d %s%s" % (len(ops), " ".join(ops), w), mode


def parse_case(case):
    t = case.split(); assert t[0] == "T"
    k = int(t[1]); i = 2; ops = []
    for _ in range(k):
        if t[i] in ("S", "ST", "SK"): ops.append((t[i], int(t[i + 1]))); i += 2      # ST / SK: the same call made from another thread
        elif t[i] == "C": ops.append(("C", int(t[i + 1]), int(t[i + 2]))); i += 3
        elif t[i] == "D": ops.append(("D", int(t[i + 1]))); i += 2
        else: raise ValueError("bad op " + t[i])
    return ops, (i < len(t) and t[i] == "W")


def case_of(ops, w):
    return "T %d %s%s" % (len(ops), " ".join(" ".join(str(x) for x in o) for o in ops), " W" if w else "")


def parse_impl(line):
    """'DEF d BHW b A a.. [STATUS ..] [W n]' -> dict or None"""
    t = line.split()
    if len(t) < 5 or t[0] != "DEF" or t[2] != "BHW" or t[4] != "A":
        return None
    try:
        d, b = int(t[1]), int(t[3])
    except ValueError:
        return None
    vals, i = [], 5
    while i < len(t) and t[i].isdigit():
        vals.append(int(t[i])); i += 1
    w, status = None, []
    while i < len(t):
        if t[i] == "W" and i + 1 < len(t) and t[i + 1].isdigit():
            w = int(t[i + 1]); i += 2
        else:
            status.append(t[i]); i += 1
    return {"dflt": d, "bhw": b, "vals": vals, "status": " ".join(status), "w": w,
            "apart": "A" + "".join(" %d" % v for v in vals) + ((" " + " ".join(status)) if status else "")}


def judge_knob(case, im):
    """independent simulation of the property text (+ the assumed min-rule for the raw controls).
    returns None or (reason, kind) with kind in {'property', 'tbb-rule', 'harness'}"""
    ops, w = parse_case(case)
    raws, last, d = {}, None, im["dflt"]
    vals, j = im["vals"], 0
    def stop(expected):
        if im["status"] != expected or len(vals) != j:
            return ("history must stop with %s after %d operations; implementation printed '%s'" % (expected, j, im["apart"]), "harness" if expected == "BADSLOT" else "property")
        return "stopped"
    for o in ops:
        if o[0] in ("S", "ST", "SK"):
            if o[1] == 0:
                r = stop("ABORT"); return None if r == "stopped" else r
            last = o[1]
        elif o[0] == "C":
            if o[1] in raws:
                r = stop("BADSLOT"); return None if r == "stopped" else r
            if o[2] == 0:
                r = stop("ABORT"); return None if r == "stopped" else r
            raws[o[1]] = o[2]
        else:
            if o[1] not in raws:
                r = stop("BADSLOT"); return None if r == "stopped" else r
            del raws[o[1]]
        livev = list(raws.values()) + ([last] if last is not None else [])
        exp = min(livev) if livev else d
        if j >= len(vals):
            return ("no active value printed after operation %d (%s): '%s %s'" % (j + 1, " ".join(map(str, o)), im["apart"], im["status"]), "property" if last is not None else "tbb-rule")
        if vals[j] != exp:
            if last is None:
                return ("oneTBB min-rule: after raw operation %d (%s) active_value is %d, the assumed rule gives %d" % (j + 1, " ".join(map(str, o)), vals[j], exp), "tbb-rule")
            return ("after operation %d (%s) with last knob call n=%d%s the active parallelism is %d, required %d" %
                    (j + 1, " ".join(map(str, o)), last, (" and other live controls %s" % sorted(raws.values())) if raws else "", vals[j], exp), "property")
        j += 1
    if im["status"] or len(vals) != j:
        return ("unexpected trailing output '%s'" % im["apart"], "harness")
    if w:
        livev = list(raws.values()) + ([last] if last is not None else [])
        exp = min(livev) if livev else d
        if im["w"] is None:
            return ("thread count missing", "harness")
        if im["w"] < 1 or im["w"] > exp:
            return ("%d distinct threads executed a parallel_for while the allowed parallelism should be %d" % (im["w"], exp), "property" if last is not None else "tbb-rule")
    return None


def model_line(case, dflt):
    t = ["S" if x in ("ST", "SK") else x for x in case.split()]     # which thread makes the call is no part of the model: the limit is process-wide
    if t[-1] == "W": t = t[:-1]
    return "%d %s" % (dflt, " ".join(t[1:]))


def run_knob(exe, cases):
    """-> list of dicts {case, raw, im, fixed, orig, why}"""
    io = lib.run_lines([exe], cases, timeout=600)
    ims = [parse_impl(l) for l in io]
    idx = [i for i, im in enumerate(ims) if im is not None]
    ml = [model_line(cases[i], ims[i]["dflt"]) for i in idx]
    mf = lib.run_model("c20", ml, group=GROUP)
    mo = lib.run_model("c20_orig", ml, group=GROUP)
    out = []
    pos = {i: k for k, i in enumerate(idx)}
    for i, cs in enumerate(cases):
        r = {"case": cs, "raw": io[i], "im": ims[i], "fixed": None, "orig": None, "why": None}
        if ims[i] is None:
            r["why"] = ("unparsable harness output '%s'" % io[i][:200], "harness")
        else:
            r["fixed"], r["orig"] = mf[pos[i]], mo[pos[i]]
            try:
                r["why"] = judge_knob(cs, ims[i])
            except Exception as ex:
                r["why"] = ("judge failed on '%s': %s" % (io[i][:200], ex), "harness")
        out.append(r)
    return out


def matches_d4(r):
    """the failure is exactly what the as-found function does: trace = set_concurrency_orig's, thread count within the default"""
    im = r["im"]
    return im is not None and r["orig"] is not None and im["apart"] == r["orig"] and r["orig"] != r["fixed"] and \
        (im["w"] is None or 1 <= im["w"] <= max(im["dflt"], 1))


def shrink_knob(exe, case, pred):
    ops, w = parse_case(case)
    def still(cand):
        cs = case_of(cand, w)
        r = run_knob(exe, [cs])[0]
        return r["im"] is not None and "BADSLOT" not in r["im"]["status"] and pred(r)
    try:
        small = lib.shrink_list(ops, still, max_rounds=30)
    except Exception:
        small = ops
    return case_of(small, w)


# --------------------------------------------------------------------------------------------------------------
# part B: the demos
# --------------------------------------------------------------------------------------------------------------
def hook_in_tree():
    st = {}
    for k, nm in DEMOS.items():
        p = os.path.join(lib.REPO, "src", nm + ".cpp")
        st[k] = os.path.exists(p) and HOOK_MARK in open(p).read()
    return st


def demo_sources(c):
    """-> (dir containing the sources to compile, {prog: hook present}, mode) ; mode in tree|instrumented-copy|none"""
    st = hook_in_tree()
    src = os.path.join(lib.REPO, "src")
    if st["mcb"] and st["approx"]:
        return src, st, "tree"
    if os.path.exists(HOOK_PATCH) and shutil.which("patch"):
        d = os.path.join(lib.BUILD, "c20_src")
        shutil.rmtree(d, ignore_errors=True); os.makedirs(os.path.join(d, "src"))
        for f in glob.glob(os.path.join(src, "*.cpp")):
            shutil.copy(f, os.path.join(d, "src"))
        rc, so, se = lib.sh("patch -p1 -s --forward -d %s < %s" % (d, HOOK_PATCH), timeout=60)
        st2 = {k: HOOK_MARK in open(os.path.join(d, "src", nm + ".cpp")).read() for k, nm in DEMOS.items()}
        if st2["mcb"] and st2["approx"]:
            c.notes.append("hook h2 (PARMCB_VERIF line in the demos) is not in the working tree yet: part B observes through a temporary copy of src/*.cpp "
                           "with pending/c20-hook-demos.patch applied (add-only); the tree itself is untouched")
            return os.path.join(d, "src"), st2, "instrumented-copy"
    return src, st, "none"


def build_demo(prog, srcdir):
    nm = DEMOS[prog]
    mpi = prog == "mpi"
    cxx = "mpicxx" if mpi else "g++"
    if shutil.which(cxx) is None:
        return None, cxx + " not available"
    exe = os.path.join(lib.BUILD, "c20_demo_" + prog)
    src = os.path.join(srcdir, nm + ".cpp")
    cmd = [cxx, "-std=c++14", "-O0", "-D" + lib.GUARD] + (["-DVERIF_WITH_MPI"] if mpi else []) + \
          ["-I" + os.path.join(lib.ROOT, "harness", "cfg"), "-I" + os.path.join(lib.REPO, "include"), "-o", exe, src,
           "-lboost_program_options", "-lboost_timer", "-lboost_thread"] + (["-lboost_mpi", "-lboost_serialization"] if mpi else []) + ["-ltbb", "-lpthread"]
    key = lib.sha(lib.file_hash(lib.repo_sources() + [src] + glob.glob(os.path.join(lib.ROOT, "harness", "cfg", "parmcb", "*"))), " ".join(cmd))
    stamp = exe + ".stamp"
    if os.path.exists(exe) and os.path.exists(stamp) and open(stamp).read() == key:
        return exe, None
    if os.path.exists(exe):
        os.remove(exe)
    rc, so, se = lib.sh(cmd, timeout=900)
    if rc != 0 or not os.path.exists(exe):
        return None, (so + se)[-3000:]
    open(stamp, "w").write(key)
    return exe, None


def combo_args(cb):
    a = []
    if cb["algo"] == "fvs": a += ["--signed", "false", "--fvstrees", "true"]
    elif cb["algo"] == "iso": a += ["--signed", "false"]
    elif cb["algo"] == "iso2": a += ["--signed", "false", "--isotrees", "true"]
    elif cb["algo"] == "signed+fvs": a += ["--fvstrees", "true"]
    if cb["parallel"] is not None: a += ["--parallel", "true" if cb["parallel"] else "false"]
    if cb["cores"] is not None:      # the MPI demo has no such option: "--cores=3" is ignored (allow_unregistered), "--cores 3" makes 3 a second positional -> rejected
        a += ["--cores=%d" % cb["cores"]] if cb["prog"] == "mpi" else ["--cores", str(cb["cores"])]
    if cb["verbose"]: a += (cb.get("vform") or "--verbose").split()
    if cb["printcycles"]: a += ["--printcycles"] + (["true"] if cb.get("vform") == "--verbose true" else [])
    if cb.get("k") is not None: a += ["--k", str(cb["k"])]
    return a


def combo_of_args(prog, args):
    """inverse of combo_args for corpus / replay lines"""
    cb = {"prog": prog, "algo": "signed", "parallel": None, "cores": None, "verbose": False, "printcycles": False, "k": None, "np": 1 if prog == "mpi" else None}
    v = {}
    i = 0
    while i < len(args):
        if args[i] in ("--verbose", "-v", "--printcycles"):
            flag = args[i]; explicit = i + 1 < len(args) and args[i + 1] == "true"
            if flag == "--printcycles": cb["printcycles"] = True
            else: cb["verbose"] = True; cb["vform"] = flag + (" true" if explicit else "")
            i += 2 if explicit else 1
        elif "=" in args[i]: v[args[i].split("=", 1)[0]] = args[i].split("=", 1)[1]; i += 1
        else: v[args[i]] = args[i + 1]; i += 2
    if "--parallel" in v: cb["parallel"] = v["--parallel"] == "true"
    if "--cores" in v: cb["cores"] = int(v["--cores"])
    if "--k" in v: cb["k"] = int(v["--k"])
    sg, fv, iso = v.get("--signed", "true") == "true", v.get("--fvstrees", "false") == "true", v.get("--isotrees", "false") == "true"
    cb["algo"] = "signed+fvs" if (sg and fv) else "signed" if sg else "fvs" if fv else "iso2" if iso else "iso"
    return cb


def combo_model_fields(cb):
    sg = cb["algo"] in ("signed", "signed+fvs")
    fv = cb["algo"] in ("fvs", "signed+fvs")
    iso = cb["algo"] == "iso2"
    par = True if cb["parallel"] is None else cb["parallel"]
    if cb["prog"] == "mpi":                       # these options do not exist there (unregistered options are ignored)
        par = True
    cores = 0 if (cb["cores"] is None or cb["prog"] == "mpi") else cb["cores"]
    return "%d %d %d %d %d %d 1 %d" % (cb["verbose"], sg, fv, iso, par, cb["printcycles"], cores), par, cores


def gen_combos(rng, tier, hw, have_mpi):
    algos = ["signed", "fvs", "iso", "iso2", "signed+fvs"]
    coresv = [None, 0, 1, 2, 3, 7, hw, hw + 4, 64]
    out = []
    if tier == "thorough":
        for prog in ("mcb", "approx"):
            for algo in algos:
                for par in (None, True, False):
                    for cores in coresv:
                        for verbose in (False, True):
                            for pc in (False, True):
                                out.append({"prog": prog, "algo": algo, "parallel": par, "cores": cores, "verbose": verbose, "printcycles": pc,
                                            "vform": rng.choice(["--verbose", "-v", "--verbose true"]), "k": (3 if prog == "approx" and rng.random() < 0.3 else None), "np": None})
    else:
        # covering set: every (parallel, verbose, cores-class) for both demos, algorithm / printcycles rotated
        n = 0
        for prog in ("mcb", "approx"):
            for par in (None, True, False):
                for verbose in (False, True):
                    for cores in (None, 1, 3, hw + 4):
                        out.append({"prog": prog, "algo": algos[n % len(algos)], "parallel": par, "cores": cores, "verbose": verbose,
                                    "vform": ["--verbose", "-v", "--verbose true"][n % 3], "printcycles": n % 3 == 0, "k": (3 if prog == "approx" and n % 4 == 1 else None), "np": None})
                        n += 1
        for _ in range(12):
            out.append({"prog": rng.choice(["mcb", "approx"]), "algo": rng.choice(algos), "parallel": rng.choice([None, True, False]), "cores": rng.choice(coresv),
                        "verbose": rng.random() < 0.5, "printcycles": rng.random() < 0.5, "k": None, "np": None})
    # the same programs in a process whose CPU affinity is restricted to one CPU: TBB's default follows the affinity mask, the hardware concurrency
    # boost reports need not; --cores n must still be what is in force, in particular for n = the machine's hardware concurrency and its neighbours
    import shutil as _sh
    if _sh.which(PIN[0]):
        n = 0
        for prog in ("mcb", "approx"):
            for cores in ([None, 0, 1, 2, hw - 1, hw, hw + 1, 2 * hw] if tier == "quick" else coresv + [hw - 1, hw + 1, 2 * hw]):
                for par in ((None, False) if cores in (None, 0) or tier == "quick" and n % 3 else (None, True, False)):
                    if cores is not None and cores < 0: continue
                    out.append({"prog": prog, "algo": algos[n % len(algos)], "parallel": par, "cores": cores, "verbose": n % 2 == 0, "vform": "--verbose",
                                "printcycles": False, "k": None, "np": None, "pin": True})
                    n += 1
    if have_mpi:
        for n, algo in enumerate(algos if tier == "thorough" else ["signed", "fvs", "iso"]):
            for verbose in ((False, True) if tier == "thorough" else (n % 2 == 0,)):
                out.append({"prog": "mpi", "algo": algo, "parallel": None, "cores": (3 if n % 2 == 0 else None), "verbose": verbose, "printcycles": False,
                            "k": None, "np": 2 if (tier == "thorough" and n % 2 == 1) else 1})
    return out


PIN = ["taskset", "-c", "0"]


def pinned_default(hexe):
    """TBB's default and boost's hardware concurrency as seen by a process restricted to one CPU"""
    rc, so, se = lib.sh(PIN + [hexe], inp="T 0\n", timeout=120)
    for l in so.splitlines():
        im = parse_impl(l)
        if im:
            return im["dflt"], im["bhw"]
    return None


def combo_text(cb):
    return "DEMO %s %s" % (cb["prog"], " ".join(combo_args(cb))) + (" [np=%d]" % cb["np"] if cb.get("np") and cb["np"] > 1 else "") + (" [pinned to cpu 0]" if cb.get("pin") else "")


def run_demo(exe, cb, tiny):
    cmd = [exe, tiny] + combo_args(cb)    # file first: "--verbose <file>" would take the file name as the flag's value
    if cb["prog"] == "mpi":
        # one output file per rank: the ranks' unbuffered stderr writes would otherwise interleave inside the hook line
        od = os.path.join(lib.BUILD, "c20_mpi_out", lib.sha(" ".join(cmd), cb["np"])[:16])
        shutil.rmtree(od, ignore_errors=True); os.makedirs(od)
        cmd = MPIEXEC + ["--output-filename", od, "-n", str(cb["np"] or 1)] + cmd
        rc, so0, se0 = lib.sh(cmd, timeout=120)
        so, se = "", ""
        for r_ in range(cb["np"] or 1):
            for nm in ("stdout", "stderr"):
                f = os.path.join(od, "1", "rank.%d" % r_, nm)
                t = open(f).read() if os.path.exists(f) else ""
                if nm == "stdout": so += t
                else: se += t
        if rc != 0: se += se0[-400:]
        shutil.rmtree(od, ignore_errors=True)
    else:
        if cb.get("pin"): cmd = PIN + cmd          # the process restricted to one CPU (batch scheduler, container cpuset, taskset)
        rc, so, se = lib.sh(cmd, timeout=120)
    algo, says, actives = None, None, []
    for l in so.splitlines():
        if l.startswith("Using cores: "): says = l[len("Using cores: "):].strip()
        elif l.startswith("Using k="): pass
        elif l.startswith("Using "): algo = l[len("Using "):].strip()
    for l in se.splitlines():
        if HOOK_MARK in l:
            actives.append(l.split(HOOK_MARK, 1)[1].strip())
    return {"rc": rc, "algo": algo, "says": says, "actives": actives, "np": (cb["np"] or 1) if cb["prog"] == "mpi" else None, "stdout": so[-600:], "stderr": se[-600:], "cmd": " ".join(cmd)}


def demo_observed(ob):
    if ob.get("np") and len(ob["actives"]) not in (0, ob["np"]):
        return "ALGO %s SAYS %s ACTIVE COUNT:%d/%d" % (ob["algo"], ob["says"] if ob["says"] is not None else "-", len(ob["actives"]), ob["np"])
    act = ob["actives"][0] if ob["actives"] and all(a == ob["actives"][0] for a in ob["actives"]) else ("MISSING" if not ob["actives"] else "MIXED:" + ",".join(ob["actives"]))
    return "ALGO %s SAYS %s ACTIVE %s" % (ob["algo"], ob["says"] if ob["says"] is not None else "-", act)


def mpi_default(hexe, np_):
    """TBB's default as seen by a process started by the same mpiexec command line (binding may shrink the affinity mask)"""
    rc, so, se = lib.sh(MPIEXEC + ["-n", str(np_), hexe], inp="T 0\n", timeout=120)
    for l in so.splitlines():
        im = parse_impl(l)
        if im:
            return im["dflt"], im["bhw"]
    return None


def demo_predictions(combos, env):
    """{(kv,dv): [line per combo]} with the KNOB field removed (not observable); env[i] = (dflt, bhw) of combo i"""
    preds = {}
    for kv in "FO":
        for dv in "FO":
            lines = ["%s %s %s %d %d %s" % (kv, dv, cb["prog"], env[i][0], env[i][1], combo_model_fields(cb)[0]) for i, cb in enumerate(combos)]
            res = lib.run_model("c20demo", lines, group=GROUP) if lines else []
            outl = []
            for l in res:
                t = l.split()
                outl.append(" ".join(t[0:2] + t[4:]) if len(t) == 8 and t[2] == "KNOB" else l)
            preds[(kv, dv)] = outl
    return preds


def judge_demo(cb, ob, bhw):
    """property text: with a parallel algorithm selected, --cores n (n >= 1) must be the allowed parallelism at the algorithm call
    (hardware concurrency for 0 / not given).  The MPI demo has no --cores option: nothing to require."""
    if cb["prog"] == "mpi":
        return None
    if ob["rc"] != 0:
        return "demo exited with rc=%s: %s" % (ob["rc"], ob["stderr"][-200:])
    if ob["algo"] is None:
        return "no algorithm was selected/announced"
    if ob["algo"].endswith("_TBB"):
        want = bhw if (cb["cores"] is None or cb["cores"] == 0) else cb["cores"]
        if len(ob["actives"]) != 1 or ob["actives"][0] != str(want):
            return "parallel algorithm %s selected with effective cores %d, but TBB's allowed parallelism at the algorithm call is %s" % (ob["algo"], want, ob["actives"] or "not reported")
    return None


# --------------------------------------------------------------------------------------------------------------
def check(tier, seed):
    c = lib.Check(PID, tier, seed, THEOREMS)
    c.rule = ("part A: histories of <= 8 operations — pure call sequences (n in 1..64 biased to 1,2,3,hw-1,hw,hw+1,2hw,63,64), strictly decreasing runs followed by "
              "a larger value (a lingering minimum would show), repeated equal values, calls interleaved with up to 4 raw global_control objects "
              "(values up to 300), raw-only histories (oneTBB's min-rule itself), ~15% with a worker-thread count at the end; each in a fresh process; "
              "part B: demo option combinations parallel {unset,true,false} x cores {unset,0,1,2,3,7,hw,hw+4,64} x verbose x algorithm flags "
              "{signed, fvstrees, isotrees, contradictory} x printcycles x (approx: --k), MPI demo with stray --cores; distinct by md5; "
              "non-trivial = history with a knob call whose argument differs from the default / demo run selecting a parallel algorithm")
    known = {f["id"]: f for f in lib.known_findings(PID)}
    hits = {}          # finding id -> [count, example]
    def hit(fid, what):
        h = hits.setdefault(fid, [0, what]); h[0] += 1

    c.step_prove()
    with cf.ThreadPoolExecutor(max_workers=6) as ex:
        f_model = ex.submit(c.step_model, GROUP)
        f_h = ex.submit(lib.build_cpp, **HARNESS)
        srcdir, hookst, mode = demo_sources(c)
        have_mpi = hookst.get("mpi", False) and shutil.which("mpicxx") is not None and shutil.which("mpiexec") is not None
        f_demo = {p: ex.submit(build_demo, p, srcdir) for p in (["mcb", "approx"] + (["mpi"] if have_mpi else []))} if mode != "none" else {}
        ok = f_model.result()
        exe, err = f_h.result()
        demo_exe = {p: f.result() for p, f in f_demo.items()}
    if exe is None:
        c.violation("implementation harness c20 does not compile against the working tree",
                    {"theorem_or_correspondence": "harness build c20", "log": err, "kind": "impl-build"}, False)
    c.extra["hook_mode"] = mode

    dflt = bhw = None
    d4_open = None
    # ---------------- part A ----------------
    if ok and exe:
        probe = run_knob(exe, ["T 0"])[0]
        if probe["im"] is None:
            c.violation("harness c20 gives no default value: " + probe["raw"][:200], {"theorem_or_correspondence": "harness c20 probe", "impl": probe["raw"]}, False)
        else:
            dflt, bhw = probe["im"]["dflt"], probe["im"]["bhw"]
            c.extra["tbb_default_active_value"] = dflt; c.extra["boost_hardware_concurrency"] = bhw
    if ok and exe and dflt is not None:
        corpus = [l for l in lib.corpus_cases(PID) if l.startswith("T ")]
        cases = [D4_WITNESS] + [x for x in dict.fromkeys(corpus) if x != D4_WITNESS]
        modes = ["corpus"] * len(cases)
        nseq = 200 if tier == "quick" else 2000
        for _ in range(nseq):
            cs, m = gen_history(c.rng, dflt, 8)
            cases.append(cs); modes.append(m)
        c.extra["corpus_cases"] = len(corpus) + 1
        res = run_knob(exe, cases)
        nbad = 0; reported = {}
        for r, m in zip(res, modes):
            ops, w = parse_case(r["case"])
            nt = any(o[0] in ("S", "ST", "SK") and o[1] != dflt for o in ops)
            c.count(r["case"], nt, bucket="knob:" + m + ("+W" if w else ""))
            agree = r["im"] is not None and r["im"]["apart"] == r["fixed"]
            if r["why"] is None and agree:
                continue
            nbad += 1
            if r["why"] is not None and "D4" in known and matches_d4(r):
                hit("D4", "case '%s': %s" % (r["case"], r["why"][0]))
                continue
            key = (r["why"][1] if r["why"] else "corr")
            if reported.get(key, 0) >= 2:
                continue
            reported[key] = reported.get(key, 0) + 1
            rep = {"kind": "knob", "component": "c20", "case": r["case"], "impl": r["raw"], "model": r["fixed"], "model_as_found": r["orig"]}
            if r["why"] is not None and r["why"][1] == "property":
                small = shrink_knob(exe, r["case"], lambda q: q["why"] is not None and q["why"][1] == "property")
                rs = run_knob(exe, [small])[0]
                if rs["why"] is not None:
                    rep.update({"case": small, "impl": rs["raw"], "model": rs["fixed"], "model_as_found": rs["orig"], "unshrunk_case": r["case"]})
                    c.violation(rs["why"][0] + "  [history: %s]" % small, rep, True)
                else:
                    c.violation(r["why"][0] + "  [history: %s]" % r["case"], rep, True)
            elif r["why"] is not None and r["why"][1] == "tbb-rule":
                rep["theorem_or_correspondence"] = "trusted-base assumption of TbbControlModel.v: oneTBB's active value = minimum of the live controls (default if none)"
                c.violation("assumption no longer checks: " + r["why"][0] + "  [history: %s]" % r["case"], rep, False)
            else:
                rep["theorem_or_correspondence"] = "correspondence c20: extracted TbbControlModel.run_trace set_concurrency vs harness/c20.cpp"
                c.violation("correspondence c20 no longer checks (%s): impl '%s' model '%s'  [history: %s]" %
                            (r["why"][0] if r["why"] else "implementation answer still satisfies the property text", r["raw"][:150], r["fixed"], r["case"]), rep, False)
        c.extra["knob_disagreements_checked"] = nbad
        d4_open = res[0]["why"] is not None and matches_d4(res[0])
        c.extra["knob_behaves_as"] = "as found (set_concurrency_orig, D4)" if d4_open else ("fixed (set_concurrency)" if res[0]["why"] is None else "neither model")
        if "D4" in known and not d4_open and res[0]["why"] is None:
            c.notes.append("stale known finding D4: witness '%s' no longer fails (the knob keeps the limit); change its status to fixed" % D4_WITNESS)
            print("NOTE: property=C20 stale known finding D4: witness '%s' no longer fails" % D4_WITNESS)

    # ---------------- part B ----------------
    if ok and dflt is not None:
        if mode == "none":
            msg = ("part B (demos) skipped: hook h2 (PARMCB_VERIF active_parallelism line) is neither in %s/src nor obtainable from pending/c20-hook-demos.patch; "
                   "the demos' --cores handling (D5) is not observed in this run" % lib.REPO)
            c.notes.append(msg); print("NOTE: property=C20 " + msg)
            if "D5" in known:
                hit("D5", "not observable without hook h2; as-found option block refuted in the model (C20_demo_orig_refuted)")
        else:
            for p, (dexe, derr) in demo_exe.items():
                if dexe is None:
                    c.violation("demo %s does not compile from the working tree with -DPARMCB_VERIF" % DEMOS[p],
                                {"theorem_or_correspondence": "demo build " + DEMOS[p], "log": derr, "kind": "impl-build"}, False)
            tiny = os.path.join(lib.BUILD, "c20_tiny.gr")
            open(tiny, "w").write(TINY)
            combos = [combo_of_args(l.split()[1], l.split()[2:]) for l in [D5_WITNESS] + [x for x in lib.corpus_cases(PID) if x.startswith("DEMO ")]]
            combos += gen_combos(c.rng, tier, dflt, "mpi" in demo_exe)
            seen_txt = set()
            combos = [cb for cb in combos if not (combo_text(cb) in seen_txt or seen_txt.add(combo_text(cb)))]
            combos = [cb for cb in combos if demo_exe.get(cb["prog"], (None, None))[0]]
            with cf.ThreadPoolExecutor(max_workers=lib.NPROC) as ex:
                obs = list(ex.map(lambda cb: run_demo(demo_exe[cb["prog"]][0], cb, tiny), combos))
            mpienv = {}
            for n_ in sorted({cb["np"] or 1 for cb in combos if cb["prog"] == "mpi"}):
                mpienv[n_] = mpi_default(exe, n_)
                if mpienv[n_] is None:
                    c.notes.append("could not read TBB's default under mpiexec -n %d; MPI demo runs dropped" % n_)
            keep = [i for i, cb in enumerate(combos) if cb["prog"] != "mpi" or mpienv.get(cb["np"] or 1)]
            combos, obs = [combos[i] for i in keep], [obs[i] for i in keep]
            pinenv = pinned_default(exe) if any(cb.get("pin") for cb in combos) else None
            if pinenv is None and any(cb.get("pin") for cb in combos):
                c.notes.append("could not read TBB's default under %s; pinned demo runs dropped" % " ".join(PIN))
                keep = [i for i, cb in enumerate(combos) if not cb.get("pin")]
                combos, obs = [combos[i] for i in keep], [obs[i] for i in keep]
            c.extra["tbb_default_and_hardware_concurrency_pinned_to_one_cpu"] = pinenv
            env = [(mpienv[cb["np"] or 1] if cb["prog"] == "mpi" else pinenv if cb.get("pin") else (dflt, bhw)) for cb in combos]
            c.extra["tbb_default_under_mpiexec"] = {str(k): v for k, v in mpienv.items()}
            preds = demo_predictions(combos, env)
            reported = {}; nbad = 0; d5_witness_fails = None; d5_hit_direct = False
            for i, (cb, ob) in enumerate(zip(combos, obs)):
                txt = combo_text(cb)
                par = combo_model_fields(cb)[1]
                c.count(txt, par, bucket="demo:%s:%s" % (cb["prog"], "par" if par else "seq"))
                seen = demo_observed(ob)
                why = judge_demo(cb, ob, env[i][1])
                if i == 0:
                    d5_witness_fails = why is not None
                if why is None and seen == preds[("F", "F")][i]:
                    continue
                nbad += 1
                expl = None
                # the knob's version was decided in part A; only explanations consistent with it are admissible
                cands = ((("O", "F"), ["D4"]), (("O", "O"), ["D4", "D5"])) if d4_open else ((("F", "O"), ["D5"]),)
                for vers, ids in cands:
                    if seen == preds[vers][i] and all(x in known for x in ids) and ob["rc"] == 0:
                        expl = ids; break
                if expl:
                    for x in expl:
                        hit(x, "demo run '%s': %s" % (txt, why or ("observed '%s', repaired model '%s'" % (seen, preds[("F", "F")][i]))))
                        d5_hit_direct = d5_hit_direct or x == "D5"
                    continue
                key = "prop" if why else "corr"
                if reported.get(key, 0) >= 2:
                    continue
                reported[key] = reported.get(key, 0) + 1
                rep = {"kind": "demo", "component": "c20demo", "prog": cb["prog"], "args": combo_args(cb), "np": cb.get("np"), "pin": bool(cb.get("pin")), "cmd": ob["cmd"], "impl": seen,
                       "model": preds[("F", "F")][i], "stdout": ob["stdout"], "stderr": ob["stderr"]}
                if "MISSING" in seen and ob["algo"] is not None:
                    rep["theorem_or_correspondence"] = "hook h2: the PARMCB_VERIF line must be printed before the algorithm call"
                    c.violation("hook line '%s<v>' missing in demo run '%s' although the hook is in the sources" % (HOOK_MARK, txt), rep, False)
                elif why:
                    c.violation(why + "  [%s]" % txt, rep, True)
                else:
                    rep["theorem_or_correspondence"] = "correspondence c20demo: extracted demo_algo/demo_knob/demo_says/demo_run vs the built demo " + DEMOS[cb["prog"]]
                    c.violation("correspondence c20demo no longer checks: observed '%s', model '%s'  [%s]" % (seen, preds[("F", "F")][i], txt), rep, False)
            c.extra["demo_runs"] = len(combos); c.extra["demo_disagreements_checked"] = nbad
            if "D5" in known:
                if d5_witness_fails and not d5_hit_direct and d4_open and "D4" in known:
                    hit("D5", "demo run '%s' fails, but while D4 is open D5 cannot be told apart at run time (with the as-found knob function 'applied' and 'not applied' "
                              "both leave the default %d in force): the observation is consistent with demo_knob_orig" % (D5_WITNESS[5:], dflt))
                elif d5_witness_fails is False:
                    c.notes.append("stale known finding D5: witness '%s' no longer fails; change its status to fixed" % D5_WITNESS)
                    print("NOTE: property=C20 stale known finding D5: witness '%s' no longer fails" % D5_WITNESS)
    for fid, (n, what) in sorted(hits.items()):
        c.known(known[fid], "%s %s (%d failing run(s) match the as-found model; first: %s)" % (fid, known[fid].get("signature", ""), n, what))
    return c.finish(
        assumptions=["oneTBB semantics assumed in the model (not proved): active_value(max_allowed_parallelism) = minimum over the live global_control objects, the runtime default if none, "
                     "not clamped by the hardware (oneTBB 2021.8 caps the reported value at 257 once its scheduler has started; all reads of this check happen before any parallel work and "
                     "the generated knob arguments are <= 128); constructing a control with value 0 aborts.  Exercised against the installed libtbb by the raw create/destroy histories of this run.",
                     "one thread at a time calls set_global_tbb_concurrency (the repaired function keeps its control in an unsynchronised function-local static)",
                     "boost::program_options: vm.count(\"cores\") is 1 because the option has a default_value (model field o_cores_count = true)",
                     "TBB_VERSION_MAJOR > 2020 branch of util.hpp (installed oneTBB); the task_scheduler_init branch for older TBB is not compiled here",
                     "active_value is the observed quantity; the number of threads actually running a parallel_for is only checked as an upper bound in fresh processes"],
        trusted_extra=["harness/c20.cpp (fork per history, real libtbb), the demos built by this check with harness/cfg/parmcb/config.hpp, Open MPI's mpiexec for the MPI demo"],
        explanation="C20/C20_every_call/C20_env/C20_mixed are proved for all histories over the model; C20_demo for all option records.  This run compares the model with the "
                    "real function on generated histories (active value after every operation) and with the built demos on option combinations, and decides by behaviour "
                    "whether the tree is in the as-found (D4/D5) or the repaired state.")


def replay(path):
    r = json.load(open(path))
    lib.ensure_model(GROUP)
    if r.get("kind") == "demo":
        class _N:  # minimal stand-in for the notes list
            notes = []
        srcdir, st, mode = demo_sources(_N)
        if mode == "none":
            print("hook not available; cannot replay demo run"); return 1
        dexe, derr = build_demo(r["prog"], srcdir)
        hexe, _ = lib.build_cpp(**HARNESS)
        if dexe is None or hexe is None:
            print("build failed:", derr); print("VIOLATION property=%s replay=%s" % (PID, path)); return 1
        im = run_knob(hexe, ["T 0"])[0]["im"]
        tiny = os.path.join(lib.BUILD, "c20_tiny.gr"); open(tiny, "w").write(TINY)
        cb = combo_of_args(r["prog"], r["args"]); cb["np"] = r.get("np"); cb["pin"] = bool(r.get("pin"))
        ob = run_demo(dexe, cb, tiny)
        env = mpi_default(hexe, cb["np"] or 1) if cb["prog"] == "mpi" else pinned_default(hexe) if cb["pin"] else (im["dflt"], im["bhw"])
        seen = demo_observed(ob); pred = demo_predictions([cb], [env])[("F", "F")][0]
        why = judge_demo(cb, ob, env[1])
        print("cmd  :", ob["cmd"]); print("model:", pred); print("impl :", seen); print("judge:", why)
        if why or seen != pred:
            print("VIOLATION property=%s replay=%s" % (PID, path)); return 1
        return 0
    exe, err = lib.build_cpp(**HARNESS)
    if exe is None:
        print("harness build failed:", err); print("VIOLATION property=%s replay=%s" % (PID, path)); return 1
    q = run_knob(exe, [r["case"]])[0]
    print("case :", r["case"]); print("model:", q["fixed"]); print("impl :", q["raw"]); print("judge:", q["why"])
    if q["why"] or q["im"] is None or q["im"]["apart"] != q["fixed"]:
        print("VIOLATION property=%s replay=%s" % (PID, path)); return 1
    return 0
