"""C16 — ForestIndex is a bijection that numbers non-forest edges first.
Theorems: Properties_C16.v (for every simple graph and every root order).  Tie: ForestIndex / spanning_forest on the
real code vs the extracted model driven by the root order recovered from the implementation's emission order."""
import json, os
import lib, gen

PID = "C16"
THEOREMS = ["Properties_C16.v"]
KEYS = ["K", "CSD", "IDX", "REV", "ONF", "COPY", "K2", "EMIT", "ROOTS"]


def judge(case, impl):
    """property text checked directly on the implementation's answer"""
    t = case.split(); n, es, _ = lib.parse_graph_tokens(t)
    m = len(es)
    if impl.startswith(("IMPL-EXCEPTION", "CRASH")): return "ForestIndex failed: " + impl[:200]
    f = lib.fields(impl, KEYS)
    try:
        k, csd = int(f["K"][0]), int(f["CSD"][0]); idx = list(map(int, f["IDX"])); rev = list(map(int, f["REV"])); onf = list(map(int, f["ONF"]))
    except Exception as ex:
        return "unparsable answer %r" % impl[:200]
    if sorted(idx) != list(range(m)): return "edge->index is not a bijection onto 0..m-1: %s" % idx
    if any(rev[idx[e]] != e for e in range(m)): return "index->edge is not the inverse of edge->index"
    kc = gen.components(n, es)
    if k != kc: return "reports %d components, graph has %d" % (k, kc)
    if csd != m - n + kc: return "cycle space dimension %d != m-n+c = %d" % (csd, m - n + kc)
    if any((idx[e] >= csd) != bool(onf[e]) for e in range(m)): return "is_on_forest disagrees with index >= dimension"
    forest = [es[e] for e in range(m) if onf[e]]
    par = list(range(n))
    def find(x):
        while par[x] != x: par[x] = par[par[x]]; x = par[x]
        return x
    for (u, v, _) in forest:
        a, b = find(u), find(v)
        if a == b: return "on-forest edges contain a cycle"
        par[a] = b
    if len({find(x) for x in range(n)}) != kc: return "on-forest edges do not connect every component"
    if f.get("COPY", ["1"])[0] != "1": return "copy-constructed / assigned ForestIndex differs from the original"
    return None


def check(tier, seed):
    c = lib.Check(PID, tier, seed, THEOREMS)
    c.rule = ("simple graphs from structured families (empty, edgeless, forests, K_n, K_ab, grids, hypercubes, wheels, theta, unions, pendant trees, "
              "isolated vertices) and random graphs, n <= %d, random relabelling/edge order; distinct by md5; non-trivial = at least one edge and "
              "(>= 2 components or >= 1 cycle)") % (20 if tier == "quick" else 60)
    c.step_prove()
    ok = c.step_model()
    exe = c.harness(name="c16", srcs=["c16.cpp"])
    if ok and exe:
        cases = lib.corpus_cases(PID)
        c.extra["corpus_cases"] = len(cases)
        N = 2000 if tier == "quick" else 20000
        for _ in range(N):
            g = gen.structural(c.rng, 20 if tier == "quick" else 60)
            cases.append(gen.graph_tokens(g))
        if tier == "thorough":
            for n in range(0, 6):
                for g in gen.all_graphs(n): cases.append(gen.graph_tokens(g))
        io = lib.run_lines([exe], cases)
        # a long history of ForestIndex constructions by ONE thread of ONE process (state surviving between calls; gen.history_plan)
        import random
        nshort, nh = len(cases), (70000 if tier == "quick" else 140000)
        hist = [gen.graph_tokens(g) for g in gen.history_graphs(random.Random(seed * 7919 + 16), nh)]
        c.extra["long_history_calls"] = nh
        cases, io = cases + hist, io + lib.run_lines([exe], hist, par=1)
        mcases = []
        for cs, o in zip(cases, io):
            f = lib.fields(o, KEYS)
            roots = f.get("ROOTS", [])
            mcases.append("%s %d %s" % (cs, len(roots), " ".join(roots)))
        mo = lib.run_model("c16", mcases)
        bad = []
        for i, cs in enumerate(cases):
            n, es, _ = lib.parse_graph_tokens(cs.split())
            kc = gen.components(n, es)
            c.count(cs, len(es) >= 1 and (kc >= 2 or len(es) - n + kc >= 1), bucket="n<=8" if n <= 8 else "n>8")
            impl_cmp = io[i].split(" ROOTS")[0]
            if impl_cmp != mo[i]: bad.append(i)
        c.extra["disagreements_checked"] = len(bad)
        rep = {}
        for i in sorted(bad, key=lambda j: len(cases[j])):
            why = judge(cases[i], io[i])
            key = why is not None
            if rep.get(key, 0) >= 2: continue
            rep[key] = rep.get(key, 0) + 1
            hd = {"history": {"seed": seed, "ncalls": nh, "index": i - nshort}} if i >= nshort else {}
            if why:
                c.violation("ForestIndex: " + why + (" (call %d of a single-thread history of constructions)" % (i - nshort + 1) if hd else ""),
                            dict({"component": "c16", "case": cases[i], "impl": io[i], "model": mo[i], "model_case": mcases[i]}, **hd), True)
            else:
                c.violation("correspondence c16 (ForestIndex/spanning_forest vs model under the recovered root order) no longer checks; the implementation's answer still satisfies the property text",
                            {"component": "c16", "theorem_or_correspondence": "correspondence c16: extracted create_index/spanning_forest vs harness/c16.cpp",
                             "case": cases[i], "impl": io[i], "model": mo[i], "model_case": mcases[i], **hd}, False)
        # independent of the model: judge every implementation answer (cheap)
        badset = set(bad)
        extra = [i for i in range(nshort) if i not in badset and judge(cases[i], io[i])]
        for i in extra[:2]:
            c.violation("ForestIndex: " + judge(cases[i], io[i]), {"component": "c16", "case": cases[i], "impl": io[i]}, True)
        lib.config_differential(c, "c16", ["c16.cpp"], cases[:nshort], io[:nshort], judge=judge)
        # graphs beyond the range of narrow index types (n > 2^8, n > 2^16): judged against the property text only
        bigs = [gen.graph_tokens(g) for g in gen.big_graphs(c.rng)]
        bio = lib.run_lines([exe], bigs, par=1, timeout=600)
        c.extra["big_graphs"] = [int(b.split()[0]) for b in bigs]
        for b, o in zip(bigs, bio):
            c.count(b[:200], True, bucket="big")
            why = judge(b, o)
            if why:
                c.violation("ForestIndex on a graph with %s vertices: %s" % (b.split()[0], why[:300]), {"component": "c16", "case": b, "impl": o[:2000], "judge_only": True}, True)
    return c.finish(
        assumptions=["boost::edges / out_edges of adjacency_list<vecS,vecS,undirectedS> iterate in insertion order",
                     "the BFS root order (iteration order of std::unordered_set) is recovered from the emission order of detail::spanning_forest"],
        explanation="Theorem C16 covers every simple graph and every root order; this run compares component count, dimension, both lookups, "
                    "is_on_forest and the emitted forest edges exactly, and additionally judges each implementation answer against the property text.")


def replay(path):
    r = json.load(open(path))
    lib.ensure_model()
    exe, err = lib.build_cpp(name="c16", srcs=["c16.cpp"])
    line = r["case"]
    if "history" in r:       # the failure needs the calls made before it by the same thread: regenerate the stream and run its prefix
        import random
        h = r["history"]
        hist = [gen.graph_tokens(g) for g in gen.history_graphs(random.Random(h["seed"] * 7919 + 16), h["ncalls"])][:h["index"] + 1]
        assert hist[-1] == line, "history stream not reproducible"
        i = lib.run_lines([exe], hist, par=1)[-1]
    else:
        i = lib.run_lines([exe], [line], par=1)[0]
    roots = lib.fields(i, KEYS).get("ROOTS", [])
    if r.get("judge_only"): m = None
    else: m = lib.run_model("c16", ["%s %d %s" % (line, len(roots), " ".join(roots))], par=1)[0]
    why = judge(line, i)
    print("case :", line[:2000]); print("model:", (m or "-")[:2000]); print("impl :", i[:2000]); print("judge:", why)
    if why or (m is not None and m != i.split(" ROOTS")[0]):
        print("VIOLATION property=%s replay=%s" % (PID, path)); return 1
    return 0
