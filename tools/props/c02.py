"""C02 — the exact algorithms return a minimum-weight cycle basis and its weight.
Theorems: Properties_C02.v.  Tie: exact comparison of mcb_sva_signed / bidirectional_signed_dijkstra with the extracted
SignedModel under the recovered oracles; every answer of the three entry points judged by the verified checker and by
the independent Python oracle."""
import lib, exact_common

PID = "C02"
THEOREMS = ["Properties_C02.v", "Properties_C02_trees.v", "Properties_C01_trees_exact.v", "Properties_Ref.v", "Properties_Ref2.v"]


def check(tier, seed):
    c = lib.Check(PID, tier, seed, THEOREMS)
    c.rule = ("(entry point in {signed, fvs_trees, iso_trees}) x (double|int weights) x graph from structured families (forests, K_n, K_ab, grids, hypercubes, "
              "wheels, theta, lollipops, figure-eights, unions, pendant trees, isolated vertices) and random graphs, weights unit/ties/wide/pow2; plus direct "
              "bidirectional_signed_dijkstra calls; distinct by md5; non-trivial = cycle space dimension >= 2 (algorithm runs) or a found path (search calls)")
    c.step_prove()
    exact_common.run(c, tier, "weight")
    return c.finish(
        assumptions=["BFS root order and pointer order of edge descriptors are recovered from the run and fed to the model as oracles",
                     "boost::d_ary_heap_indirect<.,4,.> behaves as HeapModel.v (exact tie-breaking); std::set<Edge> iterates in pointer order",
                     "double weights are integer multiples of a power of two, sums below 2^53 (exact domain)"],
        explanation="The theorems hold for every simple graph with positive weights and every oracle value; this run ties the models to the code "
                    "(exact cycle-by-cycle agreement for the signed variant and for direct search calls) and judges every emitted family: "
                    "returned value = sum of emitted cycle weights = the minimum over all cycle bases; sorted cycle weights equal those of a minimum basis.")


def replay(path):
    return exact_common.replay_case(PID, path, "weight")
