"""C08 — the reported optimum depends only on the weighted graph.
Theorems: Properties_C08.v (facts about the SPECIFICATION `is_opt g w x` = weight of any minimum cycle basis: uniqueness,
scaling, isolated vertices, renumbering, edge order, pendant trees, bridges, disjoint union, subdivision; agreement of any two
runs of the support-vector loop whose searches are minimum searches, and transport of every relation to returned values).  Tie / search: metamorphic differential runs on the IMPLEMENTATION.  harness/c08.cpp runs every exact
entry point that needs no MPI (mcb_sva_signed, mcb_sva_fvs_trees, mcb_sva_iso_trees and their *_tbb variants on the real TBB scheduler;
double and int weights) on a base graph g and on transformed copies; the relations
    opt(g') = sum_i coef_i * opt(g_i)
(renumbering, edge order/orientation, isolated vertices, pendant trees, bridges, disjoint union, subdivision, scaling by 2^j, and random
compositions) must hold EXACTLY for every entry point, and all entry points / weight types must agree on every single graph.  No oracle
is needed, so the graphs go far beyond brute force (thorough: n up to 300, cycle-space dimension in the hundreds); graphs with n <= 20 are
additionally compared with the verified optimum (`optw`, extracted from RefModel.v) and the independent Python oracle.

A relation case (corpus line, replay) is self-contained:
    C <nb> (<coef_i> <graph_i>)*nb <graph'>          graph = n m (u v w)*m ;  claim: opt(graph') = sum coef_i * opt(graph_i)
(nb = 0: only the agreement of all entry points on graph').
Weight types: double, int and long long (M L: 64-bit integers).  Families of graphs whose weights lie ABOVE 2^53 (props/c12.py weigh64: sums that are not doubles,
distinct weights that collide as doubles, (m+4)*sum(w) < 2^63) are run with long long weights only (a graph whose weights sum to 2^50 or more is never given to the
double instantiation); graphs of the ordinary families are sometimes run with long long weights as well.  Python integers throughout: no float on the way."""
import json, os, random
import lib, gen, mcb_oracle as O

PID = "C08"
THEOREMS = ["Properties_C08.v", "Properties_C08_variants.v"]
LIBS = ["-ltbb", "-lboost_timer"]
ALGS = ["signed", "fvs", "iso", "signed_tbb", "fvs_tbb", "iso_tbb"]
INT_LIMIT = 2 ** 31 - 1
DBL_SUM_LIMIT = 2 ** 50          # graphs whose weights sum to this or more are outside the exact domain of the double instantiation: long long only


def is64(g):
    return sum(w for _, _, w in g[1]) >= DBL_SUM_LIMIT


def long_ok(g):
    from props import c12
    return c12.long_domain_ok(g)


# ---------------------------------------------------------------------------------------------------------------------
# transformations: each maps (rng, graph) -> (graph', multiplier) ; graph = (n, [(u, v, w)])
# ---------------------------------------------------------------------------------------------------------------------
def t_relabel(rng, g):
    n, es = g
    perm = list(range(n)); rng.shuffle(perm)
    return (n, [(perm[u], perm[v], w) for (u, v, w) in es]), 1


def t_edge_order(rng, g):
    n, es = g
    es = [(v, u, w) if rng.random() < 0.5 else (u, v, w) for (u, v, w) in es]
    r = rng.random()
    if r < 0.6: rng.shuffle(es)
    elif r < 0.8: es.reverse()
    else: es.sort(key=lambda e: (e[2], min(e[0], e[1]), max(e[0], e[1])))
    return (n, es), 1


def t_isolated(rng, g):
    n, es = g
    k = rng.choice([1, 1, 2, 3, 7])
    g2 = (n + k, list(es))
    if rng.random() < 0.5: g2, _ = t_relabel(rng, g2)          # isolated vertices anywhere in the numbering
    return g2, 1


def _wlike(rng, es):
    return rng.choice([w for _, _, w in es]) if es and rng.random() < 0.7 else rng.randint(1, 9)


def t_pendant(rng, g):
    n, es = g; es = list(es)
    k = rng.choice([1, 1, 2, 4, 9])
    if n == 0: n = 1
    for _ in range(k):
        e = (rng.randrange(n), n, _wlike(rng, es)) if rng.random() < 0.5 else (n, rng.randrange(n), _wlike(rng, es))
        es.insert(rng.randint(0, len(es)), e); n += 1
    return (n, es), 1


def _comp_ids(n, es):
    par = list(range(n))
    def find(x):
        while par[x] != x: par[x] = par[par[x]]; x = par[x]
        return x
    for e in es:
        a, b = find(e[0]), find(e[1])
        if a != b: par[a] = b
    return [find(x) for x in range(n)]


def t_bridge(rng, g):
    """join two different components by one edge (None if connected)"""
    n, es = g
    cid = _comp_ids(n, es)
    if len(set(cid)) < 2: return None
    es = list(es)
    for _ in range(rng.choice([1, 1, 2])):
        cid = _comp_ids(n, es)
        if len(set(cid)) < 2: break
        u = rng.randrange(n)
        vs = [v for v in range(n) if cid[v] != cid[u]]
        v = rng.choice(vs)
        e = (u, v, _wlike(rng, es)) if rng.random() < 0.5 else (v, u, _wlike(rng, es))
        es.insert(rng.randint(0, len(es)), e)
    return (n, es), 1


def t_subdivide(rng, g):
    """replace some edges u-v of weight w by u-x, x-v with weights a + b = w (weights stay positive integers: scale by 2 first if needed)"""
    n, es = g
    if not es: return None
    mult = 1
    if rng.random() < 0.3 or not any(w >= 2 for _, _, w in es):
        es = [(u, v, 2 * w) for (u, v, w) in es]; mult = 2
    else:
        es = list(es)
    k = rng.choice([1, 1, 2, 3, max(1, len(es) // 3)])
    for _ in range(k):
        cand = [i for i, e in enumerate(es) if e[2] >= 2]
        if not cand: break
        i = rng.choice(cand); (u, v, w) = es[i]
        a = rng.choice([1, w - 1, w // 2, rng.randint(1, w - 1)]); x = n; n += 1
        first, second = ((u, x, a), (x, v, w - a)) if rng.random() < 0.5 else ((x, u, a), (v, x, w - a))
        if rng.random() < 0.5:
            es[i] = first; es.insert(rng.randint(0, len(es)), second)
        else:
            es[i] = second; es.append(first)
    return (n, es), mult


def t_scale(rng, g):
    n, es = g
    j = rng.choice([1, 1, 2, 3, 5, 8])
    return (n, [(u, v, w << j) for (u, v, w) in es]), 1 << j


def union(g, h):
    return gen.disjoint_union(g, h)


UNARY = [("relabel", t_relabel), ("edge-order", t_edge_order), ("isolated", t_isolated), ("pendant", t_pendant), ("bridge", t_bridge),
         ("subdivide", t_subdivide), ("scale", t_scale)]


# ---------------------------------------------------------------------------------------------------------------------
# generation
# ---------------------------------------------------------------------------------------------------------------------
def big_graph(rng, n):
    """sparse/medium graphs with many vertices (cycle-space dimension up to several hundred)"""
    r = rng.random()
    if r < 0.45: g = gen.random_graph(rng, n, rng.choice([2.5, 3.0, 4.0, 6.0]) / max(1, n - 1))
    elif r < 0.6:
        a = rng.randint(3, max(3, int(n ** 0.5))); g = gen.grid(a, max(2, n // a))
    elif r < 0.7:
        g = gen.hypercube(max(3, min(7, n.bit_length() - 1)))
    elif r < 0.85:   # several blocks joined into a few components
        k = rng.randint(2, 5); g = (0, [])
        for _ in range(k): g = union(g, gen.random_graph(rng, max(3, n // k), rng.choice([2.0, 3.0, 4.0]) / max(2, n // k)))
    else:            # cycle with chords (many long ties)
        n2 = max(4, n); es = list(gen.cycle(n2)[1]); seen = {(min(u, v), max(u, v)) for u, v, _ in es}
        for _ in range(rng.randint(n2 // 4, n2)):
            u, v = rng.randrange(n2), rng.randrange(n2)
            if u != v and (min(u, v), max(u, v)) not in seen: seen.add((min(u, v), max(u, v))); es.append((u, v, 1))
        g = (n2, es)
    return g


def base_graph(rng, maxn, big, w64=False):
    if w64:
        from props import c12
        r = rng.random()
        g = gen.structural(rng, maxn) if r < 0.6 else gen.random_graph(rng, rng.randint(5, maxn), rng.choice([0.3, 0.5, 0.7])) if r < 0.85 else gen.complete(rng.randint(4, 7))
        return c12.weigh64(rng, g)
    if big:
        n = rng.randint(*maxn) if isinstance(maxn, tuple) else rng.randint(max(8, maxn // 4), maxn)
        g = big_graph(rng, n)
        g, style = gen.weigh(rng, g, rng.choice(["unit", "ties", "ties", "wide"]))
    else:
        g = gen.structural(rng, maxn)
        g, style = gen.weigh(rng, g)
    return g, style


def derive(rng, bases, bi, nchain):
    """one derived case from base bi: (name, coefs {base index: coef}, graph)"""
    g = bases[bi]; coefs = {bi: 1}; names = []
    for _ in range(nchain):
        r = rng.random()
        if r < 0.14 and len(bases) > 1:
            bj = rng.randrange(len(bases))
            h = bases[bj]
            if g[0] + h[0] > 700: continue
            if is64(g) and not long_ok(union(g, h)): continue
            g = union(g, h) if rng.random() < 0.5 else union(h, g)
            coefs[bj] = coefs.get(bj, 0) + 1; names.append("union")
            if rng.random() < 0.4:
                res = t_bridge(rng, g)
                if res: g = res[0]; names.append("bridge")
            continue
        name, f = rng.choice(UNARY)
        res = f(rng, g)
        if res is None: continue
        g2, mult = res
        if (not long_ok(g2)) if is64(g) else (sum(w for _, _, w in g2[1]) >= DBL_SUM_LIMIT): continue      # stay inside the exact domain of the weight type
        g = g2; names.append(name)
        if mult != 1: coefs = {k: v * mult for k, v in coefs.items()}
    if not names: return None
    return "+".join(names), coefs, g


def harness_lines(rng, g, want_all=True):
    """the runs made on one graph: double weights (unit scale), sometimes int weights, sometimes doubles scaled by a power of two"""
    gt = gen.graph_tokens(g)
    if is64(g): return ["M L 0 all " + gt]                 # 64-bit weights: the long long instantiation only (no rng draw: the other streams are unchanged)
    tot = sum(w for _, _, w in g[1])
    lines = ["M D 0 all " + gt]
    if (len(gt) + tot) % 6 == 0: lines.append("M L 0 all " + gt)      # the long long instantiation on ordinary weights, every sixth graph or so
    if gen.int_domain_ok(g) and rng.random() < 0.5: lines.append("M I 0 all " + gt)
    if rng.random() < 0.3: lines.append("M D %d all %s" % (rng.choice([-3, -20, 5, 30, -60, -200, -300, 100, 300]), gt))   # all exact: powers of two, no over/underflow
    return lines


def parse_out(o):
    """{alg: ret} ; raises on anything else"""
    t = o.split(); res = {}
    if len(t) % 7 != 0 or not t: raise ValueError(o[:200])
    for i in range(0, len(t), 7):
        if t[i + 1] != "RET" or t[i + 3] != "N" or t[i + 5] != "SUM": raise ValueError(o[:200])
        res[t[i]] = (t[i + 2], int(t[i + 4]), t[i + 6])
    return res


def graph_values(lines, outs):
    """all (label, value) pairs of the runs on one graph + a problem description or None"""
    vals = []; problem = None
    for l, o in zip(lines, outs):
        ty = l.split()[1] + ("" if l.split()[2] == "0" else "s" + l.split()[2])
        try:
            r = parse_out(o)
        except Exception:
            problem = problem or "an entry point did not return on a valid input (%s weights): %s" % (ty, o[:200]); continue
        for a, (ret, ncyc, s) in r.items():
            try: v = int(ret)
            except ValueError:
                problem = problem or "%s (%s weights) returned %s, not an exact multiple of the weight unit" % (a, ty, ret); continue
            vals.append(("%s/%s" % (a, ty), v, ncyc))
    return vals, problem


def relation_line(coefs, bases, g):
    ks = sorted(coefs)
    return "C %d %s %s" % (len(ks), " ".join("%d %s" % (coefs[k], gen.graph_tokens(bases[k])) for k in ks), gen.graph_tokens(g))


def parse_relation_line(line):
    t = line.split(); assert t[0] == "C"
    nb = int(t[1]); pos = 2; bases = []; coefs = {}
    for i in range(nb):
        coefs[i] = int(t[pos]); n, es, pos = lib.parse_graph_tokens(t, pos + 1); bases.append((n, es))
    n, es, pos = lib.parse_graph_tokens(t, pos)
    return coefs, bases, (n, es)


def size_bucket(g):
    n, es = g; N = len(es) - n + gen.components(n, es)
    nb = "n<=12" if n <= 12 else "n<=30" if n <= 30 else "n<=100" if n <= 100 else "n<=300" if n <= 300 else "n>300"
    db = "N0" if N == 0 else "N1-5" if N <= 5 else "N6-30" if N <= 30 else "N31-100" if N <= 100 else "N101-300" if N <= 300 else "N>300"
    return nb + " " + db, N


# ---------------------------------------------------------------------------------------------------------------------
def evaluate(c, exe, groups, refok, tier, count=True):
    """groups: list of (name, coefs, bases(list of graphs), graph').  Runs everything, records violations."""
    rng = c.rng
    # distinct graphs -> harness lines
    gkey = {}; glines = []; graphs = []
    def gid(g):
        k = gen.graph_tokens(g)
        if k not in gkey:
            gkey[k] = len(graphs); graphs.append(g); glines.append(harness_lines(rng, g))
        return gkey[k]
    rel = []
    for (name, coefs, bases, g) in groups:
        gco = {}
        for k, v in (coefs or {}).items():          # two base graphs may be IDENTICAL (same id): their coefficients add up
            gco[gid(bases[k])] = gco.get(gid(bases[k]), 0) + v
        rel.append((name, gco, gid(g), coefs, bases, g))
    flat = [l for ls in glines for l in ls]
    # load balance: lib.run_lines cuts the list into `par` contiguous chunks, so deal the cases (longest first) round-robin
    par = lib.NPROC * 2 if len(flat) > 64 else lib.NPROC
    by_len = sorted(range(len(flat)), key=lambda i: -len(flat[i]))
    nch = par if len(flat) >= 2 * par else 1
    cols = [by_len[c::nch] for c in range(nch)]
    order = []
    for col in cols: order += col
    # (chunk c of run_lines then holds, almost exactly, column c)
    outs_sorted = lib.run_lines([exe], [flat[i] for i in order], timeout=3000, par=par)
    outs = [None] * len(flat)
    for i, o in zip(order, outs_sorted): outs[i] = o
    pos = 0; gv = []
    for ls in glines:
        gv.append(graph_values(ls, outs[pos:pos + len(ls)])); pos += len(ls)
    nrep = {}
    def report(kind, what, rep, found=True):
        if nrep.get(kind, 0) >= 3: return
        nrep[kind] = nrep.get(kind, 0) + 1
        c.violation(what, rep, found)
    # ---- (1) all entry points and weight types agree on every single graph ------------------------------------------
    agreed = {}
    for i, g in enumerate(graphs):
        vals, problem = gv[i]
        line0 = "C 0 " + gen.graph_tokens(g)
        if problem:
            report("crash", problem, {"component": "c08", "case": line0, "runs": glines[i]}); continue
        vs = sorted({v for _, v, _ in vals})
        if len(vs) != 1:
            by = {}
            for a, v, _ in vals: by.setdefault(v, []).append(a)
            extra = ""
            if g[0] <= 20 and len(g[1]) <= 60: extra = "; independent oracle says %d" % O.mcb(g[0], g[1])[0]
            report("variants", "exact entry points return different values on the same weighted graph: %s%s" %
                   ("; ".join("%d by %s" % (v, ",".join(by[v])) for v in vs), extra),
                   {"component": "c08", "case": line0, "runs": glines[i], "values": {a: v for a, v, _ in vals}, "relation": "all exact variants agree"})
            continue
        agreed[i] = vs[0]
    # ---- (2) the metamorphic relations, per entry point -------------------------------------------------------------
    for (name, gcoefs, gi, coefs, bases, g) in rel:
        bucket, N = size_bucket(g)
        if count: c.count(relation_line(coefs, bases, g) if coefs else "C 0 " + gen.graph_tokens(g), N >= 2, bucket="%s | %s" % (name.split("+")[0] if "+" not in name else "composite", bucket))
        if not gcoefs: continue
        if gv[gi][1] or any(gv[b][1] for b in gcoefs): continue
        dv = {a: v for a, v, _ in gv[gi][0]}
        bvs = {b: {a: v for a, v, _ in gv[b][0]} for b in gcoefs}
        for a, v in sorted(dv.items()):
            alg = a.split("/")[0]
            # compare with the same entry point on the bases (same weight type if it was run, else double weights)
            exp = 0; used = {}
            for b, cf in gcoefs.items():
                key = a if a in bvs[b] else alg + "/D"
                if key not in bvs[b]: exp = None; break
                exp += cf * bvs[b][key]; used[b] = bvs[b][key]
            if exp is None or exp == v: continue
            report("relation", "relation %s violated by %s: opt(g') = %d but sum coef*opt(base) = %d (coefs %s, base values %s)" %
                   (name, a, v, exp, sorted(gcoefs.values()), sorted(used.values())),
                   {"component": "c08", "case": relation_line(coefs, bases, g), "relation": name, "entry_point": a, "value_transformed": v,
                    "expected": exp, "base_values": sorted(used.values())})
            break
    # ---- (3) third opinions on small graphs: verified optimum + independent oracle ----------------------------------
    small = [i for i, g in enumerate(graphs) if i in agreed and g[0] <= 20 and len(g[1]) <= 45]
    cap = 500 if tier == "quick" else 4000
    small = small[:cap]
    c.extra["oracle_compared_graphs"] = c.extra.get("oracle_compared_graphs", 0) + len(small)
    ro = None
    if refok and small:
        rl = ["%s %d %s" % (gen.graph_tokens(graphs[i]), graphs[i][0], " ".join(map(str, range(graphs[i][0])))) for i in small]
        ro = lib.run_model("optw", rl, group="ref", timeout=1500)
    for k, i in enumerate(small):
        g = graphs[i]; line0 = "C 0 " + gen.graph_tokens(g)
        po = O.mcb(g[0], g[1])[0]
        if po != agreed[i]:
            report("oracle", "all entry points return %d but the minimum over all cycle bases is %d (independent oracle)" % (agreed[i], po),
                   {"component": "c08", "case": line0, "runs": glines[i], "oracle": po})
        if ro is not None:
            f = lib.fields(ro[k], ["OPT", "DIM"])
            if not ro[k].startswith("OPT") or not f.get("OPT"):
                report("ref-fail", "verified reference optimum `optw` failed to run: " + ro[k][:200],
                       {"component": "c08", "case": line0, "theorem_or_correspondence": "extracted RefModel.opt_weight (build/model_ref optw)", "ref": ro[k]}, False)
            elif int(f["OPT"][0]) != agreed[i]:
                if po == agreed[i]:
                    report("ref-fail", "verified reference optimum `optw` = %s differs from the implementation and the independent oracle (%d)" % (f["OPT"][0], po),
                           {"component": "c08", "case": line0, "theorem_or_correspondence": "extracted RefModel.opt_weight (build/model_ref optw)", "ref": ro[k]}, False)
                else:
                    report("ref", "all entry points return %d but the verified optimum is %s" % (agreed[i], f["OPT"][0]),
                           {"component": "c08", "case": line0, "runs": glines[i], "ref": ro[k]})
    c.extra["graphs_run"] = c.extra.get("graphs_run", 0) + len(graphs)
    c.extra["entry_point_runs"] = c.extra.get("entry_point_runs", 0) + sum(len(v[0]) for v in gv)


def mpi_backend(c, exe, groups, tier):
    """'identical across all exact variants and backends': the five MPI entry points (harness/mpi/c04.cpp under the real mpiexec; every run there is followed by a
    second call on a reversed-rank communicator) on a sample of the base and transformed graphs of this run, with process counts chosen so that ranks run out of
    work, slices are uneven and several signed edges / vertices fall into one slice (P = 2, 4 and 5; thorough also 3, 6, 7).  Rank 0's returned value must equal what the
    sequential signed entry point returns on the same graph (C04 ties the MPI variants to their models; this stream is the cross-backend clause of C08)."""
    if os.environ.get("VERIF_SANITIZE") and not os.environ.get("VERIF_SANITIZE_MPI"):
        return
    import shutil
    from props import c04
    if not shutil.which(c04.MPIEXEC[0]):
        c.notes.append("mpiexec not found: the MPI backend is not run by C08 (C04 would report it)"); return
    mexe = c.harness(**c04.HARNESS)
    if not mexe: return
    rng = random.Random(c.seed * 7919 + 4408)          # own stream: the other generators of this check are not disturbed
    seen = set(); pool = []
    for (name, coefs, bases, g) in groups:
        k = gen.graph_tokens(g)
        if k in seen or not g[1] or is64(g): continue
        seen.add(k)
        if g[0] <= 40 and len(g[1]) <= 90: pool.append((name, g))
    rng.shuffle(pool)
    dense = [x for x in pool if len(x[1][1]) >= 2 * x[1][0]]           # phases with at least |V| signed edges need dense graphs
    want = 90 if tier == "quick" else 500
    pick = (dense[:want // 3] + [x for x in pool if x not in dense[:want // 3]])[:want]
    # a few complete graphs with distinct weights on 7..9 vertices: every (P, n) combination of the vertex-slice branch incl. (P-1)*ceil(n/P) > n
    for n in (7, 8, 9):
        es = [(u, v, 1 + rng.randint(0, 60)) for u in range(n) for v in range(u + 1, n)]
        pick.append(("complete", (n, es)))
    # complete graphs whose light edges sit among the LAST vertices (the minimum odd cycle of a dense phase then lies in the tail of the vertex list, which a
    # vertex-slice partition that drops n mod P vertices never searches), and sparse graphs on 50..60 vertices (supports with many signed edges per slice)
    for n in (7, 7, 8, 9, 11, 11):
        t = 3 if n != 9 else 4
        es = [(u, v, (rng.randint(1, 3) if u >= n - t else rng.randint(20, 60))) for u in range(n) for v in range(u + 1, n)]
        rng.shuffle(es)
        pick.append(("complete", (n, es)))
    # ... and complete graphs in which the triangle on the LAST three vertices is the lightest cycle through the last vertex (the BFS root, whose edges are heavy)
    # while many lighter cycles pass through its one non-tree edge: it belongs to the minimum basis and is found in a late phase, when the support has
    # at least |V| entries (all-vertices branch of the MPI signed variant), and it contains none of the vertices of the leading slices
    for n, jit in ((7, 1), (7, 10), (7, 10), (8, 1), (8, 10), (11, 10)):
        hub = n - 1; o = {n - 3, n - 2}
        def wgt(u, v):
            q = {u, v}
            b = 1 if q == o else 20 if hub in q and (q - {hub}) <= o else 30 if hub in q else 2 if q & o else 3
            return b * jit + (rng.randint(0, jit - 1) if jit > 1 else 0)
        es = [(u, v, wgt(u, v)) for u in range(n) for v in range(u + 1, n)]
        rng.shuffle(es)
        pick.append(("complete", (n, es)))
    for _ in range(24 if tier == "quick" else 80):
        n = rng.randint(50, 60); g0 = gen.random_graph(rng, n, rng.choice([0.07, 0.08, 0.09]))
        pick.append(("sparse-60", gen.weigh(rng, g0, "wide")[0]))
    seq = lib.run_lines([exe], ["M D 0 signed " + gen.graph_tokens(g) for _, g in pick], timeout=1500)
    expect = []
    for o in seq:
        try: expect.append(int(parse_out(o)["signed"][0]))
        except Exception: expect.append(None)
    algs = ["signed", "fvs", "iso", "fvs_tbb", "iso_tbb"]
    Ps = [2, 4, 5] if tier == "quick" else [2, 3, 4, 5, 6, 7]
    jobs = []
    for P in Ps:
        lines = []; meta = []
        for j, (name, g) in enumerate(pick):
            if expect[j] is None: continue
            for a in (["signed"] if name == "sparse-60" else algs if (j + P) % 3 == 0 or name == "complete" else ["signed", algs[1 + (j + P) % 4]]):
                ty = "I" if gen.int_domain_ok(g) and (j + P) % 2 else "D"
                lines.append("%s %s 0 %d %s" % (a, ty, rng.randint(0, 10 ** 6) if j % 2 else 0, gen.graph_tokens(g))); meta.append((j, a, ty))
        jobs.append((P, lines, meta))
    import concurrent.futures as cf
    with cf.ThreadPoolExecutor(max_workers=3) as ex:
        res = list(ex.map(lambda jb: c04.run_batch(mexe, jb[0], jb[1], "c08mpi_p%d" % jb[0], 1500), jobs))
    nrep = 0; nrun = 0
    for (P, lines, meta), results in zip(jobs, res):
        for (j, a, ty), line, r in zip(meta, lines, results):
            name, g = pick[j]
            c.count("MPI P=%d %s" % (P, line), len(g[1]) - g[0] + gen.components(g[0], g[1]) >= 2, bucket="mpi backend P=%d %s" % (P, a))
            nrun += 1
            why = None
            if isinstance(r, tuple):
                if r[0] == "SKIPPED": continue
                why = "mcb_sva_%s_mpi with %d ranks did not return (%s): %s" % (a, P, r[0], " | ".join(str(x)[:160] for x in r[1] if x)[:500] + " " + str(r[2])[-300:])
            else:
                f = lib.fields(r[0], ["ROOTS", "EORD", "RET", "N", "CYC", "RANK", "EMITTED", "DONE"])
                try: v = int(f["RET"][0])
                except Exception: v = None
                if v != expect[j]:
                    why = "mcb_sva_%s_mpi with %d ranks (%s weights) returns %s on rank 0, the sequential signed entry point returns %d on the same weighted graph" % (a, P, ty, v if v is not None else r[0][:120], expect[j])
            if why and nrep < 3:
                nrep += 1
                c.violation("exact backends disagree: " + why, {"component": "c08mpi", "case": line, "P": P, "expected": expect[j], "relation": "all exact variants and backends agree"}, True)
    c.extra["mpi_backend_runs"] = nrun


def make_groups(rng, nbase, maxn, big, per_base, w64=False):
    bases = []
    while len(bases) < nbase:
        g, style = base_graph(rng, maxn, big, w64)
        bases.append(g)
    groups = []
    for bi in range(len(bases)):
        groups.append(("base", {}, bases, bases[bi]))
        # every single relation once, then compositions
        plan = [1] * per_base[0] + [rng.randint(2, 4) for _ in range(per_base[1])]
        for nchain in plan:
            d = None
            for _ in range(6):
                d = derive(rng, bases, bi, nchain)
                if d: break
            if d:
                name, coefs, g2 = d
                groups.append((name, coefs, bases, g2))
    return groups


def have_ref():
    return os.path.exists(os.path.join(lib.COQ, "extract", "Extract_ref.v")) and os.path.exists(os.path.join(lib.ROOT, "ocaml", "driver_ref.ml"))


def check(tier, seed):
    c = lib.Check(PID, tier, seed, THEOREMS)
    c.rule = ("base graph g from the structured families of tools/gen.py (n <= %d) and sparse/medium random graphs, grids, hypercubes, block unions, cycles with "
              "chords (n <= %d), weights unit/ties/wide/pow2; for each g: every single transformation (renumbering, edge order+orientation, isolated vertices, "
              "pendant trees, bridge, subdivision, scaling 2^j, union with another base) and random compositions of 2-4 of them; each graph is run through the 6 "
              "exact non-MPI entry points with double weights (and int / long long / power-of-two-scaled double weights at random); plus base graphs (n <= 14, thorough n <= 30) with long long "
              "weights above 2^53 (2^53+r, 2^54+{0..3}, 2^54+permutation, 2^b+r up to b = 60, heavy/light mixes; (m+4)*sum(w) < 2^63 also after every transformation) run with long long weights only; one evaluation = one relation instance "
              "(all entry points); distinct by md5 of the relation; non-trivial = cycle space dimension of the transformed graph >= 2") % \
             ((30, 30) if tier == "quick" else (40, 300))
    c.step_prove()
    refok = have_ref() and c.step_model("ref")
    exe = c.harness(name="c08", srcs=["c08.cpp"], libs=LIBS)
    if exe:
        # corpus first
        cgroups = []
        for line in lib.corpus_cases(PID):
            coefs, bases, g = parse_relation_line(line)
            cgroups.append(("corpus", coefs, bases, g))
            for b in bases: cgroups.append(("corpus", {}, bases, b))
        c.extra["corpus_cases"] = len(lib.corpus_cases(PID))
        if cgroups: evaluate(c, exe, cgroups, refok, tier)
        if tier == "quick":
            groups = make_groups(c.rng, 300, 14, False, (8, 3)) + make_groups(c.rng, 100, 30, False, (5, 3)) + make_groups(c.rng, 40, 30, True, (5, 3))
            groups += make_groups(c.rng, 2, (260, 330), True, (2, 2))          # a few graphs beyond 255 vertices / edges (narrow index types) in the quick tier too
            g64 = make_groups(random.Random(seed * 7919 + 808), 70, 14, False, (8, 3), w64=True)      # 64-bit weights above 2^53 (own stream)
            c.extra["relation_instances_64bit_weights"] = len(g64)
            evaluate(c, exe, groups, refok, tier)
            evaluate(c, exe, g64, refok, tier)            # (a run of its own: the third opinions below are capped per run)
            mpi_backend(c, exe, groups, tier)
        else:
            groups = make_groups(c.rng, 500, 14, False, (8, 4)) + make_groups(c.rng, 220, 40, False, (6, 4))
            evaluate(c, exe, groups, refok, tier)
            mpi_backend(c, exe, groups, tier)
            groups = make_groups(c.rng, 44, 100, True, (5, 3)) + make_groups(c.rng, 26, 300, True, (4, 2))
            evaluate(c, exe, groups, refok, tier)
            g64 = make_groups(random.Random(seed * 7919 + 808), 400, 14, False, (8, 4), w64=True) + make_groups(random.Random(seed * 7919 + 809), 120, 30, False, (6, 4), w64=True)
            c.extra["relation_instances_64bit_weights"] = len(g64)
            evaluate(c, exe, g64, refok, tier)
    if not refok:
        c.notes.append("verified reference optimum (RefModel optw) not available in this run")
    return c.finish(
        assumptions=["exact domain: simple graphs, positive integer weights (doubles = integers times a power of two, all sums below 2^53; int weights only when (m+4)*sum < 2^31; long long weights with (m+4)*sum < 2^63)",
                     "the *_tbb entry points are run on the real oneTBB scheduler with 4 workers (whatever schedule happens); controlled schedules are C03's business",
                     "the MPI entry points are run for the cross-backend clause only (rank 0's returned value against the sequential signed entry point, 2..7 processes); their exact tie to the models is C04's"],
        trusted_extra=["tools/props/c08.py: the transformations themselves (renumbering, union, subdivision, ... are implemented in Python and trusted to be what they say)"],
        explanation="The Coq theorems are about the specification: the optimum is unique, scales with 2^j, is unchanged by isolated vertices, renumbering, edge reordering, pendant trees, "
                    "bridges and subdivision, is additive over disjoint unions, and any two runs of the support-vector loop with minimum searches return it (so every relation transfers to returned "
                    "values).  The runs check, on the real code, that all six entry points (two weight types) agree on every graph and that every relation holds exactly per entry point; "
                    "n <= 20 graphs are also compared with the verified optimum and an independent oracle.")


def replay(path):
    r = json.load(open(path))
    exe, err = lib.build_cpp(name="c08", srcs=["c08.cpp"], libs=LIBS)
    if exe is None:
        print(err); print("VIOLATION property=%s replay=%s" % (PID, path)); return 1
    if r.get("component") == "c08mpi":
        from props import c04
        mexe, merr = lib.build_cpp(**c04.HARNESS)
        if mexe is None:
            print(merr); print("VIOLATION property=%s replay=%s" % (PID, path)); return 1
        line = r["case"]; t = line.split()
        seq = lib.run_lines([exe], ["M D 0 signed " + " ".join(t[4:])], par=1)[0]
        res = c04.run_batch(mexe, r["P"], [line], "c08mpi_replay", 600)[0]
        print("case :", line[:400]); print("ranks:", r["P"]); print("sequential signed:", seq); print("MPI  :", str(res)[:600])
        bad = True
        try:
            want = int(parse_out(seq)["signed"][0])
            got = int(lib.fields(res[0], ["ROOTS", "EORD", "RET", "N", "CYC", "RANK", "EMITTED", "DONE"])["RET"][0]) if not isinstance(res, tuple) else None
            bad = got != want
        except Exception as ex:
            print("unparsable:", ex)
        print("judge:", "backends disagree" if bad else None)
        if bad:
            print("VIOLATION property=%s replay=%s" % (PID, path)); return 1
        return 0
    coefs, bases, g = parse_relation_line(r["case"])
    bad = None
    def runs(gr):
        gt = gen.graph_tokens(gr); ls = ["M D 0 all " + gt] if not is64(gr) else []
        if gen.int_domain_ok(gr): ls.append("M I 0 all " + gt)
        if long_ok(gr): ls.append("M L 0 all " + gt)
        ls += [l for l in r.get("runs", []) if l not in ls and l.split()[4:] == gt.split()]
        vals, problem = graph_values(ls, lib.run_lines([exe], ls, par=1))
        print("graph:", gt[:300]); print("  values:", " ".join("%s=%d" % (a, v) for a, v, _ in vals), "" if not problem else "PROBLEM " + problem)
        return vals, problem
    dv, pb = runs(g)
    if pb: bad = pb
    if len({v for _, v, _ in dv}) > 1: bad = bad or "entry points disagree on the transformed graph"
    bv = []
    for b in bases:
        v, pb = runs(b); bv.append(v)
        if pb: bad = bad or pb
        if len({x for _, x, _ in v}) > 1: bad = bad or "entry points disagree on a base graph"
    if bases and not bad:
        for a, v, _ in dv:
            exp = 0
            for i, vals in enumerate(bv):
                d = {x: y for x, y, _ in vals}
                if a not in d: exp = None; break
                exp += coefs[i] * d[a]
            if exp is not None and exp != v:
                bad = "relation violated by %s: %d != %d" % (a, v, exp); break
    if g[0] <= 20 and not bad and dv:
        po = O.mcb(g[0], g[1])[0]
        if po != dv[0][1]: bad = "value %d differs from the independent oracle %d" % (dv[0][1], po)
    print("judge:", bad)
    if bad:
        print("VIOLATION property=%s replay=%s" % (PID, path)); return 1
    return 0
