"""C17 — SpVecGF2 implements GF(2) vector arithmetic in canonical form.
Theorems: Properties_C17.v (history refinement to dense vectors).  Tie: random histories run on the
real SpVecGF2<size_t> (harness/c17.cpp) and on the extracted model; contents compared exactly."""
import json, os, sys
import lib

PID = "C17"
THEOREMS = ["Properties_C17.v", "Properties_C17_rename.v"]


def gen_history(rng, maxops):
    K = rng.randint(2, 5)
    style = rng.random()
    D = rng.choice([1, 2, 3, 5, 8, 16, 33, 64, 200]) if style < 0.8 else rng.randint(1, 400)
    nops = rng.randint(1, maxops)
    ops = []
    dense_bias = rng.random()

    def rset():
        if rng.random() < 0.15:          # a LARGE index set (much larger than the vectors): every coordinate, or most of them
            return list(range(D)) if D <= 80 or rng.random() < 0.5 else rng.sample(range(D), 70)
        k = rng.randint(0, min(D + 2, 12)) if rng.random() < 0.7 else rng.randint(0, 30)
        if rng.random() < dense_bias:
            return [rng.randrange(D) for _ in range(k)]
        base = rng.randrange(D)
        return [min(D - 1, max(0, base + rng.randint(-3, 3))) for _ in range(k)]
    while len(ops) < nops:
        r = rng.random()
        d, a, b = rng.randrange(K), rng.randrange(K), rng.randrange(K)
        if r < 0.10: ops.append("U %d %d" % (d, rng.randrange(D)))
        elif r < 0.25:
            s = rset(); ops.append("S %d %d %s" % (d, len(s), " ".join(map(str, s))))
        elif r < 0.31: ops.append("C %d %d" % (d, a))
        elif r < 0.36:
            if d != a:
                ops.append("M %d %d" % (d, a))
                # the moved-from vector is unspecified: redefine it before anything can read it
                rr = rng.random()
                if rr < 0.4: ops.append("X %d" % a)
                elif rr < 0.7: ops.append("U %d %d" % (a, rng.randrange(D)))
                else: ops.append("A %d %d" % (a, d))
        elif r < 0.44: ops.append("A %d %d" % (d, a if rng.random() < 0.8 else d))
        elif r < 0.62:
            if rng.random() < 0.15: a = b
            if rng.random() < 0.15: d = a
            ops.append("P %d %d %d" % (d, a, b))
        elif r < 0.78: ops.append("Q %d %d" % (d, a if rng.random() < 0.8 else d))
        elif r < 0.81: ops.append("X %d" % d)
        elif r < 0.89: ops.append("D %d %d" % (a, b if rng.random() < 0.85 else a))
        elif r < 0.92:
            s = rset(); ops.append("T %d %d %s" % (a, len(s), " ".join(map(str, s))))
        elif r < 0.95:
            # a vector with one or two ones against an index set more than 32 times larger that contains them as its largest / smallest / inner elements
            # (size-ratio shortcuts in the product; seeded change C01/r7m2)
            DD = max(D, 70)
            big = sorted(rng.sample(range(DD), rng.randint(40, min(DD, 130))))
            pick = [big[-1]] if rng.random() < 0.4 else [big[0]] if rng.random() < 0.3 else rng.sample(big, rng.choice([1, 2]))
            ops.append("S %d %d %s" % (a, len(pick), " ".join(map(str, pick))))
            if rng.random() < 0.5: big = [x for x in big if x != pick[0]] + ([pick[0]] if rng.random() < 0.7 else [])
            ops.append("T %d %d %s" % (a, len(big), " ".join(map(str, big))))
        else: ops.append("Z %d" % a)
    return K, D, ops


def case_line(K, D, ops):
    return "%d %d %d %s" % (K, D, len(ops), " ".join(ops))


def dense_eval(line):
    """independent dense reference (python sets under symmetric difference) used to judge a disagreement"""
    t = line.split(); pos = [0]
    def nx():
        pos[0] += 1; return t[pos[0] - 1]
    def nl():
        k = int(nx()); return [int(nx()) for _ in range(k)]
    K = int(nx()); nx(); n = int(nx())
    st = [set() for _ in range(K)]
    outs = []
    for _ in range(n):
        o = nx()
        if o == "U": d, i = int(nx()), int(nx()); st[d] = {i}
        elif o == "S": d = int(nx()); st[d] = set(nl())
        elif o in ("C", "M", "A"): d, a = int(nx()), int(nx()); st[d] = set(st[a])
        elif o == "P": d, a, b = int(nx()), int(nx()), int(nx()); st[d] = st[a] ^ st[b]
        elif o == "Q": d, a = int(nx()), int(nx()); st[d] = st[d] ^ st[a]
        elif o == "X": st[int(nx())] = set()
        elif o == "D": a, b = int(nx()), int(nx()); outs.append(len(st[a] & st[b]) % 2)
        elif o == "T": a = int(nx()); s = set(nl()); outs.append(len(st[a] & s) % 2)
        elif o == "Z": outs.append(len(st[int(nx())]))
    return "O" + "".join(" %d" % x for x in outs) + "".join(" ; V" + "".join(" %d" % x for x in sorted(v)) for v in st)


def nontrivial(line, result):
    return (" P " in line or " Q " in line) and any(len(v.split()) >= 3 for v in result.split(";")[1:])


def split_ops(line):
    t = line.split(); K, D, n = t[0], t[1], int(t[2]); ops = []; i = 3
    ar = {"U": 2, "C": 2, "M": 2, "A": 2, "P": 3, "Q": 2, "X": 1, "D": 2, "Z": 1}
    while i < len(t):
        o = t[i]
        if o == "S": k = int(t[i + 2]); ops.append(" ".join(t[i:i + 3 + k])); i += 3 + k
        elif o == "T": k = int(t[i + 2]); ops.append(" ".join(t[i:i + 3 + k])); i += 3 + k
        else: ops.append(" ".join(t[i:i + 1 + ar[o]])); i += 1 + ar[o]
    return int(K), int(D), ops


BIG = [0, 1, 5, 2**31 - 2, 2**31 - 1, 2**31, 2**31 + 1, 2**31 + 10, 2**32 - 1, 2**32, 2**32 + 7, 2**33 + 5, 2**40, 2**52 + 1,
       2**62, 2**63 - 1, 2**63, 2**63 + 12, 2**64 - 3, 2**64 - 2]


def map_coords(line, f):
    """apply the coordinate renaming f to every coordinate of a case line (ops U, S, T carry coordinates)"""
    t = line.split(); out = t[:3]; p = 3
    while p < len(t):
        o = t[p]
        if o == "U": out += [o, t[p + 1], str(f(int(t[p + 2])))]; p += 3
        elif o in ("S", "T"):
            k = int(t[p + 2]); out += [o, t[p + 1], t[p + 2]] + [str(f(int(x))) for x in t[p + 3:p + 3 + k]]; p += 3 + k
        elif o == "P": out += t[p:p + 4]; p += 4
        elif o in ("X", "Z"): out += t[p:p + 2]; p += 2
        else: out += t[p:p + 3]; p += 3
    return " ".join(out)


def map_output(res, f):
    parts = res.split(" ; ")
    return " ; ".join([parts[0]] + [" ".join(["V"] + [str(f(int(x))) for x in q.split()[1:]]) for q in parts[1:]])


NARROW = {"N8": [0, 1, 2, 7, 8, 127, 128, 200, 253, 254, 255], "N16": [0, 1, 255, 256, 257, 32767, 32768, 65000, 65533, 65534, 65535],
          # the library's own coordinate type std::size_t: coordinates in both halves of the index space (differences beyond 2^63) and SIZE_MAX itself
          "N64": [0, 1, 5, 2 ** 31, 2 ** 32, 2 ** 63 - 1, 2 ** 63, 2 ** 63 + 5, 2 ** 64 - 70000, 2 ** 64 - 2, 2 ** 64 - 1]}
NARROW_NAME = {"N8": "uint8_t", "N16": "uint16_t", "N64": "size_t, coordinates up to SIZE_MAX"}


def narrow_stream(c, exe, n):
    """SpVecGF2<std::uint8_t> / <std::uint16_t>: the same histories under a strictly increasing renaming into the narrow type's range, always
    including the type's maximum value (a coordinate that code using a sentinel or `max()` for 'exhausted' would confuse with no coordinate)"""
    small, tags, imgs = [], [], []
    for j in range(n):
        K, D, ops = gen_history(c.rng, 25)
        D = min(D, 8)
        line = map_coords(case_line(K, D, ops), lambda x: x % D)
        tag = ("N8", "N16", "N64")[j % 3]
        pool = NARROW[tag]
        im = sorted(c.rng.sample(pool[:-1], D - 1) + [pool[-1]]) if D >= 1 else []
        small.append(line); tags.append(tag); imgs.append(im)
    big = [tg + " " + map_coords(l, lambda x, im=im: im[x]) for l, im, tg in zip(small, imgs, tags)]
    mo = lib.run_model("c17", small)
    io = lib.run_lines([exe], big)
    nb = 0
    for l, b, im, m, i in zip(small, big, imgs, mo, io):
        c.count(b, nontrivial(l, m), bucket="narrow-coordinate-type")
        want = map_output(m, lambda x, im=im: im[x]) if m.startswith("O") else m
        if i != want and nb < 3:
            nb += 1
            d = dense_eval(b.split(" ", 1)[1])
            if i != d:
                c.violation("SpVecGF2<%s> history: implementation differs from the dense GF(2) computation (impl: %s | dense: %s)" % (NARROW_NAME[b.split()[0]], i[:150], d[:150]),
                            {"component": "c17", "case": b, "impl": i, "model_renamed": want, "dense_reference": d}, True)
            else:
                c.violation("correspondence c17 (model under a monotone renaming of coordinates vs SpVecGF2 over a narrow coordinate type) no longer checks, implementation agrees with the dense reference",
                            {"component": "c17", "theorem_or_correspondence": "correspondence c17/narrow: extracted run_dump renamed vs harness/c17.cpp", "case": b, "impl": i, "model": want}, False)


def big_stream(c, exe, n):
    """histories over huge coordinates: SpVecGF2 only compares coordinates, so a strictly increasing renaming of the
    coordinates must commute with every operation; the model runs on the small coordinates, the implementation on the
    renamed ones (around 2^31, 2^32, 2^63, 2^64), and the model's answer is renamed before the comparison"""
    small, fs = [], []
    for _ in range(n):
        K, D, ops = gen_history(c.rng, 25)
        D = min(D, 12)
        K, D, ops = K, D, [o for o in ops]
        line = map_coords(case_line(K, D, ops), lambda x: x % D)
        img = sorted(c.rng.sample(BIG, D))
        small.append(line); fs.append(img)
    big = [map_coords(l, lambda x, im=im: im[x]) for l, im in zip(small, fs)]
    mo = lib.run_model("c17", small)
    io = lib.run_lines([exe], big)
    nb = 0
    for l, b, im, m, i in zip(small, big, fs, mo, io):
        c.count(b, nontrivial(l, m), bucket="big-coordinates")
        want = map_output(m, lambda x, im=im: im[x]) if m.startswith("O") else m
        if i != want and nb < 3:
            nb += 1
            d = dense_eval(b)
            if i != d:
                c.violation("SpVecGF2 history over large coordinates: implementation differs from the dense GF(2) computation (impl: %s | dense: %s)" % (i[:150], d[:150]),
                            {"component": "c17", "case": b, "impl": i, "model_renamed": want, "dense_reference": d}, True)
            else:
                c.violation("correspondence c17 (model under a monotone renaming of coordinates vs SpVecGF2) no longer checks, implementation agrees with the dense reference",
                            {"component": "c17", "theorem_or_correspondence": "correspondence c17/big: extracted run_dump renamed vs harness/c17.cpp", "case": b, "impl": i, "model": want}, False)


def check(tier, seed):
    c = lib.Check(PID, tier, seed, THEOREMS)
    c.rule = ("random SpVecGF2 histories (2-5 vectors, dimension 1..400, <= %d operations; aliasing, self-assignment, "
              "unsorted sets with duplicates, empty operands); distinct by md5 of the case line; non-trivial = contains an "
              "addition and ends with some vector of >= 2 ones") % (40 if tier == "quick" else 120)
    c.step_prove()
    ok = c.step_model()
    exe = c.harness(name="c17", srcs=["c17.cpp"])
    if ok and exe:
        cases = []
        corpus = os.path.join(lib.ROOT, "corpus", PID)
        if os.path.isdir(corpus):
            for f in sorted(os.listdir(corpus)):
                cases += [l.strip() for l in open(os.path.join(corpus, f)) if l.strip() and not l.startswith("#")]
        ncorp = len(cases)
        n = 2000 if tier == "quick" else 20000
        maxops = 40 if tier == "quick" else 120
        for _ in range(n):
            cases.append(case_line(*gen_history(c.rng, maxops)))
        mo = lib.run_model("c17", cases)
        io = lib.run_lines([exe], cases)
        for i, cs in enumerate(cases):
            c.count(cs, nontrivial(cs, mo[i]), bucket="ops<=10" if int(cs.split()[2]) <= 10 else "ops>10")
        big_stream(c, exe, 600 if tier == "quick" else 6000)
        narrow_stream(c, exe, 600 if tier == "quick" else 6000)
        bad = lib.diff_lines(cases, mo, io)
        c.extra["corpus_cases"] = ncorp
        c.extra["disagreements_checked"] = len(bad)
        for i in bad[:3]:
            line = cases[i]
            K, D, ops = split_ops(line)
            def fails(sub):
                l2 = case_line(K, D, sub)
                return lib.run_model("c17", [l2], par=1) != lib.run_lines([exe], [l2], par=1)
            ops2 = lib.shrink_list(ops, fails)
            l2 = case_line(K, D, ops2)
            m2, i2, d2 = lib.run_model("c17", [l2], par=1)[0], lib.run_lines([exe], [l2], par=1)[0], dense_eval(l2)
            if i2 != d2:
                c.violation("SpVecGF2 history: implementation differs from the dense GF(2) computation (impl: %s | dense: %s)" % (i2[:150], d2[:150]),
                            {"component": "c17", "case": l2, "original_case": line, "impl": i2, "model": m2, "dense_reference": d2}, True)
            else:
                c.violation("correspondence c17 (model vs SpVecGF2) no longer checks, implementation agrees with the dense reference",
                            {"component": "c17", "theorem_or_correspondence": "correspondence c17: extracted run_dump vs harness/c17.cpp", "case": l2, "impl": i2, "model": m2}, False)
    return c.finish(
        assumptions=["histories never read a moved-from vector before it is reassigned (unspecified in the dense semantics)",
                     "coordinates fit the coordinate type; instantiations U = std::size_t, std::uint8_t, std::uint16_t", "large coordinates (up to SIZE_MAX) and the narrow coordinate types are run through the model under a strictly increasing renaming; that the model commutes with every such renaming is Properties_C17_rename.C17_rename_invariance (no longer an assumption)"],
        explanation="Theorem C17_histories_refine_dense proves the model equal to the dense computation for all histories; "
                    "this run ties the model to include/parmcb/spvecgf2.hpp by exact comparison of store contents and observer outputs.")


def replay(path):
    r = json.load(open(path))
    ok, log = lib.ensure_model()
    exe, err = lib.build_cpp(name="c17", srcs=["c17.cpp"])
    line = r["case"]
    if "model_renamed" in r or line.split()[0] in ("N8", "N16", "N64"):      # huge or narrow coordinates: the model ran on the small pre-image; compare with the dense reference and the recorded renamed answer
        i = lib.run_lines([exe], [line], par=1)[0]
        d = dense_eval(line.split(" ", 1)[1] if line.split()[0] in ("N8", "N16", "N64") else line)
        print("case :", line); print("impl :", i); print("dense:", d); print("model (renamed, recorded):", r.get("model_renamed", r.get("model")))
        if i != d or (r.get("model_renamed") or r.get("model") or i) != i:
            print("VIOLATION property=%s replay=%s" % (PID, path)); return 1
        return 0
    m, i, d = lib.run_model("c17", [line], par=1)[0], lib.run_lines([exe], [line], par=1)[0], dense_eval(line)
    print("case :", line); print("model:", m); print("impl :", i); print("dense:", d)
    if i != d or m != i:
        print("VIOLATION property=%s replay=%s" % (PID, path)); return 1
    return 0
