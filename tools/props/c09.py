"""C09 — the exact variants stay meaningful on inexact floating-point weights.
Theorems: Properties_C09.v (structural part, for an arbitrary weight type; the quantitative 1e-9 bound, "a cycle is found in
every phase under rounding" and vertex-simplicity are NOT proved — they are covered by this search only: C09 is partial).

Tie / search:
 (E) mcb_sva_signed and direct bidirectional_signed_dijkstra calls on binary64 weights are compared BIT-EXACTLY (cycles in
     emission order, returned value / found weight as hex floats) with the extracted SignedFloatModel = SignedModel.v
     instantiated with Coq's primitive floats (ExtrOCamlFloats -> Float64 of Coq's kernel = OCaml's IEEE doubles); the BFS
     root order and the pointer order of the edge descriptors are recovered from the run (harness/c09.cpp, -ffp-contract=off).
 (E) the tree-based variants on the same inexact inputs, against the extracted TreesFloatModel (LexSPModel / CandidatesModel /
     TreesModel instantiated with PrimFloat + the three float-faithful pieces documented there), all doubles as hex floats:
       T  every SPTree field (node?, weight, pred edge, parent, first-in-path label) of every source;
       C  the Horton / FVS / isometric collections in emission order with their recorded weights (pick oracle of greedy_fvs =
          the emitted feedback vertex set);
       A  whole runs of mcb_sva_fvs_trees / mcb_sva_iso_trees: cycles in emission order (an EMPTY cycle included: the model's run
          goes on exactly as the code does) and the returned double; the arrangement std::sort leaves the candidates in is the
          one oracle, recovered by the harness running the same builder + the same std::sort call on the same sequence (the model
          checks that it is a permutation and non-decreasing in the recorded weight: MODEL-BADORDER otherwise);
       L  the per-phase (found, cycle, weight) of every such run: the real ShortestOddCycleLookup is called directly on the signed
          edge sets of the model's phases (and on random signed sets) and must answer what the model's phase answered;
       acc the acceptance model of TreesModel.v must accept every run without empty cycle (its total may differ in the last bits:
          candidates with equal recorded weight and the same edge set can compute different sums — counted, not an error).
 (A) every answer of mcb_sva_signed / mcb_sva_fvs_trees / mcb_sva_iso_trees is judged against the property text in EXACT
     rational arithmetic (fractions.Fraction on the exact values of the doubles; all doubles are dyadic, so the graph is scaled
     to integers): m-n+c simple cycles of the input graph, GF(2)-independent; |ret - exact sum of the emitted cycles| <= 1e-9
     relative; ret within relative 1e-9 of the TRUE minimum computed by an own Horton + Gauss oracle.
Known findings (known_findings.d/C09.json): D9 — mcb_sva_iso_trees on weights outside the exact domain may emit an EMPTY cycle and
return a weight BELOW the optimum; D9b — same cause, cycle space dimension >= 2: a VALID basis whose weight is ABOVE the optimum.
D9c — mcb_sva_iso_trees_tbb adds numeric_limits::max for every phase whose lookup came up empty (returned value != sum; with two or more such
phases the returned value is +inf: kind 'not finite', matched only for runs that return +inf and emit at least two empty cycles).
A failure is a KNOWN-FINDING only if (entry point iso) and (weights outside the exact domain) and (its kind is listed in an entry);
the stored minimal witnesses are replayed on every run (stale => NOTE, never silent).  Every matched run must in addition be PREDICTED
by the binary64 model (sequential iso: the model's run is bit-identical, empty cycles included; iso_tbb: replaying the run's own cycles,
the model's lookup comes up empty exactly at the phases with an empty cycle / the model's sequential run shows the same kind); a matched
run the model does not predict is a VIOLATION (correspondence).  Any other failure is a VIOLATION: signed / fvs,
iso on exact-domain weights, an invalid non-empty cycle, wrong count, dependent cycles, returned value != sum of the emitted cycles."""
import json, os, re, shutil, glob, heapq
from fractions import Fraction
import lib, gen, mcb_oracle as O

PID = "C09"
THEOREMS = ["Properties_C09.v", "Properties_C09_sum.v"]
GROUP = "c09"
HARNESS = dict(name="c09", srcs=["c09.cpp"], flags=["-ffp-contract=off"], libs=["-ltbb", "-lboost_timer"])
KEYS = ["ROOTS", "EORD", "FVS", "ORD", "RET", "N", "CYC", "W", "FND", "SG"]
TREE_ALGS = ("fvs", "iso")
ALGS = ["signed", "fvs", "iso"]
TBB_ALGS = ["signed_tbb", "fvs_tbb", "iso_tbb"]      # real oneTBB; judged only (which tied cycle is kept depends on the schedule)
TOL = Fraction(1, 10 ** 9)
KIND_EMPTY = "empty cycle emitted"
KIND_BELOW = "returned weight below the optimum"
KIND_ABOVE = "returned weight above the optimum by more than 1e-9"


# --------------------------------------------------------------------------------------------------------------
# the binary64 model: ExtrOCamlFloats needs Coq's kernel module Float64 (ocamlfind package coq-core.kernel, -rectypes)
# --------------------------------------------------------------------------------------------------------------
def ensure_model_c09():
    """as lib.ensure_model("c09") but linked with coq-core.kernel (module Float64 used by ExtrOCamlFloats)"""
    sfx = "_" + GROUP
    od = os.path.join(lib.BUILD, "ocaml" + sfx)
    os.makedirs(od, exist_ok=True)
    ex_v = os.path.join(lib.COQ, "extract", "Extract%s.v" % sfx)
    drv = os.path.join(lib.ROOT, "ocaml", "driver%s.ml" % sfx)
    common = os.path.join(lib.ROOT, "ocaml", "common.ml")
    srcs = sorted(f for f in glob.glob(os.path.join(lib.THEORIES, "*.v")) if not re.search(r"(Proofs\w*|Lemmas|Properties_\w+)\.v$", f)) + [ex_v, drv, common]
    key = lib.file_hash(srcs) + "|coq-core.kernel"
    stamp = os.path.join(lib.BUILD, "model%s.stamp" % sfx)
    exe = os.path.join(lib.BUILD, "model" + sfx)
    if os.path.exists(exe) and os.path.exists(stamp) and open(stamp).read() == key:
        return True, ""
    # the model needs only SignedFloatModel.vo, TreesFloatModel.vo and what they require
    for mod in ("SignedFloatModel", "TreesFloatModel"):
        vo, v = os.path.join(lib.THEORIES, mod + ".vo"), os.path.join(lib.THEORIES, mod + ".v")
        if not os.path.exists(vo) or os.path.getmtime(vo) < os.path.getmtime(v):
            lib.coq_make(targets=["theories/%s.vo" % mod])
    rc, so, se = lib.sh(["coqc", "-Q", lib.THEORIES, "Parmcb", ex_v], cwd=od, timeout=1200)
    if rc != 0:
        lib.coq_make()
        rc, so, se = lib.sh(["coqc", "-Q", lib.THEORIES, "Parmcb", ex_v], cwd=od, timeout=1200)
        if rc != 0:
            return False, "extraction failed: " + (so + se)[-2000:]
    shutil.copy(drv, os.path.join(od, "driver.ml")); shutil.copy(common, od)
    rc, so, se = lib.sh("ocamlfind ocamlopt -O3 -w -a -rectypes -thread -package coq-core.kernel -linkpkg "
                        "model.mli model.ml common.ml driver.ml -o %s" % exe, cwd=od, timeout=600)
    if rc != 0 or not os.path.exists(exe):
        return False, "ocaml build failed: " + (so + se)[-2000:]
    open(stamp, "w").write(key)
    return True, ""


def build_model():
    """lib.ensure_model once it honours ocaml/driver_<group>.flags (extra ocamlfind flags); the own builder until then"""
    import inspect
    if os.path.exists(os.path.join(lib.ROOT, "ocaml", "driver_%s.flags" % GROUP)) and ".flags" in inspect.getsource(lib.ensure_model):
        return lib.ensure_model(GROUP)
    return ensure_model_c09()


def step_model(c):
    c.groups = ["c09"]
    ok, log = build_model()
    if not ok:
        c.violation("model does not build: " + log[-300:], {"theorem_or_correspondence": "extraction/ocaml build (group c09)", "log": log, "kind": "model-build"}, False)
    return ok


# --------------------------------------------------------------------------------------------------------------
# graphs with double weights: (n, [(u, v, w: float)]); case tokens carry hex floats
# --------------------------------------------------------------------------------------------------------------
def ftokens(g):
    n, es = g
    return "%d %d%s" % (n, len(es), "".join(" %d %d %s" % (u, v, float(w).hex()) for (u, v, w) in es))


def parse_fgraph(tokens, pos):
    n, m = int(tokens[pos]), int(tokens[pos + 1]); pos += 2
    es = []
    for _ in range(m):
        es.append((int(tokens[pos]), int(tokens[pos + 1]), float.fromhex(tokens[pos + 2]))); pos += 3
    return n, es, pos


def exact_ints(ws):
    """doubles are dyadic rationals: returns (integers, D) with w_i = integers_i / D exactly (D a power of two)"""
    fr = [Fraction(w) for w in ws]
    D = max([f.denominator for f in fr] + [1])
    return [int(f * D) for f in fr], D


def in_exact_domain(ws):
    """all weights are integer multiples of one power of two and twice their sum stays below 2^53: every sum the algorithms form is exact"""
    if not ws: return True
    ints, _ = exact_ints(ws)
    g = 0
    for x in ints:
        g |= x
    low = (g & -g) if g else 1                     # largest power of two dividing all of them
    return 2 * sum(ints) // low < 2 ** 53


DEC10 = [k / 10 for k in range(1, 10)]
WSTYLES = ["d4", "d4", "dec10", "dec10", "dec100", "const", "two", "rand", "rand", "randlog", "nearint", "neartie", "neartie", "exact", "sum3"]


def weigh_f(rng, g, style=None):
    n, es = g
    style = style or rng.choice(WSTYLES)
    m = len(es)
    if style == "d4": pool = [0.1, 0.2, 0.3, 0.7]; ws = [rng.choice(pool) for _ in range(m)]           # D9's values, many ties after rounding
    elif style == "dec10": ws = [rng.choice(DEC10) for _ in range(m)]
    elif style == "dec100": pool = [rng.randint(1, 300) / 100 for _ in range(rng.randint(2, 6))]; ws = [rng.choice(pool) for _ in range(m)]
    elif style == "const": v = rng.choice([0.1, 0.3, 0.7, 1.1, 1e-3, 999.9]); ws = [v] * m
    elif style == "two": a, b = rng.choice([(0.1, 0.3), (0.1, 0.2), (0.7, 0.1), (1.1, 2.2), (0.3, 0.6)]); ws = [rng.choice([a, b]) for _ in range(m)]
    elif style == "rand": ws = [rng.uniform(1e-3, 1e3) for _ in range(m)]
    elif style == "randlog": ws = [10 ** rng.uniform(-3, 3) for _ in range(m)]
    elif style == "neartie":        # all weights within a few 1e-8..1e-7 (relative) of one value: differences above the 1e-9 tolerance,
        b = rng.choice([0.6667, 1e-3, 2e-3, 0.1, 3.3, 123.456, 999.0]); d = rng.choice([1e-8, 3e-8, 1e-7, 1e-10 / b])   # below single precision
        js = list(range(m)); rng.shuffle(js)
        ws = [b * (1 + j * d) if rng.random() < 0.8 else 2 * b * (1 + j * d) for j in js]
    elif style == "sum3": pool = [0.1, 0.2, 0.3, 0.4, 0.6]; ws = [rng.choice(pool) for _ in range(m)]     # 0.1+0.2 > 0.3, 0.2+0.4 > 0.6, 0.1+0.3 = 0.4 after rounding
    elif style == "nearint": ws = [rng.randint(1, 5) + rng.choice([0, 0, 1e-9, -1e-9, 2 ** -40]) for _ in range(m)]
    else: pool = [0.25, 0.5, 0.75, 1.0, 1.5, 2.0, 3.0]; ws = [rng.choice(pool) for _ in range(m)]       # exact domain
    ws = [min(1e3, max(1e-3, w)) for w in ws]
    return (n, [(u, v, w) for (u, v, _), w in zip(es, ws)]), style


def tie_rich(rng, maxn):
    """graphs with many equal-length alternative paths"""
    r = rng.random()
    if r < 0.25:
        a = rng.randint(2, 5); b = rng.randint(2, max(2, min(6, maxn // a))); g = gen.grid(a, b)
    elif r < 0.40: g = gen.hypercube(rng.randint(2, 3 if maxn < 16 else 4))
    elif r < 0.55:
        a = rng.randint(2, max(2, min(5, maxn // 2))); b = rng.randint(2, max(2, min(6, maxn - a))); g = gen.bipartite(a, b)
    elif r < 0.70: g = gen.wheel(rng.randint(4, max(4, min(12, maxn))))
    elif r < 0.80: g = gen.cycle(rng.randint(3, max(3, min(9, maxn))))
    elif r < 0.90: g = gen.theta(rng.randint(0, 3), rng.randint(1, 3), rng.randint(1, 4))
    else: g = gen.complete(rng.randint(3, min(7, maxn)))
    if rng.random() < 0.7: g = gen.relabel(rng, g[0], g[1])
    return g


def gen_fgraph(rng, maxn):
    g = tie_rich(rng, maxn) if rng.random() < 0.55 else gen.structural(rng, maxn)
    return weigh_f(rng, g)


def alg_cases(rng, tier):
    ng = 520 if tier == "quick" else 5000
    maxn = 12 if tier == "quick" else 30
    cases = []
    for i in range(ng):
        g, style = gen_fgraph(rng, maxn)
        gt = ftokens(g)
        for alg in ALGS:
            cases.append(("A %s %s" % (alg, gt), style))
        if rng.random() < 0.35:
            for alg in TBB_ALGS: cases.append(("A %s %s" % (alg, gt), style))
    return cases


def tree_extra_cases(rng, tier):
    """further graphs for the two tree-based entry points only (their model is cheap): somewhat larger, inexact styles only"""
    ng = 700 if tier == "quick" else 6000
    maxn = 14 if tier == "quick" else 30
    cases = []
    for i in range(ng):
        g = tie_rich(rng, maxn) if rng.random() < 0.6 else gen.structural(rng, maxn)
        g, style = weigh_f(rng, g, rng.choice(["d4", "dec10", "dec100", "two", "rand", "randlog", "neartie", "sum3", "const"]))
        gt = ftokens(g)
        for alg in TREE_ALGS:
            cases.append(("A %s %s" % (alg, gt), style))
    return cases


def small_cycle_cases():
    """every 4-cycle with weights on the 0.1-grid (this is where the minimal D9 witnesses live), all three entry points"""
    out = []
    import itertools
    es = [(i, (i + 1) % 4) for i in range(4)]
    for p in itertools.product([0.1, 0.2, 0.3, 0.5, 0.6, 0.8, 0.9], repeat=4):
        g = (4, [(u, v, w) for (u, v), w in zip(es, p)])
        for alg in ALGS:
            out.append(("A %s %s" % (alg, ftokens(g)), "c4grid"))
    return out


def bidir_cases(rng, tier):
    nb = 3000 if tier == "quick" else 30000
    maxn = 12 if tier == "quick" else 24
    cases = []
    while len(cases) < nb:
        g, style = gen_fgraph(rng, maxn)
        n, es = g
        if n < 2 or not es: continue
        m = len(es)
        for _ in range(4):
            k = rng.choice([1, 1, 2, 3, max(1, m // 2), m])
            sg = sorted(rng.sample(range(m), min(k, m)))
            mode = rng.random()
            if mode < 0.5:
                s = rng.randrange(n); t = s; spos, tpos = 1, 0; uh = 0; hd = []
            elif mode < 0.9:
                e = rng.choice(sg); s, t = es[e][0], es[e][1]; spos = tpos = 1; uh = 1
                hd = sg[sg.index(e):] if rng.random() < 0.7 else sorted(rng.sample(sg, rng.randint(1, len(sg))))
            else:
                s, t = rng.randrange(n), rng.randrange(n); spos, tpos = rng.randint(0, 1), rng.randint(0, 1); uh = rng.randint(0, 1)
                hd = sorted(rng.sample(range(m), rng.randint(0, min(3, m))))
                if s == t and spos == tpos: continue
            tot = sum(w for _, _, w in es)
            if rng.random() < 0.4: lim = "-"
            elif rng.random() < 0.5: lim = float(rng.uniform(0, tot / 2 + 1e-3)).hex()
            else:                                   # a limit that ties with a path length after rounding
                acc = 0.0
                for e in rng.sample(range(m), rng.randint(1, min(m, 5))): acc += es[e][2]
                lim = acc.hex()
            cases.append("B %d %d %d %d %d %s %d %s %d %s %s" % (uh, s, spos, t, tpos, lim, len(sg), " ".join(map(str, sg)),
                                                              len(hd), " ".join(map(str, hd)), ftokens(g)))
    return cases[:nb]


# --------------------------------------------------------------------------------------------------------------
# own oracle in exact arithmetic: Horton's candidates + greedy Gaussian elimination on the integer-scaled graph
# --------------------------------------------------------------------------------------------------------------
def opt_exact(n, es):
    """(minimum cycle basis weight as a Fraction, dimension N); es with float weights, evaluated exactly"""
    ints, D = exact_ints([w for _, _, w in es])
    m = len(es); N = m - n + O.components(n, es)
    if N == 0: return Fraction(0), 0
    adj = [[] for _ in range(n)]
    for i, (u, v, _) in enumerate(es):
        adj[u].append((v, ints[i], i)); adj[v].append((u, ints[i], i))
    cands = []
    for s in range(n):
        dist = {s: 0}; pmask = {s: 0}; tree = set(); done = set(); pq = [(0, s, -1, s)]
        while pq:
            d, u, pe, pu = heapq.heappop(pq)
            if u in done: continue
            done.add(u)
            if pe >= 0: tree.add(pe); pmask[u] = pmask[pu] ^ (1 << pe)
            dist[u] = d
            for (v, w, e) in adj[u]:
                if v not in done: heapq.heappush(pq, (d + w, v, e, u))
        for i, (u, v, _) in enumerate(es):
            if i in tree or u not in done or v not in done: continue
            # P(s,u) + e + P(s,v) as an element of the cycle space; its true weight is <= the assigned one, with equality on Horton's cycles
            cands.append((dist[u] + dist[v] + ints[i], pmask[u] ^ pmask[v] ^ (1 << i)))
    cands.sort()
    piv = {}; tot = 0; k = 0
    for w, v in cands:
        if k == N: break
        while v:
            h = v.bit_length() - 1
            if h in piv: v ^= piv[h]
            else: piv[h] = v; tot += w; k += 1; break
    assert k == N
    return Fraction(tot, D), N


def hexnorm(s):
    try: return float.fromhex(s).hex()
    except ValueError: return s


def parse_out(line):
    """'... RET hex N k CYC len ids ... [W hex...]' -> (ret: float, cycles) ; raises on garbage"""
    t = line.split()
    ret = float.fromhex(t[t.index("RET") + 1])
    k = int(t[t.index("N") + 1])
    p = t.index("CYC") + 1; cycles = []
    for _ in range(k):
        L = int(t[p]); p += 1
        cycles.append([int(x) if x.lstrip("-").isdigit() else x for x in t[p:p + L]]); p += L
    return ret, cycles


def canon(line):
    """RET (normalised hex) / N / cycles in emission order, each cycle sorted (a cycle is emitted in pointer order)"""
    try: ret, cycles = parse_out(line)
    except Exception: return line
    def k(x): return (0, x) if isinstance(x, int) else (1, str(x))
    return " ".join(("RET %s N %d CYC %s" % (ret.hex(), len(cycles), " ".join("%d %s" % (len(c), " ".join(map(str, sorted(c, key=k)))) for c in cycles))).split())


def canon_model(line):
    """the model's line without its trailing per-phase weight list"""
    t = line.split()
    if "W" in t: t = t[:t.index("W")]
    if "RET" in t: t[t.index("RET") + 1] = hexnorm(t[t.index("RET") + 1])
    return " ".join(t)


def fl(x):
    """float() of an exact rational, saturating instead of raising"""
    try: return float(x)
    except OverflowError: return float("inf") if x > 0 else float("-inf")


def judge(n, es, line, optc):
    """judge one answer against the text of C09 in exact arithmetic. returns a list of (kind, message); [] = fine."""
    if line.startswith(("IMPL-EXCEPTION", "CRASH")) or " RET " not in " " + line:
        return [("no answer", "did not return on a valid input: %s" % line[:200])]
    try:
        ret, cycles = parse_out(line)
    except Exception:
        return [("no answer", "unparsable answer: %s" % line[:200])]
    out = []
    m = len(es); N = m - n + O.components(n, es)
    if len(cycles) != N:
        out.append(("wrong count", "emitted %d cycles, cycle space dimension m-n+c is %d" % (len(cycles), N)))
    valid = True
    for j, cy in enumerate(cycles):
        p = O.simple_cycle_problem(n, es, cy)
        if p:
            valid = False
            out.append((KIND_EMPTY if p == "empty cycle" else "invalid cycle", "cycle #%d %s: %s" % (j, cy, p))); break
    if valid and len(cycles) == N and O.gf2_rank([O.mask_of(cy) for cy in cycles]) != N:
        valid = False; out.append(("dependent", "emitted cycles are linearly dependent over GF(2)"))
    if ret != ret or ret in (float("inf"), float("-inf")):
        out.append(("not finite", "returned value %r" % ret)); return out
    fr = Fraction(ret)
    S = sum((Fraction(es[i][2]) for cy in cycles for i in cy if isinstance(i, int) and 0 <= i < m), Fraction(0))
    if abs(fr - S) > TOL * S:
        out.append(("returned value is not the sum of the cycle weights", "returned %s (%r) but the emitted cycles weigh %r exactly (relative error %.3g > 1e-9)"
                    % (ret.hex(), ret, fl(S), fl(abs(fr - S) / S) if S else float("inf"))))
    opt, _ = optc()
    if fr < opt * (1 - TOL):
        out.append((KIND_BELOW, "returned %r < true minimum %r (exact rational arithmetic), relative gap %.3g" % (ret, fl(opt), fl((opt - fr) / opt))))
    elif fr > opt * (1 + TOL):
        out.append((KIND_ABOVE, "returned %r > true minimum %r (exact rational arithmetic), relative gap %.3g"
                    % (ret, fl(opt), fl((fr - opt) / opt))))
    elif valid and len(cycles) == N and (S < opt or S > opt * (1 + TOL)):
        out.append(("emitted basis is not near-minimum", "the emitted cycles weigh %r exactly, true minimum %r" % (fl(S), fl(opt))))
    return out


def model_case_of(case, impl):
    t = case.split()
    f = lib.fields(impl, KEYS)
    roots, eord = f.get("ROOTS", []), f.get("EORD", [])
    return "%s %d %s %d %s" % (" ".join(t[2:]), len(roots), " ".join(roots), len(eord), " ".join(eord))


def normhex(line):
    return " ".join(hexnorm(x) if x.startswith(("0x", "-0x")) else x for x in line.split())


def trees_model_case(case, impl):
    """'A fvs|iso <graph>' + the harness line -> case of the model entry `run`: alg graph roots picks order"""
    t = case.split(); alg = t[1]
    f = lib.fields(impl, KEYS)
    roots, fvs, order = f.get("ROOTS", []), f.get("FVS", []), f.get("ORD", [])
    picks = fvs if alg == "fvs" else []
    return "%s %s %d %s %d %s %d %s" % (alg, " ".join(t[2:]), len(roots), " ".join(roots), len(picks), " ".join(picks), len(order), " ".join(order))


def cycles_tokens(cycles):
    return "%d %s" % (len(cycles), " ".join("%d %s" % (len(c), " ".join(map(str, sorted(c)))) for c in cycles))


def replay_model_case(case, impl, cycles):
    """case of the model entries `accept` / `explain`: alg graph roots picks (the run's cycles, each sorted)"""
    t = case.split(); alg = t[1][:3]
    f = lib.fields(impl, KEYS)
    roots, fvs = f.get("ROOTS", []), f.get("FVS", [])
    picks = fvs if alg == "fvs" else []
    return "%s %s %d %s %d %s %s" % (alg, " ".join(t[2:]), len(roots), " ".join(roots), len(picks), " ".join(picks), cycles_tokens(cycles))


def parse_go(mline):
    """the model's run line 'RET h N k CYC .. W h*k FND b*k SG (len ids)*k' -> (ret, cycles, weights, found, signed sets) or None"""
    t = mline.split()
    if not t or t[0] != "RET" or "W" not in t or "FND" not in t or "SG" not in t: return None
    try:
        ret, cycles = parse_out(" ".join(t[:t.index("W")]))
        k = len(cycles)
        iw = t.index("W"); ws = t[iw + 1:iw + 1 + k]
        ifd = t.index("FND"); fnd = t[ifd + 1:ifd + 1 + k]
        p = t.index("SG") + 1; sgs = []
        for _ in range(k):
            L = int(t[p]); sgs.append(t[p + 1:p + 1 + L]); p += 1 + L
        if len(ws) != k or len(fnd) != k: return None
        return ret, cycles, ws, fnd, sgs
    except Exception:
        return None


def lookup_answers(line):
    """'.. L q (F hexw len ids | NF hexw len)*q' -> list of canonical strings, or None"""
    t = line.split()
    if "L" not in t: return None
    try:
        p = t.index("L"); q = int(t[p + 1]); p += 2; out = []
        for _ in range(q):
            tag, w, L = t[p], t[p + 1], int(t[p + 2]); ids = t[p + 3:p + 3 + L]; p += 3 + L
            if tag not in ("F", "NF") or len(ids) != L: return None
            out.append("%s %s %s" % (tag, hexnorm(w), " ".join(ids)))
        return out
    except Exception:
        return None


def phase_answers(go):
    """what the lookup must have answered in every phase of a model run"""
    _, cycles, ws, fnd, _ = go
    return ["%s %s %s" % ("F" if f == "1" else "NF", hexnorm(w), " ".join(map(str, cy))) for cy, w, f in zip(cycles, ws, fnd)]


def lookup_case(alg, sets, gt):
    return "L %s %d %s %s" % (alg, len(sets), " ".join("%d %s" % (len(sg), " ".join(map(str, sg))) for sg in sets), gt)


def lookup_model_case(case, impl):
    """'L alg q sets graph' + the harness line (FVS / ORD oracles) -> case of the model entry `lookup`"""
    t = case.split(); alg = t[1]
    f = lib.fields(impl, KEYS + ["L"])
    fvs, order = f.get("FVS", []), f.get("ORD", [])
    picks = fvs if alg == "fvs" else []
    return "%s %d %s %d %s" % (" ".join(t[1:]), len(picks), " ".join(picks), len(order), " ".join(order))


def strip_strict(mline):
    t = mline.split()
    if "STRICT" in t:
        return " ".join(t[:t.index("STRICT")]), t[t.index("STRICT") + 1] if t.index("STRICT") + 1 < len(t) else "?"
    return mline, "?"


def cands_model_case(case, impl):
    """'C <graph>' + the harness line -> case of the model entry `cands` (pick oracle = the sources of the F trees)"""
    t = impl.split()
    picks = []
    try:
        p = t.index("F"); k = int(t[p + 1]); p = p + 2 + 3 * k
        if t[p] == "T":
            nt = int(t[p + 1]); n = int(case.split()[1]); p += 2
            for _ in range(nt):
                picks.append(t[p]); p += 1 + n
    except Exception:
        pass
    return "%s %d %s" % (" ".join(case.split()[1:]), len(picks), " ".join(picks))


def check_model_weights(mline, n, es):
    """the model's per-phase weights: the returned value is their left-to-right binary64 sum (C09_returned_value_is_fold on the
    extracted code) and each is the rounded weight of its cycle. returns None or a reason"""
    t = mline.split()
    if "W" not in t or "RET" not in t: return None
    try:
        ret, cycles = parse_out(" ".join(t[:t.index("W")]))
        ws = [float.fromhex(x) for x in t[t.index("W") + 1:]]
    except Exception:
        return "unparsable model line"
    if len(ws) != len(cycles): return "model printed %d weights for %d cycles" % (len(ws), len(cycles))
    acc = 0.0
    for w in ws: acc = acc + w
    if acc.hex() != ret.hex(): return "model's returned value %s is not the left-to-right sum %s of its phase weights" % (ret.hex(), acc.hex())
    for cy, w in zip(cycles, ws):
        S = sum((Fraction(es[i][2]) for i in cy), Fraction(0))
        if abs(Fraction(w) - S) > TOL * S: return "model's phase weight %r is not the weight %r of its cycle %s" % (w, float(S), cy)
    return None


# --------------------------------------------------------------------------------------------------------------
# known finding D9
# --------------------------------------------------------------------------------------------------------------
def findings_by_kind():
    """failure kind -> known-finding entries (D9: empty cycle / below the optimum; D9b: valid basis above the optimum; D9c: the TBB
    lookup adds numeric_limits::max for the phase whose lookup came up empty)"""
    out = {}
    for f in lib.known_findings(PID):
        if f.get("entry") in ("iso", "iso_tbb"):
            for k in f.get("kinds", []): out.setdefault(k, []).append(f)
    return out


def applies(f, alg):
    """an entry recorded for `iso` covers the sequential and the TBB entry point (same construction); one recorded for `iso_tbb` only the latter"""
    return alg == "iso_tbb" if f.get("entry") == "iso_tbb" else alg in ("iso", "iso_tbb")


KIND_NOTFINITE = "not finite"


def is_known(fk, alg, es, kind, impl=None):
    """a failure is known only for (entry point iso / iso_tbb as recorded) x (weights outside the exact domain) x (a listed kind).
    'not finite' (D9c with two or more empty lookups: numeric_limits::max added twice) additionally needs the run itself: it must return
    +inf and emit at least two empty cycles."""
    if not (alg in ("iso", "iso_tbb") and any(applies(f, alg) for f in fk.get(kind, [])) and not in_exact_domain([w for _, _, w in es])):
        return False
    if kind == KIND_NOTFINITE:
        try: ret, cycles = parse_out(impl or "")
        except Exception: return False
        return ret == float("inf") and sum(1 for cy in cycles if not cy) >= 2
    return True


def model_explains(case, impl, kinds, n, es, optc, seq_model_line=None):
    """does the binary64 trees model predict the failure `kinds` of this run of iso / iso_tbb?  returns a description or None.
    iso: the model's whole run (std::sort order recovered from the run) is bit-identical to the implementation's, empty cycles included.
    iso_tbb (which tied cycle is kept depends on the schedule; not compared exactly): an empty cycle is predicted iff, replaying the run's own
    cycles, the model's lookup comes up empty exactly at the phases where the run emitted an empty cycle; a wrong weight without empty cycle
    iff the model's SEQUENTIAL run on the same graph shows the same kind."""
    t = case.split(); alg = t[1]
    if " RET " not in " " + impl: return None
    try: ret, cycles = parse_out(impl)
    except Exception: return None
    if alg == "iso":
        m = lib.run_model("run", [trees_model_case(case, impl)], par=1, group=GROUP)[0]
        if canon(impl) != canon_model(m): return None
        go = parse_go(m)
        if go is None: return None
        if KIND_EMPTY in kinds and "0" not in go[3]: return None
        return "model run bit-identical (phases without answer: %s)" % [j for j, f in enumerate(go[3]) if f == "0"]
    if alg == "iso_tbb":
        empties = [j for j, cy in enumerate(cycles) if not cy]
        if empties:
            if any(not isinstance(x, int) for cy in cycles for x in cy): return None
            m = lib.run_model("explain", [replay_model_case(case, impl, cycles)], par=1, group=GROUP)[0]
            tm = m.split()
            if not tm or tm[0] != "EXPLAINED": return None
            if [j for j, b in enumerate(tm[1:]) if b == "0"] != empties: return None
            return "replaying the run's cycles, the model's lookup is empty at phases %s" % empties
        if seq_model_line is None:
            io = lib.run_lines([os.path.join(lib.BUILD, "c09")], ["A iso " + " ".join(t[2:])], par=1)[0]
            seq_model_line = lib.run_model("run", [trees_model_case("A iso " + " ".join(t[2:]), io)], par=1, group=GROUP)[0]
        mk = {k for k, _ in judge(n, es, canon_model(seq_model_line), optc)}
        if kinds <= mk: return "the model's sequential run on the same graph shows the same kind(s)"
        return None
    return None


def replay_witnesses(c, exe, fk, hits):
    """run the stored witnesses of every entry (5 times each: the outcome must not depend on the heap layout); stale => NOTE"""
    seen = set(); nw = 0; explained = {}
    for f in [x for fl in fk.values() for x in fl]:
        if f["id"] in seen: continue
        seen.add(f["id"])
        kinds_f = set(f.get("kinds", []))
        wit = f.get("witnesses") or [f["witness"]]
        lines = [w for w in wit for _ in range(5)]
        outs = lib.run_lines([exe], lines, par=1)
        for w in wit:
            nw += 1
            t = w.split(); n, es, _ = parse_fgraph(t, 2)
            oc = {}
            def optc():
                if "v" not in oc: oc["v"] = opt_exact(n, es)
                return oc["v"]
            kinds = set()
            for l, o in zip(lines, outs):
                if l != w: continue
                ks = {k for k, _ in judge(n, es, o, optc)}
                kinds |= ks if ks else {None}
            other = {k for k in kinds if k is not None and not all(is_known(fk, t[1], es, k, o) for l, o in zip(lines, outs) if l == w)}
            if other:
                c.violation("known finding %s: the stored witness now fails in another way: %s" % (f["id"], sorted(other)),
                            {"component": "c09", "case": w, "kind": "witness"}, True)
            if not (kinds & kinds_f):
                msg = "stale known finding %s: witness '%s' no longer fails with any of the listed kinds %s; change its status to fixed" % (f["id"], w, sorted(kinds_f))
                c.notes.append(msg); print("NOTE: property=C09 " + msg)
            elif None in kinds:
                msg = "known finding %s: witness '%s' fails only in some runs (layout dependent)" % (f["id"], w)
                c.notes.append(msg); print("NOTE: property=C09 " + msg)
            for k in kinds & kinds_f:
                h = hits.setdefault(k, [0, w]); h[0] += 1
            # the binary64 model must predict the stored failure
            o0 = [o for l, o in zip(lines, outs) if l == w][0]
            how = model_explains(w, o0, kinds & kinds_f, n, es, optc)
            explained.setdefault(f["id"], []).append(how or "NOT PREDICTED")
            if how is None and (kinds & kinds_f):
                c.violation("known finding %s: the binary64 trees model does not predict the failure of the stored witness (the finding is observed, not explained)" % f["id"],
                            {"component": "c09", "case": w, "impl": o0, "kind": "witness-model",
                             "theorem_or_correspondence": "correspondence c09/trees: TreesFloatModel.tf_mcb_sva_trees_go / tf_mcb_sva_trees_explain vs harness/c09.cpp"}, False)
    c.extra["known_finding_witnesses_replayed"] = nw
    c.extra["known_finding_witnesses_predicted_by_model"] = explained


# --------------------------------------------------------------------------------------------------------------
def check(tier, seed):
    c = lib.Check(PID, tier, seed, THEOREMS)
    c.rule = ("(entry point in {signed, fvs_trees, iso_trees}) x simple graph (55% tie-rich families: grids, hypercubes, K_ab, wheels, cycles, theta, K_n; else the "
              "structured/random families of gen.structural) x double weights in [1e-3,1e3] (decimal grids with few distinct values, constant, two values, random "
              "uniform / log-uniform doubles, near-integers, tie-prone sums such as 0.1+0.2 vs 0.3, dyadic = exact domain); all 4-cycles on a 0.1-grid; direct "
              "bidirectional_signed_dijkstra calls with rounded limits; for every graph: all shortest-path trees, the three candidate collections, whole runs of the two "
              "tree-based entry points, direct ShortestOddCycleLookup calls on the signed edge sets of every phase and on random signed sets; distinct by md5; "
              "non-trivial = cycle space dimension >= 2 (algorithm runs) or a found path / cycle (search and lookup calls)")
    c.step_prove()
    ok = step_model(c)
    exe = c.harness(**HARNESS)
    if not (ok and exe):
        return c.finish(explanation="model or harness did not build")
    fk = findings_by_kind()
    hits = {}                                       # kind -> [count, first case]
    if fk:
        replay_witnesses(c, exe, fk, hits)
    else:
        c.notes.append("no known finding listed for C09: every failure is a violation")
    acases = [(cs, "corpus") for cs in lib.corpus_cases(PID) if cs.startswith("A ")]
    bcases = [cs for cs in lib.corpus_cases(PID) if cs.startswith("B ")]
    c.extra["corpus_cases"] = len(acases) + len(bcases)
    acases += alg_cases(c.rng, tier)
    acases += tree_extra_cases(c.rng, tier)
    acases += small_cycle_cases() if tier == "thorough" else small_cycle_cases()[::7]
    bcases += bidir_cases(c.rng, tier)
    lines = [a[0] for a in acases]
    io = lib.run_lines([exe], lines)
    # the same runs in the other supported build configurations (logging on, invariant checks off, assertions active) must print the same bits
    def _cfg_judge(case, out):
        if not out.startswith(("RET", "ROOTS")) and " RET " not in out:
            return "the entry point does not return a basis on inexact weights (%s)" % out[:160]
        return None
    def _cfg_canon(out):
        # the pointer order of the edge descriptors (EORD) differs from build to build, hence the choice among equally light cycles and, on inexact weights,
        # the last bits of the returned value: what must agree is that a basis of the same size is returned (its quality is judged in the default configuration)
        t = out.split()
        return ("returned", t[t.index("N") + 1]) if " RET " in out and "N" in t else out
    lib.config_differential(c, "c09", HARNESS["srcs"], lines, io, judge=_cfg_judge, canon=_cfg_canon, libs=HARNESS["libs"], flags=HARNESS["flags"], limit=700)
    sidx = [i for i, l in enumerate(lines) if l.split()[1] == "signed" and " RET " in io[i]]
    mo = lib.run_model("signed", [model_case_of(lines[i], io[i]) for i in sidx], group=GROUP)
    model_out = dict(zip(sidx, mo))
    # the plain entry (mcb_sva_signed_F) must print the same as the weight-reporting one (FloatProofs.mcb_sva_signed_w_fst on the extracted code)
    sub = sidx[::10]
    mp = lib.run_model("signed_plain", [model_case_of(lines[i], io[i]) for i in sub], group=GROUP)
    nviol = {}
    def report(kind, i, why, found=True, extra=None):
        if nviol.get(kind, 0) >= 3: return
        nviol[kind] = nviol.get(kind, 0) + 1
        rep = {"component": "c09", "case": lines[i], "impl": io[i]}
        if i in model_out: rep["model"] = model_out[i]; rep["model_case"] = model_case_of(lines[i], io[i])
        rep.update(extra or {})
        c.violation(why, rep, found)
    for i, p in zip(sub, mp):
        if canon_model(model_out[i]) != canon_model(p):
            report("plain", i, "extracted mcb_sva_signed_F and mcb_sva_signed_F_w disagree (FloatProofs.mcb_sva_signed_w_fst on the extracted code)", False,
                   {"theorem_or_correspondence": "extraction of SignedFloatModel", "plain": p})
    # ---- E-level: the tree-based variants, whole runs against the binary64 trees model --------------------------------------
    tidx = [i for i, l in enumerate(lines) if l.split()[1] in TREE_ALGS and " RET " in io[i]]
    tmo = lib.run_model("run", [trees_model_case(lines[i], io[i]) for i in tidx], group=GROUP)
    tmodel = dict(zip(tidx, tmo))
    seq_iso = {" ".join(lines[i].split()[2:]): tmodel[i] for i in tidx if lines[i].split()[1] == "iso"}     # graph -> the model's sequential iso run
    ntrees_bit = 0; known_runs = []
    optcache = {}
    nexact = 0; nbit = 0
    for i, l in enumerate(lines):
        t = l.split(); alg = t[1]; n, es, _ = parse_fgraph(t, 2)
        m = len(es); N = m - n + O.components(n, es)
        exactdom = in_exact_domain([w for _, _, w in es]); nexact += exactdom
        c.count(l, N >= 2, bucket="%s %s %s N%s" % (alg, acases[i][1], "exact-domain" if exactdom else "inexact",
                                                    "0" if N == 0 else "1" if N == 1 else "2-5" if N <= 5 else "6-15" if N <= 15 else ">15"))
        key = " ".join(t[2:])
        def optc(key=key, n=n, es=es):
            if key not in optcache: optcache[key] = opt_exact(n, es)
            return optcache[key]
        probs = judge(n, es, io[i], optc)
        for kind, msg in probs:
            if is_known(fk, alg, es, kind, io[i]):
                h = hits.setdefault(kind, [0, l]); h[0] += 1
                known_runs.append((i, kind))
            else:
                dom = "" if not exactdom else " (weights in the EXACT domain)"
                report("judge " + kind, i, "mcb_sva_%s%s: %s: %s" % ({"signed": "signed", "fvs": "fvs_trees", "iso": "iso_trees", "signed_tbb": "signed_tbb", "fvs_tbb": "fvs_trees_tbb", "iso_tbb": "iso_trees_tbb"}[alg], dom, kind, msg))
        if i in model_out:
            mw = check_model_weights(model_out[i], n, es)
            if mw: report("model-weights", i, "binary64 model: " + mw, False, {"theorem_or_correspondence": "Properties_C09.C09_returned_value_is_fold on the extracted model"})
            if canon(io[i]) != canon_model(model_out[i]):
                if probs:
                    pass                           # already reported with its input
                else:
                    report("corr", i, "bit-exact correspondence mcb_sva_signed vs extracted SignedFloatModel (cycles in order and returned double, recovered root/pointer "
                           "order) no longer checks; the implementation's answer still satisfies the property text", False,
                           {"theorem_or_correspondence": "correspondence c09/signed: SignedFloatModel.mcb_sva_signed_F vs harness/c09.cpp"})
            else:
                nbit += 1
        elif alg == "signed":
            pass                                   # no answer: reported by judge
        if i in tmodel:
            if canon(io[i]) == canon_model(tmodel[i]):
                ntrees_bit += 1
            elif any(not is_known(fk, alg, es, k, io[i]) for k, _ in probs):
                pass                               # already reported with its input
            else:
                report("corr-trees", i, "bit-exact correspondence mcb_sva_%s_trees vs extracted TreesFloatModel (cycles in emission order incl. empty ones, returned double; "
                       "recovered root order, feedback vertex set and std::sort arrangement) no longer checks; the implementation's answer %s"
                       % (alg, "still satisfies the property text" if not probs else "fails only in the way of a known finding"), False,
                       {"theorem_or_correspondence": "correspondence c09/trees: TreesFloatModel.tf_mcb_sva_trees_go vs harness/c09.cpp", "model": tmodel[i],
                        "model_case": trees_model_case(lines[i], io[i])})
    # ---- every matched known-finding run must be predicted by the model -------------------------------------------------------
    pred = {}
    by_run = {}
    for i, kind in known_runs: by_run.setdefault(i, set()).add(kind)
    for i, kinds in sorted(by_run.items()):
        t = lines[i].split(); alg = t[1]; n, es, _ = parse_fgraph(t, 2); key = " ".join(t[2:])
        def optc(key=key, n=n, es=es):
            if key not in optcache: optcache[key] = opt_exact(n, es)
            return optcache[key]
        if alg == "iso":
            how = None
            if i in tmodel and canon(io[i]) == canon_model(tmodel[i]):
                go = parse_go(tmodel[i])
                if go is not None and (KIND_EMPTY not in kinds or "0" in go[3]): how = "bit-identical"
        else:
            how = model_explains(lines[i], io[i], kinds, n, es, optc, seq_iso.get(key))
        for kind in kinds:
            pk = pred.setdefault("%s / %s" % (alg, kind), [0, 0]); pk[1] += 1; pk[0] += how is not None
        if how is None and alg != "iso":           # (a sequential run the model does not reproduce is already reported above)
            report("known-unpredicted", i, "mcb_sva_iso_trees_tbb: a failure matching a known finding (%s) is NOT predicted by the binary64 trees model" % sorted(kinds), False,
                   {"theorem_or_correspondence": "correspondence c09/trees: TreesFloatModel.tf_mcb_sva_trees_explain vs harness/c09.cpp"})
    c.extra["known_finding_runs_predicted_by_model"] = {k: "%d of %d" % (a, b) for k, (a, b) in sorted(pred.items())}
    # ---- per-phase answers: the real ShortestOddCycleLookup on the signed edge sets of the model's phases + random signed sets --
    lcases = [cs for cs in lib.corpus_cases(PID) if cs.startswith("L ")]; lexp = [None] * len(lcases)
    for i in tidx:
        go = parse_go(tmodel[i])
        if go is None or canon(io[i]) != canon_model(tmodel[i]) or not go[1]: continue
        t = lines[i].split()
        lcases.append(lookup_case(t[1], go[4], " ".join(t[2:]))); lexp.append(phase_answers(go))
    gts = sorted({" ".join(lines[i].split()[2:]) for i in tidx})
    c.rng.shuffle(gts)
    for gt in gts[:120 if tier == "quick" else 1500]:
        m = int(gt.split()[1])
        if m == 0: continue
        sets = []
        for _ in range(5):
            k = c.rng.choice([1, 1, 2, 3, max(1, m // 2)])
            sets.append(sorted(c.rng.sample(range(m), min(k, m))))
        for alg in TREE_ALGS:
            lcases.append(lookup_case(alg, sets, gt)); lexp.append(None)
    lio = lib.run_lines([exe], lcases)
    lmo = lib.run_model("lookup", [lookup_model_case(cs, o) for cs, o in zip(lcases, lio)], group=GROUP)
    nl = 0; nphase = 0
    for cs, o, mo_, ex in zip(lcases, lio, lmo, lexp):
        a, b = lookup_answers(o), lookup_answers(mo_)
        c.count(cs, a is not None and any(x.startswith("F ") for x in a), bucket="lookup " + cs.split()[1] + (" phases-of-a-run" if ex is not None else " random-signed-sets"))
        bad = None
        if a is None or b is None or a != b: bad = "direct ShortestOddCycleLookup calls vs extracted TreesFloatModel.tf_lookup_direct (found / weight / edge set) no longer agree"
        elif ex is not None and a != ex: bad = "the per-phase answers of the model's run are not what the real ShortestOddCycleLookup answers on the same signed edge sets"
        else: nphase += len(a) if ex is not None else 0
        if bad and nl < 3:
            nl += 1
            c.violation("bit-exact correspondence: " + bad, {"component": "c09", "case": cs, "impl": o, "model": mo_, "expected_phases": ex,
                        "theorem_or_correspondence": "correspondence c09/lookup: TreesFloatModel.ts_lookup vs harness/c09.cpp (kind L)"}, False)
    # ---- the acceptance model of TreesModel.v accepts every run without empty cycle ---------------------------------------------
    aidx = [i for i in tidx if canon(io[i]) == canon_model(tmodel[i])]
    aidx = [i for i in aidx if all(cy for cy in parse_out(io[i])[1])]
    amo = lib.run_model("accept", [replay_model_case(lines[i], io[i], parse_out(io[i])[1]) for i in aidx], group=GROUP)
    nacc = 0; naccdiff = 0; nrej = 0
    for i, a in zip(aidx, amo):
        ta = a.split()
        if ta and ta[0] == "ACC":
            nacc += 1
            if hexnorm(ta[1]) != parse_out(io[i])[0].hex(): naccdiff += 1
        elif nrej < 3:
            nrej += 1
            report("accept", i, "the acceptance model (TreesModel.mcb_sva_trees_accept over the collection as executed) rejects a run of mcb_sva_%s_trees that the "
                   "scan-order model reproduces bit-exactly" % lines[i].split()[1], False,
                   {"theorem_or_correspondence": "correspondence c09/trees: TreesFloatModel.tf_mcb_sva_trees_accept_dflt vs harness/c09.cpp", "accept": a})
    # ---- trees (T) and collections (C) of the same graphs -----------------------------------------------------------------------
    tgs = gts
    tcases = [cs for cs in lib.corpus_cases(PID) if cs.startswith(("T ", "C "))] + ["T " + gt for gt in tgs] + ["C " + gt for gt in tgs]
    tio = lib.run_lines([exe], tcases)
    tm_t = lib.run_model("trees", [" ".join(cs.split()[1:]) for cs in tcases if cs.startswith("T ")], group=GROUP)
    tm_c = lib.run_model("cands", [cands_model_case(cs, o) for cs, o in zip(tcases, tio) if cs.startswith("C ")], group=GROUP)
    it_t, it_c = iter(tm_t), iter(tm_c)
    nt = 0; strict = {}
    for cs, o in zip(tcases, tio):
        if cs.startswith("T "):
            mline = next(it_t); what = "every SPTree field of every source (LexSPModel over binary64)"; corr = "c09/sptrees: TreesFloatModel.tf_sptrees_all"
        else:
            mline, st = strip_strict(next(it_c)); strict[st] = strict.get(st, 0) + 1
            what = "the Horton / FVS / isometric collections in emission order with recorded weights (CandidatesModel over binary64, ISO builder with the std::map default)"
            corr = "c09/collections: TreesFloatModel.tf_horton_cycles / tf_fvs_cycles / tf_iso_cycles"
        c.count(cs, True, bucket="trees" if cs.startswith("T ") else "collections")
        if normhex(o) != normhex(mline) and nt < 3:
            nt += 1
            c.violation("bit-exact correspondence: %s no longer agree with the real code" % what,
                        {"component": "c09", "case": cs, "impl": o, "model": mline, "theorem_or_correspondence": "correspondence %s vs harness/c09.cpp" % corr}, False)
    c.extra["trees_runs_bit_exact"] = ntrees_bit
    c.extra["trees_runs_compared"] = len(tidx)
    c.extra["lookup_calls_compared"] = sum(int(cs.split()[2]) for cs in lcases)
    c.extra["run_phases_confirmed_by_direct_lookup"] = nphase
    c.extra["acceptance_model"] = {"runs_replayed": len(aidx), "accepted": nacc, "accepted_with_a_total_differing_in_bits": naccdiff}
    c.extra["sptree_and_collection_cases"] = len(tcases)
    c.extra["generic_iso_model_vs_builder_as_executed"] = strict
    # ---- E-level: bidirectional_signed_dijkstra vs binary64 model ------------------------------
    bio = lib.run_lines([exe], bcases)
    bmo = lib.run_model("bidir", [" ".join(b.split()[1:]) for b in bcases], group=GROUP)
    nb = 0
    def canb(s):
        t = s.split()
        if t and t[0] == "F": t[1] = hexnorm(t[1])
        return " ".join(t)
    for b, x, y in zip(bcases, bio, bmo):
        c.count(b, x.startswith("F "), bucket="bidir " + ("found" if x.startswith("F ") else "notfound"))
        if canb(x) != canb(y) and nb < 3:
            nb += 1
            c.violation("bit-exact correspondence bidirectional_signed_dijkstra vs extracted SignedFloatModel.bidir_F no longer checks (found/weight/edge set differ)",
                        {"component": "c09", "case": b, "impl": x, "model": y,
                         "theorem_or_correspondence": "correspondence c09/bidir: SignedModel.bidirectional_signed_dijkstra (binary64) vs harness/c09.cpp"}, False)
    c.extra["bidir_calls"] = len(bcases)
    c.extra["signed_bit_exact_runs"] = nbit
    c.extra["graphs"] = len({" ".join(l.split()[2:]) for l in lines})
    c.extra["exact_domain_cases"] = nexact
    c.extra["d9_hits"] = {k: v[0] for k, v in hits.items()}
    for kind, (cnt, first) in sorted(hits.items()):
        f0 = fk[kind][0]
        c.known(f0, "%s entry=mcb_sva_%s domain=inexact-weights kind=\"%s\" (%d run(s) incl. the stored witnesses; first: %s)" %
                (f0["id"], "iso_trees_tbb" if f0.get("entry") == "iso_tbb" else "iso_trees", kind, cnt, first[:200]))
    return c.finish(
        assumptions=["BFS root order and pointer order of edge descriptors are recovered from the run and fed to the model as oracles",
                     "boost::d_ary_heap_indirect<.,4,.> behaves as HeapModel.v (exact tie-breaking); std::set<Edge> iterates in pointer order",
                     "the harness is compiled for x86-64 SSE2 with -ffp-contract=off: every double operation is one correctly rounded IEEE-754 binary64 operation, "
                     "as Coq's kernel primitives PrimFloat.add / PrimFloat.ltb (the only 'axioms' Print Assumptions lists) and OCaml's +. / < are",
                     "weights are finite doubles in [1e-3, 1e3]; closed_plus' DBL_MAX shortcut is never taken (the model adds plainly)",
                     "tree-based variants: the feedback vertex set (pick oracle of greedy_fvs) and the arrangement std::sort leaves the candidates in are recovered from the "
                     "harness, which runs the same builder and the same std::sort call as _mcb_sva_trees on the same sequence (std::sort is deterministic on equal input "
                     "sequences); the model checks that the arrangement is a permutation, non-decreasing in the recorded weight",
                     "NOT proved, covered by this search only: a cycle is found in every phase under rounding, vertex-simplicity of the emitted cycles, the 1e-9 bound"],
        trusted_extra=["extraction library ExtrOCamlFloats (the one extra library of C09): PrimFloat.float/add/ltb/... -> module Float64 of Coq's kernel "
                       "(kernel/float64.ml: add x y = x +. y, lt x y = x < y), linked from the ocamlfind package coq-core.kernel with -rectypes; "
                       "ocaml/driver_c09.ml reads and prints hex floats (float_of_string / %h)",
                       "Python's fractions.Fraction / float.fromhex for the exact rational judge (own Horton + Gauss oracle on the integer-scaled graph)"],
        explanation="The structural theorems hold for an arbitrary weight type (hence for binary64). This run ties the binary64 models to the code bit-exactly "
                    "(signed variant and direct search calls; tree-based variants: every shortest-path tree field, the three candidate collections, whole runs of "
                    "mcb_sva_fvs_trees / mcb_sva_iso_trees incl. the empty cycles of known finding D9, every phase's lookup answer) and judges every answer of the three sequential entry points in exact rational arithmetic: valid "
                    "basis, returned value = sum of the emitted cycles (1e-9 relative), within 1e-9 relative of the true minimum. Failures of mcb_sva_iso_trees on "
                    "inexact weights of the kinds 'empty cycle emitted' / 'returned weight below the optimum' (D9) and 'valid basis, weight above the "
                    "optimum' (D9b) are known findings; their stored witnesses were replayed first, and every matched run is additionally checked to be PREDICTED by the binary64 trees "
                    "model (coverage.known_finding_runs_predicted_by_model / known_finding_witnesses_predicted_by_model; theorems C09_iso_d9_in_model, C09_iso_d9b_in_model).")


def replay(path):
    r = json.load(open(path))
    ok, log = build_model()
    exe, err = lib.build_cpp(**HARNESS)
    if not ok or exe is None:
        print("cannot build: ", log or err); return 1
    if "case" not in r:
        print("no case recorded (proof / build obligation):", r.get("what")); print("VIOLATION property=%s replay=%s" % (PID, path)); return 1
    line = r["case"]
    o = lib.run_lines([exe], [line], par=1)[0]
    print("case:", line); print("impl:", o)
    bad = None
    if line.startswith("B "):
        m = lib.run_model("bidir", [" ".join(line.split()[1:])], par=1, group=GROUP)[0]; print("model:", m)
        cx = lambda s: " ".join(hexnorm(x) if k == 1 and s.startswith("F ") else x for k, x in enumerate(s.split()))
        if cx(m) != cx(o): bad = "differs from the binary64 model"
    elif line.startswith("T "):
        m = lib.run_model("trees", [" ".join(line.split()[1:])], par=1, group=GROUP)[0]; print("model:", m)
        if normhex(m) != normhex(o): bad = "shortest-path trees differ from the binary64 model"
    elif line.startswith("C "):
        m, st = strip_strict(lib.run_model("cands", [cands_model_case(line, o)], par=1, group=GROUP)[0]); print("model:", m, "| generic ISO model:", st)
        if normhex(m) != normhex(o): bad = "candidate collections differ from the binary64 model"
    elif line.startswith("L "):
        m = lib.run_model("lookup", [lookup_model_case(line, o)], par=1, group=GROUP)[0]; print("model:", m)
        a, b = lookup_answers(o), lookup_answers(m)
        if a is None or a != b: bad = "lookup answers differ from the binary64 model"
        elif r.get("expected_phases") and a != r["expected_phases"]: bad = "lookup answers differ from the phases of the model's run"
    else:
        t = line.split(); alg = t[1]; n, es, _ = parse_fgraph(t, 2)
        oc = {}
        def optc():
            if "v" not in oc: oc["v"] = opt_exact(n, es)
            return oc["v"]
        probs = judge(n, es, o, optc)
        fk = findings_by_kind()
        unknown = [(k, msg) for k, msg in probs if not is_known(fk, alg, es, k, o)]
        for k, msg in probs:
            print(("known %s: " % fk[k][0]["id"] if (k, msg) not in unknown else "judge: ") + k + ": " + msg)
        if unknown: bad = unknown[0][0]
        if alg == "signed" and " RET " in " " + o:
            m = lib.run_model("signed", [model_case_of(line, o)], par=1, group=GROUP)[0]; print("model:", m)
            if canon_model(m) != canon(o) and not bad: bad = "differs from the binary64 model"
        if alg in TREE_ALGS and " RET " in " " + o:
            m = lib.run_model("run", [trees_model_case(line, o)], par=1, group=GROUP)[0]; print("model:", m)
            if canon_model(m) != canon(o) and not bad: bad = "differs from the binary64 trees model"
            if not bad and all(cy for cy in parse_out(o)[1]):
                a = lib.run_model("accept", [replay_model_case(line, o, parse_out(o)[1])], par=1, group=GROUP)[0]; print("acceptance model:", a)
                if not a.startswith("ACC"): bad = "rejected by the acceptance model"
        known = {k for k, _ in probs if (k, _) not in unknown}
        if known and alg in ("iso", "iso_tbb") and not bad:
            how = model_explains(line, o, known, n, es, optc)
            print("predicted by the binary64 trees model:", how)
            if how is None: bad = "a failure matching a known finding is not predicted by the model"
    print("result:", bad)
    if bad:
        print("VIOLATION property=%s replay=%s" % (PID, path)); return 1
    return 0
