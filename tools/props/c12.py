"""C12 — shortest-path trees are exact and mutually consistent.
Theorems: Properties_C12.v (every simple graph with positive integer weights, every source).  Tie: the real parmcb::SPTree (lex_dijkstra on the
4-ary indirect heap, node/child linking, first-in-path labels) for every source vs the extracted LexSPModel, compared EXACTLY (node?, weight,
predecessor edge, parent, first label per vertex).  Independently of the model every implementation answer is judged against the property text
(own Dijkstra, tree shape, first labels, reversal symmetry and sub-path closure across all sources).
Weight types: double, int and long long (64-bit integer weights above 2^53: sums that are not doubles, distinct weights that collide as doubles; the
extracted model works over Z, the kinds L / ALLL are given to it as I / ALLI), unsigned long (U / ALLU: an unsigned DistanceType, where differences of
distances wrap around; model kinds I / ALLI) and doubles of extreme magnitude or full mantissa: TS / ALLS = every weight multiplied by 2^scale, scale in
{-1000, -300, -70, -20, 40, 300, 900} (exact; the answer in the case's units must be that of T / ALL on the unscaled weights: comparisons of distances must
not depend on their magnitude), and integer-valued doubles just below 2^53 / n (`weigh_mant`: ~50 significant bits, every path and cycle sum still exact:
distances that differ by 1 unit in 2^50 are different).  A few graphs with more than 2^16 vertices (wheels whose hub has rim
neighbours with indices >= 65536) are judged against the property text only (too large for the list-based extracted model)."""
import json, heapq, os, concurrent.futures as cf
import lib, gen

PID = "C12"
THEOREMS = ["Properties_C12.v"]
LIBS = ["-ltbb", "-lboost_timer"]
GROUP = "c12"
ONE = ("T", "TV", "I", "L", "U", "TS")  # kinds that build one tree (T/TV/TS double, I int, L long long, U unsigned long); ALL / ALLI / ALLL / ALLU / ALLS build the trees of all sources
SCALED = ("TS", "ALLS")                # kind scale ...: double weights w * 2^scale
SCALES = (-1000, -300, -70, -20, 40, 300, 900)
EXACT_MAX = 9 * 10 ** 15               # harness/graph.hpp prints integer-valued doubles below 9e15 (< 2^53) as integers
LLONG_MAX = 2 ** 63 - 1
BIG_N = 2000                           # above this many vertices a case is judged against the property text only (no model run)


def model_line(case):
    """the extracted model computes over Z: the 64-bit kinds are given to it as the int kinds"""
    k, _, rest = case.partition(" ")
    if k in SCALED: rest = rest.partition(" ")[2]      # drop the scale: the model computes in the case's units
    return {"L": "I", "ALLL": "ALLI", "U": "I", "ALLU": "ALLI", "TS": "T", "ALLS": "ALL"}.get(k, k) + " " + rest


# ---------------------------------------------------------------------------------------------------------
# parsing
# ---------------------------------------------------------------------------------------------------------
def parse_tree(txt):
    """'T | 1 d p par f | 0 - - - f ...' -> list of (node, dist, pred, parent, first)"""
    parts = [p.split() for p in txt.strip().split("|")]
    if not parts or parts[0] != ["T"]: raise ValueError("bad tree " + txt[:80])
    out = []
    for p in parts[1:]:
        if len(p) != 5: raise ValueError("bad vertex entry %r" % p)
        if p[0] == "0": out.append((0, None, None, None, int(p[4])))
        else: out.append((1, int(p[1]), int(p[2]), int(p[3]), int(p[4])))
    return out


def parse_case(case):
    t = case.split()
    kind = t[0]
    p = 2 if kind in SCALED else 1
    if kind in ONE:
        s = int(t[p]); n, es, _ = lib.parse_graph_tokens(t, p + 1)
        return kind, s, n, es
    n, es, _ = lib.parse_graph_tokens(t, p)
    return kind, None, n, es


def parse_answer(kind, line):
    if kind in ONE: return [parse_tree(line)]
    parts = line.split(";")
    if parts[0].strip() != "ALL": raise ValueError("bad ALL answer " + line[:80])
    return [parse_tree(p) for p in parts[1:]]


# ---------------------------------------------------------------------------------------------------------
# the independent judge (property text)
# ---------------------------------------------------------------------------------------------------------
def dijkstra(n, es, s):
    adj = [[] for _ in range(n)]
    for (u, v, w) in es: adj[u].append((v, w)); adj[v].append((u, w))
    d = [None] * n; d[s] = 0; pq = [(0, s)]
    while pq:
        du, u = heapq.heappop(pq)
        if du != d[u]: continue
        for (v, w) in adj[u]:
            if d[v] is None or du + w < d[v]: d[v] = du + w; heapq.heappush(pq, (du + w, v))
    return d


def root_path(tree, s, v, n):
    """vertices s..v along predecessor edges, or None when the chain does not reach s within n steps"""
    p = [v]; x = v
    for _ in range(n + 1):
        if x == s: return p[::-1]
        if not tree[x][0] or tree[x][3] is None or tree[x][3] < 0: return None
        x = tree[x][3]; p.append(x)
    return None


def judge_tree(n, es, s, tree):
    if len(tree) != n: return "tree of source %d lists %d vertices, graph has %d" % (s, len(tree), n)
    d = dijkstra(n, es, s)
    for v in range(n):
        node, dv, pe, par, fst = tree[v]
        if d[v] is None:
            if node: return "source %d: unreachable vertex %d has a node" % (s, v)
            continue
        if not node: return "source %d: reachable vertex %d has no node" % (s, v)
        if dv != d[v]: return "source %d: vertex %d reports distance %s, true shortest distance is %d" % (s, v, dv, d[v])
        if v == s:
            if pe != -1: return "source %d: the root has a predecessor edge" % s
            if fst != s: return "source %d: first label of the root is %d" % (s, fst)
            continue
        if pe is None or not (0 <= pe < len(es)): return "source %d: vertex %d has no valid predecessor edge (%s)" % (s, v, pe)
        a, b, w = es[pe]
        if not ((a == v and b == par) or (b == v and a == par)): return "source %d: predecessor edge %d of vertex %d does not join it to its parent %s" % (s, pe, v, par)
        if not tree[par][0]: return "source %d: parent %d of vertex %d has no node" % (s, par, v)
        if tree[par][1] + w != dv: return "source %d: vertex %d: distance %d != parent's %d + edge weight %d" % (s, v, dv, tree[par][1], w)
    for v in range(n):
        if not tree[v][0] or v == s: continue
        p = root_path(tree, s, v, n)
        if p is None: return "source %d: the predecessor chain of vertex %d does not lead to the root" % (s, v)
        if len(set(p)) != len(p): return "source %d: the root path of vertex %d repeats a vertex" % (s, v)
        if tree[v][4] != p[1]: return "source %d: first label of vertex %d is %d, the root's child on its path is %d" % (s, v, tree[v][4], p[1])
    return None


def judge_consistency(n, trees):
    paths = [[None] * n for _ in range(n)]
    for s in range(n):
        for v in range(n):
            if trees[s][v][0]: paths[s][v] = root_path(trees[s], s, v, n)
    for s in range(n):
        for v in range(n):
            p = paths[s][v]
            if p is None: continue
            q = paths[v][s]
            if q is None or q[::-1] != p:
                return "the tree path %d->%d is %s but the tree path %d->%d is %s (not its reverse)" % (s, v, p, v, s, q)
            if len(p) >= 3:
                # every sub-path is a prefix of a suffix; prefixes are tree paths by construction, so suffixes decide
                q = paths[p[1]][v]
                if q != p[1:]:
                    return "the tree path %d->%d is %s but its sub-path from %d is not the chosen path %s" % (s, v, p, p[1], q)
                for i in range(1, len(p)):
                    if paths[s][p[i]] != p[:i + 1]:
                        return "the tree path %d->%d is %s but its prefix to %d is not the chosen path %s" % (s, v, p, p[i], paths[s][p[i]])
    return None


def judge(case, impl):
    """None when the implementation's answer satisfies the property text, else a description"""
    try:
        kind, s, n, es = parse_case(case)
    except Exception as ex:
        return "unparsable case"
    if impl.startswith(("IMPL-EXCEPTION", "CRASH")): return "SPTree construction failed: " + impl[:200]
    try:
        trees = parse_answer(kind, impl)
    except Exception as ex:
        return "unparsable answer: %s" % str(ex)[:200]
    if s is not None:
        return judge_tree(n, es, s, trees[0])
    if len(trees) != n: return "%d trees for %d vertices" % (len(trees), n)
    for r in range(n):
        why = judge_tree(n, es, r, trees[r])
        if why: return why
    return judge_consistency(n, trees)


def _judge_chunk(pairs):
    return [judge(cs, o) for cs, o in pairs]


def judge_all(cases, outs):
    pairs = list(zip(cases, outs))
    if len(pairs) < 64: return _judge_chunk(pairs)
    k = max(1, len(pairs) // (4 * lib.NPROC))
    chunks = [pairs[i:i + k] for i in range(0, len(pairs), k)]
    with cf.ProcessPoolExecutor(max_workers=lib.NPROC) as ex:
        res = list(ex.map(_judge_chunk, chunks))
    return [x for r in res for x in r]


# ---------------------------------------------------------------------------------------------------------
# generation
# ---------------------------------------------------------------------------------------------------------
def tie_family(rng, maxn):
    """graphs with many equal-length shortest paths"""
    r = rng.random()
    if r < 0.25:
        a = rng.randint(2, 5); b = rng.randint(2, max(2, maxn // a)); g = gen.grid(a, min(b, 8))
    elif r < 0.40:
        d = 2 if maxn < 8 else (3 if maxn < 16 else rng.choice([3, 4, 4, 5] if maxn >= 32 else [3, 4]))
        g = gen.hypercube(d)
    elif r < 0.60:
        a = rng.randint(1, max(1, maxn // 2)); b = rng.randint(1, max(1, maxn - a)); g = gen.bipartite(a, b)
    elif r < 0.72: g = gen.wheel(rng.randint(4, max(4, min(maxn, 16))))
    elif r < 0.80: g = gen.complete(rng.randint(3, min(maxn, 9)))
    elif r < 0.86: g = gen.petersen() if maxn >= 10 else gen.cycle(rng.randint(3, maxn))
    elif r < 0.93: g = gen.cycle(rng.randint(3, maxn))
    else: g = gen.theta(rng.randint(0, 4), rng.randint(1, 4), rng.randint(1, 4))
    if g[0] > maxn: g = gen.grid(2, max(2, maxn // 2))
    if rng.random() < 0.2 and g[0] + 2 <= maxn: g = gen.add_pendant_trees(rng, g, rng.randint(1, 2))
    if rng.random() < 0.1 and g[0] + 1 <= maxn: g = gen.add_isolated(g, 1)
    if rng.random() < 0.8: g = gen.relabel(rng, g[0], g[1])
    return g


def long_domain_ok(g):
    """graphs whose weights may be given to the library as `long long`: (m + 4) * sum(w) <= LLONG_MAX (the sufficient no-overflow precondition
    of gen.int_domain_ok with INT_MAX replaced by LLONG_MAX)"""
    n, es = g
    return (len(es) + 4) * sum(w for _, _, w in es) < LLONG_MAX


def weigh64(rng, g, style=None):
    """positive weights for the 64-bit integer instantiation (edge_weight_t = long long), with values ABOVE 2^53 so that (a) sums of a few of them are
    not representable as doubles, (b) distinct weights collide when rounded to double, (c) (m+4) * sum(w) < 2^63 (no overflow anywhere).  Styles:
    p53 = 2^53 + {0..8}; p54 = 2^54 + {0..3} (many equal weights; as doubles 2^54, 2^54+1, 2^54+2 are one value); ladder = 2^54 (2^53 when m > 20) + a permutation of
    0..m-1 (all distinct, groups of four / two collide as doubles, NOT in insertion order); top = 2^b + {0..5} with the largest b the graph allows (up to 2^60);
    mix = one to three heavy edges 2^b + {0..5} (53 <= b <= 60) among light ones (1..4).  Dense graphs (m > 30) only allow `mix`."""
    n, es = g; m = max(1, len(es))
    bmax = 60
    while bmax > 0 and (m + 4) * m * ((1 << bmax) + 256) >= LLONG_MAX: bmax -= 1
    style = style or rng.choice(["p53", "p53", "p54", "p54", "ladder", "ladder", "top", "mix"])
    if (style in ("p53", "top", "ladder") and bmax < 53) or (style == "p54" and bmax < 54): style = "mix"
    if style == "p53": ws = [(1 << 53) + rng.randint(0, 8) for _ in es]
    elif style == "p54": ws = [(1 << 54) + rng.randint(0, 3) for _ in es]
    elif style == "ladder":
        off = list(range(len(es))); rng.shuffle(off); ws = [(1 << min(54, bmax)) + o for o in off]
    elif style == "top": ws = [(1 << bmax) + rng.randint(0, 5) for _ in es]
    else:
        style = "mix"
        h = rng.randint(1, min(3, m)); b = 60
        while b > 40 and (m + 4) * (h * ((1 << b) + 256) + 4 * m) >= LLONG_MAX: b -= 1
        b = rng.randint(min(53, b), b)
        heavy = set(rng.sample(range(len(es)), min(h, len(es))))
        ws = [((1 << b) + rng.randint(0, 5)) if i in heavy else rng.randint(1, 4) for i in range(len(es))]
    g2 = (n, [(u, v, w) for (u, v, _), w in zip(es, ws)])
    assert long_domain_ok(g2)
    return g2, style


def weigh_mant(rng, g, style=None):
    """integer-valued DOUBLE weights with ~50 significant bits: W - r with W just below 9e15 / (n + 1) (so that every sum of at most n + 1 weights - every
    tentative distance, every path and every simple cycle - is an integer below 2^53, hence exact) and r in 0..3 (mostly 0: many ties, and path lengths
    that differ by 1..3 units in ~2^50, i.e. by less than 4 ulp relative).  Styles: near = all edges W - r; half = some edges ~W/2 - r, the others W - r
    (two light edges against one heavy one: near-equal lengths with different edge counts); p49 = 2^49 + {0..3} (n <= 7 only)."""
    n, es = g
    W = (EXACT_MAX - 1) // (max(n, 2) + 1)
    style = style or rng.choice(["near", "near", "half", "p49"])
    if style == "p49" and ((1 << 49) + 3) * (n + 1) >= EXACT_MAX: style = "near"
    def r(): return rng.choice([0, 0, 0, 1, 1, 2, 3])
    if style == "near": ws = [W - r() for _ in es]
    elif style == "half": ws = [(W // 2 - r()) if rng.random() < 0.6 else W - r() for _ in es]
    else: ws = [(1 << 49) + r() for _ in es]
    g2 = (n, [(u, v, w) for (u, v, _), w in zip(es, ws)])
    assert (n + 1) * max([1] + ws) < EXACT_MAX
    return g2, style


def small_tie_graph(rng, maxn=9):
    """small tie-heavy shapes (grid 3x3 / 2xk, C4..C8, theta, K4, K5, wheels, K_{2,3}, K_{3,3}, cube), relabelled"""
    r = rng.randrange(9)
    if r == 0: g = gen.grid(3, 3)
    elif r == 1: g = gen.grid(2, rng.randint(2, 4))
    elif r == 2: g = gen.cycle(rng.randint(4, 8))
    elif r == 3: g = gen.theta(rng.randint(0, 2), rng.randint(1, 3), rng.randint(1, 3))
    elif r == 4: g = gen.complete(rng.randint(3, 5))
    elif r == 5: g = gen.wheel(rng.randint(4, 8))
    elif r == 6: g = gen.bipartite(rng.randint(2, 3), 3)
    elif r == 7: g = gen.hypercube(3)
    else: g = gen.structural(rng, 7)
    if g[0] > maxn or g[0] == 0: g = gen.cycle(6)
    if rng.random() < 0.7: g = gen.relabel(rng, g[0], g[1])
    return g


def extreme_double_graphs(rng, nscaled, nmant):
    """[(scale | None, graph)]: nscaled graphs with small integer weights to be multiplied by 2^scale (every scale of SCALES in turn; weights <= 1000, so
    w * 2^scale is finite and normal), then nmant graphs with mantissa-heavy weights (weigh_mant; scale None).  Small tie-heavy shapes, always with a cycle."""
    out = []
    while len(out) < nscaled + nmant:
        g = small_tie_graph(rng) if rng.random() < 0.7 else tie_family(rng, 12)
        if g[0] > 12 or len(g[1]) - g[0] + gen.components(g[0], g[1]) < 1: continue
        if len(out) < nscaled:
            g, _ = gen.weigh(rng, g, rng.choice(["ties", "ties", "wide", "wide", "unit"]))
            out.append((SCALES[len(out) % len(SCALES)], g))
        else:
            if g[0] > 9: continue
            g, _ = weigh_mant(rng, g)
            out.append((None, g))
    return out


def big_wheels(rng):
    """`T s graph` cases on graphs with more than 2^16 vertices, judged against the property text only: a wheel with 65600 vertices (hub + rim, unit
    weights) plus a triangle, a path of three, a K2 and an isolated vertex.  (a) hub = vertex 0: the root's children / the rim neighbours of a high rim
    source have indices >= 65536; sources: the hub, a low rim vertex, a rim vertex >= 65536.  (b) hub = vertex 65590, source = a low rim vertex: the
    first label of nearly every vertex is the hub.  A wheel has depth <= 2, so lex_dijkstra's per-label vertex sets stay tiny."""
    W = 65600; n = W + 9
    def wheel(hub):
        rim = [v for v in range(W) if v != hub]
        es = [(hub, v, 1) for v in rim] + [(rim[i], rim[(i + 1) % len(rim)], 1) for i in range(len(rim))]
        es += [(W, W + 1, 1), (W + 1, W + 2, 1), (W, W + 2, 1), (W + 3, W + 4, 2), (W + 4, W + 5, 3), (W + 6, W + 7, 1)]
        return gen.graph_tokens((n, es))
    a, b = wheel(0), wheel(65590)
    return ["T 0 " + a, "T %d %s" % (rng.randint(1, 60000), a), "T %d %s" % (rng.randint(65537, W - 2), a), "T %d %s" % (rng.randint(1, 60000), b)]


def gen_cases(rng, tier):
    maxn = 14 if tier == "quick" else 40
    N = 330 if tier == "quick" else 3000
    cases = []
    for i in range(N):
        if rng.random() < 0.5:
            g = tie_family(rng, maxn); style = rng.choice(["unit", "unit", "unit", "ties", "ties", "wide"])
        else:
            g = gen.structural(rng, maxn); style = rng.choice(["unit", "ties", "ties", "wide", "pow2"])
        while g[0] > maxn: g = gen.structural(rng, maxn)
        g, style = gen.weigh(rng, g, style)
        intw = style != "pow2" and rng.random() < 0.3
        cases.append(("ALLI " if intw else "ALL ") + gen.graph_tokens(g))
        if g[0] > 0 and rng.random() < 0.25:
            s = rng.randrange(g[0])
            cases.append("%s %d %s" % ("I" if intw else rng.choice(["T", "TV"]), s, gen.graph_tokens(g)))
    if tier == "thorough":
        for n in range(0, 5):
            for g in gen.all_graphs(n):
                g2, _ = gen.weigh(rng, g, rng.choice(["unit", "ties"]))
                cases.append("ALL " + gen.graph_tokens(g2))
    # 64-bit integer weights above 2^53 (long long): ALLL / L (generated last: the double / int stream above is unchanged)
    for i in range(80 if tier == "quick" else 700):
        g = tie_family(rng, maxn) if rng.random() < 0.5 else gen.structural(rng, maxn)
        while g[0] > maxn: g = gen.structural(rng, maxn)
        g, style = weigh64(rng, g)
        cases.append("ALLL " + gen.graph_tokens(g))
        if g[0] > 0 and rng.random() < 0.3:
            cases.append("L %d %s" % (rng.randrange(g[0]), gen.graph_tokens(g)))
    # doubles of extreme magnitude (TS / ALLS: weights times 2^scale) and with ~50 significant bits (plain T / ALL); generated after everything above
    q = tier == "quick"
    for scale, g in extreme_double_graphs(rng, 70 if q else 700, 70 if q else 700):
        gt = gen.graph_tokens(g)
        cases.append(("ALLS %d %s" % (scale, gt)) if scale is not None else "ALL " + gt)
        if rng.random() < 0.3:
            s = rng.randrange(g[0])
            cases.append(("TS %d %d %s" % (scale, s, gt)) if scale is not None else "%s %d %s" % (rng.choice(["T", "TV"]), s, gt))
    # unsigned long weights (U / ALLU): small weights (routes that are first found long and later improved) and 64-bit weights above 2^53
    for i in range(70 if q else 700):
        g = tie_family(rng, maxn) if rng.random() < 0.5 else gen.structural(rng, maxn)
        while g[0] > maxn: g = gen.structural(rng, maxn)
        if rng.random() < 0.25: g, style = weigh64(rng, g)
        else: g, style = gen.weigh(rng, g, rng.choice(["ties", "ties", "wide", "wide", "unit", "f32tie"]))
        cases.append("ALLU " + gen.graph_tokens(g))
        if g[0] > 0 and rng.random() < 0.3:
            cases.append("U %d %s" % (rng.randrange(g[0]), gen.graph_tokens(g)))
    return cases


def long_history(rng, ncalls):
    """one SPTree construction (= one lex_dijkstra call) per line, all made by ONE thread of ONE process; see gen.history_plan"""
    fresh, private = gen.history_plan(ncalls)
    out = []
    for i in range(1, ncalls + 1):
        if i in fresh: out.append("T 0 " + gen.graph_tokens(gen.path_graph(fresh[i])))
        elif i in private: out.append("T 0 " + gen.graph_tokens(gen.private_graph(private[i])))
        else:
            g = gen.structural(rng, 6)
            if g[0] == 0: g = gen.path_graph(2)
            g, _ = gen.weigh(rng, g, rng.choice(["unit", "ties", "ties", "wide"]))
            out.append("T %d %s" % (rng.randrange(g[0]), gen.graph_tokens(g)))
    return out


def nontrivial(case):
    kind, s, n, es = parse_case(case)
    return len(es) - n + gen.components(n, es) >= 1      # at least one cycle: some pair has two paths


def check(tier, seed):
    c = lib.Check(PID, tier, seed, THEOREMS)
    maxn = 14 if tier == "quick" else 40
    c.rule = ("graphs n <= %d from tie-heavy families (unit/small-weight grids, hypercubes, K_ab, wheels, K_n, Petersen, cycles, theta) and the structured + random "
              "families of gen.structural (forests, disconnected, isolated vertices), weights unit/ties/wide/pow2 (double), unit/ties/wide (int) and 64-bit weights above 2^53 "
              "(long long: 2^53+r, 2^54+{0..3}, 2^54+permutation, 2^b+r up to b = 60, heavy/light mixes; (m+4)*sum(w) < 2^63), the same as unsigned long, "
              "small tie-heavy graphs with double weights times 2^scale (scale in -1000,-300,-70,-20,40,300,900) and with ~50-bit integer-valued doubles "
              "W-r, W ~ 9e15/(n+1), r in 0..3 (all path and cycle sums exact); for every graph "
              "the trees of ALL sources (built in a std::vector as the algorithms do), plus single trees; exact comparison with the model and an independent judge "
              "(distances, tree shape, first labels, reversal symmetry, sub-path closure); plus four single trees on wheels with 65609 vertices (judge only); "
              "distinct by md5; non-trivial = the graph has a cycle") % maxn
    c.step_prove()
    ok = c.step_model(GROUP)
    exe = c.harness(name="c12", srcs=["c12.cpp"], libs=LIBS)
    if ok and exe:
        cases = lib.corpus_cases(PID)
        c.extra["corpus_cases"] = len(cases)
        cases += gen_cases(c.rng, tier)
        io = lib.run_lines([exe], cases)
        mo = lib.run_model("c12", [model_line(cs) for cs in cases], group=GROUP)
        verdicts = judge_all(cases, io)
        lib.config_differential(c, "c12", ["c12.cpp"], cases, io, judge=judge, libs=LIBS, limit=400)
        # graphs with more than 2^16 vertices: judged against the property text only (one process each, in parallel)
        import random
        bigs = big_wheels(random.Random(seed * 7919 + 1212))
        with cf.ThreadPoolExecutor(max_workers=len(bigs)) as ex:
            bio = [r[0] for r in ex.map(lambda b: lib.run_lines([exe], [b], par=1, timeout=600), bigs)]
        with cf.ProcessPoolExecutor(max_workers=len(bigs)) as ex:
            bverd = list(ex.map(judge, bigs, bio))
        c.extra["big_graphs"] = [int(b.split()[2]) for b in bigs]
        for b, o, why in zip(bigs, bio, bverd):
            c.count(b[:200], True, bucket="big T")
            if why:
                c.violation("shortest-path trees on a graph with %s vertices (source %s): %s" % (b.split()[2], b.split()[1], why[:300]),
                            {"component": "c12", "case": b, "impl": o[:2000], "judge_only": True}, True)
        # a long history of SPTree constructions by ONE thread (state surviving between calls); judged where it differs from the model
        nshort, nh = len(cases), (70000 if tier == "quick" else 140000)
        hist = long_history(random.Random(seed * 7919 + 12), nh)
        c.extra["long_history_calls"] = nh
        io_h = lib.run_lines([exe], hist, par=1)
        mo_h = lib.run_model("c12", hist, group=GROUP)      # (T kinds only)
        cases, io, mo = cases + hist, io + io_h, mo + mo_h
        verdicts = list(verdicts) + [judge(hist[j], io_h[j]) if io_h[j] != mo_h[j] else None for j in range(nh)]
        bad = []
        ntrees = 0
        for i, cs in enumerate(cases):
            kind = cs.split(None, 1)[0]
            c.count(cs, nontrivial(cs), bucket=kind)
            ntrees += io[i].count("T |")
            if io[i] != mo[i]: bad.append(i)
        c.extra["trees_compared"] = ntrees
        c.extra["disagreements_checked"] = len(bad)
        rep = {}
        for i in sorted(bad, key=lambda j: len(cases[j])):
            why = verdicts[i]; key = why is not None
            if rep.get(key, 0) >= 2: continue
            rep[key] = rep.get(key, 0) + 1
            hd = {"history": {"seed": seed, "ncalls": nh, "index": i - nshort}} if i >= nshort else {}
            if why:
                c.violation("shortest-path trees: " + why + (" (call %d of a single-thread history of SPTree constructions)" % (i - nshort + 1) if hd else ""),
                            dict({"component": "c12", "case": cases[i], "impl": io[i], "model": mo[i]}, **hd), True)
            else:
                c.violation("correspondence c12 (SPTree vs extracted LexSPModel, exact) no longer checks; the implementation's answer still satisfies the property text",
                            {"component": "c12", "theorem_or_correspondence": "correspondence c12: extracted sptree_Z / sptrees_all_Z vs harness/c12.cpp",
                             "case": cases[i], "impl": io[i], "model": mo[i], **hd}, False)
        okset = set(bad)
        extra = [i for i in range(len(cases)) if i not in okset and verdicts[i]]
        for i in sorted(extra, key=lambda j: len(cases[j]))[:2]:
            c.violation("shortest-path trees: " + verdicts[i], {"component": "c12", "case": cases[i], "impl": io[i]}, True)
    return c.finish(
        assumptions=["exact domain: positive integer-valued weights whose path sums are exactly representable (double) / do not overflow (int, long long); closed_plus is then the addition",
                     "boost::out_edges / vertices of adjacency_list<vecS,vecS,undirectedS> iterate in insertion order; std::set<size_t> and std::set_difference behave as the sorted duplicate-free lists of the model",
                     "boost::d_ary_heap_indirect<.,4,...> behaves as HeapModel.v (sift-up while strictly smaller, leftmost smallest child)"],
        explanation="Every per-vertex field of every tree (node?, weight, predecessor edge, parent, first label; value-initialised first label 0 for vertices without node) is compared exactly "
                    "with the extracted model; every implementation answer is additionally judged against the property text by an independent Python checker (own Dijkstra; tree shape; "
                    "first labels; path(u,v) = reverse path(v,u); suffix and prefix closure of every chosen path, which together give closure under all sub-paths).")


def replay(path):
    r = json.load(open(path))
    lib.ensure_model(GROUP)
    exe, err = lib.build_cpp(name="c12", srcs=["c12.cpp"], libs=LIBS)
    line = r["case"]
    if "history" in r:       # the failure needs the calls made before it by the same thread: regenerate the stream and run its prefix
        import random
        h = r["history"]
        hist = long_history(random.Random(h["seed"] * 7919 + 12), h["ncalls"])[:h["index"] + 1]
        assert hist[-1] == line, "history stream not reproducible"
        i = lib.run_lines([exe], hist, par=1)[-1]
    else:
        i = lib.run_lines([exe], [line], par=1)[0]
    big = r.get("judge_only") or parse_case(line)[2] > BIG_N      # too large for the list-based model: property text only
    m = i if big else lib.run_model("c12", [model_line(line)], par=1, group=GROUP)[0]
    why = judge(line, i)
    print("case :", line[:2000]); print("impl :", i[:2000]); print("model:", "(not run: judged against the property text only)" if big else m[:2000]); print("judge:", why)
    if why or m != i:
        print("VIOLATION property=%s replay=%s" % (PID, path)); return 1
    return 0
