"""C14 — candidate cycle collections are sound, nested and sufficient.
Theorems: Properties_C14.v.  Tie: HortonCyclesBuilder / FVSCyclesBuilder / ISOCyclesBuilder on the real code vs the extracted
CandidatesModel (on top of LexSPModel; the feedback vertex set emitted by the implementation is the pick oracle of FvsModel), compared
EXACTLY and in emission order as lists of (root, edge, weight) together with every tree's predecessor edges.  Independently of the model
every implementation answer is judged against the property text: each candidate is a simple cycle through its root made of two root paths
that meet only at the root plus one non-tree edge, recorded weight = true weight; FVS and ISO collections are sub-collections of Horton's;
greedy selection by weight under GF(2) independence reaches the optimum weight and dimension on each collection (optimum from an own
Horton+Gauss oracle over independently computed shortest-path trees, cross-checked against the verified reference `optw` when it builds).
Weight types: double (A), int (AI) and long long (AL: 64-bit weights above 2^53, see props/c12.py weigh64; model and judge compute with unbounded integers).
AX: the caller's double weights are handed over through an EXTERNAL property map while the graph's interior edge_weight property holds decoys (recorded
weights must be the caller's).  AS scale: double weights times 2^scale (tiny / huge magnitudes, exact; the answer in the case's units must not change);
A with ~50-bit integer-valued doubles (props/c12.py weigh_mant: every path and cycle sum still exact)."""
import json, heapq, os, concurrent.futures as cf
import lib, gen

PID = "C14"
THEOREMS = ["Properties_C14.v"]
LIBS = ["-ltbb", "-lboost_timer"]
GROUP = "c14"


# ---------------------------------------------------------------------------------------------------------
# parsing
# ---------------------------------------------------------------------------------------------------------
def parse_case(case):
    t = case.split()
    n, es, _ = lib.parse_graph_tokens(t, 2 if t[0] == "AS" else 1)      # AS scale <graph>
    return t[0], n, es


def model_case(case, fv):
    """the model computes over Z in the case's units: every kind is given to it as A (AS without its scale), followed by the recovered feedback vertex set"""
    kind, n, es = parse_case(case)
    return "A %s %d %s" % (gen.graph_tokens((n, es)), len(fv), " ".join(map(str, fv)))


def parse_answer(n, line):
    """-> {X: (cycles [(root, e, w)], trees [(src, preds)])} for X in H, F, I"""
    t = line.split(); pos = 0; out = {}
    for X in "HFI":
        if t[pos] != X: raise ValueError("expected section %s, got %r" % (X, t[pos]))
        k = int(t[pos + 1]); pos += 2
        cyc = [(int(t[pos + 3 * i]), int(t[pos + 3 * i + 1]), int(t[pos + 3 * i + 2])) for i in range(k)]; pos += 3 * k
        if t[pos] != "T": raise ValueError("expected T in section %s" % X)
        nt = int(t[pos + 1]); pos += 2
        trees = []
        for _ in range(nt):
            trees.append((int(t[pos]), [int(x) for x in t[pos + 1:pos + 1 + n]])); pos += 1 + n
            if len(trees[-1][1]) != n: raise ValueError("short tree in section %s" % X)
        out[X] = (cyc, trees)
    if pos != len(t): raise ValueError("trailing tokens")
    return out


def fvs_of(n, line):
    try:
        return [src for src, _ in parse_answer(n, line)["F"][1]]
    except Exception:
        return []


# ---------------------------------------------------------------------------------------------------------
# independent oracle: optimum weight and dimension (Horton + Gauss over own shortest-path trees)
# ---------------------------------------------------------------------------------------------------------
def own_tree(n, adj, s):
    d = [None] * n; par = [None] * n; d[s] = 0; pq = [(0, s)]
    while pq:
        du, u = heapq.heappop(pq)
        if du != d[u]: continue
        for (v, w, e) in adj[u]:
            if d[v] is None or du + w < d[v]: d[v] = du + w; par[v] = (u, e); heapq.heappush(pq, (du + w, v))
    return d, par


def greedy_gf2(cands, dim):
    """cands: iterable of (weight, bitmask) sorted by weight; returns (total weight, #independent)"""
    basis = {}; tot = 0; k = 0
    for w, v in cands:
        if k >= dim: break
        while v:
            p = v.bit_length() - 1
            b = basis.get(p)
            if b is None: basis[p] = v; tot += w; k += 1; break
            v ^= b
    return tot, k


def optimum(n, es):
    adj = [[] for _ in range(n)]
    for e, (u, v, w) in enumerate(es): adj[u].append((v, w, e)); adj[v].append((u, w, e))
    dim = len(es) - n + gen.components(n, es)
    cands = []
    for x in range(n):
        d, par = own_tree(n, adj, x)
        mask = [0] * n; verts = [None] * n
        order = sorted((v for v in range(n) if d[v] is not None), key=lambda v: d[v])
        for v in order:
            if v == x: mask[v] = 0; verts[v] = frozenset([x])
            else:
                u, e = par[v]; mask[v] = mask[u] | (1 << e); verts[v] = verts[u] | {v}
        for e, (a, b, w) in enumerate(es):
            if d[a] is None or d[b] is None: continue
            if mask[a] >> e & 1 or mask[b] >> e & 1: continue
            if len(verts[a] & verts[b]) != 1: continue
            cands.append((w + d[a] + d[b], mask[a] | mask[b] | (1 << e)))
    cands.sort(key=lambda c: c[0])
    tot, k = greedy_gf2(cands, dim)
    return tot, k, dim


# ---------------------------------------------------------------------------------------------------------
# the judge (property text)
# ---------------------------------------------------------------------------------------------------------
def root_path(n, es, src, preds, v):
    """(vertices src..v, edges) along predecessor edges, or None"""
    vs = [v]; edges = []; x = v
    for _ in range(n + 1):
        if x == src: return vs[::-1], edges[::-1]
        e = preds[x]
        if e is None or e < 0 or e >= len(es): return None
        a, b, _ = es[e]
        if a == x: x = b
        elif b == x: x = a
        else: return None
        vs.append(x); edges.append(e)
    return None


def judge(case, impl, opt=None):
    """None when the answer satisfies the property text; opt = (weight, dim) from the verified reference, if available"""
    try:
        kind, n, es = parse_case(case)
    except Exception:
        return "unparsable case"
    if impl.startswith(("IMPL-EXCEPTION", "CRASH")): return "candidate construction failed: " + impl[:200]
    try:
        ans = parse_answer(n, impl)
    except Exception as ex:
        return "unparsable answer: %s" % str(ex)[:200]
    m = len(es)
    names = {"H": "Horton", "F": "FVS", "I": "isometric"}
    vectors = {}
    for X in "HFI":
        cyc, trees = ans[X]
        bysrc = {}
        for src, preds in trees: bysrc.setdefault(src, preds)
        vec = []
        seen = set()
        for (root, e, w) in cyc:
            if (root, e) in seen: return "%s collection lists candidate (root %d, edge %d) twice" % (names[X], root, e)
            seen.add((root, e))
            if root not in bysrc: return "%s candidate (root %d, edge %d): no tree with that root" % (names[X], root, e)
            if not (0 <= e < m): return "%s candidate has edge id %d out of range" % (names[X], e)
            preds = bysrc[root]; a, b, we = es[e]
            if e in preds: return "%s candidate (root %d, edge %d): the edge is a tree edge" % (names[X], root, e)
            pa = root_path(n, es, root, preds, a) if preds[a] != -2 else None
            pb = root_path(n, es, root, preds, b) if preds[b] != -2 else None
            if pa is None or pb is None: return "%s candidate (root %d, edge %d): an endpoint has no root path" % (names[X], root, e)
            if set(pa[0]) & set(pb[0]) != {root}:
                return "%s candidate (root %d, edge %d): the root paths %s and %s meet outside the root (not a simple cycle)" % (names[X], root, e, pa[0], pb[0])
            if len(set(pa[0])) != len(pa[0]) or len(set(pb[0])) != len(pb[0]): return "%s candidate (root %d, edge %d): a root path repeats a vertex" % (names[X], root, e)
            edges = pa[1] + pb[1] + [e]
            if len(set(edges)) != len(edges) or len(edges) < 3: return "%s candidate (root %d, edge %d) is not a simple cycle" % (names[X], root, e)
            true_w = sum(es[x][2] for x in edges)
            if true_w != w: return "%s candidate (root %d, edge %d) records weight %d, the cycle weighs %d" % (names[X], root, e, w, true_w)
            mask = 0
            for x in edges: mask |= 1 << x
            vec.append((w, mask))
        vectors[X] = (vec, seen)
    for X in "FI":
        extra = vectors[X][1] - vectors["H"][1]
        if extra: return "%s collection contains %s which is not in Horton's collection" % (names[X], sorted(extra)[0])
    otot, ok, dim = optimum(n, es)
    if ok != dim: return "internal: own oracle found %d of %d independent cycles" % (ok, dim)
    if opt is not None and opt != (otot, dim): return "internal: own oracle optimum %s differs from the verified reference %s" % ((otot, dim), opt)
    for X in "HFI":
        vec = sorted(vectors[X][0], key=lambda c: c[0])
        tot, k = greedy_gf2(vec, dim)
        if k != dim: return "%s collection spans only %d of the %d dimensions of the cycle space" % (names[X], k, dim)
        if tot != otot: return "greedy selection from the %s collection gives weight %d, the optimum is %d" % (names[X], tot, otot)
    return None


def _judge_chunk(items):
    return [judge(cs, o, opt) for cs, o, opt in items]


def judge_all(cases, outs, opts):
    items = list(zip(cases, outs, opts))
    if len(items) < 64: return _judge_chunk(items)
    k = max(1, len(items) // (4 * lib.NPROC))
    chunks = [items[i:i + k] for i in range(0, len(items), k)]
    with cf.ProcessPoolExecutor(max_workers=lib.NPROC) as ex:
        res = list(ex.map(_judge_chunk, chunks))
    return [x for r in res for x in r]


# ---------------------------------------------------------------------------------------------------------
# generation
# ---------------------------------------------------------------------------------------------------------
def gen_cases(rng, tier):
    from props import c12
    maxn = 12 if tier == "quick" else 32
    maxm = 40 if tier == "quick" else 90
    N = 300 if tier == "quick" else 2500
    cases = []
    while len(cases) < N:
        if rng.random() < 0.45:
            g = c12.tie_family(rng, maxn); style = rng.choice(["unit", "unit", "ties", "ties", "wide"])
        else:
            g = gen.structural(rng, maxn); style = rng.choice(["unit", "ties", "ties", "wide", "pow2"])
        if g[0] > maxn: continue
        if len(g[1]) > maxm:
            es = list(g[1]); rng.shuffle(es); g = (g[0], es[:maxm])
        g, style = gen.weigh(rng, g, style)
        intw = style != "pow2" and rng.random() < 0.3
        cases.append(("AI " if intw else "A ") + gen.graph_tokens(g))
    if tier == "thorough":
        for n in range(0, 5):
            for g in gen.all_graphs(n):
                g2, _ = gen.weigh(rng, g, rng.choice(["unit", "ties"]))
                cases.append("A " + gen.graph_tokens(g2))
    # 64-bit integer weights above 2^53 (long long; c12.weigh64): cycle weights that are not doubles, distinct weights that collide as doubles
    # (generated last: the double / int stream above is unchanged)
    n64 = 0
    while n64 < (70 if tier == "quick" else 600):
        g = c12.tie_family(rng, maxn) if rng.random() < 0.45 else gen.structural(rng, maxn)
        if g[0] > maxn: continue
        if len(g[1]) > maxm:
            es = list(g[1]); rng.shuffle(es); g = (g[0], es[:maxm])
        if len(g[1]) - g[0] + gen.components(g[0], g[1]) < 1 and rng.random() < 0.8: continue      # mostly graphs with cycles
        g, style = c12.weigh64(rng, g)
        cases.append("AL " + gen.graph_tokens(g)); n64 += 1
    # external weight map with decoys in the interior property (AX); doubles times 2^scale (AS) and ~50-bit integer-valued doubles (A): small tie-heavy graphs
    q = tier == "quick"
    nx = 0
    while nx < (60 if q else 600):
        g = c12.small_tie_graph(rng) if rng.random() < 0.5 else (c12.tie_family(rng, maxn) if rng.random() < 0.5 else gen.structural(rng, maxn))
        if g[0] > maxn or len(g[1]) > maxm or len(g[1]) - g[0] + gen.components(g[0], g[1]) < 1: continue
        g, style = gen.weigh(rng, g, rng.choice(["ties", "ties", "wide", "wide", "pow2"]))
        cases.append("AX " + gen.graph_tokens(g)); nx += 1
    for scale, g in c12.extreme_double_graphs(rng, 63 if q else 630, 60 if q else 600):
        cases.append(("AS %d %s" % (scale, gen.graph_tokens(g))) if scale is not None else "A " + gen.graph_tokens(g))
    return cases


def reference_opts(cases, limit_m):
    """verified optimum (weight, dim) from build/model_ref for the smaller cases; None where not computed"""
    opts = [None] * len(cases)
    try:
        ok, log = lib.ensure_model("ref")
    except Exception:
        ok = False
    if not ok: return opts, False
    idx, lines = [], []
    for i, cs in enumerate(cases):
        kind, n, es = parse_case(cs)
        if len(es) <= limit_m and n >= 1:
            idx.append(i); lines.append("%s %d %s" % (gen.graph_tokens((n, es)), n, " ".join(map(str, range(n)))))
    outs = lib.run_model("optw", lines, group="ref")
    for i, o in zip(idx, outs):
        t = o.split()
        if len(t) == 4 and t[0] == "OPT" and t[2] == "DIM":
            opts[i] = (int(t[1]), int(t[3]))
    return opts, True


def check(tier, seed):
    c = lib.Check(PID, tier, seed, THEOREMS)
    c.rule = ("graphs n <= %d, m <= %d from tie-heavy families (grids, hypercubes, K_ab, wheels, K_n, Petersen, theta) and gen.structural (forests, disconnected, "
              "random), weights unit/ties/wide/pow2 (double), unit/ties/wide (int) and 64-bit weights above 2^53 with (m+4)*sum(w) < 2^63 (long long); double weights through an external property map with decoys in the interior property (AX); "
              "small tie-heavy graphs with double weights times 2^scale (scale in -1000,-300,-70,-20,40,300,900; AS) and with ~50-bit integer-valued doubles W-r, W ~ 9e15/(n+1) "
              "(all path and cycle sums exact); per graph the Horton, FVS and isometric collections with all trees; exact comparison "
              "(emission order) with the model under the recovered feedback vertex set, plus the independent judge; distinct by md5; non-trivial = cycle space dimension >= 1") % ((12, 40) if tier == "quick" else (32, 90))
    c.step_prove()
    ok = c.step_model(GROUP)
    exe = c.harness(name="c14", srcs=["c14.cpp"], libs=LIBS)
    if ok and exe:
        cases = lib.corpus_cases(PID)
        c.extra["corpus_cases"] = len(cases)
        cases += gen_cases(c.rng, tier)
        io = lib.run_lines([exe], cases)
        lib.config_differential(c, "c14", ["c14.cpp"], cases, io, judge=judge, libs=LIBS, limit=400)
        mcases = []
        for cs, o in zip(cases, io):
            kind, n, es = parse_case(cs)
            fv = fvs_of(n, o)
            mcases.append(model_case(cs, fv))
        mo = lib.run_model("c14", mcases, group=GROUP)
        opts, have_ref = reference_opts(cases, 40 if tier == "quick" else 55)
        c.extra["verified_reference_optimum_used_for"] = sum(1 for o in opts if o is not None)
        if not have_ref: c.notes.append("build/model_ref did not build: optimum from the own Python oracle only")
        verdicts = judge_all(cases, io, opts)
        bad = []
        ncand = 0
        for i, cs in enumerate(cases):
            kind, n, es = parse_case(cs)
            c.count(cs, len(es) - n + gen.components(n, es) >= 1, bucket=kind)
            if io[i] != mo[i]: bad.append(i)
        c.extra["disagreements_checked"] = len(bad)
        rep = {}
        for i in sorted(bad, key=lambda j: len(cases[j])):
            why = verdicts[i]; key = why is not None
            if rep.get(key, 0) >= 2: continue
            rep[key] = rep.get(key, 0) + 1
            if why:
                c.violation("candidate collections: " + why, {"component": "c14", "case": cases[i], "impl": io[i], "model": mo[i], "model_case": mcases[i]}, True)
            else:
                c.violation("correspondence c14 (Horton/FVS/ISO builders vs extracted CandidatesModel, exact) no longer checks; the implementation's answer still satisfies the property text",
                            {"component": "c14", "theorem_or_correspondence": "correspondence c14: extracted horton_cycles_Z / fvs_cycles_Z / iso_cycles_Z vs harness/c14.cpp",
                             "case": cases[i], "impl": io[i], "model": mo[i], "model_case": mcases[i]}, False)
        okset = set(bad)
        extra = [i for i in range(len(cases)) if i not in okset and verdicts[i]]
        for i in sorted(extra, key=lambda j: len(cases[j]))[:2]:
            c.violation("candidate collections: " + verdicts[i], {"component": "c14", "case": cases[i], "impl": io[i], "model_case": mcases[i]}, True)
    return c.finish(
        assumptions=["exact domain: positive integer-valued weights with exactly representable sums (double) / sums that fit the type (int, long long); D9, inexact doubles, is out of scope here",
                     "the feedback vertex set is recovered from the sources of FVSCyclesBuilder's trees and fed to the model as the pick oracle of FvsModel.greedy_fvs",
                     "std::set<Edge> / std::map<pair<size_t, Edge>, vertex> are used for membership / lookup only; boost::connected_components as an equivalence only",
                     "optimum weight: own Python Horton+Gauss oracle over independently computed shortest-path trees, cross-checked against the verified reference optw (build/model_ref) on the smaller cases"],
        explanation="The three collections are compared exactly (emission order, root, edge, weight, every tree's predecessor edges) with the extracted model; every implementation answer is "
                    "judged against the property text (simple cycle through the root from two root paths meeting only at the root + one non-tree edge, true weight, nestedness, greedy optimum and dimension).")


def replay(path):
    r = json.load(open(path))
    lib.ensure_model(GROUP)
    exe, err = lib.build_cpp(name="c14", srcs=["c14.cpp"], libs=LIBS)
    line = r["case"]
    i = lib.run_lines([exe], [line], par=1)[0]
    kind, n, es = parse_case(line)
    fv = fvs_of(n, i)
    m = lib.run_model("c14", [model_case(line, fv)], par=1, group=GROUP)[0]
    why = judge(line, i)
    print("case :", line); print("impl :", i[:2000]); print("model:", m[:2000]); print("judge:", why)
    if why or m != i:
        print("VIOLATION property=%s replay=%s" % (PID, path)); return 1
    return 0
