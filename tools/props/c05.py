"""C05 — the approximate algorithms return a basis of the caller's graph with its true weight.
Theorems: Properties_C05.v (every simple graph, every k, every scan order, every oracle of the exact phase; the exact phase's
answer on the spanner is an explicit premise, reduced to the search specification for the signed variant).
Tie: exact comparison of approx_mcb_sva_signed with the extracted ApproxModel (spanner, every emitted cycle, returned value)
under the recovered scan order and the recovered oracles of the spanner graph; for the tree-based entry points exact
comparison of translation, dropped-edge cycles and returned value with the exact phase's answer supplied; parmcb::dijkstra
directly; every answer judged (count, caller's edge ids, simple cycles, GF(2)-independent, returned value = total weight
under the caller's weights) independently and by the verified checker mcbcheck.
Extension: Properties_C05_trees.v (premise-free for the tree-based entry points: exact phase = an ACCEPTED run of mcb_sva_fvs_trees on
the spanner; tie: the exact phase's answer recovered from the run is replayed through the extracted acceptance model on the spanner),
Properties_C03_approx.v / Properties_C03_approx_trees.v (the TBB dropped-edge builder modelled exactly: ApproxParModel.approx_run_tbb;
tie: harness/c05_tbb.cpp = unchanged headers on the controllable TBB shim under a bit-stream schedule and explicit, independent
insertion orders of the two concurrent_vectors; emitted cycles in emission order, returned value and schedule bits consumed must agree
exactly with the extracted model; TBB and sequential entry points must return the same value and the same multiset of dropped-edge
cycles).
Outside the exact domain (no model, no theorem): a small stream of INEXACT double weights (decimals such as 0.7, 0.1+0.2 given as hex floats; harness
kind Y) on cycles C_2k at k = half the length, C_2k with chords and small dense graphs is judged STRUCTURALLY only (count, simple cycles of the caller's
graph, independent, returned value = sum of the emitted weights up to 1e-9 relative): tools/approx_common.py inexact_cases / judge_inexact."""
import lib, approx_common

PID = "C05"
THEOREMS = ["Properties_C05.v", "Properties_C05_trees.v", "Properties_C03_approx.v", "Properties_C03_approx_trees.v"]


def check(tier, seed):
    c = lib.Check(PID, tier, seed, THEOREMS)
    c.rule = ("(entry point in {approx signed, fvs_trees, iso_trees}) x (double|int weights) x k in {0,1,2,3,5,50} x graph: families whose (2k-1)-spanner keeps cycles "
              "(long cycles, grids, Petersen, Heawood, Moebius-Kantor, theta, cycles with chords, figure-eights, hypercube) and the structured/random families of C01, "
              "weights unit/ties/wide/pow2; plus direct parmcb::dijkstra calls; distinct by md5; non-trivial = k >= 1 and cycle space dimension >= 1 "
              "(histogram: spanner kept everything / mixed / forest), or a dijkstra call reaching another vertex; "
              "TBB part: (approx signed_tbb, fvs_trees_tbb, iso_trees_tbb) x (double|int) x k in {0,1,2,3,5} x (dense graphs with many dropped edges, trees = none dropped, "
              "short cycles = exactly one dropped, girth families) x schedule bit stream (unsplit, all forks right-first / left-first, no fork, random with many forks) "
              "x insertion orders of `cycles` / `cycles_weights` (none, equal, different, invalid) x insertion order of the exact phase's supports")
    c.step_prove()
    approx_common.run(c, tier, "basis")
    approx_common.run_tbb(c, tier, "basis")
    return c.finish(
        assumptions=["std::sort's order among equal weights, the BFS root order and the pointer order of the SPANNER's edge descriptors are recovered from the run "
                     "(PARMCB_VERIF accessors on an object constructed exactly as the entry point does) and fed to the model as oracles",
                     "boost::d_ary_heap_indirect<.,4,.> behaves as HeapModel.v; adjacency_list<vecS,vecS> enumerates out-edges in insertion order",
                     "double weights are integer multiples of a power of two, sums below 2^53 (exact domain); closed_plus never saturates",
                     "theorem premise: the exact phase returns a cycle basis of the spanner (C01; discharged for the signed variant, for the tree-based variants "
                     "(accepted runs of mcb_sva_fvs_trees on the spanner) and for the three TBB variants)",
                     "TBB part: schedule semantics of tbb::parallel_for / parallel_reduce / concurrent_vector::push_back as SchedModel.v = harness/shim/tbb (read off oneTBB 2021.8); "
                     "cycles_weights is a local explicit specialisation tbb::concurrent_vector<double|int> in harness/c05_tbb.cpp (same behaviour as the shim's container, own insertion order)"],
        explanation="The theorems hold for every simple graph, k, scan order and oracle; this run ties ApproxModel to the code (exact cycle-by-cycle agreement) "
                    "and judges every emitted family of the public entry points after they returned: m-n+c cycles, ids of the caller's graph (a leaked internal "
                    "descriptor prints as ?), simple, independent, returned value = sum of the caller's weights. "
                    "The three *_tbb entry points run under the controllable TBB shim: exact agreement with the extracted approx_run_tbb (cycles in emission order, value, bits consumed), "
                    "same value / multiset of dropped-edge cycles as the sequential entry points, every answer judged. "
                    "Inexact double weights (outside the exact domain the theorems and models speak about) are covered by a structural judgement only: the emitted "
                    "family must still be m-n+c independent simple cycles of the caller's graph and the returned value their total weight up to rounding.")


def replay(path):
    return approx_common.replay_case(PID, path, "basis")
