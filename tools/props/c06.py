"""C06 — approximation guarantee: weight <= (2k-1) x optimum, exact for k = 1, k = 0 rejected.
Theorems: Properties_C06.v (k = 0 returns the error value before emitting; k = 1 drops nothing and — given a minimum basis
of the spanner from the exact phase — yields a minimum cycle basis of the caller's graph; the per-edge 2k bound and the global (2k-1) bound are proved: C06_edge,
C06_global*), Properties_C06_trees.v (premise-free k = 1 / (2k-1) statements for the tree-based entry points); the TBB entry
points: Properties_C03_approx*.v, registered under C05.  Tie: the correspondence of C05 (shared experiment, incl. the three
*_tbb entry points under the controllable TBB shim).  Judge: every answer's total weight
and returned value against the optimum from the verified `optw` (RefModel) and from the independent oracle:
<= (2k-1) * opt, = opt for k = 1, and k = 0 must print exactly `THROW runtime_error EMITTED 0`."""
import lib, approx_common

PID = "C06"
THEOREMS = ["Properties_C06.v", "Properties_C06_trees.v"]


def check(tier, seed):
    c = lib.Check(PID, tier, seed, THEOREMS)
    c.rule = ("(entry point in {approx signed, fvs_trees, iso_trees}) x (double|int weights) x k in {0,1,2,3,5,50} x graph (families of C05: girth > 2k families, "
              "structured, random; weights unit/ties/wide/pow2); distinct by md5; non-trivial = k = 0 (must throw) or cycle space dimension >= 1; "
              "TBB part as in C05 (three *_tbb entry points under bit-stream schedules and independent insertion orders)")
    c.step_prove()
    approx_common.run(c, tier, "bound")
    approx_common.run_tbb(c, tier, "bound")
    return c.finish(
        assumptions=["the optimum is computed by the verified reference (extracted RefModel.opt_weight) on the smaller graphs and by tools/mcb_oracle.py (Horton + Gauss) on all; they must agree",
                     "the (2k-1) bound (C06_global*, C06_global_fvs_trees, C03_approx_*_tbb) and the per-edge bound (C06_edge) are theorems about the models; they are additionally decided on every generated case",
                     "oracles and exact domain as in C05"],
        explanation="k = 0 and k = 1 are theorems about the model (tied to the code by the exact correspondence of C05); the (2k-1) factor is decided per generated "
                    "(graph, k) against the verified optimum.")


def replay(path):
    return approx_common.replay_case(PID, path, "bound")
