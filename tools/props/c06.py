"""C06 — approximation guarantee: weight <= (2k-1) x optimum, exact for k = 1, k = 0 rejected.
Theorems: Properties_C06.v (k = 0 returns the error value before emitting; k = 1 drops nothing and — given a minimum basis
of the spanner from the exact phase — yields a minimum cycle basis of the caller's graph; the per-edge 2k bound and the global (2k-1) bound are proved: C06_edge,
C06_global*), Properties_C06_trees.v (premise-free k = 1 / (2k-1) statements for the tree-based entry points); the TBB entry
points: Properties_C03_approx*.v, registered under C05.  Tie: the correspondence of C05 (shared experiment, incl. the three
*_tbb entry points under the controllable TBB shim).  Judge: every answer's total weight
and returned value against the optimum from the verified `optw` (RefModel) and from the independent oracle:
<= (2k-1) * opt, = opt for k = 1, and k = 0 must print exactly `THROW runtime_error EMITTED 0`.
The hop bound: the (2k-1) factor rests on the spanner dropping an edge only when its endpoints are joined by at most 2k-1 retained edges, which the
code decides with is_bfs_reachable(spanner, u, v, 2k-1).  A small stream of direct is_bfs_reachable calls (harness c15, `B s t hops <graph>`) on paths
with 300..700 vertices checks that decision where hop distances and hop bounds exceed 255 (large k on long sparse graphs), judged with the true hop distance."""
import json, random
import lib, approx_common

PID = "C06"
THEOREMS = ["Properties_C06.v", "Properties_C06_trees.v"]
C15_LIBS = ["-ltbb", "-lboost_timer"]


def hop_bound_stream(c, tier, seed):
    """is_bfs_reachable on long paths with hop bounds around and beyond 255 (props/c15.py deep_path_query), judged with the hop distance"""
    from props import c15
    exe, err = lib.build_cpp(name="c15", srcs=["c15.cpp"], libs=C15_LIBS)
    if exe is None:
        c.violation("implementation harness c15 does not compile against the working tree",
                    {"theorem_or_correspondence": "harness build c15", "log": err, "kind": "impl-build"}, False)
        return
    rng = random.Random(seed * 7919 + 606)
    cases = [cs for cs in lib.corpus_cases(PID) if cs.startswith("B ")]
    cases += [c15.deep_path_query(rng) for _ in range(60 if tier == "quick" else 600)]
    io = lib.run_lines([exe], cases)
    nbad = 0
    for cs, o in zip(cases, io):
        t = cs.split()
        c.count(cs, t[1] != t[2], bucket="is_bfs_reachable on a long path")
        why = c15.judge(cs, o)
        if why:
            nbad += 1
            if nbad <= 2:
                c.violation("hop-bounded reachability behind the (2k-1) guarantee (the spanner keeps/drops an edge by is_bfs_reachable(u, v, 2k-1)): " + why,
                            {"component": "c15", "case": cs, "impl": o}, True)
    c.extra["hop_bound_queries"] = len(cases)


def check(tier, seed):
    c = lib.Check(PID, tier, seed, THEOREMS)
    c.rule = ("(entry point in {approx signed, fvs_trees, iso_trees}) x (double|int weights) x k in {0,1,2,3,5,50} x graph (families of C05: girth > 2k families, "
              "structured, random; weights unit/ties/wide/pow2); distinct by md5; non-trivial = k = 0 (must throw) or cycle space dimension >= 1; "
              "TBB part as in C05 (three *_tbb entry points under bit-stream schedules and independent insertion orders); plus direct is_bfs_reachable calls on paths "
              "with 300..700 vertices, end to end and to inner vertices, hop bounds around 255/256/257/300/d-1/d/d+1/inf and between 256 and d")
    c.step_prove()
    hop_bound_stream(c, tier, seed)
    approx_common.run(c, tier, "bound")
    approx_common.run_tbb(c, tier, "bound")
    return c.finish(
        assumptions=["the optimum is computed by the verified reference (extracted RefModel.opt_weight) on the smaller graphs and by tools/mcb_oracle.py (Horton + Gauss) on all; they must agree",
                     "the (2k-1) bound (C06_global*, C06_global_fvs_trees, C03_approx_*_tbb) and the per-edge bound (C06_edge) are theorems about the models; they are additionally decided on every generated case",
                     "oracles and exact domain as in C05"],
        explanation="k = 0 and k = 1 are theorems about the model (tied to the code by the exact correspondence of C05); the (2k-1) factor is decided per generated "
                    "(graph, k) against the verified optimum.")


def replay(path):
    r = json.load(open(path))
    if r.get("component") == "c15":
        from props import c15
        exe, err = lib.build_cpp(name="c15", srcs=["c15.cpp"], libs=C15_LIBS)
        o = lib.run_lines([exe], [r["case"]], par=1)[0]
        why = c15.judge(r["case"], o)
        print("case :", r["case"][:2000]); print("impl :", o); print("judge:", why)
        if why:
            print("VIOLATION property=%s replay=%s" % (PID, path)); return 1
        return 0
    return approx_common.replay_case(PID, path, "bound")
