"""C07 — no undefined behaviour or leaked internals on valid inputs.
Logic half (theorems, Properties_C07.v): on valid inputs no model function takes an error branch (out-of-range index,
missing key, update of a vertex that is not in the queue, exhausted fuel, spanner descriptor leaving the library).
Runtime half (NOT a theorem; labelled partial): every correspondence harness is rebuilt from /repo's working tree with
-fsanitize=address,undefined (leak detection on) and fed the same generated valid inputs as the properties' own checks; any
sanitizer report is a concrete failing input."""
import re, json, os, subprocess, sys, glob, shutil, concurrent.futures as cf
import lib

PID = "C07"
THEOREMS = ["Properties_C07.v", "Properties_C07_more.v", "Properties_C07_overflow_more.v"]
# checks whose harnesses are re-run under the sanitizers (each rebuilds its harness through lib.build_cpp)
SUBCHECKS = ["C01", "C05", "C10", "C12", "C13", "C14", "C15", "C16", "C17", "C18", "C03", "C09", "C20", "C04"]


def run_sub(pid, tier, seed, build, sanlog):
    if not os.path.exists(os.path.join(lib.ROOT, "tools", "props", pid.lower() + ".py")):
        return pid, None, "no check module"
    env = dict(os.environ, VERIF_SANITIZE="asan", VERIF_BUILD=build, VERIF_SAN_LOG=sanlog, VERIF_SEED=str(seed))
    env["VERIF_C07_SUBRUN"] = "1"
    env["VERIF_SANITIZE_MPI"] = "1"           # the MPI harness of C04 is rebuilt with the sanitizers as well (leak detection off: Open MPI's own allocations)
    try:
        p = subprocess.run([sys.executable, os.path.join(lib.ROOT, "tools", "check.py"), pid, "--tier", tier, "--seed", str(seed)],
                           cwd=lib.ROOT, env=env, capture_output=True, text=True, timeout=3000)
        # a run of the sanitizer build that ends in a crash, an abort or an exception of the standard library's own consistency checks (std::length_error
        # from an inverted iterator range, std::bad_alloc from a wrapped size, std::out_of_range) on a VALID input is memory misbehaviour the sanitizers
        # have no report format for: keep those findings of the sub-check (with its replay file)
        crashes = []
        lines = p.stdout.splitlines()
        for i, l in enumerate(lines):
            if l.startswith("DETAIL") and re.search(r"CRASH|job died|did not return|IMPL-EXCEPTION|terminate called|std::(length_error|bad_alloc|out_of_range|bad_array_new_length)", l):
                rp = next((x for x in lines[i + 1:i + 3] if x.startswith("VIOLATION")), "")
                m = re.search(r"replay=(\S+)", rp)
                crashes.append({"detail": l[:700], "replay": m.group(1) if m else None})
        if crashes:
            with open(sanlog + ".crashes", "a") as f:
                for cr in crashes[:3]: f.write(json.dumps(dict(cr, sub=pid)) + "\n")
        return pid, p.returncode, p.stdout[-3000:]
    except subprocess.TimeoutExpired:
        return pid, 124, "TIMEOUT"


def check(tier, seed):
    c = lib.Check(PID, tier, seed, THEOREMS)
    c.rule = ("the generated valid-input streams of the checks %s (same generators, same seed) executed on harnesses rebuilt with "
              "-fsanitize=address,undefined -fno-sanitize-recover=all and leak detection; evaluations / distinct non-trivial = the sums of the "
              "counts each sub-check measured for its own stream (its own rule), executed here under the sanitizers") % ", ".join(SUBCHECKS)
    c.step_prove()
    build = os.path.join(lib.BUILD, "c07")
    os.makedirs(build, exist_ok=True)
    for f in glob.glob(os.path.join(lib.BUILD, "model*")):          # extracted models do not depend on /repo or on sanitizers
        if os.path.isfile(f): shutil.copy2(f, build)
    sanlog = os.path.join(build, "sanitizer.log")
    if os.path.exists(sanlog): os.remove(sanlog)
    if os.path.exists(sanlog + ".crashes"): os.remove(sanlog + ".crashes")
    subs = SUBCHECKS if tier == "thorough" else SUBCHECKS
    results = {}
    with cf.ThreadPoolExecutor(max_workers=12) as ex:
        for pid, rc, out in ex.map(lambda p: run_sub(p, "quick" if tier == "quick" else "quick", seed, build, sanlog), subs):
            results[pid] = (rc, out)
    ran = {}
    for pid, (rc, out) in results.items():
        if rc is None:
            c.notes.append("%s: %s" % (pid, out)); continue
        summ = [l for l in out.splitlines() if l.startswith(pid + " ")]
        ran[pid] = summ[-1] if summ else "rc=%s" % rc
        import re as _re
        mm = _re.search(r"(\d+) evaluations, (\d+) distinct non-trivial", ran[pid])
        ne, nd = (int(mm.group(1)), int(mm.group(2))) if mm else (0, 0)
        c.evaluations += ne                                   # executions of real code under the sanitizers, as counted by the sub-check
        for k in range(nd): c.nontrivial.add("%s#%d" % (pid, k))
        for k in range(nd): c.distinct.add("%s#%d" % (pid, k))
        c.hist[pid] = ne
        if len(c.samples) < 5: c.samples.append("%s stream under asan/ubsan: %s" % (pid, ran[pid]))
        if rc == 124:
            c.notes.append("%s: sanitizer run timed out" % pid)
    c.extra["subcheck_summaries"] = ran
    reports = []
    if os.path.exists(sanlog):
        for l in open(sanlog):
            try: reports.append(json.loads(l))
            except Exception: pass
    c.extra["sanitizer_reports"] = len(reports)
    seen = set()
    for r in reports:
        m = None
        import re
        m = re.search(r"(AddressSanitizer|LeakSanitizer|UndefinedBehaviorSanitizer)[^\n]*|runtime error:[^\n]*", r["report"])
        kind = (m.group(0) if m else "sanitizer report")[:160]
        key = (os.path.basename(r["cmd"][0]), kind[:60])
        if key in seen: continue
        seen.add(key)
        c.violation("%s on a valid input in harness %s: %s" % ("sanitizer report", os.path.basename(r["cmd"][0]), kind),
                    {"component": os.path.basename(r["cmd"][0]), "cmd": r["cmd"], "case": r["case"], "report": r["report"]}, True)
    ncr = 0
    if os.path.exists(sanlog + ".crashes"):
        for l in open(sanlog + ".crashes"):
            try: cr = json.loads(l)
            except Exception: continue
            ncr += 1
            if ncr > 3: continue
            rep = {"component": "subcheck " + cr["sub"], "subcheck_replay": cr.get("replay"), "detail": cr["detail"]}
            try: rep["subcheck_replay_content"] = json.load(open(cr["replay"]))
            except Exception: pass
            c.violation("the sanitizer build of %s's harness crashes / aborts / throws from the standard library's own checks on a valid input: %s" % (cr["sub"], cr["detail"][:400]), rep, True)
    c.extra["crashes_of_sanitizer_builds"] = ncr
    return c.finish(
        assumptions=["runtime half is exploration, not proof: clang/gcc AddressSanitizer + UndefinedBehaviorSanitizer + LeakSanitizer semantics; uninitialised reads are not covered (no MSan runtime)",
                     "the MPI harness of C04 runs under ASan/UBSan with leak detection off (Open MPI keeps allocations until exit); the real-TBB harness is not rebuilt with ASan here (its TSan run belongs to C03's thorough tier)"],
        explanation="Theorems: the error values of the models (index out of range, missing key, queue update of an absent vertex, fuel, leaked spanner descriptor) are "
                    "unreachable on valid inputs. Runtime: every harness stream re-executed under ASan/UBSan/LSan; a report is replayable with the recorded case.")


def replay(path):
    r = json.load(open(path))
    if "cmd" not in r:
        print("nothing to replay"); return 0
    exe = r["cmd"][0]
    env = dict(os.environ, ASAN_OPTIONS="detect_leaks=1:exitcode=97", UBSAN_OPTIONS="print_stacktrace=1:halt_on_error=1")
    if not os.path.exists(exe):
        print("sanitizer build %s no longer exists; re-run the check" % exe); return 1
    p = subprocess.run(r["cmd"], input=r["case"] + "\n", capture_output=True, text=True, env=env)
    print(p.stdout[-500:]); print(p.stderr[-2000:])
    if p.returncode != 0:
        print("VIOLATION property=%s replay=%s" % (PID, path)); return 1
    return 0
