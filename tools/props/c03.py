"""C03 — the TBB-parallel entry points keep their contract under every schedule.
Theorems: Properties_C03.v (schedule independence of the running-minimum reductions for EVERY schedule tree, push
permutation, the run is a run of the generic support-vector loop, footprints of the update tasks).
Tie: the UNCHANGED parmcb headers are compiled against the controllable fake TBB (harness/shim/tbb), which executes
every parallel construct under the schedule read from a bit stream; the extracted ParSignedModel consumes the same
stream.  mcb_sva_signed_tbb is compared EXACTLY (cycle by cycle, and the number of schedule bits consumed) with the
model; every answer of all six *_tbb entry points is judged against the property text (independent Python judge +
verified checker mcbcheck) under many schedules; the same entry points are run on the real oneTBB with 1, 2, 16 workers
(judged), and — thorough tier — under ThreadSanitizer (race clause: runtime evidence only, partial).
Tree-based exact variants (Properties_C03_trees.v, ParTreesModel.v): EXACT tie of the TBB lookup — harness/c03_trees.cpp calls
ShortestOddCycleLookup<...,true> (kind L), CandidateCycleBuilder with weight limits (kind B) and the entry points
mcb_sva_fvs_trees_tbb / mcb_sva_iso_trees_tbb (kind W) of the unchanged headers under the shim; the extracted model gets the graph, the
recovered arrangement std::sort left, the feedback vertex set, the BFS roots and the same bit stream and must agree exactly (candidate
order, every answer, cycles, returned value, bits consumed); every answer is also judged independently.
Boundary configurations: every experiment is repeated with the `long long` instantiation (kind token L) on 64-bit integer weights ABOVE 2^53 (props/c12.py
weigh64: sums that are not doubles, distinct weights that collide as doubles, (m+4)*sum(w) < 2^63) — the models compute over Z and never see the weight type; the
Python side computes with Python integers only (no float on the way).  Sizes beyond narrow index types: graphs with 257..400 vertices through the exact model
comparison (signed_tbb) and the tree lookup; cliques with pendant vertices on 310..330 vertices whose witnesses grow beyond n signed edges (the all-vertices
reduction over more than 255 vertices), and graphs with 66009 vertices (a star whose hub and cycle-carrying leaves have indices >= 65536 and < 256, plus a
4-cycle, a K2 and isolated vertices; harness kind G = no oracles) are judged against the property text only, through the 2-core of the graph (the
cycle space of a graph is that of its 2-core; the independent oracle then runs on a handful of vertices)."""
import json, os, re, subprocess, threading, random
import lib, gen, mcb_oracle as O, exact_common as X

PID = "C03"
THEOREMS = ["Properties_C03.v", "Properties_C02_trees.v", "Properties_C03_trees.v", "Properties_C03_approx.v", "Properties_C03_approx_trees.v"]
SHIM_LIBS = ["-lboost_timer"]
REAL_LIBS = ["-ltbb", "-lboost_timer"]
KEYS = ["ROOTS", "EORD", "RET", "N", "CYC", "SCHED", "SEQRET", "SEQN", "SEQW", "TRACE"]
EXACT = ["signed_tbb", "fvs_tbb", "iso_tbb"]
APPROX = ["approx_signed_tbb", "approx_fvs_tbb", "approx_iso_tbb"]
CORE_N = 100                 # graphs with more vertices are judged through their 2-core (same cycle space; the oracle builds a tree per vertex)
BIG_N = 2000                 # graphs with more vertices are judged only (no model run, harness kind G: no ROOTS / EORD oracles)
LLONG_MAX = 2 ** 63 - 1
CORR = "correspondence c03/signedtbb: ParSignedModel.mcb_sva_signed_tbb_Z vs harness/c03.cpp (parmcb_sva_signed_tbb.hpp on the controllable TBB shim)"


# ------------------------------------------------------------------------------------------------------------------
# cases
# ------------------------------------------------------------------------------------------------------------------
def int_ok(g):
    return gen.int_domain_ok(g)


def tcase(alg, k, ty, scale, bits, g, perm=None, trace=False):
    a = alg if k is None else "%s %d" % (alg, k)
    head = "%s %s %d %d %s" % (a, ty, scale, len(bits), bits or "-")
    if perm is None and not trace:
        return "%s %s %s" % ("G" if g[0] > BIG_N else "T", head, gen.graph_tokens(g))
    perm = perm or []
    return "X %s %d%s %d %s" % (head, len(perm), "".join(" %d" % p for p in perm), 1 if trace else 0, gen.graph_tokens(g))


def parse_case(line):
    """-> dict(kind, alg, k, ty, scale, bits, perm, trace, n, es, gpos)"""
    t = line.split(); p = 1
    alg = t[p]; p += 1
    k = None
    if alg.startswith("approx_") or (t[0] == "R" and alg.startswith("approx_")):
        k = int(t[p]); p += 1
    ty = t[p]; scale = int(t[p + 1]); p += 2
    if ty != "D": scale = 0                              # scale applies to double weights only
    d = {"kind": t[0], "alg": alg, "k": k, "ty": ty, "scale": scale, "bits": "", "perm": [], "trace": False, "workers": None}
    if t[0] == "R":
        d["workers"] = int(t[p]); p += 1
    else:
        nb = int(t[p]); d["bits"] = "" if t[p + 1] == "-" else t[p + 1]; p += 2
        if t[0] == "X":
            np_ = int(t[p]); d["perm"] = list(map(int, t[p + 1:p + 1 + np_])); p += 1 + np_
            d["trace"] = t[p] != "0"; p += 1
    n, es, _ = lib.parse_graph_tokens(t, p)
    d.update({"n": n, "es": es, "gpos": p})
    return d


def model_case(line, impl):
    d = parse_case(line); t = line.split()
    f = lib.fields(impl, KEYS)
    roots, eord = f.get("ROOTS", []), f.get("EORD", [])
    return "%s %d %s %d %s %d %s %d%s" % (" ".join(t[d["gpos"]:]), len(roots), " ".join(roots), len(eord), " ".join(eord),
                                          len(d["bits"]), d["bits"] or "-", len(d["perm"]), "".join(" %d" % p for p in d["perm"]))


def rand_bits(rng):
    r = rng.random()
    if r < 0.08: return ""                      # all-0: fully sequential, nothing split
    if r < 0.16: return "1"                     # split everything, forks, right parts first
    if r < 0.22: return "110"                   # split everything, forks, left first
    if r < 0.27: return "100"                   # split everything, no fork (same body continues)
    if r < 0.32: return "101"
    nb = rng.choice([2, 3, 5, 7, 8, 13, 21, 34, 55, 64])
    p = rng.choice([0.35, 0.5, 0.7, 0.85, 0.95])
    return "".join("1" if rng.random() < p else "0" for _ in range(nb))


def tree_codes(length):
    """bit prefixes = all schedule trees the shim can build for a range of `length` elements (pre-order code)"""
    if length < 2: return [""]
    h = length // 2
    out = ["0"]
    for f in "01":
        for r in "01":
            for a in tree_codes(h):
                for b in tree_codes(length - h):
                    out.append("1" + f + r + a + b)
    return out


def pick_ty(rng, g):
    r = rng.random()
    ty = ("U" if r < 0.1 else "I") if r < 0.4 and int_ok(g) else "D"       # U = unsigned long weights (positive weights in an unsigned type: differences wrap around)
    return ty, (0 if ty != "D" else rng.choice([0, 0, -3, 5]))


def shim_cases(rng, tier):
    """(line, graph) for the six entry points under random schedules"""
    ng = 600 if tier == "quick" else 2000
    maxn = 13 if tier == "quick" else 26
    out = []
    for i in range(ng):
        g, _ = X.gen_graph(rng, maxn if rng.random() < 0.85 else maxn + 8)
        streams = [rand_bits(rng) for _ in range(3)]
        if i % 7 == 0: streams[0] = ""
        if i % 7 == 1: streams[0] = "1"
        N = len(g[1]) - g[0] + O.components(g[0], g[1])
        for b in streams:
            ty, sc = pick_ty(rng, g)
            perm = None
            if N >= 2 and rng.random() < 0.25:
                perm = list(range(N)); rng.shuffle(perm)
            out.append((tcase("signed_tbb", None, ty, sc, b, g, perm), g))
            for alg in ("fvs_tbb", "iso_tbb"):
                ty, sc = pick_ty(rng, g)
                out.append((tcase(alg, None, ty, sc, b, g), g))
            for alg in APPROX:
                ty, sc = pick_ty(rng, g)
                k = rng.choice([1, 1, 2, 2, 3, 4])
                out.append((tcase(alg, k, ty, sc, b, g), g))
    # extra E-level pairs for the signed variant only (cheap): more schedules per graph
    extra = 6000 if tier == "quick" else 25000
    for i in range(extra):
        g, _ = X.gen_graph(rng, maxn)
        for _ in range(3):
            ty, sc = pick_ty(rng, g)
            out.append((tcase("signed_tbb", None, ty, sc, rand_bits(rng), g), g))
    return out


def real_cases(rng, tier, tsan=False):
    ng = (100 if tier == "quick" else 300) if not tsan else 80
    maxn = (22 if tier == "quick" else 40) if not tsan else 26
    out = []
    for i in range(ng):
        g, _ = X.gen_graph(rng, maxn)
        if len(g[1]) - g[0] + O.components(g[0], g[1]) < 2 and rng.random() < 0.8:
            g = gen.weigh(rng, gen.random_graph(rng, rng.randint(8, maxn), rng.choice([0.25, 0.4, 0.6])))[0]
        for alg in EXACT + APPROX:
            ty, sc = pick_ty(rng, g)
            k = None if alg in EXACT else rng.choice([1, 2, 2, 3])
            workers = [1, 2, 16] if not tsan else [rng.choice([2, 4, 16])]
            for w in workers:
                a = alg if k is None else "%s %d" % (alg, k)
                out.append(("R %s %s %d %d %s" % (a, ty, sc, w, gen.graph_tokens(g)), g))
    return out


def small_graphs(rng, count):
    """small weighted graphs whose parallel constructs mostly have <= 5 elements: all graphs on 4..5 vertices with dimension
    2..6 (incl. K5, where the all-vertices reduction runs over 5 vertices) and random graphs on 6..7 vertices with dimension
    3..5 (hidden-edge reductions over up to 5 signed edges)"""
    pool = []
    for n in (4, 5):
        for (nn, es) in gen.all_graphs(n):
            N = len(es) - nn + gen.components(nn, es)
            if 2 <= N <= 6: pool.append((nn, es))
    rng.shuffle(pool)
    dense = [g for g in pool if len(g[1]) - g[0] + gen.components(g[0], g[1]) >= 5][:count // 5]
    pool = dense + [g for g in pool if g not in dense][:count * 3 // 5 - len(dense)]
    while len(pool) < count:
        n = rng.choice([6, 7])
        big = len(pool) % 4 == 0                # every fourth: dimension 6..9, so that supports with 5 signed edges occur
        g = gen.random_graph(rng, n, rng.choice([0.6, 0.7]) if big else rng.choice([0.35, 0.45, 0.55]))
        N = len(g[1]) - g[0] + gen.components(g[0], g[1])
        if (6 <= N <= 9) if big else (3 <= N <= 5): pool.append(g)
    out = []
    for (nn, es) in pool[:count]:
        style = rng.choice(["unit", "ties", "ties", "wide"])
        out.append(gen.weigh(rng, (nn, list(es)), style)[0])
    return out



# ------------------------------------------------------------------------------------------------------------------
# boundary configurations: 64-bit integer weights above 2^53 (kind token L) and sizes beyond narrow index types
# ------------------------------------------------------------------------------------------------------------------
def weigh64(rng, g, style=None):
    from props import c12
    return c12.weigh64(rng, g, style)


def big_star(rng, variant):
    """a graph with 66009 vertices whose minimum cycle bases are known by construction: a star with hub h >= 65600 and 65999 leaves, a few leaf-leaf edges
    between leaves with indices < 256 and >= 65536 (inserted at random positions of the edge list), plus a 4-cycle (weights 2,3,4,5), a K2 and three isolated
    vertices behind the star.  Variants:
      tri    star edges 1; three disjoint leaf-leaf edges 5, 7, 9: their triangles through the hub are THE minimum cycle basis (3*2 + 5+7+9 = 27, + 14 = 41)
      rim    star edges 10; a 4-cycle a-b-c-d of weight-1 edges among the leaves and one more leaf-leaf edge 5: the light rim cycle contains four non-tree
             edges, so the later witnesses have several signed edges (hidden-edge reduction / its MPI slices): 4 + 3*21 + 25 + 14 = 106
      dense  star edges 10; K6 on six leaves with weights 1..3: ten light triangles inside the K6 and five cycles through the hub
    -> (graph, expected optimum or None)"""
    n_star = 66000
    n = n_star + 9
    hub = rng.randint(65600, n_star - 1)
    low = rng.sample(range(0, 256), 3)
    high = rng.sample([v for v in range(65536, n_star) if v != hub], 3)
    mid = rng.sample(range(300, 60000), 2)
    expect = None
    if variant == "tri":
        ws = 1; extra = [(low[0], high[0], 5), (high[1], low[1], 7), (high[2], mid[0], 9)]; expect = 27 + 14
    elif variant == "rim":
        ws = 10; a, b, c, d = low[0], high[0], low[1], high[1]
        extra = [(a, b, 1), (c, b, 1), (c, d, 1), (a, d, 1), (high[2], low[2], 5)]; expect = 4 + 3 * 21 + 25 + 14
    else:
        ws = 10; sp = low + high; rng.shuffle(sp)
        extra = [((sp[i], sp[j]) if rng.random() < 0.5 else (sp[j], sp[i])) + (rng.randint(1, 3),) for i in range(6) for j in range(i + 1, 6)]
    es = [((hub, v, ws) if v % 2 else (v, hub, ws)) for v in range(n_star) if v != hub]
    W = n_star
    for e in extra + [(W, W + 1, 2), (W + 2, W + 1, 3), (W + 2, W + 3, 4), (W + 3, W, 5), (W + 4, W + 5, 6)]:
        es.insert(rng.randrange(len(es) + 1), e)
    if expect is not None:       # self-test of the judge's route (2-core + independent oracle) against the value known by construction
        cn, ces, _ = two_core(n, es)
        assert O.mcb(cn, ces)[0] == expect, "big_star(%s): oracle on the 2-core says %s, by construction %s" % (variant, O.mcb(cn, ces)[0], expect)
    return (n, es), expect


def clique_pendants(rng, k=45, n=320, style="ties", w64=False, place="high"):
    """K_k plus n - k pendant vertices: cycle space dimension k(k-1)/2 - k + 1 >> n, so that witnesses grow to >= n signed edges and the all-vertices
    reduction (parallel_reduce over all n > 255 vertices; its MPI vertex slices) is reached; judged through the 2-core (the clique).  place = high: the clique
    occupies the LAST k vertex indices (all above 255: every cycle lives beyond the range of an 8-bit index), low: the first k, random: anywhere; the edge list is
    shuffled in every case"""
    _, es = gen.complete(k)
    es = list(es) + [(rng.randrange(k), v, 1) for v in range(k, n)]
    if place == "high": es = [(n - 1 - u, n - 1 - v, w) for (u, v, w) in es]
    if w64:      # few distinct heavy values: many ties, as with style `ties`
        m = len(es); b = 60
        while (m + 4) * m * ((1 << b) + 4) >= LLONG_MAX: b -= 1
        g = (n, [(u, v, (1 << b) + rng.randint(0, 3)) for (u, v, _) in es])
    else:
        g = gen.weigh(rng, (n, es), style)[0]
    if place == "random": return gen.relabel(rng, g[0], g[1])
    es = [(v, u, w) if rng.random() < 0.5 else (u, v, w) for (u, v, w) in g[1]]; rng.shuffle(es)
    return (n, es)


def mid_sparse(rng, w64=False):
    """257..400 vertices (beyond uint8 indices), cycle space dimension <= 12, sometimes with a second component and isolated vertices: small enough for the
    exact model comparison"""
    n = rng.randint(257, 400)
    g = gen.random_connected_sparse(rng, n, rng.randint(3, 12))
    r = rng.random()
    if r < 0.3: g = gen.disjoint_union(g, gen.cycle(rng.randint(3, 6)))
    if r > 0.8: g = gen.add_isolated(g, 2)
    g = gen.relabel(rng, g[0], g[1])
    if w64: return weigh64(rng, g)[0]
    return gen.weigh(rng, g, rng.choice(["unit", "ties", "ties", "wide"]))[0]


def shim_cases64(rng, tier):
    """the six entry points on 64-bit integer weights above 2^53 (L) under random schedules"""
    ng = 130 if tier == "quick" else 700
    maxn = 13 if tier == "quick" else 22
    out = []
    for i in range(ng):
        g, _ = X.gen_graph64(rng, maxn)
        N = len(g[1]) - g[0] + O.components(g[0], g[1])
        for b in (rand_bits(rng), rand_bits(rng) if i % 5 else "1"):
            perm = None
            if N >= 2 and rng.random() < 0.25:
                perm = list(range(N)); rng.shuffle(perm)
            out.append((tcase("signed_tbb", None, "L", 0, b, g, perm), g))
            for alg in ("fvs_tbb", "iso_tbb"): out.append((tcase(alg, None, "L", 0, b, g), g))
            for alg in APPROX: out.append((tcase(alg, rng.choice([1, 1, 2, 2, 3, 4]), "L", 0, b, g), g))
    for i in range(500 if tier == "quick" else 3000):          # more schedules for the signed variant (exact comparison with the model)
        g, _ = X.gen_graph64(rng, maxn)
        for _ in range(2): out.append((tcase("signed_tbb", None, "L", 0, rand_bits(rng), g), g))
    return out


def size_cases(rng, tier):
    """shim cases beyond narrow index types: (a) 257..400 vertices through the exact model comparison (signed_tbb) and the judge (fvs_tbb, approximate variants), double / int / long
    long weights; (b) K45 / K48 + pendants on 310 / 330 vertices, signed_tbb, judged only (the all-vertices reduction over more than 255 vertices); (c) 66009 vertices, signed_tbb and
    fvs_tbb under the trivial and a forking schedule, judged only.  No isometric variant on (c): it builds a tree per vertex."""
    out = []
    for i in range(10 if tier == "quick" else 40):
        w64 = i % 3 == 2
        g = mid_sparse(rng, w64)
        ty = "L" if w64 else "I" if (i % 3 == 1 and int_ok(g)) else "D"
        for b in ("", rand_bits(rng)): out.append((tcase("signed_tbb", None, ty, 0, b, g), g))
        out.append((tcase("fvs_tbb", None, ty, 0, rand_bits(rng), g), g))
        if i % 2: out.append((tcase(APPROX[i % 3], 2, ty, 0, rand_bits(rng), g), g))
    for i in range(2 if tier == "quick" else 6):
        g = clique_pendants(rng, rng.choice([45, 48]), rng.choice([310, 330]), rng.choice(["ties", "unit"]), w64=(i % 2 == 1), place=("high", "high", "random", "low")[i % 4])
        out.append((tcase("signed_tbb", None, "L" if i % 2 else "D", 0, "" if i % 2 else "1101", g), g))
    for i, variant in enumerate(("tri", "rim", "dense")):
        g, _ = big_star(rng, variant)
        ty = "L" if i == 1 else "D"
        out.append((tcase("signed_tbb", None, ty, 0, "", g), g))
        out.append((tcase("signed_tbb", None, ty, -3 if ty == "D" else 0, "1", g), g))
        if variant != "tri" or tier != "quick":
            out.append((tcase("fvs_tbb", None, ty, 0, "" if variant == "dense" else "110", g), g))
    return out


def real_cases64(rng, tier):
    """real oneTBB: the six entry points on 64-bit weights; the size cases of size_cases (signed_tbb, fvs_tbb) with 2 and 16 workers"""
    out = []
    def rline(alg, k, ty, w, g):
        a = alg if k is None else "%s %d" % (alg, k)
        return ("R %s %s 0 %d %s" % (a, ty, w, gen.graph_tokens(g)), g)
    for i in range(25 if tier == "quick" else 120):
        g, _ = X.gen_graph64(rng, 22 if tier == "quick" else 36)
        for alg in EXACT + APPROX:
            k = None if alg in EXACT else rng.choice([1, 2, 2, 3])
            for w in (1, 2, 16): out.append(rline(alg, k, "L", w, g))
    for i in range(3 if tier == "quick" else 10):
        g = mid_sparse(rng, i % 2 == 0)
        for alg in ("signed_tbb", "fvs_tbb", "iso_tbb"): out.append(rline(alg, None, "L" if i % 2 == 0 else "D", rng.choice([2, 16]), g))
    g = clique_pendants(rng, 45, 320, "ties", w64=True)
    for w in (2, 16): out.append(rline("signed_tbb", None, "L", w, g))
    for i, variant in enumerate(("rim", "dense") if tier == "quick" else ("tri", "rim", "dense")):
        g, _ = big_star(rng, variant)
        out.append(rline("signed_tbb", None, "D" if i else "L", 16, g))
        out.append(rline("fvs_tbb", None, "D" if i else "L", 2 if i else 16, g))
    return out


# ------------------------------------------------------------------------------------------------------------------
# judging
# ------------------------------------------------------------------------------------------------------------------
def two_core(n, es):
    """the 2-core of the graph (repeatedly remove vertices of degree <= 1), renumbered: (n', edges', {edge id of g: edge id of the core}).  An edge
    outside the 2-core lies on no cycle, so the cycle space — hence every minimum cycle basis and the dimension m - n + c — of g is that of its 2-core."""
    deg = [0] * n; adj = [[] for _ in range(n)]
    for i, (u, v, _) in enumerate(es):
        deg[u] += 1; deg[v] += 1; adj[u].append((v, i)); adj[v].append((u, i))
    gone = [False] * len(es); dead = [False] * n
    st = [v for v in range(n) if deg[v] <= 1]
    while st:
        v = st.pop()
        if dead[v]: continue
        dead[v] = True
        for (u, i) in adj[v]:
            if not gone[i]:
                gone[i] = True; deg[u] -= 1; deg[v] -= 1
                if deg[u] <= 1 and not dead[u]: st.append(u)
    vid = {}; ces = []; emap = {}
    for i, (u, v, w) in enumerate(es):
        if gone[i]: continue
        for x in (u, v):
            if x not in vid: vid[x] = len(vid)
        emap[i] = len(ces); ces.append((vid[u], vid[v], w))
    return len(vid), ces, emap


_CORES = {}


def reduce_to_core(n, es, cycles):
    """(n', es', cycles') on the 2-core, or a string: why the emitted family cannot be a cycle basis of g"""
    key = (n, len(es), hash(tuple(es)))
    if key not in _CORES:
        if len(_CORES) > 64: _CORES.clear()
        _CORES[key] = two_core(n, es)
    cn, ces, emap = _CORES[key]
    out = []
    for j, cy in enumerate(cycles):
        for i in cy:
            if not isinstance(i, int) or i < 0 or i >= len(es): return "cycle #%d contains %s, which is not an edge of the input graph" % (j, i)
            if i not in emap: return "cycle #%d contains the edge %d = %s, which lies on no cycle of the graph (not in its 2-core)" % (j, i, es[i])
        out.append([emap[i] for i in cy])
    return cn, ces, out


def parse_answer(impl):
    if impl.startswith(("IMPL-EXCEPTION", "CRASH")) or " RET " not in " " + impl:
        return None
    try:
        return O.parse_alg_output(impl)
    except Exception:
        return None


def judge(d, impl, opts):
    """None or the reason why the answer violates the contract of the entry point (property text)"""
    n, es = d["n"], d["es"]
    ans = parse_answer(impl)
    if ans is None:
        return "%s on a valid input did not return an answer: %s" % (d["alg"], impl[:200])
    ret, cycles = ans
    core = ""
    if n > CORE_N:                                       # large graphs: judged on the 2-core (same cycle space)
        red = reduce_to_core(n, es, cycles)
        if isinstance(red, str): return "%s: %s" % (d["alg"], red)
        n, es, cycles = red
        core = " [judged on the 2-core of the graph: %d vertices, %d edges; edge ids in this message are the 2-core's]" % (n, len(es))
    why = O.judge_basis(n, es, cycles)
    if why: return "%s: %s%s" % (d["alg"], why, core)
    if not isinstance(ret, int): return "%s: returned value %s is not an exact multiple of the weight unit" % (d["alg"], ret)
    key = gen.graph_tokens((n, es))
    if key not in opts: opts[key] = O.mcb(n, es)
    opt = opts[key]
    if d["k"] is None:
        why = O.judge_weight(n, es, cycles, ret, opt)
        if why: return "%s: %s%s" % (d["alg"], why, core)
        return None
    tot = sum(es[i][2] for c in cycles for i in c)
    if ret != tot: return "%s: returned value %s != total weight %s of the emitted cycles (caller's weights)" % (d["alg"], ret, tot)
    if tot > (2 * d["k"] - 1) * opt[0]: return "%s k=%d: weight %s exceeds (2k-1) * optimum %s" % (d["alg"], d["k"], tot, opt[0])
    if d["k"] == 1 and tot != opt[0]: return "%s k=1: weight %s is not the optimum %s" % (d["alg"], tot, opt[0])
    f = lib.fields(impl, KEYS)
    if "SEQRET" in f:
        if f["SEQRET"][0] != str(ret):
            return "%s k=%d: total weight %s differs from the sequential approximate entry point's %s on the same graph" % (d["alg"], d["k"], ret, f["SEQRET"][0])
        if f.get("SEQN", [str(len(cycles))])[0] != str(len(cycles)):
            return "%s: %d cycles, the sequential approximate entry point emits %s" % (d["alg"], len(cycles), f["SEQN"][0])
    return None


def canon_impl(impl):
    f = lib.fields(impl, KEYS)
    body = impl.split(" SCHED")[0]
    return "%s POS %s" % (X.canon_alg(body), f["SCHED"][0] if f.get("SCHED") else "?")


# ------------------------------------------------------------------------------------------------------------------
# the tree-based exact variants: exact tie of the TBB lookup (harness/c03_trees.cpp vs ParTreesModel)
# ------------------------------------------------------------------------------------------------------------------
TCORR = ("correspondence c03/trees%s: ParTreesModel.%s vs harness/c03_trees.cpp (%s of the unchanged headers on the controllable TBB shim)")
TCOMP = {"L": ("treeslookup", "pt_lookup_call_Z", "ShortestOddCycleLookup<...,true>::operator()"),
         "B": ("treesbuild", "pt_build_call_Z", "CandidateCycleBuilder::operator() with weight limit"),
         "W": ("treesrun", "mcb_sva_trees_tbb_Z", "mcb_sva_fvs_trees_tbb / mcb_sva_iso_trees_tbb")}
WMAX = {"I": str(2 ** 31 - 1), "L": str(2 ** 63 - 1), "D": str(2 ** 62)}      # the model's numeric_limits::max (D: a sentinel above every sum; printed as MAX by both sides)
TKEYS = ["TREES", "ARR", "CAND", "CALLS", "Q", "ROOTS", "EORD", "RET", "N", "CYC", "POS"]


def parse_tcase(line):
    """-> dict(kind, bld, ty, scale, bits, sets, n, es, gpos)"""
    t = line.split(); p = 1
    d = {"kind": t[0], "bld": t[1], "ty": t[2], "scale": int(t[3]), "bits": "", "sets": []}
    p = 4
    if t[0] in ("L", "W"):
        nb = int(t[p]); d["bits"] = "" if t[p + 1] == "-" else t[p + 1]; p += 2
    if t[0] == "L":
        d["shuffle"] = int(t[p]); p += 1
        nc = int(t[p]); p += 1
        for _ in range(nc):
            k = int(t[p]); d["sets"].append(list(map(int, t[p + 1:p + 1 + k]))); p += 1 + k
    if t[0] == "B":
        k = int(t[p]); d["sets"].append(list(map(int, t[p + 1:p + 1 + k]))); p += 1 + k
    n, es, _ = lib.parse_graph_tokens(t, p)
    d.update({"n": n, "es": es, "gpos": p, "alg": d["bld"] + "_tbb", "k": None})
    return d


def tcase_line(kind, bld, ty, scale, g, bits=None, sets=None, shuffle=0):
    head = "%s %s %s %d" % (kind, bld, ty, scale)
    if kind in ("L", "W"): head += " %d %s" % (len(bits), bits or "-")
    if kind == "L": head += " %d %d" % (shuffle, len(sets)) + "".join(" %d%s" % (len(s), "".join(" %d" % i for i in s)) for s in sets)
    if kind == "B": head += " %d%s" % (len(sets[0]), "".join(" %d" % i for i in sets[0]))
    return "%s %s" % (head, gen.graph_tokens(g))


def tree_graph(rng, maxn, w64=False):
    """w64: the same families with 64-bit weights above 2^53 (few distinct values: ties; ladders: distinct weights that collide as doubles).
    graphs aimed at the case splits of the lookup proof: many candidates of equal weight (unit / small weights on dense and
    regular graphs), long cycles whose partial path weight passes the running minimum only after several edges, forests (no candidate)"""
    r = rng.random()
    if r < 0.07: g = gen.random_tree(rng, rng.randint(1, maxn))
    elif r < 0.10: g = (rng.choice([0, 1, 3]), [])
    elif r < 0.22: g = gen.grid(rng.randint(2, 3), rng.randint(2, max(2, maxn // 3)))
    elif r < 0.30: g = gen.hypercube(rng.choice([2, 3, 3]))
    elif r < 0.40: g = gen.complete(rng.randint(4, 6))
    elif r < 0.48: g = gen.wheel(rng.randint(4, min(9, maxn)))
    elif r < 0.54: g = gen.petersen()
    elif r < 0.62: g = gen.theta(rng.randint(0, 3), rng.randint(1, 4), rng.randint(2, 5))
    elif r < 0.68: g = gen.bipartite(rng.randint(2, 3), rng.randint(2, 4))
    else:
        g = X.gen_graph(rng, maxn)[0]
        return weigh64(rng, g)[0] if w64 else g
    if g[0] > 0 and rng.random() < 0.8: g = gen.relabel(rng, g[0], g[1])
    if w64: return weigh64(rng, g, rng.choice(["p54", "p54", "p54", "p53", "ladder", "ladder", "top", "mix"]))[0]
    return gen.weigh(rng, g, rng.choice(["unit", "unit", "ties", "ties", "ties", "wide"]))[0]


def signed_sets(rng, g, k):
    """k signed edge sets: random subsets of several densities, single edges, the empty set, all edges, and edge cuts (every cycle
    crosses a cut an even number of times: no candidate is odd)"""
    n, es = g; m = len(es); out = []
    for _ in range(k):
        r = rng.random()
        if m == 0 or r < 0.08: s = []
        elif r < 0.2: s = [rng.randrange(m)]
        elif r < 0.3:
            side = [rng.random() < 0.5 for _ in range(n)]
            s = [i for i, (u, v, _) in enumerate(es) if side[u] != side[v]]
        elif r < 0.35: s = list(range(m))
        else:
            p = rng.choice([0.15, 0.3, 0.5, 0.7])
            s = [i for i in range(m) if rng.random() < p]
        out.append(sorted(s))
    return out


def trees_cases(rng, tier, w64=False):
    """w64: the long long instantiation (L) on 64-bit weights above 2^53; the last graphs of that stream have 257..400 vertices"""
    ng = (900 if tier == "quick" else 4000) if not w64 else (220 if tier == "quick" else 1000)
    maxn = 12 if tier == "quick" else 20
    nmid = 0 if not w64 else (4 if tier == "quick" else 20)
    out, mids = [], []
    for i in range(ng + nmid):
        mid = i >= ng
        g = tree_graph(rng, maxn, w64) if not mid else mid_sparse(rng, i % 2 == 0)
        ity = gen.int_domain_ok(g)
        def ty_sc():
            if w64: return ("L", 0) if not mid or i % 2 == 0 else ("D", 0)
            ty = "I" if ity and rng.random() < 0.4 else "D"
            return ty, (0 if ty == "I" else rng.choice([0, 0, -3, 5]))
        if mid:      # beyond uint8 indices: the FVS builder only (a handful of trees over 257..400 vertices), lookup calls and the whole entry point
            mids.append((tcase_line("L", "fvs", *ty_sc(), g, bits=rand_bits(rng), sets=signed_sets(rng, g, 3)), g))
            mids.append((tcase_line("L", "fvs", *ty_sc(), g, bits=rand_bits(rng), sets=signed_sets(rng, g, 2), shuffle=rng.randint(1, 10 ** 9)), g))
            mids.append((tcase_line("W", "fvs", *ty_sc(), g, bits=rand_bits(rng)), g))
            continue
        for bld in ("fvs", "iso", "horton"):
            ty, sc = ty_sc()
            b = rand_bits(rng) if i % 5 else rng.choice(["1", "110", "1", "100", ""])
            out.append((tcase_line("L", bld, ty, sc, g, bits=b, sets=signed_sets(rng, g, rng.randint(2, 5))), g))
            if i % 2 == 0:       # an arbitrary, unsorted arrangement of the candidate vector (the theorems quantify over every permutation)
                ty, sc = ty_sc()
                out.append((tcase_line("L", bld, ty, sc, g, bits=rand_bits(rng), sets=signed_sets(rng, g, rng.randint(2, 4)), shuffle=rng.randint(1, 10 ** 9)), g))
            if i % 3 == 0:
                ty, sc = ty_sc()
                out.append((tcase_line("B", bld, ty, sc, g, sets=signed_sets(rng, g, 1)), g))
        small = g[0] <= 14 and len(g[1]) <= 45      # (whole runs of the extracted model on larger graphs cost seconds each)
        for bld in ("fvs", "iso"):
            for _ in range(2 if small else 0):
                ty, sc = ty_sc()
                out.append((tcase_line("W", bld, ty, sc, g, bits=rand_bits(rng)), g))
    # the few larger cases cost about a second each in the list-based model: spread them over the stream (the runners cut it into contiguous chunks)
    step = max(1, len(out) // (len(mids) + 1))
    for j, x in enumerate(mids): out.insert(min(len(out), (j + 1) * step + j), x)
    return out


def trees_model_line(d, line, impl):
    """the case of the extracted model for one answered harness case (oracles recovered from the run), or None"""
    f = lib.fields(impl, TKEYS)
    if "TREES" not in f or not f["TREES"]: return None
    gt = " ".join(line.split()[d["gpos"]:])
    picks = f["TREES"][1:] if d["bld"] == "fvs" else []
    pk = "%d %s" % (len(picks), " ".join(picks))
    if d["kind"] == "B":
        q = f.get("Q", [])
        if not q: return None
        nq, p, qs = int(q[0]), 1, []
        for _ in range(nq):                      # i use lim found w k ids
            k = int(q[p + 5]); qs.append(q[p:p + 3]); p += 6 + k
        sg = d["sets"][0]
        return "%s %s %s %d %s %d %s" % (d["bld"], gt, pk, len(sg), " ".join(map(str, sg)), nq, " ".join(" ".join(x) for x in qs))
    arr = f.get("ARR", ["0"])
    ar = "%s %s" % (arr[0], " ".join(arr[1:]))
    bits = "%d %s" % (len(d["bits"]), d["bits"] or "-")
    if d["kind"] == "L":
        return "%s %s %s %s %s %s %d %s" % (d["bld"], WMAX[d["ty"]], gt, pk, ar, bits, len(d["sets"]),
                                            " ".join("%d %s" % (len(s), " ".join(map(str, s))) for s in d["sets"]))
    roots = f.get("ROOTS", [])
    return "%s %s %s %d %s %s %s %s" % (d["bld"], WMAX[d["ty"]], gt, len(roots), " ".join(roots), pk, ar, bits)


def trees_canon(d, impl):
    key = {"L": " CAND ", "B": " CAND ", "W": " RET "}[d["kind"]]
    i = (" " + impl).find(key)
    return " ".join(impl[i:].split()) if i >= 0 else impl


def min_odd_closed_walk(n, es, sg):
    """weight of a lightest closed walk with an odd number of signed edges (= of a lightest odd simple cycle, weights > 0), or None;
    Dijkstra in the signed double cover — independent of the candidate collections"""
    import heapq
    sgs = set(sg); adj = [[] for _ in range(2 * n)]
    for i, (u, v, w) in enumerate(es):
        f = 1 if i in sgs else 0
        for a, b in ((u, v), (v, u)):
            for p in (0, 1): adj[2 * a + p].append((2 * b + (p ^ f), w))
    best = None
    for s in range(n):
        dist = {2 * s: 0}; pq = [(0, 2 * s)]; done = set()
        while pq:
            dd, x = heapq.heappop(pq)
            if x in done: continue
            done.add(x)
            if x == 2 * s + 1: break
            if best is not None and dd >= best: break
            for (y, w) in adj[x]:
                nd = dd + w
                if y not in dist or nd < dist[y]: dist[y] = nd; heapq.heappush(pq, (nd, y))
        if 2 * s + 1 in done and (best is None or dist[2 * s + 1] < best): best = dist[2 * s + 1]
    return best


def judge_lookup(d, impl):
    """None or why an answer of ShortestOddCycleLookup is not a minimum-weight odd simple cycle of the caller's graph (not found: none exists)"""
    f = lib.fields(impl, TKEYS)
    t = f.get("CALLS")
    if not t: return "the lookup did not answer: %s" % impl[:160]
    n, es = d["n"], d["es"]
    p = 1
    for ci, sg in enumerate(d["sets"]):
        try:
            assert t[p] == "R"
            found, w, k = t[p + 1] == "1", t[p + 2], int(t[p + 3]); ids = [int(x) for x in t[p + 4:p + 4 + k]]; p += 4 + k + 2
        except Exception:
            return "unparsable answer of call %d: %s" % (ci, " ".join(t[p:p + 8]))
        best = min_odd_closed_walk(n, es, sg)
        tag = "call %d, signed set %s: " % (ci, sg)
        if not found:
            if best is not None: return tag + "answers not-found although an odd cycle of weight %d exists" % best
            if ids or w != "MAX": return tag + "not-found answer is not the identity tuple ({}, max, false): %s %s" % (w, ids)
            continue
        why = O.simple_cycle_problem(n, es, ids)
        if why: return tag + "returned edge set %s: %s" % (ids, why)
        if len(set(ids) & set(sg)) % 2 == 0: return tag + "returned cycle %s has an even number of signed edges" % ids
        tot = sum(es[i][2] for i in ids)
        if str(tot) != w: return tag + "returned weight %s != weight %d of the returned cycle" % (w, tot)
        if best is None or tot != best: return tag + "returned cycle of weight %d, a lightest odd cycle weighs %s" % (tot, best)
    return None


def judge_builder(d, impl):
    """limit-monotonicity on the implementation's own answers: with limit L the builder answers exactly when it answers without limit with
    weight <= L, with the same cycle and weight"""
    f = lib.fields(impl, TKEYS)
    q = f.get("Q")
    if not q: return "no answer: %s" % impl[:160]
    nq, p, base = int(q[0]), 1, {}
    for _ in range(nq):
        i, use, lim, found, w, k = int(q[p]), q[p + 1] == "1", int(q[p + 2]), q[p + 3] == "1", q[p + 4], int(q[p + 5])
        ids = q[p + 6:p + 6 + k]; p += 6 + k
        if not use: base[i] = (found, w, ids); continue
        b = base.get(i)
        if b is None: return "no unlimited query for candidate %d" % i
        exp = b if (b[0] and int(b[1]) <= lim) else (False, "0", [])
        if (found, w, ids) != exp:
            return "candidate %d with weight limit %d answers %s, without limit %s" % (i, lim, (found, w, ids), b)
    return None


def trees_experiment(c, exe, lines, tier, report, opts, label, count=True):
    io = lib.run_lines([exe], lines)
    ds = [parse_tcase(l) for l in lines]
    ml = {}
    for i, (l, d) in enumerate(zip(lines, ds)):
        m = trees_model_line(d, l, io[i]) if not io[i].startswith(("IMPL-EXCEPTION", "CRASH")) else None
        if m is not None: ml[i] = m
    mo = {}
    for kind, (comp, _, _) in TCOMP.items():
        idx = [i for i in ml if ds[i]["kind"] == kind]
        mo.update(zip(idx, lib.run_model(comp, [ml[i] for i in idx], group="c03", timeout=1500)))
    st = c.extra.setdefault("trees_tbb_exact", {"L_runs": 0, "L_agree": 0, "L_calls": 0, "B_runs": 0, "B_agree": 0, "B_queries": 0, "W_runs": 0, "W_agree": 0,
                                                "not_found_answers": 0, "L_runs_unsorted_arrangement": 0, "runs_with_forks": 0})
    for i, (l, d) in enumerate(zip(lines, ds)):
        n, es = d["n"], d["es"]; kind = d["kind"]
        N = len(es) - n + O.components(n, es)
        f = lib.fields(io[i], TKEYS)
        ncand = int(f["CAND"][0]) if f.get("CAND") else (int(f["ARR"][0]) if f.get("ARR") else 0)
        forks = "1" in d["bits"]
        if count:
            c.count(l, N >= 1 and (kind == "B" or forks), bucket="trees-exact %s %s cands%s %s" % (
                kind, d["bld"], "0" if ncand == 0 else "1-15" if ncand <= 15 else ">15",
                "-" if kind == "B" else "splits" if forks else "sequential"))
        rep = {"component": "c03_trees", "case": l, "impl": io[i], "experiment": label}
        if i in mo: rep.update({"model": mo[i], "model_case": ml[i]})
        if kind == "W": why = judge(d, io[i], opts)
        elif kind == "L": why = judge_lookup(d, io[i])
        else: why = judge_builder(d, io[i])
        st[kind + "_runs"] += 1
        if kind == "L":
            st["L_calls"] += len(d["sets"]); st["not_found_answers"] += io[i].count(" R 0 ")
            if d.get("shuffle"): st["L_runs_unsorted_arrangement"] += 1
        if kind == "B" and f.get("Q"):
            st["B_queries"] += int(f["Q"][0])
        if forks and kind != "B": st["runs_with_forks"] += 1
        comp, mname, what = TCOMP[kind]
        agree = i in mo and trees_canon(d, io[i]) == mo[i].strip()
        if agree: st[kind + "_agree"] += 1
        if why and kind == "W":
            report("trees-judge", "%s: %s [schedule bits %s]" % (d["alg"], why, d["bits"] or "all-0"), rep, True)
        elif why:
            r2 = dict(rep); r2["theorem_or_correspondence"] = TCORR % ("/" + comp, mname, what)
            report("trees-fn", "function-level judge of %s fails (%s); no entry-point input exhibiting it was derived from this case" % (what, why), r2, False)
        elif not agree:
            r2 = dict(rep); r2["theorem_or_correspondence"] = TCORR % ("/" + comp, mname, what)
            report("trees-corr", "correspondence %s vs extracted ParTreesModel.%s (exact: candidate order, every answer, cycles, returned value, schedule bits consumed; "
                   "same bit stream, recovered arrangement / feedback vertex set / roots) no longer checks; the implementation's answer still passes the independent judge" % (what, mname), r2, False)
    return io


# ------------------------------------------------------------------------------------------------------------------
# ThreadSanitizer
# ------------------------------------------------------------------------------------------------------------------
SUPP = "race_top:tbb::detail\n"
ACCESS = re.compile(r"^  (Previous )?(atomic )?(read|write) of size", re.I)
WRAP = re.compile(r"^\s*#\d+ tbb::verif_hb_parallel_(for|reduce)<.*\{lambda.*operator\(\)")


def tsan_relevant(stderr):
    """data-race reports whose two accesses both lie inside parmcb task bodies (see harness/c03_real.cpp), plus any other
    kind of ThreadSanitizer error.  returns (relevant report texts, number of reports seen, kinds ignored)"""
    rel, seen, ignored = [], 0, {}
    for block in stderr.split("=================="):
        m = re.search(r"WARNING: ThreadSanitizer: ([^\n(]+)", block)
        if not m: continue
        seen += 1
        kind = m.group(1).strip()
        if kind == "thread leak":
            ignored[kind] = ignored.get(kind, 0) + 1; continue
        if kind != "data race":
            rel.append(block.strip()[:6000]); continue
        secs, cur = [], None
        for ln in block.split("\n"):
            if ACCESS.match(ln): cur = []; secs.append(cur)
            elif ln.strip() == "": cur = None
            elif cur is not None: cur.append(ln)
        def in_body(frames):
            for i, fr in enumerate(frames):
                if WRAP.match(fr):
                    return any("/include/parmcb/" in x for x in frames[:i])
            return False
        if len(secs) >= 2 and in_body(secs[0]) and in_body(secs[1]):
            rel.append(block.strip()[:6000])
        else:
            ignored["data race outside parmcb task bodies (TBB-internal hand-off)"] = ignored.get("data race outside parmcb task bodies (TBB-internal hand-off)", 0) + 1
    return rel, seen, ignored


def run_tsan(exe, lines, timeout=1500):
    """runs the cases under ThreadSanitizer in parallel chunks; returns (outputs, [(line index, report)], stats)"""
    supp = os.path.join(lib.BUILD, "c03_tsan.supp")
    open(supp, "w").write(SUPP)
    env = dict(os.environ)
    env["TSAN_OPTIONS"] = "suppressions=%s exitcode=0 report_signal_unsafe=0 second_deadlock_stack=0" % supp
    chunks = lib._chunks(list(range(len(lines))), max(1, min(lib.NPROC, 8)))
    outs = [None] * len(lines); found = []; stats = {"reports_seen": 0, "ignored": {}}
    lock = threading.Lock()

    def once(idx):
        p = subprocess.run([exe], input="\n".join(lines[i] for i in idx) + "\n", capture_output=True, text=True, env=env, timeout=timeout)
        o = p.stdout.split("\n")
        if o and o[-1] == "": o.pop()
        return o, p.stderr, p.returncode

    def work(idx):
        try:
            o, se, rc = once(idx)
        except subprocess.TimeoutExpired:
            with lock: found.append((idx[0], "TIMEOUT under ThreadSanitizer"))
            return
        rel, seen, ign = tsan_relevant(se)
        with lock:
            stats["reports_seen"] += seen
            for k, v in ign.items(): stats["ignored"][k] = stats["ignored"].get(k, 0) + v
            for j, i in enumerate(idx): outs[i] = o[j] if j < len(o) else "CRASH rc=%s %s" % (rc, se[-300:].replace("\n", " "))
        if rel:
            hit = None
            for i in idx:                     # attribute the report to one input
                try:
                    _, se1, _ = once([i])
                except subprocess.TimeoutExpired:
                    continue
                r1, _, _ = tsan_relevant(se1)
                if r1: hit = (i, r1[0]); break
            with lock: found.append(hit if hit else (idx[0], rel[0] + "\n[not reproduced on a single input of the chunk; first input of the chunk given]"))
    ths = [threading.Thread(target=work, args=(ch,)) for ch in chunks if ch]
    for t in ths: t.start()
    for t in ths: t.join()
    return outs, found, stats


# ------------------------------------------------------------------------------------------------------------------
# the check
# ------------------------------------------------------------------------------------------------------------------
def build_all(c, tier):
    specs = [dict(name="c03", srcs=["c03.cpp"], libs=SHIM_LIBS, shim=True),
             dict(name="c03_trees", srcs=["c03_trees.cpp"], libs=SHIM_LIBS, shim=True),
             dict(name="c03_real", srcs=["c03_real.cpp"], libs=REAL_LIBS)]
    if tier == "thorough":
        specs.append(dict(name="c03_tsan", srcs=["c03_real.cpp"], libs=REAL_LIBS, sanitize="tsan"))
    res = lib.build_many(specs)
    exes = {}
    for s in specs:
        exe, err = res[s["name"]]
        if exe is None:
            c.violation("implementation harness %s does not compile against the working tree" % s["name"],
                        {"theorem_or_correspondence": "harness build " + s["name"], "log": err, "kind": "impl-build"}, False)
        exes[s["name"]] = exe
    return exes


class Reporter:
    def __init__(self, c): self.c = c; self.n = {}
    def __call__(self, kind, why, rep, found=True, cap=3):
        if self.n.get(kind, 0) >= cap: return
        self.n[kind] = self.n.get(kind, 0) + 1
        self.c.violation(why, rep, found)


def model_feasible(d):
    """the list-based extracted model is run up to a few hundred vertices when the cycle space is small; beyond that the case is judged only"""
    n, es = d["n"], d["es"]
    return d["kind"] != "G" and n <= BIG_N and (n <= CORE_N or len(es) - n + O.components(n, es) <= 60)


def size_tag(n):
    return "" if n <= 255 else " n>255" if n <= 65535 else " n>65535"


def shim_experiment(c, exe, lines, tier, refok, report, opts, label, count=True, par=None):
    """run the cases on the shim harness, compare signed_tbb with the model, judge everything.  returns impl outputs"""
    io = lib.run_lines([exe], lines, **({"par": par, "timeout": 240} if par else {}))
    ds = [parse_case(l) for l in lines]
    sidx = [i for i, d in enumerate(ds) if d["alg"] == "signed_tbb" and " RET " in " " + io[i] and model_feasible(d)]
    mo = dict(zip(sidx, lib.run_model("signedtbb", [model_case(lines[i], io[i]) for i in sidx], group="c03", timeout=1500, **({"par": max(1, len(sidx) // 2)} if par else {}))))
    refq = []
    agree = 0
    for i, (l, d) in enumerate(zip(lines, ds)):
        n, es = d["n"], d["es"]
        N = len(es) - n + O.components(n, es)
        f = lib.fields(io[i], KEYS)
        sch = list(map(int, f["SCHED"])) if f.get("SCHED") else [0] * 10
        nontrivial = N >= 2 and sch[2] >= 1            # at least one Fork executed
        if count:
            c.count(l, nontrivial, bucket="%s %s N%s %s%s" % (d["alg"], d["ty"], "0" if N == 0 else "1" if N == 1 else "2-5" if N <= 5 else "6-15" if N <= 15 else ">15",
                                                              "forks" if sch[2] else "splits" if sch[1] else "sequential", size_tag(n)))
        why = judge(d, io[i], opts)
        rep = {"component": "c03", "case": l, "impl": io[i], "experiment": label}
        if i in mo: rep.update({"model": mo[i], "model_case": model_case(l, io[i])})
        if why:
            report("judge", why + " [schedule bits %s]" % (d["bits"] or "all-0"), rep, True)
        if i in mo:
            if canon_impl(io[i]) == mo[i].strip(): agree += 1
            elif why:
                pass                                   # already reported with the failing input
            else:
                r2 = dict(rep); r2["theorem_or_correspondence"] = CORR
                report("corr", "correspondence mcb_sva_signed_tbb vs extracted ParSignedModel (exact cycles and schedule bits consumed, under the same "
                       "schedule and the recovered root/pointer order) no longer checks; the implementation's answer still satisfies the property text", r2, False)
        ans = parse_answer(io[i])
        if refok and ans and not why and n <= (14 if tier == "quick" else 18) and len(es) <= 40 and (d["alg"] in EXACT) and (i % (3 if tier == "quick" else 5) == 0):
            refq.append(i)
    # the tree-based *_tbb entry points: whatever the schedule, each phase must return a minimum-weight odd candidate, i.e. the run must be
    # accepted by the same acceptance model as the sequential variants (TreesModel; C02_fvs_trees / C02_iso_trees cover every accepted run)
    try:
        import trees_common
        tl, tio, torig = [], [], []
        for i, (l, d) in enumerate(zip(lines, ds)):
            if d["alg"] in ("fvs_tbb", "iso_tbb") and " RET " in " " + io[i] and d["n"] <= CORE_N:
                tl.append("A %s %s %d %s" % (d["alg"][:3], "I" if d["ty"] == "U" else d["ty"], d["scale"], " ".join(l.split()[d["gpos"]:]))); tio.append(io[i]); torig.append(l)
        if tl:
            st = trees_common.run_trees(c, tier, "weight", lines=tl, io=tio, orig=torig, label="TBB tree variant under schedule, " + label)
            c.extra["trees_tbb_replayed"] = c.extra.get("trees_tbb_replayed", 0) + st.get("replayed", 0)
            c.extra["trees_tbb_accepted"] = c.extra.get("trees_tbb_accepted", 0) + st.get("accepted", 0)
    except ImportError:
        pass
    c.extra["signed_tbb_exact_agreements"] = c.extra.get("signed_tbb_exact_agreements", 0) + agree
    c.extra["signed_tbb_exact_runs"] = c.extra.get("signed_tbb_exact_runs", 0) + len(sidx)
    if refok and refq:
        rl = [X.ref_case((ds[i]["n"], ds[i]["es"]), parse_answer(io[i])[1]) for i in refq]
        ro = lib.run_model("mcbcheck", rl, group="ref", timeout=1500)
        c.extra["verified_checker_cases"] = c.extra.get("verified_checker_cases", 0) + len(rl)
        for i, r in zip(refq, ro):
            f = lib.fields(r, ["SIMPLE", "BASIS", "OPT", "TOTAL", "MIN"])
            rep = {"component": "c03", "case": lines[i], "impl": io[i], "ref": r}
            if r.startswith(("MODEL-", "CRASH", "ERR")) or "MIN" not in f:
                rep["theorem_or_correspondence"] = "extracted RefModel.mcb_checkb"
                report("ref-fail", "verified checker mcbcheck failed to run: " + r[:200], rep, False)
            elif f["MIN"][0] != "1":
                report("ref", "%s: verified checker: emitted family is not a minimum cycle basis (BASIS %s, total %s, optimum %s)" %
                       (ds[i]["alg"], f["BASIS"][0], f["TOTAL"][0], f["OPT"][0]), rep, True)
    return io


def exhaustive_cases(c, exe, graphs):
    """for every graph: the all-sequential run is traced; then, for every parallel construct of that run with 2..5
    elements and EVERY schedule tree of its range, one run in which that construct gets the tree (all earlier constructs
    sequential).  returns the case lines (signed_tbb, kind X with trace)"""
    base = [tcase("signed_tbb", None, "D", 0, "", g, [], True) for g in graphs]
    bio = lib.run_lines([exe], base)
    lines = []
    for g, o in zip(graphs, bio):
        tr = lib.fields(o, KEYS).get("TRACE", [])
        pos = 0
        for ent in tr:
            kl, code = ent.split(":")
            L = int(kl[1:])
            if 2 <= L <= 5:
                for cd in tree_codes(L):
                    if cd == "0": continue
                    bits = "0" * pos + cd + "0" * 160          # long enough: the stream never wraps
                    lines.append((tcase("signed_tbb", None, "D", 0, bits, g, [], True), g))
            if L >= 2: pos += 1                                    # a sequential construct consumed exactly one bit
    return lines


def check(tier, seed):
    c = lib.Check(PID, tier, seed, THEOREMS)
    c.rule = ("(entry point in {mcb_sva_signed_tbb, mcb_sva_fvs_trees_tbb, mcb_sva_iso_trees_tbb, approx_*_tbb with k in 1..4}) x (double|int weights) x graph "
              "(structured families and random graphs as in C01, tie-heavy weights) x schedule bit stream (all-0 = sequential, all-1 = split everything with "
              "forks right-first, 110/100/101, random densities 0.35..0.95, lengths 2..64, cyclic) x optional explicit push permutation; plus real-TBB runs with "
              "1/2/16 workers; every experiment also with long long weights above 2^53 (2^53+r, 2^54+{0..3}, 2^54+permutation, 2^b+r up to b = 60, heavy/light mixes; (m+4)*sum(w) < 2^63); "
              "sizes: 257..400 vertices (exact comparison), K45/K48 + pendants on 310/330 vertices (all-vertices reduction over > 255 vertices; judged), stars with 66009 vertices whose hub "
              "and cycle-carrying leaves have indices >= 65536 and < 256 (signed_tbb / fvs_tbb, trivial and forking schedules, real TBB; judged through the 2-core); "
              "thorough: every schedule tree of every construct with <= 5 elements on small graphs, ThreadSanitizer. distinct by md5; "
              "non-trivial = cycle space dimension >= 2 and at least one Fork executed (shim) / dimension >= 2 and >= 2 workers (real TBB)")
    c.step_prove()
    ok = c.step_model("c03")
    refok = X.have_ref() and c.step_model("ref")
    exes = build_all(c, tier)
    report = Reporter(c)
    opts = {}
    import time
    tm = c.extra.setdefault("phase_wall_s", {}); t_ = [c.t0]
    def lap(name): tm[name] = round(time.time() - t_[0], 1); t_[0] = time.time()
    lap("prove+build")
    if ok and exes.get("c03"):
        exe = exes["c03"]
        corpus = [l for l in lib.corpus_cases(PID) if l.startswith(("T ", "X "))]
        c.extra["corpus_cases"] = len(corpus)
        cases = shim_cases(c.rng, tier)
        rng64 = random.Random(seed * 7919 + 303)          # own stream: the double / int streams are unchanged
        cases64 = shim_cases64(rng64, tier)
        lines = corpus + [x[0] for x in cases] + [x[0] for x in cases64]
        io = shim_experiment(c, exe, lines, tier, refok, report, opts, "random schedules")
        c.extra["shim_cases_64bit_weights"] = len(cases64)
        lap("shim random schedules (incl. 64-bit weights)")
        szl = [x[0] for x in size_cases(rng64, tier)]
        szio = shim_experiment(c, exe, szl, tier, False, report, opts, "sizes beyond narrow index types", par=max(1, len(szl) // 2))
        c.extra["shim_size_cases"] = {"n>255": sum(1 for l in szl if l[0] != "G"), "n>65535 (judged only)": sum(1 for l in szl if l[0] == "G")}
        lines = lines + szl; io = io + szio
        # same graph, different schedules / entry points: the total weight of every exact answer must coincide
        byg = {}
        for l, o in zip(lines, io):
            d = parse_case(l); a = parse_answer(o)
            if a and d["alg"] in EXACT: byg.setdefault(gen.graph_tokens((d["n"], d["es"])), []).append((a[0], l, o))
        c.extra["graphs_run_under_several_schedules"] = sum(1 for v in byg.values() if len(v) >= 2)
        for key, v in byg.items():
            if len({x[0] for x in v}) > 1:
                a, b = v[0], next(x for x in v if x[0] != v[0][0])
                report("sched-dep", "exact entry points return different total weights on the same graph under different schedules: %s vs %s" % (a[0], b[0]),
                       {"component": "c03", "case": b[1], "impl": b[2], "other_case": a[1], "other_impl": a[2]}, True)
        lap("shim sizes beyond narrow index types + cross-schedule agreement")
        if tier == "thorough":
            graphs = small_graphs(c.rng, 200)
            ex = exhaustive_cases(c, exe, graphs)
            exlines = [x[0] for x in ex]
            eio = shim_experiment(c, exe, exlines, tier, False, report, opts, "every tree of every construct with <= 5 elements")
            cov = {}
            for o in eio:
                for ent in lib.fields(o, KEYS).get("TRACE", []):
                    kl, code = ent.split(":"); L = int(kl[1:])
                    if 2 <= L <= 5: cov.setdefault("%s%d" % (kl[0], L), set()).add(code)
            tot = {L: len(tree_codes(L)) for L in range(2, 6)}
            c.extra["exhaustive_small"] = {"graphs": len(graphs), "runs": len(exlines),
                                           "distinct_trees_executed": {k: "%d of %d" % (len(v), tot[int(k[1:])]) for k, v in sorted(cov.items())},
                                           "legend": "f = parallel_for, r = parallel_reduce, digit = range length"}
            # the other entry points under all trees of a 5-element range used as cyclic streams
            olines = []
            for g in graphs[:40]:
                for cd in tree_codes(5)[::3] + tree_codes(4)[::2] + tree_codes(3):
                    for alg in ("fvs_tbb", "iso_tbb"): olines.append(tcase(alg, None, "D", 0, cd, g))
                    alg = APPROX[len(olines) % 3]; olines.append(tcase(alg, 1 + len(olines) % 3, "D", 0, cd, g))
            shim_experiment(c, exe, olines, tier, False, report, opts, "tree codes as cyclic streams, tree variants and approximate variants")
            # all push permutations for N <= 4
            import itertools
            plines = []
            for g in graphs:
                N = len(g[1]) - g[0] + O.components(g[0], g[1])
                if N <= 4:
                    for perm in itertools.permutations(range(N)):
                        for b in ("", "1", "1101"): plines.append(tcase("signed_tbb", None, "D", 0, b, g, list(perm)))
            shim_experiment(c, exe, plines, tier, False, report, opts, "all push permutations for N <= 4")
            c.extra["push_permutation_runs"] = len(plines)
            lap("shim exhaustive small")
    # ---- tree-based exact variants: exact tie of the TBB lookup ------------------------------------------------------
    if ok and exes.get("c03_trees"):
        tcorpus = [l for l in lib.corpus_cases(PID) if l.startswith(("L ", "B ", "W "))]
        c.extra["trees_exact_corpus_cases"] = len(tcorpus)
        tlines = tcorpus + [x[0] for x in trees_cases(c.rng, tier)] + [x[0] for x in trees_cases(random.Random(seed * 7919 + 304), tier, w64=True)]
        trees_experiment(c, exes["c03_trees"], tlines, tier, report, opts, "tree lookup, random schedules and signed sets")
        if tier == "thorough":
            # every schedule tree of the reduction over <= 5 candidates / of the parallel_for over <= 5 trees, as cyclic streams
            graphs = [g for g in small_graphs(c.rng, 120)]
            xl = []
            for g in graphs:
                for cd in tree_codes(5)[::2] + tree_codes(4) + tree_codes(3):
                    bld = ("fvs", "iso", "horton")[len(xl) % 3]
                    xl.append(tcase_line("L", bld, "D", 0, g, bits=cd, sets=signed_sets(c.rng, g, 3), shuffle=(len(xl) % 2) * (1 + len(xl))))
                    if bld != "horton": xl.append(tcase_line("W", bld, "D", 0, g, bits=cd))
            trees_experiment(c, exes["c03_trees"], xl, tier, report, opts, "tree lookup, tree codes of ranges <= 5 as cyclic streams")
        lap("tree lookup exact tie")
    # ---- real TBB (runtime sampling) ------------------------------------------------------------------------------
    if exes.get("c03_real"):
        rc = real_cases(c.rng, tier)
        rc64 = real_cases64(random.Random(seed * 7919 + 305), tier)
        # the cases are dealt round-robin over the processes (lib.run_lines cuts the list into contiguous chunks; the few large cases come last)
        rl0 = [l for l in lib.corpus_cases(PID) if l.startswith("R ")] + [x[0] for x in rc] + [x[0] for x in rc64]
        par = max(2, lib.NPROC // 2)
        order = [i for k in range(par) for i in range(k, len(rl0), par)]
        ro = lib.run_lines([exes["c03_real"]], [rl0[i] for i in order], par=par, timeout=300)
        rlines, rio = rl0, [None] * len(rl0)
        for i, o in zip(order, ro): rio[i] = o
        c.extra["real_tbb_runs_64bit_or_large"] = len(rc64)
        for l, o in zip(rlines, rio):
            d = parse_case(l)
            N = len(d["es"]) - d["n"] + O.components(d["n"], d["es"])
            c.count(l, N >= 2 and d["workers"] >= 2, bucket="real-TBB %s %s workers=%d%s" % (d["alg"], d["ty"], d["workers"], size_tag(d["n"])))
            why = judge(d, o, opts)
            if why:
                report("real", why + " [real oneTBB, %d workers]" % d["workers"], {"component": "c03_real", "case": l, "impl": o}, True)
        c.extra["real_tbb_runs"] = len(rlines)
        lap("real TBB")
    # ---- ThreadSanitizer (race clause: runtime evidence, partial) -------------------------------------------------
    if tier == "thorough" and exes.get("c03_tsan"):
        tl = [x[0] for x in real_cases(c.rng, tier, tsan=True)]
        outs, found, stats = run_tsan(exes["c03_tsan"], tl)
        for l, o in zip(tl, outs):
            d = parse_case(l)
            c.count(l, True, bucket="tsan %s workers=%d" % (d["alg"], d["workers"]))
            why = judge(d, o or "CRASH", opts)
            if why:
                report("tsan-judge", why + " [real oneTBB under ThreadSanitizer]", {"component": "c03_tsan", "case": l, "impl": o}, True)
        for (i, text) in found:
            report("tsan", "ThreadSanitizer reports conflicting unsynchronised accesses by two parmcb task bodies (race clause; runtime evidence): " +
                   " | ".join(x.strip() for x in text.split("\n")[:3])[:300], {"component": "c03_tsan", "case": tl[i], "tsan_report": text}, True)
        c.extra["tsan"] = {"runs": len(tl), "reports_seen": stats["reports_seen"], "reports_counted": len(found), "ignored": stats["ignored"],
                           "label": "runtime evidence, partial: libtbb is not instrumented; fork/join edges annotated in harness/c03_real.cpp; only conflicts "
                                    "between two parmcb task bodies are counted"}
        lap("ThreadSanitizer")
    elif tier != "thorough":
        c.notes.append("ThreadSanitizer runs only in the thorough tier")
    if not refok:
        c.notes.append("verified checker (RefModel) not available in this run")
    c.notes.append("race clause of C03: partial — footprints proved disjoint at model level (C03b_*), memory accesses of the compiled code only sampled with ThreadSanitizer")
    return c.finish(
        assumptions=["the controllable shim (harness/shim/tbb) implements the semantics of oneTBB 2021 parallel_reduce / parallel_for / concurrent_vector::push_back "
                     "stated in verif_sched.h and SchedModel.v (Run/Seq/Fork trees; read off the installed oneTBB 2021.8 headers, not verified); real-TBB runs sample it",
                     "BFS root order and pointer order of edge descriptors are recovered from the run and fed to the model as oracles; the schedule bit stream and the push permutation are given to both sides",
                     "boost::d_ary_heap_indirect<.,4,.> behaves as HeapModel.v; std::set<Edge> iterates in pointer order",
                     "double weights are integer multiples of a power of two, sums below 2^53; int weights with (m+4)*sum < 2^31, long long weights with (m+4)*sum < 2^63 (exact domain)",
                     "tree-based TBB variants: the arrangement left by std::sort is recovered by running the same builder and the same std::sort on the same graph object "
                     "(deterministic) and given to the model as positions in emission order; the feedback vertex set is the list of tree sources of that builder run; "
                     "numeric_limits::max is a model parameter (int: INT_MAX, long long: LLONG_MAX, double: a sentinel above every sum; compared as the token MAX)",
                     "C03_signed_tbb needs no premise about the search (it rests on BidirProofs*.v); only the two C03a_*_modulo_search instances keep per-index limit-monotonicity as a premise"],
        trusted_extra=["harness/shim/tbb/*.h (fake TBB executing an explicit schedule), harness/c03.cpp, harness/c03_trees.cpp, harness/c03_real.cpp (TSan fork/join annotations)"],
        explanation="The theorems cover every schedule tree (arbitrary split points, Seq/Fork labelling, execution order), every insertion order of the initial supports and "
                    "every partition of the update range. This run ties the model to parmcb_sva_signed_tbb.hpp by exact agreement (cycles and bits consumed) under the same "
                    "schedules, and judges every answer of all six TBB entry points (valid basis of the caller's graph, returned = emitted weight, minimum for exact variants, "
                    "<= (2k-1) optimum and equal to the sequential approximate total for approximate variants) on the shim and on the real oneTBB.")


# ------------------------------------------------------------------------------------------------------------------
# replay
# ------------------------------------------------------------------------------------------------------------------
def replay(path):
    r0 = json.load(open(path))
    if r0.get("component") == "trees" and "orig_case" in r0:
        r0 = dict(r0); r0["case"] = r0["orig_case"]; r0["component"] = "c03"
        path2 = path + ".orig.json"; json.dump(r0, open(path2, "w")); path = path2
    r = json.load(open(path))
    if "case" not in r:
        print("no input case recorded (%s)" % r.get("theorem_or_correspondence", r.get("what")))
        print("VIOLATION property=%s replay=%s" % (PID, path)); return 1
    line = r["case"]; comp = r.get("component", "c03")
    if comp == "c03_trees":
        lib.ensure_model("c03")
        exe, err = lib.build_cpp(name="c03_trees", srcs=["c03_trees.cpp"], libs=SHIM_LIBS, shim=True)
        if exe is None: print(err); print("VIOLATION property=%s replay=%s" % (PID, path)); return 1
        d = parse_tcase(line)
        o = lib.run_lines([exe], [line], par=1)[0]
        print("case:", line); print("impl:", o)
        bad = judge(d, o, {}) if d["kind"] == "W" else judge_lookup(d, o) if d["kind"] == "L" else judge_builder(d, o)
        ml = trees_model_line(d, line, o) if not o.startswith(("IMPL-EXCEPTION", "CRASH")) else None
        if ml is not None:
            m = lib.run_model(TCOMP[d["kind"]][0], [ml], par=1, group="c03")[0]; print("model:", m)
            if not bad and m.strip() != trees_canon(d, o): bad = "differs from the extracted ParTreesModel under the same schedule"
        elif not bad: bad = "no answer"
        print("judge:", bad)
        if bad:
            print("VIOLATION property=%s replay=%s" % (PID, path)); return 1
        return 0
    d = parse_case(line)
    bad = None
    if comp == "c03":
        lib.ensure_model("c03")
        exe, err = lib.build_cpp(name="c03", srcs=["c03.cpp"], libs=SHIM_LIBS, shim=True)
        if exe is None: print(err); print("VIOLATION property=%s replay=%s" % (PID, path)); return 1
        o = lib.run_lines([exe], [line], par=1)[0]
        print("case:", line[:3000]); print("impl:", o[:3000])
        bad = judge(d, o, {})
        if d["alg"] == "signed_tbb" and parse_answer(o) and model_feasible(d):
            m = lib.run_model("signedtbb", [model_case(line, o)], par=1, group="c03")[0]; print("model:", m)
            if not bad and m.strip() != canon_impl(o): bad = "differs from the extracted model under the same schedule"
    else:
        tsan = comp == "c03_tsan"
        exe, err = lib.build_cpp(name=comp, srcs=["c03_real.cpp"], libs=REAL_LIBS, sanitize="tsan" if tsan else None)
        if exe is None: print(err); print("VIOLATION property=%s replay=%s" % (PID, path)); return 1
        for attempt in range(5 if tsan else 20):        # real schedules vary from run to run
            if tsan:
                outs, found, _ = run_tsan(exe, [line])
                o = outs[0] or "CRASH"
                if found: bad = "ThreadSanitizer: " + found[0][1][:1500]
            else:
                o = lib.run_lines([exe], [line], par=1)[0]
            bad = bad or judge(d, o, {})
            if bad: break
        print("case:", line[:3000]); print("impl:", o[:3000])
    print("judge:", bad)
    if bad:
        print("VIOLATION property=%s replay=%s" % (PID, path)); return 1
    return 0
