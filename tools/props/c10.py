"""C10 — read_dimacs_from_file and the input validators describe the file faithfully.
Theorems: Properties_C10.v (round trip for every well-formed layout, undeclared vertex, validators; D3 refuted for the
original reader).  Tie: generated DIMACS texts are written to files and read by the real parmcb::read_dimacs_from_file
(harness/c10.cpp); the graph is compared field by field with the extracted model `read` (exact rational weights rounded
correctly to binary64 here) and judged against the property text by an independent parser below; the validators run on
generated multigraphs."""
import json, shutil, os, re
from fractions import Fraction
import lib

PID = "C10"
THEOREMS = ["Properties_C10.v", "Properties_C10_shift.v"]
GROUP = "c10"
LIBS = ["-ltbb"]
D3_SIGNATURE = "final line without newline"

# ----------------------------------------------------------------------------------------------------------------------
# canonical form of an answer: ("OK", n, [(u, v, float)]) | ("THROW",) | ("OTHER", text)
# ----------------------------------------------------------------------------------------------------------------------

def frac_to_float(s):
    """correctly rounded binary64 of an exact 'num/den' (CPython's int/int true division rounds correctly)"""
    num, den = s.split("/")
    num, den = int(num), int(den)
    try:
        return num / den
    except OverflowError:
        return float("inf") if num > 0 else float("-inf")


def canon(line, weight):
    t = line.split()
    if not t: return ("OTHER", line)
    if t[0] == "THROW": return ("THROW",)
    if t[0] != "OK": return ("OTHER", line)
    try:
        n, m = int(t[1]), int(t[2])
        if len(t) != 3 + 3 * m: return ("OTHER", line)
        es = [(int(t[3 + 3 * i]), int(t[4 + 3 * i]), weight(t[5 + 3 * i])) for i in range(m)]
        return ("OK", n, es)
    except Exception:
        return ("OTHER", line)


def canon_impl(line): return canon(line, float.fromhex)
def canon_model(line): return canon(line, frac_to_float)


def same(a, b):
    """equality of canonical answers; weights compared as doubles (-0.0 == 0.0, nan never occurs in the streams)"""
    return a == b


def show(a):
    if a[0] == "OK": return "OK n=%d edges=%s" % (a[1], [(u, v, w) for (u, v, w) in a[2]][:12])
    return " ".join(map(str, a))

# ----------------------------------------------------------------------------------------------------------------------
# the independent judge: the property text, directly
# ----------------------------------------------------------------------------------------------------------------------
INT_RE = re.compile(rb"^[+-]?[0-9]+$")
DEC_RE = re.compile(rb"^[+-]?([0-9]+(\.[0-9]*)?|\.[0-9]+)([eE][+-]?[0-9]+)?$")


def judge_text(text):
    """the graph a DIMACS text describes, or ("THROW",) when an edge names an undeclared vertex; None = the property
    text has no opinion on this text (unknown line kinds, several problem lines, malformed fields, lines that do not
    fit the buffer, NUL bytes, numbers that do not fit their C types)."""
    if b"\0" in text: return None
    lines = text.split(b"\n")
    if lines and lines[-1] == b"": lines.pop()          # a final newline terminates the last line
    n = None; edges = []
    for ln in lines:
        if len(ln) > 1022: return None                  # not shorter than the reader's buffer
        if ln[:1] in (b"c", b"#"): continue             # comment
        if ln.strip() == b"": continue                  # blank line: nothing described
        if ln[:1] == b"p":
            f = ln[1:].split()
            if n is not None or len(f) < 2 or not INT_RE.match(f[1]): return None
            n = int(f[1])
            if not 0 <= n <= 2 ** 64 - 2: return None
            if len(f) >= 3 and not (INT_RE.match(f[2]) and abs(int(f[2])) < 2 ** 64): return None
        elif ln[:1] in (b"a", b"e"):
            f = ln[1:].split()
            if len(f) < 2 or not INT_RE.match(f[0]) or not INT_RE.match(f[1]): return None
            u, v = int(f[0]), int(f[1])
            if not (-2 ** 31 <= u < 2 ** 31 and -2 ** 31 <= v < 2 ** 31): return None
            w = 1.0
            if len(f) >= 3:
                if not DEC_RE.match(f[2]): return None
                w = float(f[2].decode())               # correctly rounded, as strtod
            if n is None or not (1 <= u <= n and 1 <= v <= n): return ("THROW",)   # undeclared vertex => error
            edges.append((u - 1, v - 1, w))
        else:
            return None                                 # a line kind the property does not talk about
    return ("OK", n if n is not None else 0, edges)


def judge_validators(case):
    """(loops, multi or None, nonpos): multi only on loop-free multigraphs, as the property says"""
    t = case.split(); n, m = int(t[1]), int(t[2])
    es = [(int(t[3 + 3 * i]), int(t[4 + 3 * i]), Fraction(t[5 + 3 * i])) for i in range(m)]
    loops = any(u == v for u, v, _ in es)
    pairs = [frozenset((u, v)) for u, v, _ in es]
    multi = None if loops else (len(set(pairs)) < len(pairs))
    nonpos = any(w <= 0 for _, _, w in es)
    return loops, multi, nonpos

# ----------------------------------------------------------------------------------------------------------------------
# generators
# ----------------------------------------------------------------------------------------------------------------------
BLANKS = [b" ", b" ", b" ", b"\t", b"  ", b" \t", b"\t ", b"   ", b"\v", b"\f"]
NAMES = [b"edge", b"edge", b"sp", b"col", b"max", b"x", b"EDGE", b"min-cost", b"p", b"e1", b"tw", b"c", b"#", b"1"]


def hexcase(text): return "R " + (text.hex() if text else "-")


def blank(rng, allow_empty=False):
    if allow_empty and rng.random() < 0.15: return b""
    return rng.choice(BLANKS)


def int_lit(rng, v):
    s = str(v).encode()
    r = rng.random()
    if r < 0.08: s = b"0" * rng.randint(1, 3) + s
    if rng.random() < 0.08: s = b"+" + s
    return s


def gen_weight(rng, stats):
    """(literal bytes or None, kind)"""
    r = rng.random()
    if r < 0.22: kind, lit = "omitted", None
    elif r < 0.45:
        kind = "integer"; v = rng.choice([0, 1, 2, 3, 7, 10, 15, 100, 1000, rng.randint(0, 10 ** 6), rng.randint(0, 2 ** 53)])
        lit = str(v).encode()
    elif r < 0.62:                                       # decimals that binary64 represents exactly: k / 2^j
        kind = "dyadic"; j = rng.randint(1, 10); k = rng.randint(0, 2 ** 20)
        lit = format(Fraction(k, 2 ** j).numerator * 5 ** j, "d")           # k/2^j = k*5^j / 10^j
        lit = lit.rjust(j + 1, "0"); lit = (lit[:-j] + "." + lit[-j:]).encode()
    elif r < 0.8:                                        # general decimals (strtod rounds)
        kind = "decimal"; a = rng.randint(0, 10 ** rng.randint(0, 6)); nf = rng.randint(1, 18)
        lit = ("%d.%s" % (a, "".join(rng.choice("0123456789") for _ in range(nf)))).encode()
        if rng.random() < 0.15: lit = lit[lit.index(b"."):] if a == 0 else lit        # ".5"
    elif r < 0.85:
        kind = "decimal"; lit = ("%d." % rng.randint(0, 999)).encode()                # "5."
    else:
        kind = "exponent"
        mant = rng.choice([b"1", b"2.5", b"0.001", b".5", b"12.", str(rng.randint(0, 99999)).encode() + b"." + str(rng.randint(0, 999)).encode()])
        e = rng.choice([0, 1, 2, 3, 5, 10, 15, 22, 23, 30, 100, 300, 308, 309, 400]) * rng.choice([1, 1, -1])
        lit = mant + rng.choice([b"e", b"E"]) + (b"+" if e >= 0 and rng.random() < 0.3 else b"") + str(e).encode()
    if lit is not None:
        s = rng.random()
        if s < 0.12: lit = b"-" + lit; kind += "/neg"
        elif s < 0.18: lit = b"+" + lit
    stats["weight/" + kind.split("/")[0]] = stats.get("weight/" + kind.split("/")[0], 0) + 1
    return lit


def gen_skip(rng, stats, maxlen=60):
    r = rng.random()
    if r < 0.45:
        k = "comment_c"; body = bytes(rng.choice(b" abcdefghijklmnopqrstuvwxyz0123456789.,;:-+#\t") for _ in range(rng.randint(0, maxlen)))
        ln = b"c" + body
    elif r < 0.7:
        k = "comment_hash"; ln = b"#" + bytes(rng.choice(b" ape0123456789x\t") for _ in range(rng.randint(0, maxlen)))
    elif r < 0.85: k = "blank"; ln = b""
    elif r < 0.93: k = "blank_ws"; ln = bytes(rng.choice(b" \t") for _ in range(rng.randint(1, 4)))
    else: k = "comment_c"; ln = b"c e 1 2 3"             # looks like an edge, is a comment
    stats["line/" + k] = stats.get("line/" + k, 0) + 1
    return ln


def gen_valid(rng, stats, tier):
    """a mostly-valid text: returns (text, expected canonical answer)"""
    r = rng.random()
    n = rng.choice([0, 1, 2, 3]) if r < 0.1 else (rng.randint(1, 12) if r < 0.7 else rng.randint(1, 200))
    if rng.random() < 0.01: n = rng.choice([1000, 4096, 70000])
    maxlines = 60
    m = 0 if n == 0 else rng.choice([0, 1, 2, 3, rng.randint(0, 12), rng.randint(0, maxlines - 8)])
    crlf = rng.random() < 0.12
    final_nl = rng.random() < 0.55
    lines = []
    for _ in range(rng.choice([0, 0, 1, 2, 3])): lines.append(gen_skip(rng, stats))
    pl = b"p" + blank(rng, True) + rng.choice(NAMES) + blank(rng) + int_lit(rng, n)
    if rng.random() < 0.9: pl += blank(rng) + int_lit(rng, m if rng.random() < 0.8 else rng.randint(0, 99))
    if rng.random() < 0.15: pl += blank(rng)
    lines.append(pl); stats["line/problem"] = stats.get("line/problem", 0) + 1
    edges = []
    budget = maxlines - len(lines) - m
    for _ in range(m):
        while budget > 0 and rng.random() < 0.12:
            lines.append(gen_skip(rng, stats)); budget -= 1
        rr = rng.random()
        if rr < 0.08: u = v = rng.randint(1, n)                               # self-loop
        elif rr < 0.2 and edges: u, v = edges[-1][0] + 1, edges[-1][1] + 1      # parallel edge
        else: u, v = rng.randint(1, n), rng.randint(1, n)
        if rng.random() < 0.3: u, v = v, u
        letter = b"a" if rng.random() < 0.35 else b"e"
        stats["line/edge_" + letter.decode()] = stats.get("line/edge_" + letter.decode(), 0) + 1
        lit = gen_weight(rng, stats)
        parts = [letter + blank(rng, True) + int_lit(rng, u), int_lit(rng, v)] + ([lit] if lit is not None else [])
        seps = [blank(rng) for _ in parts[1:]]
        if rng.random() < (0.05 if tier == "quick" else 0.08):                 # a data line as long as the buffer allows (the weight near / past the middle of it)
            L = rng.choice([300, 511, 512, 513, 514, 600, 1000, 1020, 1021, 1022]) - (1 if crlf else 0)
            cur = sum(map(len, parts)) + sum(map(len, seps))
            if L > cur:
                j = rng.randrange(len(seps)) if rng.random() < 0.5 else len(seps) - 1
                seps[j] = seps[j] + bytes(rng.choice(b" \t") for _ in range(L - cur))
                stats["line/long_edge"] = stats.get("line/long_edge", 0) + 1
        ln = parts[0] + b"".join(sp + pt for sp, pt in zip(seps, parts[1:]))
        if rng.random() < 0.12 and len(ln) < 1000: ln += blank(rng)
        lines.append(ln)
        edges.append((u - 1, v - 1, 1.0 if lit is None else float(lit.decode())))
    while budget > 0 and rng.random() < 0.25:
        lines.append(gen_skip(rng, stats)); budget -= 1
    if rng.random() < (0.03 if tier == "quick" else 0.05):                     # a comment as long as the buffer allows
        i = rng.randrange(len(lines) + 1); L = rng.choice([1022, 1021, 1000, 1022 - (1 if crlf else 0)])
        L -= 1 if crlf and L == 1022 else 0
        lines.insert(i, b"c" + b"x" * (L - 1)); stats["line/long_comment"] = stats.get("line/long_comment", 0) + 1
    if crlf:
        lines = [ln + b"\r" for ln in lines]; stats["text/crlf"] = stats.get("text/crlf", 0) + 1
    text = b"\n".join(lines) + (b"\n" if final_nl else b"")
    stats["text/final_newline" if final_nl else "text/no_final_newline"] = stats.get("text/final_newline" if final_nl else "text/no_final_newline", 0) + 1
    last = lines[-1]
    if not final_nl and last[:1] in (b"a", b"e", b"p"): stats["text/no_final_newline_on_data_line"] = stats.get("text/no_final_newline_on_data_line", 0) + 1
    return text, ("OK", n, edges)


def gen_malformed(rng, stats):
    """texts outside the mostly-valid family; returns (text, tag)"""
    n = rng.randint(1, 9)
    good = [b"e %d %d" % (rng.randint(1, n), rng.randint(1, n)) for _ in range(rng.randint(0, 4))]
    p = b"p edge %d %d" % (n, len(good))
    nl = b"\n" if rng.random() < 0.6 else b""
    k = rng.choice(["undeclared0", "undeclared_n1", "undeclared_neg", "undeclared_big", "no_p", "no_p_comments", "edge_before_p",
                    "garbage", "empty", "only_newlines", "p_no_name", "p_glued", "two_p", "p_minus0", "missing_fields", "unsupported_float",
                    "glued_fields", "long_line", "undeclared_mid", "p_only", "trailing_junk", "tabs_only", "weight_sign_only"])
    def bad_edge(v):
        a, b = (v, rng.randint(1, n)) if rng.random() < 0.5 else (rng.randint(1, n), v)
        return b"%s %d %d%s" % (rng.choice([b"e", b"a"]), a, b, rng.choice([b"", b" 2", b" 0.5"]))
    if k == "undeclared0": ls = [p] + good + [bad_edge(0)]
    elif k == "undeclared_n1": ls = [p] + good + [bad_edge(n + 1)]
    elif k == "undeclared_neg": ls = [p] + good + [bad_edge(-rng.randint(1, 5))]
    elif k == "undeclared_big": ls = [p] + good + [bad_edge(rng.choice([n + 2, 1000, 2 ** 31 - 1]))]
    elif k == "undeclared_mid": ls = [p] + good + [bad_edge(n + 1)] + good + [b"c after"]
    elif k == "no_p": ls = [b"c no problem line"] + (good or [b"e 1 1"])
    elif k == "no_p_comments": ls = [b"c only", b"# comments", b""]
    elif k == "edge_before_p": ls = [b"e 1 %d" % n, p] + good
    elif k == "garbage": ls = [p] + good + [rng.choice([b"x 1 2", b"n 3 4", b"t foo", b" e 1 2", b"E 1 2", b"A 1 1", b"1 2 3", b"\te 1 1", b"P edge 3", b"-"])] + good
    elif k == "empty": ls = []; nl = b""
    elif k == "only_newlines": ls = [b""] * rng.randint(1, 3); nl = b"\n"
    elif k == "p_no_name": ls = [b"p %d %d" % (rng.randint(0, 5), n)] + good          # "%s" eats the first number
    elif k == "p_glued": ls = [b"pedge %d 0" % n, b"problem %d" % n][rng.random() < 0.5:][:1] + good
    elif k == "two_p": ls = [p] + good + [b"p edge %d 0" % rng.randint(0, 4)] + [b"e 1 %d" % rng.randint(1, n + 2)]
    elif k == "p_minus0": ls = [b"p edge -0 0", b"c x"]
    elif k == "missing_fields": ls = [p] + good + [rng.choice([b"e", b"e 1", b"a ", b"e x y", b"e 1 x"])]
    elif k == "unsupported_float": ls = [p] + good + [b"e 1 1 " + rng.choice([b"1e", b"2e+", b"0x10", b"0X1p3", b"inf", b"nan", b"-inf", b"Infinity", b"NAN"])]
    elif k == "glued_fields": ls = [p] + good + [rng.choice([b"e1 1", b"e 1 1 5abc", b"e 1 1 5,5", b"e 1+1", b"e 1 1 1.5.5", b"e 1 1 --5", b"e 1 1 5 6 7", b"e 1 1 5e2e3"])]
    elif k == "long_line": ls = [p] + good + [b"c" + b"y" * rng.choice([1022, 1023, 1024, 1025, 2046, 2047, 3000]) + rng.choice([b"", b"e 1 1", b" p edge 1 1"])] + good
    elif k == "p_only": ls = [p]
    elif k == "trailing_junk": ls = [p + b" junk 7"] + good + [b"e 1 1 2.5 junk"]
    elif k == "tabs_only": ls = [p.replace(b" ", b"\t")] + [g.replace(b" ", b"\t") for g in good]
    else: ls = [p] + good + [b"e 1 1 " + rng.choice([b"-", b"+", b".", b"e5", b"-.e1"])]
    stats["malformed/" + k] = stats.get("malformed/" + k, 0) + 1
    return b"\n".join(ls) + nl, k


def gen_multigraph(rng):
    n = rng.choice([1, 2, 3, 4, 5, 6, 8, 12]); m = rng.choice([0, 1, 2, 3, rng.randint(0, 10), rng.randint(0, 25)])
    style = rng.random(); es = []
    for _ in range(m):
        r = rng.random()
        if style < 0.35: u, v = rng.randrange(n), rng.randrange(n)
        elif style < 0.7:                                                   # loop-free
            if n == 1: break
            u = rng.randrange(n); v = (u + rng.randint(1, n - 1)) % n
        else:                                                                # simple-ish: distinct pairs, sometimes one repeat
            if n == 1: break
            u = rng.randrange(n); v = (u + rng.randint(1, n - 1)) % n
            if frozenset((u, v)) in {frozenset(e[:2]) for e in es} and rng.random() < 0.9: continue
        w = rng.random()
        if w < 0.7: k, j = rng.randint(1, 1000), rng.choice([0, 0, 1, 3, 10])
        elif w < 0.8: k, j = 0, 0
        elif w < 0.9: k, j = -rng.randint(1, 1000), rng.choice([0, 2])
        else: k, j = rng.choice([1, -1]), rng.choice([40, 60, 1000, 1074])      # tiny magnitudes, still exact
        es.append((u, v, Fraction(k, 2 ** j)))
    impl = "V %d %d" % (n, len(es)) + "".join(" %d %d %s" % (u, v, float(w).hex()) for u, v, w in es)
    model = "V %d %d" % (n, len(es)) + "".join(" %d %d %d/%d" % (u, v, w.numerator, w.denominator) for u, v, w in es)
    return impl, model


def gen_dgraph(rng):
    """input of the model's canonical printer: P nl n m (u v mant k)*"""
    n = rng.randint(1, 30); m = rng.randint(0, 12); es = []
    for _ in range(m):
        k = rng.choice([0, 0, 0, 1, 2, 3, 6]); mant = rng.choice([1, 0, 5, -3, 10, 100, rng.randint(-10 ** 6, 10 ** 6)])
        es.append((rng.randrange(n), rng.randrange(n), mant, k))
    nl = rng.randint(0, 1)
    line = "P %d %d %d" % (nl, n, m) + "".join(" %d %d %d %d" % e for e in es)
    exp = ("OK", n, [(u, v, float(Fraction(mant, 10 ** k))) for u, v, mant, k in es])
    return line, exp

# ----------------------------------------------------------------------------------------------------------------------
# the check
# ----------------------------------------------------------------------------------------------------------------------

def text_of_case(case):
    h = case.split()[1]
    return b"" if h == "-" else bytes.fromhex(h)


def d3_candidate(text, impl_c, orig_line, impl_nl_c, model_c):
    """behavioural signature of the known defect D3 ("final line without newline"): the text does not end with a
    newline, the implementation reads the same text *with* a newline appended exactly as the (repaired) model reads the
    text itself, and on the text itself it answers what the original reader (model read_orig: last byte of the final line
    eaten) answers.  When the eaten byte leaves an uninitialised variable to be read (read_orig = UNDEF, e.g. "p edge 5"
    -> "p edge ") or a literal outside the modelled %lf grammar (UNSUP, "1e+5" -> "1e+") the last condition is void."""
    if len(text) == 0 or text.endswith(b"\n"): return False
    if impl_nl_c is None or not same(impl_nl_c, model_c): return False
    if orig_line.strip() in ("UNDEF", "UNSUP"): return True
    oc = canon_model(orig_line)
    return oc[0] in ("OK", "THROW") and same(impl_c, oc)


def shrink_text(exe, text, fails):
    lines = text.split(b"\n")
    def still(ls):
        return fails(b"\n".join(ls))
    try:
        return b"\n".join(lib.shrink_list(lines, still, max_rounds=40))
    except Exception:
        return text


def run_reader_cases(c, exe, cases, expected, tags):
    """cases: 'R hex' lines; expected[i]: generator's answer or None; returns nothing, records violations"""
    mo = lib.run_model("read", cases, group=GROUP)
    io = lib.run_lines([exe], cases, timeout=900)
    findings = {f["id"]: f for f in lib.known_findings(PID)}
    suspects = []
    n_undef = 0
    for i, cs in enumerate(cases):
        text = text_of_case(cs)
        ic, mc = canon_impl(io[i]), canon_model(mo[i])
        jd = judge_text(text)
        exp = expected[i]
        nontrivial = (exp is not None and exp[0] == "OK" and len(exp[2]) >= 1) or (exp is None and jd is not None and jd != ("OK", 0, []))
        c.count(cs, nontrivial, bucket=tags[i])
        if exp is not None and (jd is None or not same(jd, exp)):
            c.violation("check inconsistency: the judge reads %s but the generator meant %s" % (show(jd) if jd else None, show(exp)),
                        {"component": "read", "theorem_or_correspondence": "tools/props/c10.py generator vs judge", "case": cs}, False)
            continue
        model_defined = mc[0] in ("OK", "THROW")
        if not model_defined:
            n_undef += 1
            if jd is not None:   # the property has an opinion but the model calls the input undefined/unsupported
                c.violation("correspondence read: the model answers %s on a text the property text covers" % mo[i][:60],
                            {"component": "read", "theorem_or_correspondence": "correspondence read: extracted DimacsModel.read vs property text",
                             "case": cs, "impl": io[i], "model": mo[i]}, False)
            continue
        if jd is not None and not same(ic, jd):
            suspects.append((i, "judge"))
        elif not same(ic, mc):
            suspects.append((i, "model"))
        elif jd is not None and not same(mc, jd):
            suspects.append((i, "model"))
    c.extra["model_undefined_or_unsupported"] = c.extra.get("model_undefined_or_unsupported", 0) + n_undef
    if not suspects: return
    # the original reader's behaviour on the suspects (only now needed)
    sc = [cases[i] for i, _ in suspects]
    oo = lib.run_model("read_orig", sc, group=GROUP)
    nlo = lib.run_lines([exe], [hexcase(text_of_case(x) + b"\n") for x in sc], timeout=900)   # the same texts, newline appended
    d3_hits = []; reported = {}
    for (i, why), ol, nl in sorted(zip(suspects, oo, nlo), key=lambda x: len(cases[x[0][0]])):
        text = text_of_case(cases[i]); ic, mc = canon_impl(io[i]), canon_model(mo[i]); jd = judge_text(text)
        if "D3" in findings and d3_candidate(text, ic, ol, canon_impl(nl), mc) and (jd is None or same(mc, jd)):
            d3_hits.append((i, text, ic, mc, ol.strip() in ("UNDEF", "UNSUP"))); continue
        if why == "judge":
            key = ("judge", tags[i])
            if reported.get(key, 0) >= 2: continue
            reported[key] = reported.get(key, 0) + 1
            def fails(t, _exe=exe):
                j = judge_text(t)
                if j is None: return False
                o = lib.run_lines([_exe], [hexcase(t)], par=1)[0]
                return not same(canon_impl(o), j)
            small = shrink_text(exe, text, fails)
            c.violation("read_dimacs_from_file misreads a text: expected %s, got %s; text %r" % (show(jd), show(ic), small[:300]),
                        {"component": "read", "case": hexcase(small), "original_case": cases[i], "impl": io[i], "model": mo[i], "text": small.decode("latin1")}, True)
        else:
            key = ("model", tags[i])
            if reported.get(key, 0) >= 2: continue
            reported[key] = reported.get(key, 0) + 1
            c.violation("correspondence read (%s) no longer checks: model %s, implementation %s%s" %
                        (tags[i], show(mc), show(ic), "; implementation answer still satisfies the property text" if jd is not None else "; property text has no opinion on this text"),
                        {"component": "read", "theorem_or_correspondence": "correspondence read: extracted DimacsModel.read vs harness/c10.cpp, stream " + tags[i],
                         "case": cases[i], "impl": io[i], "model": mo[i], "text": text.decode("latin1")}, False)
    if d3_hits:
        i, text, ic, mc, _ = min(d3_hits, key=lambda h: (h[4], len(h[1])))
        c.known(findings["D3"], "finding=D3 signature=\"%s\" %d text(s) whose unterminated final line loses its last character, e.g. %r read as %s instead of %s"
                % (D3_SIGNATURE, len(d3_hits), text[-40:], show(ic)[:120], show(mc)[:120]))
        c.extra["d3_hits"] = c.extra.get("d3_hits", 0) + len(d3_hits)


def run_validator_cases(c, exe, impl_cases, model_cases):
    mo = lib.run_model("val", model_cases, group=GROUP)
    io = lib.run_lines([exe], impl_cases, timeout=600)
    reported = 0
    for i, cs in enumerate(model_cases):
        loops, multi, nonpos = judge_validators(cs)
        c.count(cs, int(cs.split()[2]) >= 1, bucket="V/" + ("loops" if loops else "loop-free"))
        t = io[i].split()
        bad = None
        if len(t) != 4 or t[0] != "V": bad = "validators failed: " + io[i][:200]
        else:
            il, im, ip = t[1] == "1", t[2] == "1", t[3] == "1"
            if il != loops: bad = "has_loops answers %s, the graph %s a self-loop" % (il, "has" if loops else "has no")
            elif ip != nonpos: bad = "has_non_positive_weights answers %s, the graph %s a weight <= 0" % (ip, "has" if nonpos else "has no")
            elif multi is not None and im != multi: bad = "has_multiple_edges answers %s on a loop-free multigraph that %s repeated pair" % (im, "has a" if multi else "has no")
        if bad:
            if reported < 3:
                c.violation(bad + " (" + cs[:200] + ")", {"component": "val", "case": impl_cases[i], "model_case": cs, "impl": io[i], "model": mo[i]}, True)
            reported += 1
        elif io[i] != mo[i]:
            if reported < 3:
                c.violation("correspondence val no longer checks: model %s, implementation %s (graph with loops: has_multiple_edges is outside the property text)" % (mo[i], io[i]),
                            {"component": "val", "theorem_or_correspondence": "correspondence val: extracted validators vs harness/c10.cpp",
                             "case": impl_cases[i], "model_case": cs, "impl": io[i], "model": mo[i]}, False)
            reported += 1


def run_demo_cases(c):
    """src/mcb-dimacs.cpp is anchored by this property ("every demo run depends on" the reader): the built program must reflect what the reader
    reports — a file naming an undeclared vertex must NOT be answered with a weight of some truncated graph (non-zero exit, no 'MCB weight' line),
    and a valid file must be answered with exit 0 and exactly one weight line."""
    import subprocess, demo_build, tempfile
    exe, err = demo_build.build_demo("mcb")
    if exe is None:
        c.violation("demo mcb-dimacs does not compile from the working tree", {"theorem_or_correspondence": "demo build mcb-dimacs", "log": (err or "")[-1500:]}, False)
        return
    wd = tempfile.mkdtemp(prefix="c10demo_", dir=lib.BUILD)
    files = [("p edge 4 6\ne 1 2 1.5\ne 2 3 2\ne 3 1 2.5\ne 1 4 3\ne 2 4 4\ne 3 4 5\n", True),
             ("p edge 3 3\ne 1 2\ne 2 3\ne 3 1", True),
             ("p edge 3 3\ne 1 2 1\ne 2 3 1\ne 3 4 1\n", False),           # undeclared vertex on the last line
             ("p edge 3 3\ne 1 2 1\ne 0 3 1\ne 3 1 1\n", False),           # vertex 0
             ("p edge 3 3\ne 7 2 1\ne 2 3 1\ne 3 1 1\n", False),           # on the first edge line
             ("p edge 4 5\ne 1 2 1\ne 2 3 1\ne 3 1 1\ne 3 4 1\ne 4 5 2\n", False),
             ("e 1 2 1\np edge 2 1\n", False)]                              # edge before the problem line: no vertex declared yet
    reported = 0
    for i, (text, valid) in enumerate(files):
        fn = os.path.join(wd, "f%d.gr" % i)
        open(fn, "w").write(text)
        for args in ([], ["--signed=false", "--fvstrees=true", "--parallel=false"]):
            try:
                p = subprocess.run([exe, fn] + args, capture_output=True, text=True, timeout=60)
                rc, so = p.returncode, p.stdout
            except subprocess.TimeoutExpired:
                rc, so = 124, ""
            nw = so.count("MCB weight")
            c.count("DEMO %s %s" % (text.encode().hex(), " ".join(args)), True, bucket="demo/" + ("valid" if valid else "undeclared"))
            bad = None
            if valid and (rc != 0 or nw != 1): bad = "valid file: exit status %d, %d weight line(s)" % (rc, nw)
            if not valid and (rc == 0 or nw != 0): bad = "file naming an undeclared vertex: exit status %d and %d 'MCB weight' line(s); the reader's error must end the run" % (rc, nw)
            if bad and reported < 2:
                reported += 1
                c.violation("mcb-dimacs: " + bad, {"component": "c10demo", "text_hex": text.encode().hex(), "args": args, "exit": rc, "stdout": so[-400:]}, True)
    shutil.rmtree(wd, ignore_errors=True)


def sizes(tier):
    return (2000, 400, 1000, 300) if tier == "quick" else (20000, 4000, 10000, 3000)


def check(tier, seed):
    c = lib.Check(PID, tier, seed, THEOREMS)
    NV, NM, NG, NP = sizes(tier)
    c.rule = ("%d structured mostly-valid DIMACS texts (<= 60 lines; comment/blank/white-space lines anywhere incl. before the problem line, comments "
              "starting with 'c' and '#', problem names incl. 'p'/'c'/'#'-like ones, 'a' and 'e' lines, optional '+' and leading zeros, separators "
              "space/tab/\\v/\\f and none after the letter, weights omitted / integer / exact dyadic decimal / general decimal (.5, 5.) / exponent "
              "(up to e+-400) / signed, trailing blanks, \\r\\n texts, comment lines of 1000..1022 bytes, final newline present or absent); "
              "%d malformed texts (undeclared vertex 0, n+1, negative, huge; no problem line; edge before the problem line; garbage lines; empty "
              "file; glued or missing fields; two problem lines; lines longer than the buffer; literals outside the model's %%lf grammar); "
              "%d texts produced by the model's canonical printer; %d multigraphs (n <= 12, m <= 25, loops / parallel edges / weights k/2^j incl. "
              "0, negative, 2^-1074) for the validators.  No NUL bytes.  distinct by md5; non-trivial = text describing >= 1 edge or error case, "
              "multigraph with >= 1 edge") % (NV, NM, NP, NG)
    c.step_prove()
    ok = c.step_model(GROUP)
    exe = c.harness(name="c10", srcs=["c10.cpp"], libs=LIBS)
    stats = {}
    if ok and exe:
        # 1. corpus, then generated texts
        cases, expected, tags = [], [], []
        for cs in lib.corpus_cases(PID):
            if cs.startswith("R "): cases.append(cs); expected.append(None); tags.append("R/corpus")
        corpus_v = [cs for cs in lib.corpus_cases(PID) if cs.startswith("V ")]
        c.extra["corpus_cases"] = len(cases) + len(corpus_v)
        for _ in range(NV):
            text, exp = gen_valid(c.rng, stats, tier)
            cases.append(hexcase(text)); expected.append(exp); tags.append("R/valid/" + ("nl" if text.endswith(b"\n") else "no-nl"))
        for _ in range(NM):
            text, k = gen_malformed(c.rng, stats)
            cases.append(hexcase(text)); expected.append(None); tags.append("R/malformed/" + k)
        # 2. texts of the model's canonical printer
        pl = [gen_dgraph(c.rng) for _ in range(NP)]
        po = lib.run_model("print", [p[0] for p in pl], group=GROUP)
        for (line, exp), out in zip(pl, po):
            t = out.split()
            if len(t) != 4 or t[0] != "T" or t[2] != "1" or t[3] != "1":
                c.violation("model print_dimacs failed or produced a layout that is not layout_ok: " + out[:200],
                            {"component": "print", "theorem_or_correspondence": "model component print (canonical_layout)", "case": line, "model": out}, False)
                continue
            cases.append("R " + t[1]); expected.append(exp); tags.append("R/printed")
        run_reader_cases(c, exe, cases, expected, tags)
        # 3. validators
        vi, vm = [], []
        for cs in corpus_v:
            t = cs.split(); m = int(t[2])
            vm.append(cs)
            vi.append(" ".join(t[:3] + [x if k % 3 != 2 else float(Fraction(x)).hex() for k, x in enumerate(t[3:])]))
        for _ in range(NG):
            a, b = gen_multigraph(c.rng); vi.append(a); vm.append(b)
        run_validator_cases(c, exe, vi, vm)
        run_demo_cases(c)
    c.extra["layout_dimensions"] = dict(sorted(stats.items()))
    return c.finish(
        assumptions=["LP64 / glibc: int is 32 bits, unsigned long and std::size_t 64 bits; sscanf conversions follow ISO C on representable values; the \"C\" locale",
                     "the decimal -> binary64 rounding of strtod (glibc: correctly rounded) is outside the Coq model; this check rounds the model's exact rational correctly and compares doubles",
                     "texts contain no NUL byte; lines are shorter than the 1024-byte buffer (longer lines are only compared model-vs-code, the property does not cover them)",
                     "Graph = adjacency_list<vecS, vecS, undirectedS, no_property, property<edge_weight_t, double>> (the demo programs' type)",
                     "validators: weights are finite doubles (no NaN)"],
        trusted_extra=["extraction directives of coq/extract/Extract_c10.v: none of our own (ExtrOcamlBasic only); ocaml/driver_c10.ml + ocaml/common.ml (hex decoding, printing of num/den)",
                       "tools/props/c10.py: generators, judge_text (independent reading of the property text), float conversions via Python float()/int division (correctly rounded)"],
        explanation="C10_roundtrip / C10_undeclared / C10_has_* are proved for every well-formed layout resp. every multigraph over the model; this run "
                    "ties the model to the real parmcb::read_dimacs_from_file and validators by exact comparison on generated files (distribution in "
                    "coverage.layout_dimensions and coverage.input_distribution) and judges every answer against the property text independently.")


def replay(path):
    r = json.load(open(path))
    if r.get("component") == "c10demo":
        import subprocess, demo_build, tempfile
        exe, err = demo_build.build_demo("mcb")
        if exe is None:
            print("demo does not build:", err); print("VIOLATION property=%s replay=%s" % (PID, path)); return 1
        with tempfile.NamedTemporaryFile("wb", suffix=".gr", delete=False) as f:
            f.write(bytes.fromhex(r["text_hex"])); fn = f.name
        p = subprocess.run([exe, fn] + r.get("args", []), capture_output=True, text=True, timeout=60)
        os.remove(fn)
        nw = p.stdout.count("MCB weight")
        print("text:", bytes.fromhex(r["text_hex"])); print("exit:", p.returncode, "weight lines:", nw)
        undeclared = "undeclared" in r.get("what", "")
        if (undeclared and (p.returncode == 0 or nw)) or (not undeclared and (p.returncode != 0 or nw != 1)):
            print("VIOLATION property=%s replay=%s" % (PID, path)); return 1
        return 0
    lib.ensure_model(GROUP)
    exe, err = lib.build_cpp(name="c10", srcs=["c10.cpp"], libs=LIBS)
    if exe is None:
        print("harness does not build:", err); print("VIOLATION property=%s replay=%s" % (PID, path)); return 1
    line = r["case"]
    if r.get("component") == "val":
        mline = r.get("model_case", line)
        m, i = lib.run_model("val", [mline], par=1, group=GROUP)[0], lib.run_lines([exe], [line], par=1)[0]
        loops, multi, nonpos = judge_validators(mline)
        t = i.split()
        okj = len(t) == 4 and (t[1] == "1") == loops and (t[3] == "1") == nonpos and (multi is None or (t[2] == "1") == multi)
        print("case :", line); print("model:", m); print("impl :", i); print("judge: loops=%s multi=%s nonpos=%s" % (loops, multi, nonpos))
        if not okj or m != i:
            print("VIOLATION property=%s replay=%s" % (PID, path)); return 1
        return 0
    if not line.startswith("R "):
        print("not a replayable case:", line[:80]); return 1
    text = text_of_case(line)
    m, i = lib.run_model("read", [line], par=1, group=GROUP)[0], lib.run_lines([exe], [line], par=1)[0]
    jd = judge_text(text); ic, mc = canon_impl(i), canon_model(m)
    print("text :", repr(text[:400])); print("model:", show(mc)); print("impl :", show(ic)); print("judge:", show(jd) if jd else None)
    bad = (jd is not None and not same(ic, jd)) or (mc[0] in ("OK", "THROW") and not same(ic, mc))
    if bad:
        print("VIOLATION property=%s replay=%s" % (PID, path)); return 1
    return 0
