"""C13 — greedy_fvs returns a feedback vertex set.
Theorems: Properties_C13.v (every simple graph, every resolution of the heap's choices).  Tie (acceptance): the
implementation's output sequence is replayed through the model as the oracle `picks`; the model must accept it as a
complete run (FvsOk with the same output)."""
import json
import lib, gen

PID = "C13"
THEOREMS = ["Properties_C13.v"]


def acyclic_after_removal(n, es, removed):
    par = list(range(n)); rem = set(removed)
    def find(x):
        while par[x] != x: par[x] = par[par[x]]; x = par[x]
        return x
    for (u, v, _) in es:
        if u in rem or v in rem: continue
        a, b = find(u), find(v)
        if a == b: return False
        par[a] = b
    return True


def judge(case, impl):
    n, es, _ = lib.parse_graph_tokens(case.split())
    if not impl.startswith("OK"): return "greedy_fvs failed: " + impl[:200]
    out = list(map(int, impl.split()[1:]))
    if any(v < 0 or v >= n for v in out): return "emits a non-vertex: %s" % out
    if len(set(out)) != len(out): return "emits a vertex twice: %s" % out
    if not acyclic_after_removal(n, es, out): return "deleting the emitted vertices %s leaves a cycle" % out
    if acyclic_after_removal(n, es, []) and out: return "input is a forest but %s was emitted" % out
    return None


def check(tier, seed):
    c = lib.Check(PID, tier, seed, THEOREMS)
    maxn = 20 if tier == "quick" else 60
    c.rule = ("simple graphs from structured families (forests, pendant trees, dense, disconnected, K_n, grids, wheels, theta, lollipops) and random "
              "graphs, n <= %d; distinct by md5; non-trivial = graph has a cycle (non-empty output required)") % maxn
    c.step_prove()
    ok = c.step_model()
    exe = c.harness(name="c13", srcs=["c13.cpp"])
    if ok and exe:
        cases = lib.corpus_cases(PID)
        c.extra["corpus_cases"] = len(cases)
        for _ in range(2000 if tier == "quick" else 20000):
            g = gen.structural(c.rng, maxn)
            if c.rng.random() < 0.3: g = gen.add_pendant_trees(c.rng, g, c.rng.randint(1, 6))
            cases.append(gen.graph_tokens(g))
        if tier == "thorough":
            for n in range(0, 6):
                for g in gen.all_graphs(n): cases.append(gen.graph_tokens(g))
        io = lib.run_lines([exe], cases)
        # a long history of greedy_fvs calls by ONE thread of ONE process (state surviving between calls; gen.history_plan)
        import random
        nshort, nh = len(cases), (70000 if tier == "quick" else 140000)
        hist = [gen.graph_tokens(g) for g in gen.history_graphs(random.Random(seed * 7919 + 13), nh)]
        c.extra["long_history_calls"] = nh
        cases, io = cases + hist, io + lib.run_lines([exe], hist, par=1)
        mcases = []
        for cs, o in zip(cases, io):
            picks = o.split()[1:] if o.startswith("OK") else []
            mcases.append("%s %d %s" % (cs, len(picks), " ".join(picks)))
        mo = lib.run_model("c13", mcases)
        bad = []
        for i, cs in enumerate(cases):
            n, es, _ = lib.parse_graph_tokens(cs.split())
            c.count(cs, not acyclic_after_removal(n, es, []), bucket="forest" if acyclic_after_removal(n, es, []) else "cyclic")
            if io[i] != mo[i] or judge(cs, io[i]): bad.append(i)
        c.extra["disagreements_checked"] = len(bad)
        rep = {}
        for i in sorted(bad, key=lambda j: len(cases[j])):
            why = judge(cases[i], io[i]); key = why is not None
            if rep.get(key, 0) >= 2: continue
            rep[key] = rep.get(key, 0) + 1
            hd = {"history": {"seed": seed, "ncalls": nh, "index": i - nshort}} if i >= nshort else {}
            if why:
                c.violation("greedy_fvs: " + why + (" (call %d of a single-thread history of calls)" % (i - nshort + 1) if hd else ""),
                            dict({"component": "c13", "case": cases[i], "impl": io[i], "model": mo[i]}, **hd), True)
            else:
                c.violation("correspondence c13 (acceptance: the model does not accept the implementation's output as a complete run: %s); output is still a feedback vertex set" % mo[i][:80],
                            {"component": "c13", "theorem_or_correspondence": "correspondence c13: extracted greedy_fvs replaying harness/c13.cpp output as picks",
                             "case": cases[i], "impl": io[i], "model": mo[i], **hd}, False)
        lib.config_differential(c, "c13", ["c13.cpp"], cases[:nshort], io[:nshort], judge=judge)
        # graphs beyond the range of narrow index types (n > 2^8, n > 2^16): judged against the property text only
        bigs = [gen.graph_tokens(g) for g in gen.big_graphs(c.rng, fan=True)]
        bio = lib.run_lines([exe], bigs, par=1, timeout=600)
        c.extra["big_graphs"] = [int(b.split()[0]) for b in bigs]
        for b, o in zip(bigs, bio):
            c.count(b[:200], True, bucket="big")
            why = judge(b, o)
            if why:
                c.violation("greedy_fvs on a graph with %s vertices: %s" % (b.split()[0], why[:300]), {"component": "c13", "case": b, "impl": o[:2000], "judge_only": True}, True)
    return c.finish(
        assumptions=["pairing_heap::top returns some element of the heap (which one is the oracle, universally quantified in the theorems)",
                     "termination of the real loop is a runtime fact; the model proves every complete run yields a feedback vertex set and that complete runs exist"],
        explanation="Theorem C13_fvs holds for every pick sequence; this run replays the implementation's emitted sequence through the model (acceptance) "
                    "and judges each output against the property text (vertices, distinct, acyclic remainder, nothing for forests).")


def replay(path):
    r = json.load(open(path))
    lib.ensure_model()
    exe, err = lib.build_cpp(name="c13", srcs=["c13.cpp"])
    line = r["case"]
    if "history" in r:       # the failure needs the calls made before it by the same thread: regenerate the stream and run its prefix
        import random
        h = r["history"]
        hist = [gen.graph_tokens(g) for g in gen.history_graphs(random.Random(h["seed"] * 7919 + 13), h["ncalls"])][:h["index"] + 1]
        assert hist[-1] == line, "history stream not reproducible"
        i = lib.run_lines([exe], hist, par=1)[-1]
    else:
        i = lib.run_lines([exe], [line], par=1)[0]
    picks = i.split()[1:] if i.startswith("OK") else []
    if r.get("judge_only"): m = None
    else: m = lib.run_model("c13", ["%s %d %s" % (line, len(picks), " ".join(picks))], par=1)[0]
    why = judge(line, i)
    print("case :", line[:2000]); print("model:", (m or "-")[:2000]); print("impl :", i[:2000]); print("judge:", why)
    if why or (m is not None and m != i):
        print("VIOLATION property=%s replay=%s" % (PID, path)); return 1
    return 0
