"""C15 — the intermediate spanner is a weighted (2k-1)-spanner of girth > 2k.
Theorems: Properties_C15.v (every simple graph, k >= 1, every weight-sorted scan order).  Tie: the spanner exposed by the
PARMCB_VERIF accessors vs the extracted construct_spanner run on the scan order recovered from the implementation
(merge by weight, retained before dropped on ties: reproduces the outcome, see DESIGN.md C15); is_bfs_reachable directly.
Weight types: double (S, S2 = external property map) and long long (SL, SL2: 64-bit weights above 2^53, distinct weights that collide when rounded
to double, see props/c12.py weigh64); the scan order is recovered with exact integer comparisons, model and judge compute with unbounded integers."""
import json
import lib, gen

PID = "C15"
THEOREMS = ["Properties_C15.v", "Properties_C15_scan.v"]
KEYS = ["NV", "RET", "DROP", "SPE", "SPW", "MAPSIZE"]
SPANNER_KINDS = ("S", "S2", "SL", "SL2")
LIBS = ["-ltbb", "-lboost_timer"]




def hopdist(n, edges, s, t):
    adj = {v: [] for v in range(n)}
    for (u, v) in edges: adj[u].append(v); adj[v].append(u)
    d = {s: 0}; q = [s]
    for x in q:
        for y in adj[x]:
            if y not in d: d[y] = d[x] + 1; q.append(y)
    return d.get(t)


def deep_path_query(rng):
    """`B s t hops <path graph>` on a path with 300..700 vertices, from one end to the other end or to an inner vertex at hop distance d around 256 / 300 /
    n/2, with a hop bound around 255 / 256 / 257 / 300 / d-1 / d / d+1 / inf or strictly between 256 and d: hop distances beyond 255 must be counted
    (with d > 256 every bound below d must answer false)."""
    n = rng.randint(300, 700)
    d = rng.choice([n - 1, n - 1, n - 1, n - 2, 255, 256, 257, 258, 290, 299, n // 2, rng.randint(257, n - 1)])
    hs = [255, 256, 257, 300, d - 1, d - 1, d, d + 1, "inf"]
    if d > 257: hs += [rng.randint(256, d - 1), rng.randint(256, d - 1), (256 + d) // 2]
    h = rng.choice(hs)
    s, t = (0, d) if rng.random() < 0.7 else (n - 1, n - 1 - d)
    return "B %d %d %s %s" % (s, t, h, gen.graph_tokens((n, [(i, i + 1, 1) for i in range(n - 1)])))


def huge_cases(rng, tier):
    """hop distances and hop bounds beyond 65535 (a 16-bit hop counter would saturate or wrap): is_bfs_reachable on paths with ~70000 vertices with bounds
    around 65535 / 65536 / d, and the spanner of a 65540-cycle with increasing weights and k = 32768 (2k-1 = 65535 < 65539: every edge must be retained).
    Far beyond what the list-based model can execute: judged against the property text only."""
    out = []
    n = rng.randint(69000, 72000); d = n - 1 - rng.randint(0, 500)
    toks = gen.graph_tokens((n, [(i, i + 1, 1) for i in range(n - 1)]))
    hs = [65535, 65536, d - 1, d, rng.randint(65537, d - 1)] + (["inf", 65534, d + 1, 2 * d] if tier == "thorough" else [])
    for h in hs: out.append("B 0 %d %s %s" % (d, h, toks))
    n = 65540 + rng.randint(0, 3)
    out.append("S %d %s" % (32768, gen.graph_tokens((n, [(i, (i + 1) % n, i + 1) for i in range(n)]))))
    return out


def long_history(rng, ncalls):
    """A long history of is_bfs_reachable calls made by ONE thread of ONE process, the i-th line being exactly the i-th call of that thread
    (the stream runs in its own process, B cases only).  State that survives between calls (visited stamps, cached buffers, counters) is what this
    stream is after: most calls use tiny random graphs; at the call numbers where a narrow counter would wrap (2^8, 2^15, 2^16, 2*2^16 and their
    neighbours) the query runs on a graph LARGER than any before (vertices never touched so far), and the queries numbered 10..40 use private
    vertex ranges that are touched again only exactly 2^8, 2^15 and 2^16 calls later (a stale mark would then equal the current stamp).  Every 1600th call (from call 1500 on) is
    a `deep_path_query`: a long path, hop distances and hop bounds beyond 255."""
    def path(n): return (n, [(i, i + 1, 1) for i in range(n - 1)])
    wraps = [1 << 8, 1 << 15, 1 << 16, 2 << 16]
    fresh = {}
    big = 40
    for w in wraps:
        for d in (-1, 0, 1, 2):
            if 1 <= w + d <= ncalls: big += 3; fresh[w + d] = big
    private = {}
    for s in range(10, 41):
        n = 300 + 7 * s
        for w in [0] + wraps[:3]:
            if s + w <= ncalls: private[s + w] = n
    deep = {i: deep_path_query(rng) for i in range(1500, ncalls + 1, 1600) if i not in fresh and i not in private}
    out = []
    for i in range(1, ncalls + 1):
        if i in deep: out.append(deep[i])
        elif i in fresh:
            n = fresh[i]; g = path(n); out.append("B 0 %d inf %s" % (n - 1, gen.graph_tokens(g)))
        elif i in private:
            n = private[i]; g = (n, [(0, n - 3, 1), (n - 3, n - 2, 1), (n - 2, n - 1, 1)]); out.append("B 0 %d 3 %s" % (n - 1, gen.graph_tokens(g)))
        else:
            g = gen.structural(rng, 6)
            if g[0] == 0: g = path(2)
            s, t = rng.randrange(g[0]), rng.randrange(g[0])
            out.append("B %d %d %s %s" % (s, t, rng.choice(["inf", "1", "2", "3"]), gen.graph_tokens(g)))
    return out


def judge(case, impl):
    t = case.split()
    if t[0] == "B":
        s, tg = int(t[1]), int(t[2]); n, es, _ = lib.parse_graph_tokens(t, 4)
        d = hopdist(n, [(u, v) for u, v, _ in es], s, tg)
        want = d is not None and (t[3] == "inf" or d <= int(t[3]))
        return None if impl == ("B 1" if want else "B 0") else "is_bfs_reachable(%d,%d,%s) answered %s, hop distance is %s" % (s, tg, t[3], impl, d)
    k = int(t[1]); n, es, _ = lib.parse_graph_tokens(t, 2)
    if impl.startswith(("IMPL-EXCEPTION", "CRASH")): return "spanner construction failed: " + impl[:200]
    f = lib.fields(impl, KEYS)
    try:
        ret = [int(x) for x in f["RET"]]; drop = [int(x) for x in f["DROP"]]
        spe = [int(x) for x in f["SPE"]]; spw = [int(x) for x in f["SPW"]]
    except Exception:
        return "unparsable / untranslatable spanner answer: " + impl[:200]
    m = len(es)
    if sorted(ret + drop) != list(range(m)): return "retained and dropped edges do not partition the edge set"
    if int(f["NV"][0]) != n: return "spanner has %s vertices, input has %d" % (f["NV"][0], n)
    for i, e in enumerate(ret):
        if {spe[2 * i], spe[2 * i + 1]} != {es[e][0], es[e][1]}: return "spanner edge %d does not join the endpoints of input edge %d" % (i, e)
        if spw[i] != es[e][2]: return "spanner edge %d (input edge %d) carries weight %s, input weight is %d" % (i, e, spw[i], es[e][2])
    if k >= 1:
        for e in drop:
            lighter = [(es[a][0], es[a][1]) for a in ret if es[a][2] <= es[e][2]]
            d = hopdist(n, lighter, es[e][0], es[e][1])
            if d is None or d > 2 * k - 1: return "dropped edge %d has no path of <= %d retained edges that are not heavier (best %s)" % (e, 2 * k - 1, d)
        for e in (ret if n <= 5000 else []):   # girth > 2k: every retained edge's endpoints are > 2k-1 hops apart without it (quadratic: skipped on the huge cases)
            others = [(es[a][0], es[a][1]) for a in ret if a != e]
            d = hopdist(n, others, es[e][0], es[e][1])
            if d is not None and d + 1 <= 2 * k: return "retained subgraph has a cycle of %d <= 2k edges through edge %d" % (d + 1, e)
    return None


def check(tier, seed):
    c = lib.Check(PID, tier, seed, THEOREMS)
    maxn = 14 if tier == "quick" else 40
    c.rule = ("(graph, k) with k in {0,1,2,3,5,50}, weights unit/ties/wide/pow2 (double) and 64-bit weights above 2^53 with (m+4)*sum(w) < 2^63 (long long: 2^54 + permutation, "
              "2^54+{0..3}, 2^53+r, 2^b+r, heavy/light mixes), interior or external weight map, structured + random simple graphs n <= %d; plus direct "
              "is_bfs_reachable calls with hop bounds around the true distance (in the single-thread history also on paths with 300..700 vertices: hop distances and "
              "bounds beyond 255); distinct by md5; non-trivial = k >= 1 and at least one dropped edge, or a BFS call with s != t") % maxn
    c.step_prove()
    ok = c.step_model()
    exe = c.harness(name="c15", srcs=["c15.cpp"], libs=LIBS)
    if ok and exe:
        cases = lib.corpus_cases(PID)
        c.extra["corpus_cases"] = len(cases)
        for _ in range(600 if tier == "quick" else 6000):
            g, style = gen.weigh(c.rng, gen.structural(c.rng, maxn))
            k = c.rng.choice([0, 1, 1, 2, 2, 2, 3, 3, 5, 50])
            cases.append("%s %d %s" % ("S2" if c.rng.random() < 0.3 else "S", k, gen.graph_tokens(g)))   # S2: weights through an external property map
        for _ in range(600 if tier == "quick" else 6000):
            g = gen.structural(c.rng, maxn)
            if g[0] == 0: continue
            s, t = c.rng.randrange(g[0]), c.rng.randrange(g[0])
            d = hopdist(g[0], [(u, v) for u, v, _ in g[1]], s, t)
            h = c.rng.choice(["inf", "0", "1", "2", "3"] + ([str(d), str(max(0, d - 1)), str(d + 1)] if d is not None else ["7"]))
            cases.append("B %d %d %s %s" % (s, t, h, gen.graph_tokens(g)))
        # 64-bit integer weights above 2^53 (long long): distinct weights that collide as doubles, heavier edges inserted before lighter ones
        from props import c12
        for _ in range(250 if tier == "quick" else 2500):
            g = gen.structural(c.rng, maxn)
            if not g[1] and c.rng.random() < 0.8: continue
            g, style = c12.weigh64(c.rng, g, c.rng.choice(["ladder", "ladder", "p54", "p54", "p53", "top", "mix"]))
            k = c.rng.choice([0, 1, 1, 2, 2, 2, 3, 3, 5, 50])
            cases.append("%s %d %s" % ("SL2" if c.rng.random() < 0.25 else "SL", k, gen.graph_tokens(g)))
        nshort = len(cases)
        import random
        nh = 70000 if tier == "quick" else 140000
        hist = long_history(random.Random(seed * 7919 + 15), nh)
        c.extra["long_history_calls"] = len(hist)
        io_hist = lib.run_lines([exe], hist, par=1)   # its own process: line i is exactly the i-th is_bfs_reachable call of that thread
        lib.config_differential(c, "c15", ["c15.cpp"], cases, lib.run_lines([exe], cases), judge=judge, libs=LIBS, limit=1500)
        io = lib.run_lines([exe], cases, par=1)      # ONE process for the whole stream: a long history of calls (tens of thousands of BFS queries) in one thread
        mcases = []
        for cs, o in zip(cases, io):
            t = cs.split()
            if t[0] == "B": mcases.append(cs); continue
            n, es, _ = lib.parse_graph_tokens(t, 2)
            f = lib.fields(o, KEYS)
            try:
                # kind M: the model driver recovers the scan order itself with the extracted merge_scan (SpannerModel.v) from the observed sequences
                ret, drop = [int(x) for x in f["RET"]], [int(x) for x in f["DROP"]]
                if any(not 0 <= e < len(es) for e in ret + drop): raise ValueError
                mcases.append("M %s %d %s %d %s" % (" ".join(t[1:]), len(ret), " ".join(map(str, ret)), len(drop), " ".join(map(str, drop))))
            except Exception:
                scan = sorted(range(len(es)), key=lambda e: es[e][2])
                mcases.append("S %s %d %s" % (" ".join(t[1:]), len(scan), " ".join(map(str, scan))))      # the model takes every spanner kind as S (weights are integers)
        mo = lib.run_model("c15", mcases + hist)
        cases, mcases, io = cases + hist, mcases + hist, io + io_hist
        bad = []
        for i, cs in enumerate(cases):
            t = cs.split()
            nt = (t[0] == "B" and t[1] != t[2]) or (t[0] in SPANNER_KINDS and int(t[1]) >= 1 and " DROP " in io[i] + " " and lib.fields(io[i], KEYS).get("DROP"))
            c.count(cs, bool(nt), bucket=t[0] + ("" if t[0] == "B" else " k=" + t[1]))
            if io[i] != mo[i]: bad.append(i)
        c.extra["disagreements_checked"] = len(bad)
        rep = {}
        for i in sorted(bad, key=lambda j: len(cases[j])):
            why = judge(cases[i], io[i]); key = why is not None
            if rep.get(key, 0) >= 2: continue
            rep[key] = rep.get(key, 0) + 1
            hd = {"history": {"seed": seed, "ncalls": nh, "index": i - nshort}} if i >= nshort else {}
            if why:
                c.violation("spanner: " + why + (" (call %d of a single-thread history of is_bfs_reachable calls)" % (i - nshort + 1) if hd else ""),
                            dict({"component": "c15", "case": cases[i], "impl": io[i], "model": mo[i], "model_case": mcases[i]}, **hd), True)
            else:
                c.violation("correspondence c15 (spanner / is_bfs_reachable vs model) no longer checks; the implementation's answer still satisfies the property text",
                            {"component": "c15", "theorem_or_correspondence": "correspondence c15: extracted construct_spanner / is_bfs_reachable vs harness/c15.cpp",
                             "case": cases[i], "impl": io[i], "model": mo[i], "model_case": mcases[i], **hd}, False)
        hcases = huge_cases(c.rng, tier)
        hio = lib.run_lines([exe], hcases, timeout=900)
        nb = 0
        for cs, o in zip(hcases, hio):
            t = cs.split(); c.count(cs, True, bucket="huge " + t[0])
            why = judge(cs, o)
            if why and nb < 2:
                nb += 1
                c.violation("spanner (hop counts beyond 65535): " + why, {"component": "c15", "case": cs, "impl": o[:2000], "judged_only": True}, True)
        okset = set(bad)
        extra = [i for i in range(len(cases)) if i not in okset and judge(cases[i], io[i])]
        for i in extra[:2]:
            c.violation("spanner: " + judge(cases[i], io[i]), {"component": "c15", "case": cases[i], "impl": io[i]}, True)
    return c.finish(
        assumptions=["std::sort returns a weight-sorted permutation (which one is the oracle `scan`, universally quantified in the theorems)",
                     "the scan order is recovered as 'merge by weight, retained before dropped on ties'; that this order reproduces the same retained/dropped sequences and is itself a weight-sorted permutation is Properties_C15_scan.C15_recovered_scan_reproduces (merge_scan is extracted and run by the model driver itself, kind M: no Python re-implementation is trusted)",
                     "hook: PARMCB_VERIF read-only accessors of BaseApproxSpannerAlgorithm"],
        explanation="Theorem C15 holds for every simple graph, k >= 1 and every sorted scan order; this run compares retained/dropped lists, spanner endpoints "
                    "and spanner weights exactly and judges each answer against the property text (partition, weights, short light paths, girth).")


def replay(path):
    r = json.load(open(path))
    lib.ensure_model()
    exe, err = lib.build_cpp(name="c15", srcs=["c15.cpp"], libs=LIBS)
    line = r["case"]
    if "history" in r:       # the failure needs the calls made before it by the same thread: regenerate the stream and run its prefix
        import random
        h = r["history"]
        hist = long_history(random.Random(h["seed"] * 7919 + 15), h["ncalls"])[:h["index"] + 1]
        assert hist[-1] == line, "history stream not reproducible"
        i = lib.run_lines([exe], hist, par=1)[-1]
    else:
        i = lib.run_lines([exe], [line], par=1)[0]
    why = judge(line, i)
    print("case :", line); print("impl :", i); print("judge:", why)
    if "model_case" in r:
        m = lib.run_model("c15", [r["model_case"]], par=1)[0]; print("model:", m)
        if m != i: why = why or "differs from model"
    if why:
        print("VIOLATION property=%s replay=%s" % (PID, path)); return 1
    return 0
