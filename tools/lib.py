#!/usr/bin/env python3
"""lib.py — common machinery of the parmcb verification checks (see DESIGN.md §2).

Pipeline of one check:  prove -> extract/compile model -> build harness from /repo's working
tree -> correspond (corpus, then seeded generation) -> decide/search -> evidence.
"""
import hashlib, json, os, re, subprocess, sys, time, random, shutil, glob

ROOT = os.path.dirname(os.path.dirname(os.path.abspath(__file__)))
REPO = os.environ.get("VERIF_REPO", "/repo")
BUILD = os.environ.get("VERIF_BUILD") or os.path.join(ROOT, "build")
COQ = os.path.join(ROOT, "coq")
THEORIES = os.path.join(COQ, "theories")
EVID = os.path.join(BUILD, "evidence") if os.environ.get("VERIF_BUILD") else os.path.join(ROOT, "evidence")   # scratch runs keep the committed evidence untouched
REPLAY_DIR = os.path.join(BUILD, "replay")
GUARD = "PARMCB_VERIF"
NPROC = min(16, os.cpu_count() or 4)

FORBIDDEN = re.compile(r"\b(Admitted|admit|Axiom|Axioms|Parameter|Parameters|Conjecture|Conjectures|"
                       r"Admit Obligations|Unset Guard Checking|Unset Positivity Checking|"
                       r"Unset Universe Checking|bypass_check|type-in-type|impredicative-set|native_compute)\b")

# axioms the standard library itself declares and that a property theorem may depend on
AXIOM_WHITELIST = [
    r"^functional_extensionality_dep\b", r"^FunctionalExtensionality\.", r"^Eqdep\.Eq_rect_eq\.eq_rect_eq\b",
    r"^Classical_Prop\.classic\b", r"^ProofIrrelevance\.proof_irrelevance\b", r"^JMeq\.JMeq_eq\b", r"^JMeq_eq\b",
    r"^ClassicalDedekindReals\.", r"^PrimFloat\.", r"^FloatAxioms\.", r"^Uint63\.", r"^PrimInt63\.", r"^FloatOps\.",
    r"^SpecFloat\.", r"^PrimString\.", r"^PArray\.", r"^Float64\.", r"^float\b", r"^int\b",
]


def sh(cmd, timeout=600, cwd=None, inp=None, env=None):
    """run a command; returns (rc, stdout, stderr); rc=124 on timeout"""
    e = dict(os.environ)
    if env:
        e.update(env)
    try:
        p = subprocess.run(cmd, shell=isinstance(cmd, str), cwd=cwd, input=inp, capture_output=True,
                           text=True, timeout=timeout, env=e)
        return p.returncode, p.stdout, p.stderr
    except subprocess.TimeoutExpired as ex:
        so = ex.stdout.decode() if isinstance(ex.stdout, bytes) else (ex.stdout or "")
        se = ex.stderr.decode() if isinstance(ex.stderr, bytes) else (ex.stderr or "")
        return 124, so, se + "\nTIMEOUT"


def sha(*parts):
    h = hashlib.sha256()
    for p in parts:
        h.update(p if isinstance(p, bytes) else str(p).encode())
        h.update(b"\0")
    return h.hexdigest()


def file_hash(paths):
    h = hashlib.sha256()
    for p in sorted(paths):
        h.update(p.encode())
        try:
            with open(p, "rb") as f:
                h.update(f.read())
        except OSError:
            h.update(b"<missing>")
    return h.hexdigest()


def repo_sources():
    out = []
    for d in ("include", "src"):
        for r, _, fs in os.walk(os.path.join(REPO, d)):
            for f in fs:
                out.append(os.path.join(r, f))
    return out


# --------------------------------------------------------------------------------------
# prove
# --------------------------------------------------------------------------------------
def coq_files():
    return sorted(glob.glob(os.path.join(THEORIES, "*.v")) + glob.glob(os.path.join(COQ, "extract", "*.v")))


def strip_comments(src):
    out, depth, i = [], 0, 0
    while i < len(src):
        if src.startswith("(*", i):
            depth += 1; i += 2
        elif src.startswith("*)", i) and depth > 0:
            depth -= 1; i += 2
        else:
            if depth == 0:
                out.append(src[i])
            i += 1
    return "".join(out)


def textual_scan():
    """reject forbidden vernacular anywhere in the development (comments stripped)"""
    bad = []
    for f in coq_files():
        code = strip_comments(open(f).read())
        for m in FORBIDDEN.finditer(code):
            bad.append("%s: %s" % (os.path.basename(f), m.group(0)))
        # Variable/Hypothesis outside a section
        depth = 0
        for line in code.splitlines():
            s = line.strip()
            if re.match(r"^(Section|Module Type|Module)\s+\w+\s*\.", s) and s.startswith("Section"):
                depth += 1
            elif re.match(r"^End\s+\w+\s*\.", s) and depth > 0:
                depth -= 1
            elif depth == 0 and re.match(r"^(Variable|Variables|Hypothesis|Hypotheses|Context)\b", s):
                bad.append("%s: %s outside section" % (os.path.basename(f), s.split()[0]))
    for f in glob.glob(os.path.join(COQ, "_CoqProject")):
        t = open(f).read()
        if re.search(r"type-in-type|impredicative-set|-noinit|bypass", t):
            bad.append("_CoqProject: forbidden flag")
    return bad


def _coqproject_text():
    vs = sorted(os.path.basename(f) for f in glob.glob(os.path.join(THEORIES, "*.v")))
    return "-Q theories Parmcb\n" + "".join("theories/%s\n" % v for v in vs)


def coq_make(timeout=3000, targets=None):
    """full .vo build of every theories/*.v (make -k), serialised by a lock file so that concurrent checks do not race.
    _CoqProject is regenerated from the directory listing.  A .vo older than its .v is deleted first, so that a file
    which no longer compiles leaves no stale .vo behind.  Returns (all_ok, log)."""
    import fcntl
    os.makedirs(BUILD, exist_ok=True)
    with open(os.path.join(COQ, ".make.lock"), "w") as lk:
        # wait for a concurrent build, but not for ever: after 90 s go ahead (make only rebuilds out-of-date targets,
        # so two builds collide only if both need the same stale file)
        t_wait = time.time()
        while True:
            try:
                fcntl.flock(lk, fcntl.LOCK_EX | fcntl.LOCK_NB); break
            except OSError:
                if time.time() - t_wait > 90: break
                time.sleep(1)
        txt = _coqproject_text()
        cp = os.path.join(COQ, "_CoqProject")
        regen = not os.path.exists(os.path.join(COQ, "Makefile"))
        if not os.path.exists(cp) or open(cp).read() != txt:
            open(cp, "w").write(txt); regen = True
        if regen:
            rc, so, se = sh("coq_makefile -f _CoqProject -o Makefile", cwd=COQ, timeout=60)
            if rc != 0:
                return False, so + se
        for v in glob.glob(os.path.join(THEORIES, "*.v")):
            vo = v + "o"
            if os.path.exists(vo) and os.path.getmtime(vo) < os.path.getmtime(v):
                os.remove(vo)
        # every single coqc is limited to 6 minutes (a file that takes longer counts as not compiling)
        rc, so, se = sh("make -k -j%d TIMECMD='timeout 360' %s" % (NPROC, " ".join(targets or [])), cwd=COQ, timeout=timeout)
        return rc == 0, (so + se)[-4000:]


def parse_assumptions(output):
    """split coqc output into Print Assumptions blocks, in order.  An entry is `name : type` on one line or, when the type is long, `name`
    alone followed by an indented line starting with `:` (continuation lines of a type are indented too)."""
    blocks, cur = [], None
    lines = output.splitlines()
    for k, line in enumerate(lines):
        if line.startswith("Closed under the global context"):
            if cur is not None:
                blocks.append(cur)
            blocks.append([]); cur = None
        elif line.startswith("Axioms:"):
            if cur is not None:
                blocks.append(cur)
            cur = []
        elif cur is not None and not line.startswith(" "):
            m = re.match(r"^(\S+)\s*:", line)
            if m:
                cur.append(m.group(1))
            elif re.match(r"^\S+\s*$", line) and k + 1 < len(lines) and re.match(r"^\s+:", lines[k + 1]):
                cur.append(line.strip())
    if cur is not None:
        blocks.append(cur)
    return blocks


def prove(theorem_files):
    """full build + per-property-file coqc capturing Print Assumptions.
    returns dict with obligations/discharged/theorems/problems"""
    res = {"obligations": 0, "discharged": 0, "theorems": [], "problems": [], "axioms_used": []}
    bad = textual_scan()
    if bad:
        res["problems"] += ["forbidden: " + b for b in bad]
    ok, log = coq_make(targets=["theories/%so" % tf for tf in theorem_files])   # builds exactly what these files depend on
    res["full_build_ok"] = ok
    for tf in theorem_files:
        path = os.path.join(THEORIES, tf)
        src = strip_comments(open(path).read())
        names = re.findall(r"^\s*(?:Theorem|Lemma|Corollary|Fact|Proposition)\s+(\w+)", src, re.M)
        printed = re.findall(r"Print Assumptions\s+(\w+)\s*\.", src)
        os.makedirs(os.path.join(BUILD, "props"), exist_ok=True)
        rc, so, se = sh(["coqc", "-Q", THEORIES, "Parmcb", "-o", os.path.join(BUILD, "props", tf + "o"), path],
                        cwd=COQ, timeout=1200)
        if rc != 0:
            res["problems"].append("%s does not check: %s" % (tf, (so + se)[-1500:]))
            res["obligations"] += max(1, len(names))
            for n in names:
                res["theorems"].append({"name": n, "file": tf, "checked": False})
            continue
        blocks = parse_assumptions(so)
        if len(blocks) != len(printed):
            res["problems"].append("%s: %d Print Assumptions but %d result blocks" % (tf, len(printed), len(blocks)))
        amap = dict(zip(printed, blocks))
        for n in names:
            res["obligations"] += 1
            ent = {"name": n, "file": tf, "checked": True}
            if n not in amap:
                ent["assumptions"] = None
                res["problems"].append("%s: theorem %s has no Print Assumptions" % (tf, n))
            else:
                ax = amap[n]
                ent["assumptions"] = ax
                notok = [a for a in ax if not any(re.search(w, a) for w in AXIOM_WHITELIST)]
                if notok:
                    res["problems"].append("%s: theorem %s depends on non-whitelisted axioms %s" % (tf, n, notok))
                else:
                    res["discharged"] += 1
                for a in ax:
                    if a not in res["axioms_used"]:
                        res["axioms_used"].append(a)
            if re.search(r"_partial|_modulo_|_refuted", n):
                ent["kind"] = "partial/modulo/refuted"
            res["theorems"].append(ent)
    return res


def coqchk(theorem_files, timeout=3000):
    """coqchk -o over the property modules: re-checks the .vo files (and all they depend on) with the independent checker and
    lists the axioms of every loaded library"""
    mods = ["Parmcb." + tf[:-2] for tf in theorem_files]
    rc, so, se = sh(["coqchk", "-silent", "-o", "-Q", "theories", "Parmcb"] + mods, cwd=COQ, timeout=timeout)
    out = so + se
    ax = []
    m = re.search(r"\* Axioms:(.*?)\n\s*\n\* Constants", out, re.S)
    if m:
        ax = [a.strip() for a in m.group(1).strip().split("\n") if a.strip() and a.strip() != "<none>"]
    bad = [k for k in ("type-in-type", "unsafe (co)fixpoints", "positivity is assumed") if re.search(re.escape(k) + r":\s*(?!<none>)\S", out)]
    return {"ok": rc == 0 and not bad, "axioms_of_loaded_libraries": ax, "relaxed_checks": bad, "log": out[-1500:]}


# --------------------------------------------------------------------------------------
# model (extracted OCaml)
# --------------------------------------------------------------------------------------
def ensure_model(group=None):
    """extract and compile build/model[_<group>] (cached on the content of theories, the Extract file and the driver).
    group None = coq/extract/Extract.v + ocaml/driver.ml; group g = coq/extract/Extract_g.v + ocaml/common.ml + ocaml/driver_g.ml"""
    sfx = "" if not group else "_" + group
    od = os.path.join(BUILD, "ocaml" + sfx)
    os.makedirs(od, exist_ok=True)
    ex_v = os.path.join(COQ, "extract", "Extract%s.v" % sfx)
    drv = os.path.join(ROOT, "ocaml", "driver%s.ml" % sfx)
    common = os.path.join(ROOT, "ocaml", "common.ml")
    srcs = sorted(f for f in glob.glob(os.path.join(THEORIES, "*.v")) if not re.search(r"(Proofs|Lemmas|Properties_\w+)\.v$", f)) + [ex_v, drv] + ([common] if group else [])
    fl = os.path.join(ROOT, "ocaml", "driver%s.flags" % sfx)          # optional per-group ocamlfind flags
    xflags = open(fl).read().strip() if os.path.exists(fl) else ""
    key = file_hash(srcs) + xflags
    stamp = os.path.join(BUILD, "model%s.stamp" % sfx)
    exe = os.path.join(BUILD, "model" + sfx)
    if os.path.exists(exe) and os.path.exists(stamp) and open(stamp).read() == key:
        return True, ""
    req = re.findall(r"From Parmcb Require (?:Import|Export) ([^.]*)\.", strip_comments(open(ex_v).read()))
    coq_make(targets=["theories/%s.vo" % m for r in req for m in r.split()])
    rc, so, se = sh(["coqc", "-Q", THEORIES, "Parmcb", ex_v], cwd=od, timeout=1200)
    if rc != 0:
        return False, "extraction failed: " + (so + se)[-2000:]
    shutil.copy(drv, os.path.join(od, "driver.ml"))
    files = "model.mli model.ml driver.ml"
    if group:
        shutil.copy(common, od); files = "model.mli model.ml common.ml driver.ml"
    rc, so, se = sh("ocamlfind ocamlopt -O3 -w -a %s %s -o %s" % (xflags, files, exe), cwd=od, timeout=600)
    if rc != 0 or not os.path.exists(exe):
        return False, "ocaml build failed: " + (so + se)[-2000:]
    open(stamp, "w").write(key)
    return True, ""


def extraction_directives(groups=(None,)):
    """every Extract Constant / Extract Inductive in force for the given extraction groups (library files + our Extract files)"""
    out = []
    libdir = "/usr/lib/ocaml/coq/theories/extraction"
    files = []
    for g in groups:
        ex = os.path.join(COQ, "extract", "Extract%s.v" % ("_" + g if g else ""))
        if not os.path.exists(ex): continue
        src = strip_comments(open(ex).read())
        for lib_ in re.findall(r"\b(ExtrO[cC]aml\w*)\b", src):
            f = os.path.join(libdir, lib_ + ".v")
            if os.path.exists(f) and f not in files: files.append(f)
        files.append(ex)
    for f in files:
        n = 0
        for line in open(f):
            if re.match(r"\s*Extract (Constant|Inductive|Inlined Constant)", line):
                n += 1
                if n <= 40: out.append(os.path.basename(f) + ": " + " ".join(line.split())[:160])
        if n > 40: out.append("%s: ... %d further directives of the same library file" % (os.path.basename(f), n - 40))
        if n == 0: out.append(os.path.basename(f) + ": no Extract directive of its own")
    return out


def _chunks(lst, n):
    k = max(1, (len(lst) + n - 1) // n)
    return [lst[i:i + k] for i in range(0, len(lst), k)]


def _run_once(cmd, ch, timeout, e, cwd):
    p = subprocess.Popen(cmd, stdin=subprocess.PIPE, stdout=subprocess.PIPE, stderr=subprocess.PIPE, text=True, env=e, cwd=cwd)
    try:
        so, se = p.communicate("\n".join(ch) + "\n", timeout=timeout)
        rc = p.returncode
    except subprocess.TimeoutExpired:
        p.kill(); so, se = p.communicate(); rc = 124
    ls = so.split("\n")
    if ls and ls[-1] == "":
        ls.pop()
    return rc, ls, se


def run_lines(cmd, lines, timeout=900, par=NPROC, env=None, cwd=None):
    """feed case lines to `cmd` (list) on stdin, in parallel chunks; returns one output line per case.
    A case on which the process dies yields 'CRASH rc=.. <stderr tail>'; the remaining cases of its
    chunk are re-run in a fresh process."""
    if not lines:
        return []
    import threading
    chunks = _chunks(lines, par if len(lines) >= 2 * par else 1)
    e = dict(os.environ)
    if env:
        e.update(env)
    results = [None] * len(chunks)

    sanlog = os.environ.get("VERIF_SAN_LOG")
    if os.environ.get("VERIF_SANITIZE"):
        e.setdefault("ASAN_OPTIONS", "detect_leaks=1:exitcode=97:allocator_may_return_null=1")
        e.setdefault("UBSAN_OPTIONS", "print_stacktrace=1:halt_on_error=1")

    def san(case, rc, se):
        """record a sanitizer report (C07) together with the case that produced it"""
        if sanlog and se and re.search(r"Sanitizer|runtime error:", se):
            with open(sanlog, "a") as f:
                f.write(json.dumps({"cmd": cmd, "case": case, "rc": rc, "report": se[-3000:]}) + "\n")

    def work(i, ch):
        out = []
        rest = list(ch)
        while rest:
            rc, ls, se = _run_once(cmd, rest, timeout, e, cwd)
            ls = ls[:len(rest)]
            out += ls
            if len(ls) == len(rest):
                if sanlog and se and "Sanitizer" in se:      # report at exit (leaks) or from a child process: find the case
                    found = False
                    for cs in rest[:400]:
                        rc1, _, se1 = _run_once(cmd, [cs], timeout, e, cwd)
                        if se1 and "Sanitizer" in se1:
                            san(cs, rc1, se1); found = True; break
                    if not found: san("<chunk of %d cases, not reproduced case by case>" % len(rest), rc, se)
                break
            san(rest[len(ls)], rc, se)
            tail = " ".join((se or "").strip().split("\n")[-4:])[:500]
            out.append("CRASH rc=%s %s" % (rc, tail))
            rest = rest[len(ls) + 1:]
        results[i] = out
    ths = [threading.Thread(target=work, args=(i, ch)) for i, ch in enumerate(chunks)]
    for t in ths: t.start()
    for t in ths: t.join()
    return [l for r in results for l in r]


def run_model(component, lines, timeout=900, par=NPROC, group=None):
    return run_lines([os.path.join(BUILD, "model" + ("_" + group if group else "")), component], lines, timeout=timeout, par=par)


# --------------------------------------------------------------------------------------
# implementation side
# --------------------------------------------------------------------------------------
def build_cpp(name, srcs, flags=None, libs=None, mpi=False, shim=False, sanitize=None, timeout=900, defines=None):
    """compile a harness against /repo's current working tree (hooks on). Cached on the content hash
    of every file under /repo/include and /repo/src, the harness sources and the flags."""
    os.makedirs(BUILD, exist_ok=True)
    flags = list(flags or [])
    libs = list(libs or [])
    harness_files = [os.path.join(ROOT, "harness", s) for s in srcs] + glob.glob(os.path.join(ROOT, "harness", "*.hpp")) \
        + glob.glob(os.path.join(ROOT, "harness", "shim", "tbb", "*")) + glob.glob(os.path.join(ROOT, "harness", "cfg", "parmcb", "*"))
    cxx = "mpicxx" if mpi else "g++"
    inc = ["-I" + os.path.join(ROOT, "harness", "cfg")]
    if shim:
        inc.append("-I" + os.path.join(ROOT, "harness", "shim"))
    inc += ["-I" + os.path.join(REPO, "include"), "-I" + os.path.join(ROOT, "harness")]
    xdef = os.environ.get("VERIF_EXTRA_DEFINES", "").split()          # replay of a violation found in a non-default build configuration
    if xdef and not defines:
        defines = xdef; name = name + "_" + "_".join(d.lower() for d in xdef)
    base = ["-std=c++14", "-O1", "-g", "-D" + GUARD] + ["-D" + d for d in (defines or [])]
    if mpi:
        base.append("-DVERIF_WITH_MPI")
    if sanitize is None and os.environ.get("VERIF_SANITIZE") and (not mpi or os.environ.get("VERIF_SANITIZE_MPI")):
        sanitize = os.environ["VERIF_SANITIZE"]          # C07: rebuild every harness with sanitizers
        name = name + "_" + sanitize
    if sanitize is None and not any("-fsanitize" in f for f in flags) and os.environ.get("VERIF_NDEBUG", "1") != "0" and "VERIF_ASSERTIONS" not in (defines or []):
        # the library's default build type is Release: the plain harness builds define NDEBUG like it does (assert() compiled out); the sanitizer builds
        # (C07's re-execution of every stream, C18's UBSan builds, C03's TSan build) keep the assertions, so both configurations see the same inputs
        base.append("-DNDEBUG")
    if sanitize == "asan":
        base += ["-fsanitize=address,undefined", "-fno-sanitize-recover=all", "-fno-omit-frame-pointer"]
    elif sanitize == "tsan":
        base += ["-fsanitize=thread"]
    exe = os.path.join(BUILD, name)
    cmd = [cxx] + base + flags + inc + ["-o", exe] + [os.path.join(ROOT, "harness", s) for s in srcs] + libs
    key = sha(file_hash(repo_sources() + harness_files), " ".join(cmd))
    stamp = exe + ".stamp"
    if os.path.exists(exe) and os.path.exists(stamp) and open(stamp).read() == key:
        return exe, None
    if os.path.exists(exe):
        os.remove(exe)
    rc, so, se = sh(cmd, timeout=timeout)
    if rc != 0 or not os.path.exists(exe):
        return None, (so + se)[-3000:]
    open(stamp, "w").write(key)
    return exe, None


def build_many(specs):
    """build several harnesses in parallel; specs = list of kwargs for build_cpp. returns {name: (exe, err)}"""
    import concurrent.futures as cf
    out = {}
    with cf.ThreadPoolExecutor(max_workers=NPROC) as ex:
        futs = {ex.submit(build_cpp, **s): s["name"] for s in specs}
        for f in cf.as_completed(futs):
            out[futs[f]] = f.result()
    return out


# --------------------------------------------------------------------------------------
# supported build configurations
# --------------------------------------------------------------------------------------
CONFIG_VARIANTS = (("logging", ["VERIF_LOGGING"], "PARMCB_LOGGING=ON"), ("noinv", ["VERIF_NO_INVARIANTS_CHECK"], "PARMCB_INVARIANTS_CHECK=OFF"),
                   ("debug", ["VERIF_ASSERTIONS"], "CMAKE_BUILD_TYPE=Debug (NDEBUG not defined: assert() active)"))


def config_differential(c, name, srcs, cases, io, judge=None, canon=None, libs=None, shim=False, limit=3000, component=None, judge_all=False, flags=None):
    """The project supports the CMake options PARMCB_LOGGING (default OFF) and PARMCB_INVARIANTS_CHECK (default ON) and any CMAKE_BUILD_TYPE
    (default Release = NDEBUG; Debug leaves assert() active).  Rebuild the harness in these non-default configurations, run (a sample of) the same cases and require the same answers as in the default configuration
    (`canon` maps an answer to what must agree; default: the whole line).  A different answer is judged against the property text with `judge`
    (case, answer) -> reason | None: failing input found, or correspondence-only."""
    if os.environ.get("VERIF_SANITIZE"):      # C07's sanitizer re-run: the default configuration only
        return
    canon = canon or (lambda x: x)
    idx = list(range(len(cases)))
    if len(idx) > limit:
        idx = sorted(c.rng.sample(idx, limit))
    stat = c.extra.setdefault("build_configurations", {})
    for tag, defs, descr in CONFIG_VARIANTS:
        exe, err = build_cpp(name="%s_%s" % (name, tag), srcs=srcs, libs=libs, shim=shim, defines=defs, flags=flags)
        if exe is None:
            c.violation("harness %s does not compile against the working tree in the supported configuration %s" % (name, descr),
                        {"theorem_or_correspondence": "build of harness %s with %s" % (name, descr), "log": (err or "")[-1500:], "kind": "impl-build"}, False)
            continue
        out = run_lines([exe], [cases[i] for i in idx])
        nbad = 0
        for i, o in zip(idx, out):
            if canon(o) == canon(io[i]) and not (judge_all and judge and judge(cases[i], o)): continue
            nbad += 1
            if nbad > 2: continue
            why = judge(cases[i], o) if judge else None
            rep = {"component": component or name, "case": cases[i], "impl": o, "impl_default_configuration": io[i], "configuration": descr, "defines": defs}
            if why:
                c.violation("%s (build configuration %s)" % (why, descr), rep, True)
            else:
                rep["theorem_or_correspondence"] = "same answers of harness %s in the default configuration and with %s" % (name, descr)
                c.violation("the answer changes with the supported build configuration %s (default configuration: %s | %s: %s)" % (descr, io[i][:120], descr, o[:120]), rep, False)
        stat["%s/%s" % (name, tag)] = {"cases": len(idx), "different": nbad}


# --------------------------------------------------------------------------------------
# known findings
# --------------------------------------------------------------------------------------
def known_findings(pid, status="known"):
    """entries of known_findings.json and known_findings.d/*.json for this property"""
    out = []
    files = [os.path.join(ROOT, "known_findings.json")] + sorted(glob.glob(os.path.join(ROOT, "known_findings.d", "*.json")))
    for p in files:
        if os.path.exists(p):
            d = json.load(open(p))
            out += [f for f in d.get("findings", []) if f.get("property") == pid and f.get("status") == status]
    return out


# --------------------------------------------------------------------------------------
# the check context
# --------------------------------------------------------------------------------------
class Check:
    def __init__(self, pid, tier, seed, theorem_files, level_note=""):
        self.pid, self.tier, self.seed = pid, tier, seed
        self.theorem_files = theorem_files
        self.t0 = time.time()
        self.rng = random.Random(seed * 1000003 + sum(ord(c) for c in pid))
        self.violations = []       # list of dicts {what, replay}
        self.known_hits = []
        self.evaluations = 0
        self.distinct = set()
        self.nontrivial = set()
        self.samples = []
        self.hist = {}
        self.rule = ""
        self.notes = []
        self.proof = None
        self.extra = {}
        os.makedirs(REPLAY_DIR, exist_ok=True)
        os.makedirs(EVID, exist_ok=True)

    # -- bookkeeping ---------------------------------------------------------------
    def count(self, case_text, nontrivial=True, bucket=None):
        self.evaluations += 1
        h = hashlib.md5(case_text.encode()).hexdigest()
        self.distinct.add(h)
        if nontrivial:
            self.nontrivial.add(h)
        if bucket is not None:
            self.hist[bucket] = self.hist.get(bucket, 0) + 1
        if len(self.samples) < 5 and nontrivial and (self.evaluations % 37 == 1 or len(self.samples) == 0):
            self.samples.append(case_text[:600])

    def violation(self, what, replay, found_input=True):
        """record a violation; replay is a JSON-able dict written to build/replay"""
        n = len(self.violations)
        path = os.path.join(REPLAY_DIR, "%s_%s_%d.json" % (self.pid, self.tier, n))
        replay = dict(replay)
        replay.update({"property": self.pid, "what": what, "seed": self.seed, "tier": self.tier,
                       "failing_input_found": bool(found_input)})
        with open(path, "w") as f:
            json.dump(replay, f, indent=1)
        self.violations.append({"what": what, "replay": path, "found": found_input})

    def known(self, finding, what):
        self.known_hits.append((finding, what))

    # -- steps ---------------------------------------------------------------------
    def step_prove(self):
        if os.environ.get("VERIF_C07_SUBRUN"):      # sanitizer re-run of this check's stream by C07: the proofs are C07's own
            self.proof = {"obligations": 0, "discharged": 0, "theorems": [], "problems": [], "axioms_used": []}
            return True
        self.proof = prove(self.theorem_files)
        if self.tier == "thorough" and not self.proof["problems"] and not os.environ.get("VERIF_NO_COQCHK"):
            self.extra["coqchk"] = coqchk(self.theorem_files)       # independent re-check of the compiled files and everything they load
            if not self.extra["coqchk"]["ok"]:
                self.proof["problems"].append("coqchk rejects the compiled development: " + self.extra["coqchk"]["log"][-600:])
        for pb in self.proof["problems"]:
            self.violation("proof obligation no longer checks: " + pb[:300],
                           {"theorem_or_correspondence": pb, "kind": "proof"}, found_input=False)
        return not self.proof["problems"]

    def step_model(self, group=None):
        self.groups = getattr(self, "groups", [])
        if group not in self.groups: self.groups.append(group)
        ok, log = ensure_model(group)
        if not ok:
            self.violation("model does not build: " + log[-300:], {"theorem_or_correspondence": "extraction/ocaml build", "log": log, "kind": "model-build"}, found_input=False)
        return ok

    def harness(self, **kw):
        exe, err = build_cpp(**kw)
        if exe is None:
            self.violation("implementation harness %s does not compile against the working tree" % kw["name"],
                           {"theorem_or_correspondence": "harness build " + kw["name"], "log": err, "kind": "impl-build"}, found_input=False)
        return exe

    # -- finish --------------------------------------------------------------------
    def finish(self, assumptions=None, trusted_extra=None, explanation=""):
        wall = time.time() - self.t0
        pr = self.proof or {"obligations": 0, "discharged": 0, "theorems": [], "axioms_used": []}
        trusted = [
            "Coq 8.16.1 kernel incl. vm_compute (no native_compute); coqchk -o re-check in the thorough tier where registered",
            "axioms reported by Print Assumptions for this property's theorems: " + (", ".join(pr["axioms_used"]) if pr["axioms_used"] else "none (closed under the global context)"),
            "hand-written Gallina model of the anchored C++ (modelled, not verified): tie = differential correspondence run by this check against the harness compiled from /repo's working tree",
            "extraction (groups %s): Require Extraction + the listed library files only; directives in force: " % ",".join(str(g or "base") for g in getattr(self, "groups", [None])) + "; ".join(extraction_directives(getattr(self, "groups", [None]) or [None])),
            "OCaml 4.13.1 compiler, ocaml/driver.ml (parsing/printing), tools/*.py (generators, canonicalisation, diff), g++ 12 / libstdc++ / Boost",
        ] + list(trusted_extra or [])
        cov = {
            "obligations": pr["obligations"], "discharged": pr["discharged"],
            "checker_cmd": "cd coq && coq_makefile -f _CoqProject -o Makefile && make -j16 && coqc -Q theories Parmcb theories/%s" % (" theories/".join(self.theorem_files)),
            "trusted_base": trusted,
            "theorems": pr["theorems"],
            "evaluations": self.evaluations, "distinct_nontrivial": len(self.nontrivial), "distinct": len(self.distinct),
            "rule": self.rule, "samples": self.samples[:5] if self.samples else ["<none>"],
            "input_distribution": self.hist, "explanation": explanation, "notes": self.notes,
        }
        cov.update(self.extra)
        ev = {"property_id": self.pid, "tier": self.tier, "seed": self.seed, "level": "proof", "coverage": cov,
              "assumptions": list(assumptions or []), "wall_s": round(wall, 2), "violations": len(self.violations),
              "known_findings_hit": [w for _, w in self.known_hits]}
        with open(os.path.join(EVID, self.pid + ".json"), "w") as f:
            json.dump(ev, f, indent=1)
        for fnd, what in self.known_hits:
            print("KNOWN-FINDING: property=%s %s" % (self.pid, what))
        seen = set()
        for v in self.violations:
            tail = "" if v["found"] else " no-failing-input-found"
            print("DETAIL %s: %s" % (self.pid, v["what"][:500]))
            print("VIOLATION property=%s replay=%s%s" % (self.pid, v["replay"], tail))
        print("%s %s: %d evaluations, %d distinct non-trivial, %d/%d obligations, %d violation(s), %.1fs" %
              (self.pid, self.tier, self.evaluations, len(self.nontrivial), pr["discharged"], pr["obligations"], len(self.violations), wall))
        sys.stdout.flush()
        return 1 if self.violations else 0


def diff_lines(cases, a, b):
    """indices where model and implementation output differ"""
    return [i for i in range(len(cases)) if a[i] != b[i]]


def shrink_list(items, still_fails, max_rounds=200):
    """greedy delta debugging: remove elements while still_fails(list) stays true"""
    cur = list(items)
    n = 2
    rounds = 0
    while len(cur) >= 2 and rounds < max_rounds:
        rounds += 1
        size = max(1, len(cur) // n)
        removed = False
        i = 0
        while i < len(cur):
            cand = cur[:i] + cur[i + size:]
            if cand and still_fails(cand):
                cur = cand; removed = True
            else:
                i += size
        if not removed:
            if size == 1:
                break
            n = min(len(cur), n * 2)
    return cur


def corpus_cases(pid):
    cases = []
    d = os.path.join(ROOT, "corpus", pid)
    if os.path.isdir(d):
        for f in sorted(os.listdir(d)):
            cases += [l.strip() for l in open(os.path.join(d, f)) if l.strip() and not l.startswith("#")]
    return cases


def parse_graph_tokens(tokens, pos=0):
    """tokens: n m (u v w)*m starting at pos; returns (n, edges, next_pos)"""
    n, m = int(tokens[pos]), int(tokens[pos + 1]); pos += 2
    es = []
    for _ in range(m):
        es.append((int(tokens[pos]), int(tokens[pos + 1]), int(tokens[pos + 2]))); pos += 3
    return n, es, pos


def fields(line, keys):
    """split 'K 2 CSD 2 IDX 0 1 REV ..' into {key: [tokens]}"""
    out, cur = {}, None
    for tok in line.split():
        if tok in keys:
            cur = tok; out[cur] = []
        elif cur is not None:
            out[cur].append(tok)
    return out
