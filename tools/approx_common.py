"""approx_common.py — the experiment shared by C05 (basis of the caller's graph, true weight) and C06 ((2k-1) bound,
exact for k = 1, k = 0 rejected): run the three sequential approximate entry points on generated (graph, k), compare them
with the extracted ApproxModel and judge every answer.  Weight types: double, int and (sequential entry points, parmcb::dijkstra) long long with
64-bit weights above 2^53; the Python side computes with Python integers only.

Per case the harness (harness/c05.cpp) prints the PUBlic entry point's answer and the answer of the same two statements
executed on an object it keeps (DIR), together with that object's spanner (retained / dropped input edge ids) and the
oracles of the spanner graph (BFS root order, pointer order of the spanner's edge descriptors).
  E-level: approx_mcb_sva_signed (DIR) == ApproxModel.approx_sva_signed_Z under the recovered scan order and oracles:
           spanner, every emitted cycle (as a set, sequence order preserved), returned value.
           fvs / iso (DIR): the exact phase's cycles are recovered from the run (first N-|dropped| cycles, mapped back to
           spanner ids) and supplied to ApproxModel.approx_sva_given: translation, dropped-edge cycles and returned value
           are compared exactly.  PUB vs DIR: returned value, count, and the dropped-edge cycles must coincide (the
           spanner-phase cycles may differ in pointer-order tie-breaks only).
           parmcb::dijkstra directly (J cases) == DijkstraModel.dijkstra: distances and predecessor edges.
  Judge (independent, every answer, PUB and DIR): see judge_basis / judge_bound below; plus the verified checker
           (`mcbcheck` BASIS bit, `optw` optimum) extracted from RefModel.v on the smaller cases."""
import json, os, heapq
import lib, gen, mcb_oracle as O

LIBS = ["-ltbb", "-lboost_timer"]
ALGS = ["signed", "fvs", "iso"]
DKEYS = ["SPR", "SPD", "ROOTS", "EORD", "FVS", "RET", "THROW", "N", "CYC"]
KS = [0, 1, 1, 1, 2, 2, 2, 3, 3, 5, 50]


# ----------------------------------------------------------------------------------------------------------------
# generators
# ----------------------------------------------------------------------------------------------------------------
def heawood():
    return 14, [(i, (i + 1) % 14, 1) for i in range(14)] + [(i, (i + 5) % 14, 1) for i in range(0, 14, 2)]


def mobius_kantor():
    """generalised Petersen graph GP(8,3), girth 6"""
    return 16, [(i, (i + 1) % 8, 1) for i in range(8)] + [(i, i + 8, 1) for i in range(8)] + [(8 + i, 8 + (i + 3) % 8, 1) for i in range(8)]


def cycle_with_chords(rng, n, c):
    es = set((i, (i + 1) % n) for i in range(n))
    for _ in range(c):
        a, b = rng.randrange(n), rng.randrange(n)
        if a != b and (a, b) not in es and (b, a) not in es and (a + 1) % n != b and (b + 1) % n != a: es.add((a, b))
    return n, [(a, b, 1) for (a, b) in sorted(es)]


def spanner_keeps_cycles(rng, maxn):
    """graphs whose (2k-1)-spanner keeps cycles for small k: girth > 2k"""
    r = rng.random()
    if r < 0.15: g = gen.cycle(rng.randint(5, max(6, maxn)))
    elif r < 0.30: g = gen.grid(rng.randint(2, 4), rng.randint(2, max(2, min(5, maxn // 3))))
    elif r < 0.40: g = gen.petersen()
    elif r < 0.47: g = heawood()
    elif r < 0.52: g = mobius_kantor()
    elif r < 0.62: g = gen.theta(rng.randint(1, 4), rng.randint(2, 4), rng.randint(2, 5))
    elif r < 0.75: g = cycle_with_chords(rng, rng.randint(6, max(7, maxn)), rng.randint(1, 3))
    elif r < 0.85: g = gen.figure_eight(rng.randint(4, 7), rng.randint(3, 7))
    elif r < 0.92: g = gen.hypercube(3)
    else: g = gen.disjoint_union(gen.cycle(rng.randint(4, 7)), gen.grid(2, rng.randint(2, 4)))
    if rng.random() < 0.2: g = gen.add_pendant_trees(rng, g, rng.randint(1, 3))
    if rng.random() < 0.8: g = gen.relabel(rng, g[0], g[1])
    return g


def alg_cases(rng, tier):
    ng = 420 if tier == "quick" else 4000
    maxn = 13 if tier == "quick" else 36
    cases = []
    for i in range(ng):
        rr = rng.random()
        if rr < 0.40: g0 = spanner_keeps_cycles(rng, maxn)
        elif rr < 0.50:
            import exact_common
            g0 = exact_common.dense_small(rng)
        else: g0 = gen.structural(rng, maxn if rng.random() < 0.9 else maxn + 8)
        g, style = (g0, "dense-small") if 0.40 <= rr < 0.50 else gen.weigh(rng, g0)
        gt = gen.graph_tokens(g)
        ks = [rng.choice(KS)] if rng.random() < 0.7 else [rng.choice([1, 2]), rng.choice([0, 2, 3, 5, 50])]
        for k in ks:
            for alg in ALGS:
                ty = "I" if (i % 3 == ALGS.index(alg)) and gen.int_domain_ok(g) else "D"
                scale = 0 if ty == "I" else rng.choice([0, 0, -3, 5])
                cases.append("X %s %s %d %d %s" % (alg, ty, scale, k, gt))
    # inputs on which a non-shortest closing path / a too sparse spanner exceeds the (2k-1) factor (seeded changes C06/m3 = r3m1, C06/r3m2)
    for _ in range(12 if tier == "quick" else 60):
        g = gen.petal_gadget(rng.randint(3, 6), rng.choice([50, 100, 1000]))
        if rng.random() < 0.7: g = gen.relabel(rng, g[0], g[1])
        gt = gen.graph_tokens(g)
        for k in (2, 3):
            for alg in ALGS: cases.append("X %s D 0 %d %s" % (alg, k, gt))
    if tier == "thorough":
        for k, n in ((5, 131), (6, 163)):
            gt = gen.graph_tokens(gen.path_with_chords(n, [2 ** k - 2, 2 ** k - 1]))
            for alg in ALGS: cases.append("X %s D 0 %d %s" % (alg, k, gt))
    return cases


def cases64(rng, tier):
    """the approximate entry points and parmcb::dijkstra instantiated with long long weights above 2^53 (props/c12.py weigh64: sums that are not
    doubles, distinct weights that collide as doubles, (m+4)*sum(w) < 2^63): X <alg> L 0 <k> <graph> and J L <s> <graph>"""
    from props import c12
    import exact_common
    xs, js = [], []
    for i in range(110 if tier == "quick" else 1000):
        rr = rng.random()
        g0 = spanner_keeps_cycles(rng, 13) if rr < 0.35 else exact_common.dense_small(rng) if rr < 0.55 else gen.structural(rng, 13 if tier == "quick" else 24)
        g, style = c12.weigh64(rng, g0, rng.choice(["ladder", "ladder", "p54", "p53", "top", "mix"]))
        gt = gen.graph_tokens(g)
        k = rng.choice(KS)
        for alg in ALGS: xs.append("X %s L 0 %d %s" % (alg, k, gt))
        if g[0] > 0: js.append("J L %d %s" % (rng.randrange(g[0]), gt))
    return xs, js


# ----------------------------------------------------------------------------------------------------------------
# INEXACT double weights (outside the exact domain of the models; C05 only, judged structurally - seeded change C05/r7m2: a search radius
# (2k-1)*w(e) for the closing path of a dropped edge, which repeated floating-point addition along the path can exceed)
# ----------------------------------------------------------------------------------------------------------------
DECIMALS = [0.7, 0.9, 1.4, 1.8, 2.3, 0.1, 0.3, 0.1 + 0.2, 1.1, 0.6]


def hgraph_tokens(n, es):
    return "%d %d%s" % (n, len(es), "".join(" %d %d %s" % (u, v, float(w).hex()) for (u, v, w) in es))


def parse_hcase(line):
    """Y <alg> <k> n m (u v hexw)*m -> (alg, k, n, [(u, v, Fraction)])"""
    from fractions import Fraction
    t = line.split(); alg, k = t[1], int(t[2]); n, m = int(t[3]), int(t[4]); p = 5; es = []
    for _ in range(m):
        es.append((int(t[p]), int(t[p + 1]), Fraction(float.fromhex(t[p + 2])))); p += 3
    return alg, k, n, es


def inexact_cases(rng, tier):
    """uniform and few-valued decimal weights (not dyadic: sums round) on cycles C_2k, C_2k with chords and small dense graphs, k = half the cycle
    length and its neighbours: the inputs on which a dropped edge's closing path in the spanner has exactly 2k-1 edges as heavy as the edge itself"""
    out = []
    def emit(g, ks, i):
        n, es = g
        if rng.random() < 0.6:
            n, es = gen.relabel(rng, n, es)
        for j, k in enumerate(ks):
            out.append("Y %s %d %s" % (ALGS[(i + j) % 3], k, hgraph_tokens(n, es)))
    i = 0
    # (1) uniform weight on C_L, k = L/2 (the dropped edge closes along L-1 = 2k-1 equal edges) and the neighbouring k
    for L in ((8, 10, 12, 14, 16) if tier == "quick" else range(6, 42, 2)):
        for w in DECIMALS[:8] if tier == "quick" else DECIMALS:
            i += 1
            emit((L, [(j, (j + 1) % L, w) for j in range(L)]), [L // 2] + ([L // 2 - 1, L // 2 + 1] if i % 2 == 0 else []), i)
    # (2) C_L with chords / pendant edges, uniform or two-valued
    for _ in range(35 if tier == "quick" else 400):
        i += 1
        L = rng.choice([8, 8, 10, 12, 14]); w = rng.choice(DECIMALS); w2 = rng.choice(DECIMALS + [w, w])
        n, es = cycle_with_chords(rng, L, rng.randint(0, 2))
        es = [(u, v, w if abs(u - v) in (1, L - 1) else rng.choice([w, w2, 3 * w])) for (u, v, _) in es]
        if rng.random() < 0.3: es.append((rng.randrange(n), n, w2)); n += 1
        emit((n, es), [rng.choice([L // 2, L // 2, L // 2 - 1, L // 2 + 1, 2])], i)
    # (3) small dense graphs and the girth families, few-valued decimal weights
    for _ in range(40 if tier == "quick" else 500):
        i += 1
        import exact_common
        g = exact_common.dense_small(rng) if rng.random() < 0.5 else spanner_keeps_cycles(rng, 12)
        vals = rng.sample(DECIMALS, rng.choice([1, 2, 2, 3]))
        emit((g[0], [(u, v, rng.choice(vals)) for (u, v, _) in g[1]]), [rng.choice([1, 2, 2, 3, 4, 5])], i)
    return out


def judge_inexact(line, ans):
    """structural judge for a `Y` case (inexact double weights; k >= 1): the right number of cycles, every emitted list a simple cycle of the caller's
    graph, GF(2)-independent, returned value = sum of the emitted weights up to relative 1e-9 (exact rational sum of the given doubles).  No model
    comparison, no optimality claim.  None or a reason."""
    from fractions import Fraction
    alg, k, n, es = parse_hcase(line)
    a = parse_answer(ans)
    if a[0] != "RET": return "did not return a basis on a valid input with k = %d: %s" % (k, ans[:160])
    ret, cycles = a[1], a[2]
    for j, cy in enumerate(cycles):
        if any(not isinstance(x, int) or x < 0 or x >= len(es) for x in cy):
            return "cycle #%d %s contains an edge descriptor that is not an edge of the caller's graph" % (j, cy)
    why = O.judge_basis(n, es, cycles)
    if why: return why
    try:
        r = Fraction(float.fromhex(str(ret))) if not isinstance(ret, int) else Fraction(ret)
    except ValueError:
        return "returned value %s is not a number" % ret
    tot = sum((es[x][2] for cy in cycles for x in cy), Fraction(0))
    if abs(r - tot) > Fraction(1, 10 ** 9) * tot:
        return "returned value %r differs from the total weight %r of the emitted cycles by more than 1e-9 relative" % (float(r), float(tot))
    return None


def small_exhaustive_cases(maxv=5):
    out = []
    for n in range(3, maxv + 1):
        for (nn, es) in gen.all_graphs(n):
            m = len(es)
            if m - nn + gen.components(nn, es) < 1: continue
            for pat in range(2):
                ws = [1 + ((k + pat) % 2) * pat for k in range(m)]
                g = (nn, [(u, v, w) for (u, v, _), w in zip(es, ws)])
                for k in (1, 2):
                    out.append("X %s D 0 %d %s" % (ALGS[(m + k + pat) % 3], k, gen.graph_tokens(g)))
    return out


def dijkstra_cases(rng, tier):
    nd = 1500 if tier == "quick" else 15000
    maxn = 12 if tier == "quick" else 30
    out = []
    while len(out) < nd:
        g, style = gen.weigh(rng, gen.structural(rng, maxn), rng.choice(["unit", "ties", "ties", "wide"]))
        if g[0] == 0: continue
        ty = "I" if rng.random() < 0.3 else "D"
        out.append("J %s %d %s" % (ty, rng.randrange(g[0]), gen.graph_tokens(g)))
    return out


# ----------------------------------------------------------------------------------------------------------------
# parsing
# ----------------------------------------------------------------------------------------------------------------
def parse_case(line):
    t = line.split()
    alg, ty, scale, k = t[1], t[2], int(t[3]), int(t[4])
    n, es, _ = lib.parse_graph_tokens(t, 5)
    return alg, ty, scale, k, n, es


def parse_answer(s):
    """('THROW', emitted) | ('RET', ret, cycles) | ('BAD', text)"""
    s = s.strip()
    t = s.split()
    if s.startswith("THROW runtime_error EMITTED") and len(t) == 4:
        return ("THROW", t[3])
    if t and t[0] == "RET":
        try:
            ret, cycles = O.parse_alg_output(s)
            return ("RET", ret, cycles)
        except Exception:
            pass
    return ("BAD", s[:200])


def split_io(line):
    """-> (pub answer text, dir fields or None, dir answer text or None)"""
    if " DIR " not in line:
        return line.strip(), None, None
    pub, rest = line.split(" DIR ", 1)
    f = lib.fields(rest, ["SPR", "SPD", "ROOTS", "EORD", "FVS", "RET", "THROW"])
    i = rest.find(" RET "); j = rest.find(" THROW ")
    p = i if i >= 0 else j
    ans = rest[p:].strip() if p >= 0 else ""
    return pub.strip(), f, ans


def canon(ans):
    """canonical text of an answer: each cycle sorted (sequence order preserved)"""
    a = parse_answer(ans)
    if a[0] != "RET": return ans.strip()
    def key(x): return (0, x) if isinstance(x, int) else (1, str(x))
    return "RET %s N %d CYC %s" % (a[1], len(a[2]), " ".join("%d %s" % (len(c), " ".join(map(str, sorted(c, key=key)))) for c in a[2]))




def lst(xs): return "%d %s" % (len(xs), " ".join(map(str, xs)))


def model_case(case, f, dans):
    """(component, model input line) or None when the run cannot drive the model"""
    alg, ty, scale, k, n, es = parse_case(case)
    try:
        spr = [int(x) for x in f["SPR"]]; spd = [int(x) for x in f["SPD"]]
    except Exception:
        return None
    if sorted(spr + spd) != list(range(len(es))): return None
    head = "%d %s M %s %s" % (k, gen.graph_tokens((n, es)), lst(spr), lst(spd))    # M: the driver merges with the extracted merge_scan
    if alg == "signed":
        return "signed", "%s %s %s" % (head, lst(f.get("ROOTS", [])), lst(f.get("EORD", [])))
    a = parse_answer(dans)
    if a[0] == "THROW":
        return "given", "%s 0 0" % head
    if a[0] != "RET": return None
    inv = {e: i for i, e in enumerate(spr)}
    nsp = len(a[2]) - len(spd)
    if nsp < 0: return None
    scyc = []
    for c in a[2][:nsp]:
        if any(x not in inv for x in c): return None
        scyc.append(sorted(inv[x] for x in c))
    sw = sum(es[x][2] for c in a[2][:nsp] for x in c)
    return "given", "%s %d %d %s" % (head, sw, len(scyc), " ".join(lst(c) for c in scyc))


def split_model(line):
    """model output -> (SPR list, SPD list, answer text)"""
    f = lib.fields(line, ["SPR", "SPD", "RET", "THROW", "MODEL-ERROR", "MODEL-EXCEPTION"])
    i = min([p for p in (line.find("RET "), line.find("THROW "), line.find("MODEL-")) if p >= 0] or [0])
    return f.get("SPR", []), f.get("SPD", []), line[i:].strip()


# ----------------------------------------------------------------------------------------------------------------
# judges (independent of the model)
# ----------------------------------------------------------------------------------------------------------------
def judge_basis(n, es, k, ans):
    """C05, for k >= 1: None or a reason"""
    a = parse_answer(ans)
    if a[0] != "RET": return "did not return a basis on a valid input with k = %d: %s" % (k, ans[:160])
    ret, cycles = a[1], a[2]
    for j, cy in enumerate(cycles):
        if any(not isinstance(i, int) or i < 0 or i >= len(es) for i in cy):
            return "cycle #%d %s contains an edge descriptor that is not an edge of the caller's graph (leaked internal descriptor)" % (j, cy)
    why = O.judge_basis(n, es, cycles)
    if why: return why
    tot = sum(es[i][2] for c in cycles for i in c)
    if not isinstance(ret, int): return "returned value %s is not an exact integer multiple of the weight unit (total weight of the emitted cycles is %d)" % (ret, tot)
    if ret != tot: return "returned value %s != total weight %d of the emitted cycles under the caller's weights" % (ret, tot)
    return None


def judge_bound(n, es, k, ans, opt):
    """C06: None or a reason; opt = weight of a minimum cycle basis"""
    a = parse_answer(ans)
    if k == 0:
        if ans.strip() != "THROW runtime_error EMITTED 0":
            return "k = 0 was not rejected with std::runtime_error before anything was emitted: %s" % ans[:160]
        return None
    if a[0] != "RET": return "did not return on a valid input with k = %d: %s" % (k, ans[:160])
    ret, cycles = a[1], a[2]
    if any(not isinstance(i, int) or i < 0 or i >= len(es) for c in cycles for i in c):
        return "emitted an edge that is not an edge of the input graph; weight undefined"
    tot = sum(es[i][2] for c in cycles for i in c)
    for what, x in (("total weight of the emitted cycles", tot), ("returned value", ret)):
        if not isinstance(x, int): return "%s %s is not exact" % (what, x)
        if k == 1 and x != opt: return "k = 1: %s %d is not the weight %d of a minimum cycle basis" % (what, x, opt)
        if x > (2 * k - 1) * opt: return "%s %d exceeds (2k-1) * optimum = %d * %d" % (what, x, 2 * k - 1, opt)
        if x < opt: return "%s %d is below the optimum %d (so it is not the weight of a cycle basis)" % (what, x, opt)
    return None


def judge_dijkstra(case, impl):
    t = case.split(); s = int(t[2]); n, es, _ = lib.parse_graph_tokens(t, 3)
    f = lib.fields(impl, ["DIST", "PRED"])
    if "DIST" not in f or "PRED" not in f or len(f["DIST"]) != n or len(f["PRED"]) != n: return "no answer: " + impl[:120]
    adj = [[] for _ in range(n)]
    for i, (u, v, w) in enumerate(es): adj[u].append((v, w)); adj[v].append((u, w))
    dist = {s: 0}; pq = [(0, s)]
    while pq:
        d, u = heapq.heappop(pq)
        if d > dist[u]: continue
        for v, w in adj[u]:
            if v not in dist or d + w < dist[v]: dist[v] = d + w; heapq.heappush(pq, (d + w, v))
    for v in range(n):
        want = str(dist[v]) if v in dist else "inf"
        if f["DIST"][v] != want: return "dist[%d] = %s, shortest distance is %s" % (v, f["DIST"][v], want)
        p = f["PRED"][v]
        if v == s or v not in dist:
            if p != "-": return "pred[%d] set on the source / an unreachable vertex" % v
        else:
            if p == "-" or p == "?": return "pred[%d] missing" % v
            a, b, w = es[int(p)]
            o = a if b == v else b if a == v else None
            if o is None or o not in dist or dist[o] + w != dist[v]: return "pred[%d] = edge %s is not the last edge of a shortest path" % (v, p)
    return None


def have_ref():
    return os.path.exists(os.path.join(lib.COQ, "extract", "Extract_ref.v")) and os.path.exists(os.path.join(lib.ROOT, "ocaml", "driver_ref.ml"))


def ref_case(n, es, cycles):
    roots = list(range(n))
    return "%s %s %d %s" % (gen.graph_tokens((n, es)), lst(roots), len(cycles), " ".join(lst(c) for c in cycles))


# ----------------------------------------------------------------------------------------------------------------
# the experiment
# ----------------------------------------------------------------------------------------------------------------
def run(c, tier, what):
    """what = 'basis' (C05) or 'bound' (C06)"""
    ok = c.step_model("c05")
    refok = have_ref() and c.step_model("ref")
    exe = c.harness(name="c05", srcs=["c05.cpp"], libs=LIBS)
    if not (ok and exe):
        return
    pid = c.pid
    corpus = [cs for cs in lib.corpus_cases(pid)]
    c.extra["corpus_cases"] = len(corpus)
    lines = [cs for cs in corpus if cs.startswith("X ")] + alg_cases(c.rng, tier)
    if tier == "thorough":
        lines += small_exhaustive_cases(5)
    jlines = [cs for cs in corpus if cs.startswith("J ")] + (dijkstra_cases(c.rng, tier) if what == "basis" else [])
    # the 64-bit integer instantiation (own generator stream: the double / int streams, here and in run_tbb, are unchanged)
    import random
    x64, j64 = cases64(random.Random(c.seed * 7919 + 564), tier)
    lines += x64
    if what == "basis": jlines += j64
    c.rule += ("; plus the sequential entry points and parmcb::dijkstra instantiated with long long weights above 2^53 (2^54+permutation, 2^54+{0..3}, 2^53+r, 2^b+r up to "
               "b = 60, heavy/light mixes; (m+4)*sum(w) < 2^63)")
    io = lib.run_lines([exe], lines)
    parsed = [parse_case(l) for l in lines]
    split = [split_io(o) for o in io]
    # ---- the two non-default build configurations the project supports (PARMCB_LOGGING=ON, PARMCB_INVARIANTS_CHECK=OFF): same class of answer (k = 0 still
    # rejected before anything is emitted), same returned value and count, and a valid basis of the caller's graph there too
    def _pub(o):
        try: return split_io(o)[0]
        except Exception: return o
    def _canon(o):
        a_ = parse_answer(_pub(o))
        return (a_[0], a_[1], len(a_[2])) if a_ and a_[0] == "RET" else (_pub(o).strip()[:60],)
    def _judge(cs, o):
        alg_, ty_, sc_, k_, n_, es_ = parse_case(cs)
        if k_ == 0:
            return None if _pub(o).strip() == "THROW runtime_error EMITTED 0" else "k = 0 was not rejected with std::runtime_error before anything was emitted: %s" % _pub(o)[:160]
        return judge_basis(n_, es_, k_, _pub(o))
    xi = [i for i, l in enumerate(lines) if l.startswith("X ")]
    lib.config_differential(c, "c05", ["c05.cpp"], [lines[i] for i in xi], [io[i] for i in xi], judge=_judge, canon=_canon, libs=LIBS, limit=900, judge_all=True)
    # ---- model runs ---------------------------------------------------------------------------------------------
    mcase = {}
    for i, l in enumerate(lines):
        pub, f, dans = split[i]
        if f is None: continue
        mc = model_case(l, f, dans)
        if mc: mcase[i] = mc
    model_out = {}
    for comp in ("signed", "given"):
        idx = [i for i in mcase if mcase[i][0] == comp]
        for i, o in zip(idx, lib.run_model(comp, [mcase[i][1] for i in idx], group="c05")):
            model_out[i] = o
    c.extra["model_runs"] = len(model_out)
    # ---- tree-based entry points: the exact phase's answer must be an ACCEPTED run of mcb_sva_fvs_trees on the spanner ------
    # (ApproxTreesModel.approx_sva_fvs_trees_Z under the recovered root order and greedy_fvs picks of the spanner; theorems
    #  Properties_C05_trees.v / Properties_C06_trees.v quantify over exactly these runs)
    acc_out = {}
    aidx = []
    for i in mcase:
        if mcase[i][0] != "given": continue
        alg, ty, scale, k, n, es = parsed[i]
        f = split[i][1]
        a = parse_answer(split[i][2])
        if k < 1 or a[0] != "RET" or "FVS" not in f: continue
        nsp = len(a[2]) - len(f["SPD"])
        if n > 26 or len(es) > 100 or nsp * len(es) > (2500 if tier == "quick" else 6000): continue
        t = mcase[i][1].split()
        # given: k <graph> <scan> sw N cycles  ->  fvstrees: k <graph> <scan> <roots> <picks> N cycles
        gend = 3 + 3 * len(es); send = gend + (3 if t[gend] == "M" else 1) + len(es)     # <scan> is "m e1..em" or "M r ret.. d drop.."
        aidx.append((i, "%s %s %s %s" % (" ".join(t[:send]), lst(f.get("ROOTS", [])), lst(f["FVS"]), " ".join(t[send + 1:]))))
    for (i, _), o in zip(aidx, lib.run_model("fvstrees", [x[1] for x in aidx], group="c05", timeout=1500)):
        acc_out[i] = o
    c.extra["trees_acceptance_runs"] = len(acc_out)
    # ---- optimum (C06) ------------------------------------------------------------------------------------------
    opts = {}
    def opt_of(i):
        alg, ty, scale, k, n, es = parsed[i]
        key = gen.graph_tokens((n, es))
        if key not in opts: opts[key] = O.mcb(n, es)[0]
        return opts[key]
    nviol = {}
    def report(kind, i, why, found=True, extra=None):
        if nviol.get(kind, 0) >= 3: return
        nviol[kind] = nviol.get(kind, 0) + 1
        rep = {"component": "c05", "case": lines[i], "impl": io[i]}
        if i in model_out: rep["model"] = model_out[i]; rep["model_component"] = mcase[i][0]; rep["model_case"] = mcase[i][1]
        rep.update(extra or {})
        c.violation(why, rep, found)
    def judge(i, ans):
        alg, ty, scale, k, n, es = parsed[i]
        if what == "basis":
            return judge_basis(n, es, k, ans) if k >= 1 else None
        return judge_bound(n, es, k, ans, opt_of(i))
    refq = []
    size_lim = 16 if tier == "quick" else 22
    for i, l in enumerate(lines):
        alg, ty, scale, k, n, es = parsed[i]
        m = len(es); N = m - n + O.components(n, es)
        pub, f, dans = split[i]
        ndrop = len(f["SPD"]) if f and "SPD" in f else -1
        nontrivial = (N >= 1 and k >= 1) if what == "basis" else (N >= 1 or k == 0)
        kind = "forest-spanner" if ndrop == N else "all-kept" if ndrop == 0 else "mixed"
        c.count(l, nontrivial, bucket="%s k=%d %s" % (alg, k, "N=0" if N == 0 else kind))
        if io[i].startswith(("IMPL-EXCEPTION", "CRASH")) or f is None:
            report("crash", i, "approx_mcb_sva_%s(k=%d) on a valid input did not return normally: %s" % (alg, k, io[i][:200])); continue
        # -- judge both answers against the property text
        bad = False
        for tag, ans in (("", pub), (" (same statements, object kept by the harness)", dans)):
            why = judge(i, ans)
            if why:
                report("judge", i, "approx_mcb_sva_%s, k=%d%s: %s" % (alg, k, tag, why)); bad = True; break
        if bad: continue
        pa = parse_answer(pub)
        if refok and pa[0] == "RET" and n <= size_lim and m <= 45 and N >= 1:
            refq.append(i)
        # -- correspondence
        corr = None
        if i not in model_out:
            corr = "the run could not drive the model (spanner / emitted ids not recoverable)"
        else:
            mspr, mspd, mans = split_model(model_out[i])
            if mspr != f.get("SPR", []) or mspd != f.get("SPD", []): corr = "spanner (retained/dropped) differs from construct_spanner under the recovered scan order"
            elif canon(dans) != canon(mans): corr = "emitted cycles / returned value differ from the model"
            elif i in acc_out and split_model(acc_out[i])[2] != mans:
                corr = "the exact phase's answer on the spanner is not an accepted run of TreesModel.mcb_sva_trees (FVS builder) under the recovered root order / greedy_fvs picks: " + split_model(acc_out[i])[2][:80]
        if corr is None:
            da = parse_answer(dans)
            if pa[0] != da[0]: corr = "public entry point and the same statements executed by the harness disagree (throw vs return)"
            elif pa[0] == "RET":
                nd = len(f["SPD"])
                tail = lambda a: [sorted(map(str, cy)) for cy in a[2][len(a[2]) - nd:]] if nd else []
                if pa[1] != da[1] or len(pa[2]) != len(da[2]) or tail(pa) != tail(da):
                    corr = "public entry point and the same statements executed by the harness disagree (returned value / count / dropped-edge cycles)"
        if corr:
            report("corr", i, "correspondence c05 (%s, k=%d): %s; both answers still satisfy the property text" % (alg, k, corr), False,
                   {"theorem_or_correspondence": "correspondence c05: ApproxModel.approx_run vs harness/c05.cpp (%s)" % alg})
    # ---- verified checker / verified optimum ----------------------------------------------------------------------
    c.extra["verified_checker_cases"] = 0
    if refok and refq:
        if what == "basis":
            rl = []
            for i in refq:
                alg, ty, scale, k, n, es = parsed[i]; rl.append(ref_case(n, es, parse_answer(split[i][0])[2]))
            ro = lib.run_model("mcbcheck", rl, group="ref", timeout=1500)
            for i, r in zip(refq, ro):
                fr = lib.fields(r, ["SIMPLE", "BASIS", "OPT", "TOTAL", "MIN"])
                if r.startswith(("MODEL-", "CRASH", "ERR")) or "BASIS" not in fr:
                    report("ref-fail", i, "verified checker mcbcheck failed to run: " + r[:200], False,
                           {"theorem_or_correspondence": "extracted RefModel.mcb_checkb", "ref": r}); continue
                if fr["BASIS"][0] != "1":
                    report("ref", i, "verified checker: the emitted family is not a cycle basis of the input graph (SIMPLE %s BASIS %s)" % (fr["SIMPLE"][0] if fr["SIMPLE"] else "", fr["BASIS"][0]), True, {"ref": r})
        else:
            keys = {}
            for i in refq:
                alg, ty, scale, k, n, es = parsed[i]; keys.setdefault(gen.graph_tokens((n, es)), []).append(i)
            kl = list(keys)
            ro = lib.run_model("optw", ["%s %s" % (g, lst(range(int(g.split()[0])))) for g in kl], group="ref", timeout=1500)
            for g, r in zip(kl, ro):
                fr = lib.fields(r, ["OPT", "DIM"])
                i0 = keys[g][0]
                if "OPT" not in fr or not fr["OPT"] or not fr["OPT"][0].lstrip("-").isdigit():
                    report("ref-fail", i0, "verified optimum optw failed to run: " + r[:200], False,
                           {"theorem_or_correspondence": "extracted RefModel.opt_weight", "ref": r}); continue
                vopt = int(fr["OPT"][0])
                if vopt != opts.get(g, vopt):
                    report("ref-fail", i0, "verified optimum %d differs from the Python oracle's %d" % (vopt, opts[g]), False,
                           {"theorem_or_correspondence": "tools/mcb_oracle.py vs extracted RefModel.opt_weight", "ref": r}); continue
                for i in keys[g]:
                    alg, ty, scale, k, n, es = parsed[i]
                    why = judge_bound(n, es, k, split[i][0], vopt)
                    if why: report("ref", i, "approx_mcb_sva_%s, k=%d, against the verified optimum: %s" % (alg, k, why), True, {"ref": r})
        c.extra["verified_checker_cases"] = len(refq)
    elif not refok:
        c.notes.append("verified checker (RefModel) not available in this run")
    # ---- inexact double weights: structural judgement only (C05) ------------------------------------------------------
    if what == "basis":
        ylines = [cs for cs in corpus if cs.startswith("Y ")] + inexact_cases(random.Random(c.seed * 7919 + 566), tier)
        yio = lib.run_lines([exe], ylines)
        ny = 0
        for y, o in zip(ylines, yio):
            alg, k, n, es = parse_hcase(y)
            c.count(y, k >= 1 and len(es) - n + O.components(n, es) >= 1, bucket="inexact-weights %s k=%d" % (alg, k))
            why = judge_inexact(y, o) if k >= 1 else None
            if why and ny < 3:
                ny += 1
                c.violation("approx_mcb_sva_%s, k=%d, INEXACT double weights (given as hex floats; outside the exact domain of the models, judged structurally: "
                            "count m-n+c, simple cycles of the caller's graph, independent, returned value = sum of the emitted weights up to 1e-9): %s" % (alg, k, why),
                            {"component": "c05", "case": y, "impl": o}, True)
        c.extra["inexact_weight_cases"] = len(ylines)
        c.rule += ("; plus (structural judgement only) inexact double weights: uniform and few-valued decimals (0.7, 0.9, 1.4, 0.1+0.2, ...) on cycles C_2k with k = half the "
                   "length and neighbouring k, C_2k with chords, small dense graphs and the girth families")
    # ---- parmcb::dijkstra directly ----------------------------------------------------------------------------------
    if jlines:
        jio = lib.run_lines([exe], jlines)
        jmo = lib.run_model("dijk", [" ".join(j.split()[2:]) for j in jlines], group="c05")
        nb = 0
        for j, x, y in zip(jlines, jio, jmo):
            c.count(j, " PRED" in x and any(p != "-" for p in x.split(" PRED")[1].split()), bucket="dijkstra")
            if x != y and nb < 3:
                nb += 1
                why = judge_dijkstra(j, x)
                if why: c.violation("parmcb::dijkstra: " + why, {"component": "c05", "case": j, "impl": x, "model": y}, True)
                else: c.violation("correspondence parmcb::dijkstra vs extracted DijkstraModel.dijkstra no longer checks (distances / predecessor edges differ); the answer is still a shortest-path tree",
                                  {"component": "c05", "case": j, "impl": x, "model": y,
                                   "theorem_or_correspondence": "correspondence c05/dijkstra: DijkstraModel.dijkstra vs harness/c05.cpp"}, False)
        c.extra["dijkstra_calls"] = len(jlines)


def replay_case(pid, path, what):
    r = json.load(open(path))
    if r.get("case", "").startswith("P "):
        rc = replay_tbb(pid, r, what)
        if rc: print("VIOLATION property=%s replay=%s" % (pid, path))
        return rc
    lib.ensure_model("c05")
    exe, err = lib.build_cpp(name="c05", srcs=["c05.cpp"], libs=LIBS)
    line = r["case"]
    o = lib.run_lines([exe], [line], par=1)[0]
    print("case:", line); print("impl:", o)
    bad = None
    if line.startswith("Y "):
        bad = judge_inexact(line, o) if what == "basis" else None
    elif line.startswith("J "):
        m = lib.run_model("dijk", [" ".join(line.split()[2:])], par=1, group="c05")[0]; print("model:", m)
        bad = judge_dijkstra(line, o) or (None if m == o else "differs from model")
    else:
        alg, ty, scale, k, n, es = parse_case(line)
        pub, f, dans = split_io(o)
        if f is None: bad = "no answer: " + o[:120]
        else:
            for ans in (pub, dans):
                if what == "basis": why = judge_basis(n, es, k, ans) if k >= 1 else None
                else: why = judge_bound(n, es, k, ans, O.mcb(n, es)[0])
                bad = bad or why
            mc = model_case(line, f, dans)
            if mc and not bad:
                m = lib.run_model(mc[0], [mc[1]], par=1, group="c05")[0]; print("model:", m)
                mspr, mspd, mans = split_model(m)
                if mspr != f.get("SPR", []) or mspd != f.get("SPD", []) or canon(dans) != canon(mans): bad = "differs from model"
            elif not bad: bad = "run cannot drive the model"
    print("judge:", bad)
    if bad:
        print("VIOLATION property=%s replay=%s" % (pid, path)); return 1
    return 0


# ================================================================================================================
# the TBB-parallel approximate entry points under the controllable fake TBB (harness/c05_tbb.cpp, shim build)
# ================================================================================================================
# Theorems: Properties_C03_approx.v.  Model: ApproxParModel.approx_run_tbb (extraction group c05: signedtbb / giventbb).
# Weight types: double, int and long long (P <alg> L ...: 64-bit integers above 2^53, tbb_cases64); Python integers only on this side.
# Per case the harness prints PUB (public entry point under (bits, perm1), the shim's own protocol), DIR (the same two
# statements on an object it keeps; the library's exact functor wrapped by a hook that records the stream position after the
# exact phase and installs the two insertion orders permc / permw of the builder's concurrent_vectors) and SEQ (the
# sequential entry point).
#   E-level: DIR == model under the same bit stream and insertion orders: spanner, every emitted cycle IN EMISSION ORDER (as a
#            set), returned value, number of schedule bits consumed.  signed: whole run (exact phase = ParSignedModel on the
#            spanner under the recovered oracles); fvs / iso: exact phase's answer and stream position supplied.
#   same-as-sequential (C03): returned value, count and the MULTISET of dropped-edge cycles of DIR, PUB and SEQ coincide.
#   Judge: PUB, DIR and SEQ answers against the property text (judge_basis / judge_bound).
TBB_LIBS = ["-lboost_timer"]
TBB_ALGS = ["signed", "fvs", "iso"]
TBB_CORR = "correspondence c05_tbb: ApproxParModel.approx_run_tbb vs harness/c05_tbb.cpp (%s; unchanged headers on the controllable TBB shim)"


def tbb_rand_bits(rng):
    r = rng.random()
    if r < 0.06: return ""                      # nothing split
    if r < 0.20: return "1"                     # split everything, forks, right parts first
    if r < 0.28: return "110"                   # split everything, forks, left first
    if r < 0.33: return "100"                   # split everything, no fork
    if r < 0.38: return "101"
    if r < 0.45: return "111110"                # forks right-first alternating with forks left-first
    nb = rng.choice([2, 3, 5, 7, 8, 13, 21, 34, 55, 64])
    p = rng.choice([0.5, 0.7, 0.85, 0.95])
    return "".join("1" if rng.random() < p else "0" for _ in range(nb))


def tbb_graph(rng, maxn):
    """families for the dropped-edge builder: many dropped edges (dense), none (trees; k = 1), exactly one (a short cycle), mixed"""
    r = rng.random()
    if r < 0.22: g = gen.complete(rng.randint(4, min(8, maxn)))
    elif r < 0.40: g = gen.random_graph(rng, rng.randint(5, maxn), rng.choice([0.5, 0.7, 0.9]))
    elif r < 0.48: g = gen.wheel(rng.randint(5, min(10, maxn)))
    elif r < 0.55: g = gen.bipartite(rng.randint(2, 4), rng.randint(3, 5))
    elif r < 0.62: g = gen.random_tree(rng, rng.randint(2, maxn))                       # zero dropped edges
    elif r < 0.72: g = gen.cycle(rng.randint(3, 6))                                    # exactly one dropped edge for k >= 3
    elif r < 0.78: g = gen.add_pendant_trees(rng, gen.cycle(rng.randint(3, 5)), rng.randint(1, 3))
    elif r < 0.86: g = spanner_keeps_cycles(rng, maxn)
    elif r < 0.93: g = gen.disjoint_union(gen.complete(rng.randint(3, 5)), gen.random_graph(rng, rng.randint(3, 7), 0.6))
    else: g = gen.structural(rng, maxn)
    if g[0] > 0 and rng.random() < 0.7: g = gen.relabel(rng, g[0], g[1])
    return g


def tbb_line(alg, ty, scale, k, bits, perm1, permc, permw, gt, trace=0):
    return "P %s %s %d %d %d %s %s %s %s %d %s" % (alg, ty, scale, k, len(bits), bits or "-", lst(perm1), lst(permc), lst(permw), trace, gt)


def tbb_base_cases(rng, tier):
    ng = 260 if tier == "quick" else 2000
    maxn = 11 if tier == "quick" else 22
    out = []
    for i in range(ng):
        g, style = gen.weigh(rng, tbb_graph(rng, maxn))
        gt = gen.graph_tokens(g)
        ks = [rng.choice([1, 2, 2, 3, 5])] if rng.random() < 0.6 else [1, rng.choice([2, 3, 5])]
        if i % 29 == 0: ks.append(0)
        for k in ks:
            for alg in TBB_ALGS:
                ty = "I" if (i % 3 == TBB_ALGS.index(alg)) and gen.int_domain_ok(g) else "D"
                scale = 0 if ty == "I" else rng.choice([0, 0, -3, 5])
                out.append(tbb_line(alg, ty, scale, k, tbb_rand_bits(rng), [], [], [], gt))
    return out


def tbb_cases64(rng, tier):
    """the three *_tbb entry points instantiated with long long weights above 2^53 (props/c12.py weigh64; kind token L; the model computes over Z and never sees
    the weight type)"""
    from props import c12
    out = []
    for i in range(70 if tier == "quick" else 500):
        g, style = c12.weigh64(rng, tbb_graph(rng, 11 if tier == "quick" else 18), rng.choice(["ladder", "ladder", "p54", "p53", "top", "mix"]))
        gt = gen.graph_tokens(g)
        ks = [rng.choice([1, 2, 2, 3, 5])] if rng.random() < 0.6 else [1, rng.choice([2, 3, 5])]
        if i % 29 == 0: ks.append(0)
        for k in ks:
            for alg in TBB_ALGS: out.append(tbb_line(alg, "L", 0, k, tbb_rand_bits(rng), [], [], [], gt))
    return out


def tbb_parse_case(line):
    t = line.split()
    alg, ty, scale, k = t[1], t[2], int(t[3]), int(t[4])
    nb = int(t[5]); bits = "" if t[6] == "-" else t[6]
    p = 7; perms = []
    for _ in range(3):
        n_ = int(t[p]); perms.append([int(x) for x in t[p + 1:p + 1 + n_]]); p += 1 + n_
    trace = int(t[p]); p += 1
    n, es, _ = lib.parse_graph_tokens(t, p)
    return {"alg": alg, "ty": ty, "scale": scale, "k": k, "bits": bits, "perm1": perms[0], "permc": perms[1], "permw": perms[2],
            "n": n, "es": es, "gt": " ".join(t[p:])}


def tbb_split_io(line):
    """-> dict(pub, pubsched, f (DIR fields), dir, sched, seq) or None"""
    if " DIR " not in line or " SEQ " not in line or " PUBSCHED " not in line: return None
    pub, rest = line.split(" PUBSCHED ", 1)
    ps, rest = rest.split(" DIR ", 1)
    d, seq = rest.split(" SEQ ", 1)
    if " TRACE" in seq: seq = seq.split(" TRACE")[0]
    f = lib.fields(d, ["SPR", "SPD", "ROOTS", "EORD", "FVS", "POS1", "RET", "THROW", "SCHED"])
    i = d.find(" RET "); j = d.find(" THROW ")
    p = i if i >= 0 else j
    if p < 0 or " SCHED " not in d: return None
    ans = d[p:d.find(" SCHED ")].strip()
    return {"pub": pub.strip(), "pubsched": ps.split(), "f": f, "dir": ans, "sched": f.get("SCHED", []), "seq": seq.strip()}


def tbb_model_case(d, s):
    """(component, model input line) or None"""
    f = s["f"]
    try:
        spr = [int(x) for x in f["SPR"]]; spd = [int(x) for x in f["SPD"]]
    except Exception:
        return None
    es = d["es"]
    if sorted(spr + spd) != list(range(len(es))): return None
    head = "%d %s M %s %s" % (d["k"], d["gt"], lst(spr), lst(spd))    # M: the driver merges with the extracted merge_scan
    bits = "%d %s" % (len(d["bits"]), d["bits"] or "-")
    if d["alg"] == "signed":
        return "signedtbb", "%s %s %s %s %s %s %s" % (head, lst(f.get("ROOTS", [])), lst(f.get("EORD", [])), bits,
                                                      lst(d["perm1"]), lst(d["permc"]), lst(d["permw"]))
    a = parse_answer(s["dir"])
    pos1 = (f.get("POS1") or ["0"])[0]
    if a[0] == "THROW":
        return "giventbb", "%s 0 0 %s %s %s %s" % (head, pos1, bits, lst(d["permc"]), lst(d["permw"]))
    if a[0] != "RET": return None
    inv = {e: i for i, e in enumerate(spr)}
    nsp = len(a[2]) - len(spd)
    if nsp < 0: return None
    scyc = []
    for cy in a[2][:nsp]:
        if any(x not in inv for x in cy): return None
        scyc.append(sorted(inv[x] for x in cy))
    sw = sum(es[x][2] for cy in a[2][:nsp] for x in cy)
    return "giventbb", "%s %d %d %s %s %s %s %s" % (head, sw, len(scyc), " ".join(lst(cy) for cy in scyc), pos1, bits, lst(d["permc"]), lst(d["permw"]))


def tbb_split_model(line):
    f = lib.fields(line, ["SPR", "SPD", "RET", "THROW", "MODEL-ERROR", "MODEL-EXCEPTION", "POS"])
    i = min([p for p in (line.find("RET "), line.find("THROW "), line.find("MODEL-")) if p >= 0] or [0])
    j = line.find(" POS ")
    return f.get("SPR", []), f.get("SPD", []), (line[i:j] if j >= 0 else line[i:]).strip(), (f.get("POS") or ["?"])[0]


def tail_multiset(ans, nd):
    a = parse_answer(ans)
    if a[0] != "RET" or nd == 0: return []
    return sorted(sorted(map(str, cy)) for cy in a[2][len(a[2]) - nd:])


def tbb_second_batch(rng, lines, outs, tier):
    """cases with explicit insertion orders, sized from the first pass (|dropped|, spanner's cycle space dimension)"""
    extra = []
    for l, o in zip(lines, outs):
        s = tbb_split_io(o)
        if s is None: continue
        d = tbb_parse_case(l)
        a = parse_answer(s["dir"])
        if a[0] != "RET": continue
        nd = len(s["f"].get("SPD", [])); nsp = len(a[2]) - nd
        if nd < 2 and not (nsp >= 2 and d["alg"] == "signed" and rng.random() < 0.3): continue
        if rng.random() < (0.25 if tier == "quick" else 0.1): continue
        def perm(m):
            p = list(range(m)); rng.shuffle(p); return p
        r = rng.random()
        if nd < 2: pc, pw = [], []
        elif r < 0.30: pc = perm(nd); pw = list(pc)                    # one order for both containers (what the shim alone can do)
        elif r < 0.70: pc, pw = perm(nd), perm(nd)                      # the two pushes interleave differently
        elif r < 0.80: pc, pw = perm(nd), []                            # only `cycles` rearranged
        elif r < 0.90: pc, pw = [], perm(nd)                            # only `cycles_weights` rearranged
        elif r < 0.95: pc, pw = perm(nd + 1), perm(nd)                  # wrong size: ignored
        else: pc, pw = perm(nd), [0] * nd                               # not a permutation: ignored
        p1 = perm(nsp) if (d["alg"] == "signed" and nsp >= 2 and rng.random() < 0.5) else []
        extra.append(tbb_line(d["alg"], d["ty"], d["scale"], d["k"], tbb_rand_bits(rng) if rng.random() < 0.5 else d["bits"], p1, pc, pw, d["gt"]))
    return extra


def run_tbb(c, tier, what):
    """what = 'basis' (C05) or 'bound' (C06); the model group c05 must have been built (run() did)"""
    exe = c.harness(name="c05_tbb", srcs=["c05_tbb.cpp"], libs=TBB_LIBS, shim=True)
    if not exe: return
    pid = c.pid
    corpus = [cs for cs in lib.corpus_cases(pid) if cs.startswith("P ")]
    base = tbb_base_cases(c.rng, tier)
    import random
    rng64 = random.Random(c.seed * 7919 + 565)          # the 64-bit integer instantiation: own generator stream (the double / int stream is unchanged)
    base64 = tbb_cases64(rng64, tier)
    out1 = lib.run_lines([exe], base + base64)
    extra = tbb_second_batch(c.rng, base, out1[:len(base)], tier) + tbb_second_batch(rng64, base64, out1[len(base):], tier)
    out2 = lib.run_lines([exe], corpus + extra)
    lines = corpus + extra + base + base64
    io = out2 + out1
    c.extra["tbb_cases_64bit_weights"] = len(base64) + sum(1 for l in extra if l.split()[2] == "L")
    parsed = [tbb_parse_case(l) for l in lines]
    split = [tbb_split_io(o) for o in io]
    mcase = {}
    for i, s in enumerate(split):
        if s is None: continue
        mc = tbb_model_case(parsed[i], s)
        if mc: mcase[i] = mc
    model_out = {}
    for comp in ("signedtbb", "giventbb"):
        idx = [i for i in mcase if mcase[i][0] == comp]
        for i, o in zip(idx, lib.run_model(comp, [mcase[i][1] for i in idx], group="c05")):
            model_out[i] = o
    c.extra["tbb_model_runs"] = len(model_out)
    opts = {}
    def opt_of(i):
        d = parsed[i]
        if d["gt"] not in opts: opts[d["gt"]] = O.mcb(d["n"], d["es"])[0]
        return opts[d["gt"]]
    def judge(i, ans):
        d = parsed[i]
        if what == "basis": return judge_basis(d["n"], d["es"], d["k"], ans) if d["k"] >= 1 else None
        return judge_bound(d["n"], d["es"], d["k"], ans, opt_of(i))
    nviol = {}
    def report(kind, i, why, found=True, extra_=None):
        if nviol.get(kind, 0) >= 3: return
        nviol[kind] = nviol.get(kind, 0) + 1
        rep = {"component": "c05_tbb", "case": lines[i], "impl": io[i]}
        if i in model_out: rep["model"] = model_out[i]; rep["model_component"] = mcase[i][0]; rep["model_case"] = mcase[i][1]
        rep.update(extra_ or {})
        c.violation(why, rep, found)
    stats = {"forks>=1": 0, "perm_c != perm_w": 0, "dropped>=2": 0, "dropped=1": 0, "dropped=0": 0}
    for i, l in enumerate(lines):
        d = parsed[i]; s = split[i]
        n, es, k, alg = d["n"], d["es"], d["k"], d["alg"]
        N = len(es) - n + O.components(n, es)
        nd = len(s["f"].get("SPD", [])) if s else -1
        nontrivial = (N >= 1 and k >= 1) if what == "basis" else (N >= 1 or k == 0)
        c.count(l, nontrivial, bucket="tbb %s k=%d %s" % (alg, k, "N=0" if N == 0 else "dropped=0" if nd == 0 else "dropped=1" if nd == 1 else "dropped>=2"))
        if s is None or io[i].startswith(("IMPL-EXCEPTION", "CRASH")):
            report("crash", i, "approx_mcb_sva_%s_tbb(k=%d) on a valid input did not return normally under the schedule of the case: %s" % (alg, k, io[i][:200])); continue
        if len(s["sched"]) >= 3 and s["sched"][2] != "0": stats["forks>=1"] += 1
        if d["permc"] != d["permw"]: stats["perm_c != perm_w"] += 1
        stats["dropped>=2" if nd >= 2 else "dropped=1" if nd == 1 else "dropped=0"] += 1
        # -- judge the three answers against the property text
        bad = False
        for tag, ans in ((" (public entry point)", s["pub"]), (" (same statements, object kept by the harness)", s["dir"])):
            why = judge(i, ans)
            if why:
                report("judge", i, "approx_mcb_sva_%s_tbb, k=%d, bits=%s, insertion orders %s / %s%s: %s" % (alg, k, d["bits"] or "-", d["permc"], d["permw"], tag, why)); bad = True; break
        if bad: continue
        # -- C03: same multiset of dropped-edge cycles and same returned value as the sequential entry point
        pa, da, sa = parse_answer(s["pub"]), parse_answer(s["dir"]), parse_answer(s["seq"])
        same = None
        if not (pa[0] == da[0] == sa[0]): same = "throw vs return"
        elif da[0] == "RET":
            if not (pa[1] == da[1] == sa[1]): same = "returned values %s (public, TBB) / %s (kept object, TBB) / %s (sequential)" % (pa[1], da[1], sa[1])
            elif not (len(pa[2]) == len(da[2]) == len(sa[2])): same = "number of cycles"
            elif not (tail_multiset(s["pub"], nd) == tail_multiset(s["dir"], nd) == tail_multiset(s["seq"], nd)): same = "multiset of dropped-edge cycles"
        if same:
            why = judge(i, s["seq"])
            report("same", i, "approx_mcb_sva_%s_tbb vs the sequential entry point, k=%d: %s differ%s" % (alg, k, same, "" if not why else " (the sequential answer fails the property text: %s)" % why),
                   bool(why),
                   {"theorem_or_correspondence": "Properties_C03_approx.C03_approx_signed_tbb_vs_sequential / C03_approx_tbb_same_as_seq on the real code"}); continue
        # -- correspondence with the model
        corr = None
        if i not in model_out:
            corr = "the run could not drive the model (spanner / emitted ids not recoverable)"
        else:
            mspr, mspd, mans, mpos = tbb_split_model(model_out[i])
            if mspr != s["f"].get("SPR", []) or mspd != s["f"].get("SPD", []): corr = "spanner (retained/dropped) differs from construct_spanner under the recovered scan order"
            elif canon(s["dir"]) != canon(mans): corr = "emitted cycles (in emission order) / returned value differ from the model under the same schedule stream and insertion orders"
            elif not s["sched"] or mpos != s["sched"][0]: corr = "number of schedule bits consumed differs from the model (%s vs %s)" % (s["sched"][:1], mpos)
        if corr:
            report("corr", i, "correspondence c05_tbb (%s, k=%d): %s; the answers still satisfy the property text" % (alg, k, corr), False,
                   {"theorem_or_correspondence": TBB_CORR % alg})
    c.extra["tbb_cases"] = len(lines)
    c.extra["tbb_schedule_stats"] = stats


def replay_tbb(pid, r, what):
    lib.ensure_model("c05")
    exe, err = lib.build_cpp(name="c05_tbb", srcs=["c05_tbb.cpp"], libs=TBB_LIBS, shim=True)
    line = r["case"]
    o = lib.run_lines([exe], [line], par=1)[0]
    print("case:", line); print("impl:", o)
    d = tbb_parse_case(line); s = tbb_split_io(o)
    bad = None
    if s is None: bad = "no answer: " + o[:160]
    else:
        opt = O.mcb(d["n"], d["es"])[0] if what == "bound" else None
        for ans in (s["pub"], s["dir"], s["seq"]):
            if what == "basis": why = judge_basis(d["n"], d["es"], d["k"], ans) if d["k"] >= 1 else None
            else: why = judge_bound(d["n"], d["es"], d["k"], ans, opt)
            bad = bad or why
        nd = len(s["f"].get("SPD", []))
        pa, da, sa = parse_answer(s["pub"]), parse_answer(s["dir"]), parse_answer(s["seq"])
        if not bad and (pa[0] != da[0] or da[0] != sa[0] or (da[0] == "RET" and (not (pa[1] == da[1] == sa[1]) or not (tail_multiset(s["pub"], nd) == tail_multiset(s["dir"], nd) == tail_multiset(s["seq"], nd))))):
            bad = "TBB and sequential entry points differ (returned value / dropped-edge cycles)"
        mc = tbb_model_case(d, s)
        if mc and not bad:
            m = lib.run_model(mc[0], [mc[1]], par=1, group="c05")[0]; print("model:", m)
            mspr, mspd, mans, mpos = tbb_split_model(m)
            if mspr != s["f"].get("SPR", []) or mspd != s["f"].get("SPD", []) or canon(s["dir"]) != canon(mans) or not s["sched"] or mpos != s["sched"][0]:
                bad = "differs from model"
        elif not bad: bad = "run cannot drive the model"
    print("judge:", bad)
    return 1 if bad else 0
