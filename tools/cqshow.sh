#!/bin/bash
# usage: cqshow.sh File.v LINE  -- prints the goal just before LINE (debug helper)
f=$1; n=$2
d=$(mktemp -d /tmp/cqXXXX)
base=$(basename $f .v)
sed "${n}s/^/Show. /" $f > $d/$base.v
(cd /verif/coq && timeout 120 coqc -Q theories Parmcb -o $d/$base.vo $d/$base.v 2>&1 | head -${3:-60})
rm -rf $d
