#!/usr/bin/env python3
"""mkmanifest.py — regenerates MANIFEST.json from the table below (kept in one place so that the manifest
stays valid while checks are added)."""
import json, os, subprocess
ROOT = os.path.dirname(os.path.dirname(os.path.abspath(__file__)))

COMMON_NOTE = ("Trusted base: Coq 8.16.1 kernel (vm_compute used only for concrete witnesses/examples; no native_compute); "
               "hand-written Gallina model of the anchored C++ (modelled, not verified) tied to /repo on every run by the differential correspondence; "
               "extraction with ExtrOcamlBasic only; ocaml/driver.ml, tools/*.py, the C++ harness; g++/libstdc++/Boost. "
               "Axioms per theorem are listed from Print Assumptions in the evidence file. ")

# one file per claimed property: tools/manifest.d/Cxx.json = {"text": level text, "note": assumptions, "tech": technique,
# optional "category" (default proof), "engines": [...]}
CHECKS = {}
for _f in sorted(os.listdir(os.path.join(ROOT, "tools", "manifest.d"))):
    if _f.endswith(".json"):
        CHECKS[_f[:-5]] = json.load(open(os.path.join(ROOT, "tools", "manifest.d", _f)))

NOT_YET = "check not built yet (work in progress; see DESIGN.md §9)"
NA = {
 "C19": "compile/link property of a finite family of generated programs: there is no behaviour of parmcb to model, the compiler run would itself be the decision procedure, so deciding it means switching technique (DESIGN.md §5 C19)",
}


def main():
    props = [json.loads(l) for l in open(os.path.join(ROOT, "properties.jsonl"))]
    hooks = []
    hk = os.path.join(ROOT, "hooks.json")
    if os.path.exists(hk):
        hooks = json.load(open(hk)).get("source_commits", [])
    m = {
        "version": 1,
        "setup_cmd": "python3 tools/setup.py",
        "hooks": {"guard": "PARMCB_VERIF",
                  "enable": "tools/lib.py:build_cpp compiles every harness with -DPARMCB_VERIF against /repo/include (header-only library) and the C11/C20 checks rebuild the demos from /repo/src with -DPARMCB_VERIF",
                  "baseline_off_cmd": "cmake --build /repo/_build -j16 && ctest --test-dir /repo/_build -j8 --timeout 900",
                  "source_commits": hooks, "add_only": True},
        "engines": [
            {"name": "coq-model", "path": "coq/", "serves_properties": sorted(CHECKS), "kind_free_text": "Coq 8.16.1 development: executable Gallina models (…Model.v), proofs (…Proofs.v), property statements (Properties_Cxx.v); extracted to OCaml (coq/extract/Extract.v, ocaml/driver.ml)"},
            {"name": "cpp-harness", "path": "harness/", "serves_properties": sorted(CHECKS), "kind_free_text": "C++ harnesses compiled from /repo's working tree on every run; one canonical output line per case"},
            {"name": "orchestrator", "path": "tools/", "serves_properties": sorted(CHECKS), "kind_free_text": "tools/check.py + tools/props/*.py: prove, extract, build, generate, correspond, judge, shrink, evidence"},
        ],
        "checks": [],
        "notes": "Technique: machine-checked proof in Coq about hand-written executable models, tied to /repo by a differential correspondence check on every run (DESIGN.md). A disagreement is judged against the property text: failing input found -> VIOLATION with replay; otherwise VIOLATION ... no-failing-input-found naming the correspondence.",
        "not_applicable": [],
    }
    for p in props:
        pid = p["id"]
        if pid in CHECKS:
            c = CHECKS[pid]
            m["checks"].append({
                "property_id": pid,
                "quick_cmd": "python3 tools/check.py %s --tier quick" % pid,
                "thorough_cmd": "python3 tools/check.py %s --tier thorough" % pid,
                "evidence_file": "evidence/%s.json" % pid,
                "replay_cmd_template": "python3 tools/check.py %s --replay {path}" % pid,
                "engine": "coq-model",
                "level_claimed": {"category": c.get("category", "proof"), "text": c["text"], "design_ref": "DESIGN.md §5 " + pid},
                "level_note": COMMON_NOTE + c["note"],
                "technique": c["tech"],
            })
        else:
            m["not_applicable"].append({"property_id": pid, "reason": NA.get(pid, NOT_YET)})
    json.dump(m, open(os.path.join(ROOT, "MANIFEST.json"), "w"), indent=1)
    print("MANIFEST.json: %d checks, %d not_applicable" % (len(m["checks"]), len(m["not_applicable"])))


if __name__ == "__main__":
    main()
