#!/usr/bin/env python3
"""mkmanifest.py — regenerates MANIFEST.json from the table below (kept in one place so that the manifest
stays valid while checks are added)."""
import json, os, subprocess
ROOT = os.path.dirname(os.path.dirname(os.path.abspath(__file__)))

COMMON_NOTE = ("Trusted base: Coq 8.16.1 kernel (vm_compute used only for concrete witnesses/examples; no native_compute); "
               "hand-written Gallina model of the anchored C++ (modelled, not verified) tied to /repo on every run by the differential correspondence; "
               "extraction with ExtrOcamlBasic only; ocaml/driver.ml, tools/*.py, the C++ harness; g++/libstdc++/Boost. "
               "Axioms per theorem are listed from Print Assumptions in the evidence file. ")

CHECKS = {
 "C17": dict(text="Coq theorem C17_histories_refine_dense: for every history of SpVecGF2 operations the model's store is strictly increasing and equals the dense GF(2) computation (membership, dot products, size). Tied to spvecgf2.hpp by exact differential runs of random histories on the real class and the extracted model.",
             note="Model covers U = std::size_t. A moved-from vector is never read before reassignment (unspecified in the dense semantics).",
             tech="Coq proof (refinement to dense vectors by induction over histories) + differential correspondence"),
 "C18": dict(text="Coq theorems C18_ext_gcd (g = gcd >= 0 and a*x+b*y = g for all (a,b) != (0,0), fuel never exhausted), C18_mult_inverse, C18_is_prime (<-> Znumtheory.prime for p >= 2), C18_spvecfp (histories refine dense vectors over Z/p, entries in 1..p-1, increasing indices, any integer scalar) about a model that follows fp.hpp / spvecfp.hpp statement by statement; the pre-fix source is kept as ext_gcd_orig / is_prime_orig with _refuted theorems (defects D1, D2, repaired by fix: commits). Tied by exact comparison for long long and cpp_int.",
             note="Theorems are over unbounded Z; for built-in types the no-overflow side condition (|a|,|b|,p,|scalar| < 2^31 for long long) is an assumption and the generators respect it. long-long is_prime uses a double sqrt (exact below 2^52).",
             tech="Coq proof (loop invariant + logarithmic fuel; trial division vs Znumtheory.prime; refinement over histories) + differential correspondence"),
}

CHECKS["C16"] = dict(text="Coq theorem C16: for every simple graph (incl. empty, edgeless, forests, many components) and every BFS root order, the ForestIndex model never fails, both lookups are inverse bijections onto 0..m-1, k is the number of connected components (n_components), csd + n = m + k, is_on_forest <-> index >= csd, and the on-forest edges form a spanning forest (acyclic in the even-subset sense, connecting whatever g connects). Tied by exact comparison of all lookups/flags and of spanning_forest's emission under the recovered root order.",
             note="Root order of std::unordered_set is an oracle (universally quantified; recovered from the run). Boost iteration orders assumed as stated in DESIGN.md §6.",
             tech="Coq proof (BFS invariant, pendant-edge acyclicity, counting) + differential correspondence with recovered oracle")
CHECKS["C13"] = dict(text="Coq theorems C13_fvs / C13_forest / C13_no_fuel_error / C13_complete_run_exists: for every simple graph and every resolution of the heap's choices, a complete run of the greedy_fvs model emits distinct vertices of the graph whose removal leaves no non-empty even-degree edge subset (no cycle); forests emit nothing; the degree bookkeeping (incl. vertices queued twice for removal) is the proved invariant. Tied by acceptance: the implementation's emitted sequence is replayed as the oracle and must be accepted as a complete run.",
             note="pairing_heap::top abstracted as 'some existing vertex' (oracle). Termination of the real loop is runtime behaviour; the model shows complete runs exist and fuel never runs out.",
             tech="Coq proof (state invariant + existence-preserving even-subset argument) + acceptance correspondence")
CHECKS["C15"] = dict(text="Coq theorem C15 (+ C15_stretch, C15_bfs_bounded): for every simple graph, k >= 1 and every weight-sorted scan order the spanner model returns a partition retained/dropped, the spanner is the subgraph of retained edges carrying the input's weights, every dropped edge has a path of <= 2k-1 retained edges none heavier (stretch <= 2k-1), and no simple cycle of <= 2k retained edges exists; is_bfs_reachable = hop distance <= bound. Tied by exact comparison of the spanner exposed through the PARMCB_VERIF accessors under the recovered scan order, and of direct is_bfs_reachable calls. Defect D6a (zero spanner weights) was exhibited by this check and repaired by a fix: commit.",
             note="std::sort's permutation among equal weights is an oracle (universally quantified; recovered as retained-before-dropped merge, which reproduces the outcome). k = 0 wraps max_hops to SIZE_MAX (modelled as unbounded).",
             tech="Coq proof (BFS layering invariant, scan-order induction, girth by last-scanned edge) + differential correspondence through guarded accessors")

NOT_YET = "check not built yet (work in progress; see DESIGN.md §9)"
NA = {
 "C19": "compile/link property of a finite family of generated programs: there is no behaviour of parmcb to model, the compiler run would itself be the decision procedure, so deciding it means switching technique (DESIGN.md §5 C19)",
}


def main():
    props = [json.loads(l) for l in open(os.path.join(ROOT, "properties.jsonl"))]
    hooks = []
    hk = os.path.join(ROOT, "hooks.json")
    if os.path.exists(hk):
        hooks = json.load(open(hk)).get("source_commits", [])
    m = {
        "version": 1,
        "setup_cmd": "python3 tools/setup.py",
        "hooks": {"guard": "PARMCB_VERIF",
                  "enable": "tools/lib.py:build_cpp compiles every harness with -DPARMCB_VERIF against /repo/include (header-only library) and the C11/C20 checks rebuild the demos from /repo/src with -DPARMCB_VERIF",
                  "baseline_off_cmd": "cmake --build /repo/_build -j16 && ctest --test-dir /repo/_build -j8 --timeout 900",
                  "source_commits": hooks, "add_only": True},
        "engines": [
            {"name": "coq-model", "path": "coq/", "serves_properties": sorted(CHECKS), "kind_free_text": "Coq 8.16.1 development: executable Gallina models (…Model.v), proofs (…Proofs.v), property statements (Properties_Cxx.v); extracted to OCaml (coq/extract/Extract.v, ocaml/driver.ml)"},
            {"name": "cpp-harness", "path": "harness/", "serves_properties": sorted(CHECKS), "kind_free_text": "C++ harnesses compiled from /repo's working tree on every run; one canonical output line per case"},
            {"name": "orchestrator", "path": "tools/", "serves_properties": sorted(CHECKS), "kind_free_text": "tools/check.py + tools/props/*.py: prove, extract, build, generate, correspond, judge, shrink, evidence"},
        ],
        "checks": [],
        "notes": "Technique: machine-checked proof in Coq about hand-written executable models, tied to /repo by a differential correspondence check on every run (DESIGN.md). A disagreement is judged against the property text: failing input found -> VIOLATION with replay; otherwise VIOLATION ... no-failing-input-found naming the correspondence.",
        "not_applicable": [],
    }
    for p in props:
        pid = p["id"]
        if pid in CHECKS:
            c = CHECKS[pid]
            m["checks"].append({
                "property_id": pid,
                "quick_cmd": "python3 tools/check.py %s --tier quick" % pid,
                "thorough_cmd": "python3 tools/check.py %s --tier thorough" % pid,
                "evidence_file": "evidence/%s.json" % pid,
                "replay_cmd_template": "python3 tools/check.py %s --replay {path}" % pid,
                "engine": "coq-model",
                "level_claimed": {"category": "proof", "text": c["text"], "design_ref": "DESIGN.md §5 " + pid},
                "level_note": COMMON_NOTE + c["note"],
                "technique": c["tech"],
            })
        else:
            m["not_applicable"].append({"property_id": pid, "reason": NA.get(pid, NOT_YET)})
    json.dump(m, open(os.path.join(ROOT, "MANIFEST.json"), "w"), indent=1)
    print("MANIFEST.json: %d checks, %d not_applicable" % (len(m["checks"]), len(m["not_applicable"])))


if __name__ == "__main__":
    main()
