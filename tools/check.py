#!/usr/bin/env python3
"""check.py — entry point: python3 tools/check.py <Cxx> [--tier quick|thorough] [--seed N] [--replay file]"""
import argparse, importlib, os, sys
sys.path.insert(0, os.path.dirname(os.path.abspath(__file__)))

def main():
    ap = argparse.ArgumentParser()
    ap.add_argument("pid")
    ap.add_argument("--tier", default=os.environ.get("VERIF_TIER", "quick"), choices=["quick", "thorough"])
    ap.add_argument("--seed", type=int, default=int(os.environ.get("VERIF_SEED", "1")))
    ap.add_argument("--replay", default=None)
    a = ap.parse_args()
    mod = importlib.import_module("props." + a.pid.lower())
    if a.replay:
        sys.exit(mod.replay(a.replay))
    sys.exit(mod.check(a.tier, a.seed))

if __name__ == "__main__":
    main()
