#!/usr/bin/env python3
"""check.py — entry point: python3 tools/check.py <Cxx> [--tier quick|thorough] [--seed N] [--replay file]"""
import argparse, importlib, os, sys
sys.path.insert(0, os.path.dirname(os.path.abspath(__file__)))

def main():
    ap = argparse.ArgumentParser()
    ap.add_argument("pid")
    ap.add_argument("--tier", default=os.environ.get("VERIF_TIER", "quick"), choices=["quick", "thorough"])
    ap.add_argument("--seed", type=int, default=int(os.environ.get("VERIF_SEED", "1")))
    ap.add_argument("--replay", default=None)
    a = ap.parse_args()
    mod = importlib.import_module("props." + a.pid.lower())
    if a.replay:
        # a violation found in a non-default build configuration (lib.config_differential) is replayed in that configuration
        try:
            import json
            r = json.load(open(a.replay))
            if isinstance(r, dict) and r.get("defines"):
                os.environ["VERIF_EXTRA_DEFINES"] = " ".join(r["defines"])
                print("replaying in the build configuration %s (%s)" % (r.get("configuration"), os.environ["VERIF_EXTRA_DEFINES"]))
        except Exception:
            pass
        sys.exit(mod.replay(a.replay))
    try:
        rc = mod.check(a.tier, a.seed)
    except Exception:
        # the machinery itself failed (typically on an answer of the implementation it did not expect): the property is no longer
        # shown to hold by this run; say so in the agreed form instead of dying with a traceback
        import traceback, json, lib
        tb = traceback.format_exc()
        os.makedirs(lib.REPLAY_DIR, exist_ok=True)
        path = os.path.join(lib.REPLAY_DIR, "%s_%s_internal.json" % (a.pid, a.tier))
        json.dump({"property": a.pid, "what": "internal error of the check", "theorem_or_correspondence": "check machinery tools/props/%s.py" % a.pid.lower(),
                   "traceback": tb, "seed": a.seed, "tier": a.tier, "failing_input_found": False}, open(path, "w"), indent=1)
        print(tb)
        print("DETAIL %s: internal error of the check machinery (see traceback in the replay file)" % a.pid)
        print("VIOLATION property=%s replay=%s no-failing-input-found" % (a.pid, path))
        rc = 1
    sys.exit(rc)

if __name__ == "__main__":
    main()
